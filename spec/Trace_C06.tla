----------------------------- MODULE Trace_C06 -----------------------------
(* C06: every record carries a syntax tree emitted by Gen_C06 and what      *)
(* parse_expression made of its renderings, each under several layouts      *)
(* (white space, line breaks, comments between the tokens):                 *)
(*   full / min  : lists of parsed trees (or [n |-> "error"]) - every one   *)
(*                 must be the tree itself                                  *)
(*   soft        : the same under the layout that puts a comment directly   *)
(*                 after iteration variables, parameter names and types     *)
(*   nopar       : (when present) every parse must differ from the tree     *)
(* Escape records carry a string literal and the decoded code points.       *)
EXTENDS Naturals, Sequences, TLC, Json, IOUtils

Recs == ndJsonDeserialize(IOEnv.TRACE)

\* string-literal records (StringLiteral.tla): for every context the shape of the parsed tree and the contents of its
\* string nodes, next to what the grammar dictates
StrLitVerdict(r) ==
  IF \E k \in 1..Len(r.obs) : r.obs[k].shape # r.obs[k].wantshape THEN "a string literal next to other tokens, literals or comments: the tree differs from the one the grammar dictates"
  ELSE IF \E k \in 1..Len(r.obs) : r.obs[k].strs # r.obs[k].wantstrs THEN "a string literal does not denote the characters written (escapes, comment markers inside the literal)"
  ELSE "ok"
Verdict(r) ==
  IF "strlit" \in DOMAIN r THEN StrLitVerdict(r) ELSE
  IF "esc" \in DOMAIN r THEN
       (IF r.decoded = r.want THEN "ok" ELSE "the escape does not decode to its code point")
  ELSE IF \E i \in 1..Len(r.pfull) : r.pfull[i] # r.tree THEN "the fully parenthesised rendering does not parse back to the tree"
  ELSE IF \E i \in 1..Len(r.pmin) : r.pmin[i] # r.tree THEN "the minimally parenthesised rendering does not parse back to the tree"
  ELSE IF "pwrapmin" \in DOMAIN r /\ \E i \in 1..Len(r.pwrapmin) : r.pwrapmin[i] # r.tree THEN "redundant parentheses around a minimally rendered operand change the tree"
  ELSE IF "psoft" \in DOMAIN r /\ \E i \in 1..Len(r.psoft) : r.psoft[i] # r.tree THEN "a comment directly after a declared name or a type name changes the tree"
  ELSE IF "pnopar" \in DOMAIN r /\ \E i \in 1..Len(r.pnopar) : r.pnopar[i] = r.tree THEN "removing a needed pair of parentheses still gives the same tree"
  ELSE "ok"

VARIABLE i
Init == i \in 1..Len(Recs)
Next == FALSE /\ i' = i
Judged == LET w == Verdict(Recs[i]) IN w = "ok" \/ PrintT(<<"REJECT", i, w>>)
=============================================================================
