----------------------------- MODULE Trace_C06 -----------------------------
(* C06: every record carries a syntax tree emitted by Gen_C06 and what      *)
(* parse_expression made of its renderings, each under several layouts      *)
(* (white space, line breaks, comments between the tokens):                 *)
(*   full / min  : lists of parsed trees (or [n |-> "error"]) - every one   *)
(*                 must be the tree itself                                  *)
(*   soft        : the same under the layout that puts a comment directly   *)
(*                 after iteration variables, parameter names and types     *)
(*   nopar       : (when present) every parse must differ from the tree     *)
(* Escape records carry a string literal and the decoded code points.       *)
EXTENDS Naturals, Sequences, TLC, Json, IOUtils

Recs == ndJsonDeserialize(IOEnv.TRACE)

Verdict(r) ==
  IF "esc" \in DOMAIN r THEN
       (IF r.decoded = r.want THEN "ok" ELSE "the escape does not decode to its code point")
  ELSE IF \E i \in 1..Len(r.pfull) : r.pfull[i] # r.tree THEN "the fully parenthesised rendering does not parse back to the tree"
  ELSE IF \E i \in 1..Len(r.pmin) : r.pmin[i] # r.tree THEN "the minimally parenthesised rendering does not parse back to the tree"
  ELSE IF "pwrapmin" \in DOMAIN r /\ \E i \in 1..Len(r.pwrapmin) : r.pwrapmin[i] # r.tree THEN "redundant parentheses around a minimally rendered operand change the tree"
  ELSE IF "psoft" \in DOMAIN r /\ \E i \in 1..Len(r.psoft) : r.psoft[i] # r.tree THEN "a comment directly after a declared name or a type name changes the tree"
  ELSE IF "pnopar" \in DOMAIN r /\ \E i \in 1..Len(r.pnopar) : r.pnopar[i] = r.tree THEN "removing a needed pair of parentheses still gives the same tree"
  ELSE "ok"

VARIABLE i
Init == i \in 1..Len(Recs)
Next == FALSE /\ i' = i
Judged == LET w == Verdict(Recs[i]) IN w = "ok" \/ PrintT(<<"REJECT", i, w>>)
=============================================================================
