----------------------------- MODULE Trace_C11 -----------------------------
(* C11: each record is an item definition tree with, for every value of its *)
(* list, `inp[i]`: what reached an echo decision whose input data is        *)
(* declared with that type, and `out[i]`: what a decision returned whose    *)
(* output variable is declared with that type and whose logic evaluates to  *)
(* the value, and `bkm[i]`: what a knowledge model declared with that type  *)
(* returned by name, through a boxed invocation and through a FEEL call.    *)
(* ItemDef.tla decides all of them.                                         *)
EXTENDS ItemDef, TLC, Json, IOUtils
Recs == ndJsonDeserialize(IOEnv.TRACE)
BadIn(r)  == {i \in 1..Len(r.vals) : ~Match(Admit(r.ty, r.vals[i]), r.inp[i])}
BadOut(r) == {i \in 1..Len(r.vals) : r.out[i].k # "skipped" /\ ~Match(Returned(r.ty, r.vals[i]), r.out[i])}
\* the same declared type on a knowledge model: evaluated by name, through a boxed invocation and through a FEEL call
BadBkm(r) == {i \in 1..Len(r.vals) : \E c \in 1..Len(r.bkm[i]) : ~Match(Returned(r.ty, r.vals[i]), r.bkm[i][c])}
Verdict(r) == IF r.built # "ok" THEN "the model could not be loaded: " \o r.built
              ELSE IF BadIn(r) # {} THEN "an input value was not admitted as its declared type prescribes"
              ELSE IF BadOut(r) # {} THEN "a result was not returned as the declared output type prescribes"
              ELSE IF BadBkm(r) # {} THEN "the result of a knowledge model was not returned as its declared output type prescribes"
              ELSE "ok"
VARIABLE i
Init == i \in 1..Len(Recs)
Next == FALSE /\ i' = i
Judged == LET w == Verdict(Recs[i]) IN
          w = "ok" \/ (PrintT(<<"REJECT", i, w>>) /\ (Recs[i].built # "ok" \/ PrintT(<<"BAD", i, ToJson([inp |-> BadIn(Recs[i]), out |-> BadOut(Recs[i])])>>)))
=============================================================================
