------------------------------ MODULE Gen_C18 ------------------------------
(* Edge tour of the Server state graph: the tour of Gen_C17 plus, in every  *)
(* reachable state, one edge per kind of malformed request and per          *)
(* unknown-invocable evaluation (self loops), so that every malformed       *)
(* request is sent in every workspace state and followed by probes.         *)
EXTENDS Server, TLC, Json

VARIABLE path
View  == <<defs, byNs, byNm, evals, fresh>>

Step(op) == path' = Append(path, op)

GAdd(m) == Add(m) /\ (Clash(m, defs) # {} => evals' = evals) /\ Step([op |-> "add", m |-> m.id])
GRemove(ns, nm) == /\ Remove(ns, nm)
                   /\ defs' = defs \ (Exact(ns, nm) \cup Partial(ns, nm)) /\ evals' = {}
                   /\ Step([op |-> "remove", ns |-> ns, nm |-> nm])
GReplace(m) == ReplaceOk(m) /\ defs' = (defs \ Clash(m, defs)) \cup {m} /\ Step([op |-> "replace", m |-> m.id])
GClear  == Clear  /\ Step([op |-> "clear"])
GDeploy == Deploy /\ Step([op |-> "deploy"])
GEval(nm) == Evaluate(nm) /\ Step([op |-> "eval", nm |-> nm])
GBad(k) == Malformed(k) /\ Step([op |-> "bad", kind |-> k])
GInv(nm) == UnknownInvocable(nm) /\ res' = "err" /\ Step([op |-> "evalinv", nm |-> nm])

GInit == Init /\ path = <<>>
GNext == \/ \E m \in Models : GAdd(m) \/ GReplace(m)
         \/ \E ns \in Namespaces, nm \in Names : GRemove(ns, nm)
         \/ GClear \/ GDeploy
         \/ \E nm \in Names : GEval(nm) \/ GInv(nm)
         \/ \E k \in MalformedKinds : GBad(k)

Emit == PrintT(<<"EDGE", ToJson([path |-> path'])>>)
=============================================================================
