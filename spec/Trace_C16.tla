----------------------------- MODULE Trace_C16 -----------------------------
(* C16 judged over what the implementation returned.                        *)
(* TRACE holds one record:                                                  *)
(*   U   the type universe (as emitted by Gen_C16)                          *)
(*   eq  the observed matrix is_equivalent(U[i], U[j])   (1 / 0)            *)
(*   cf  the observed matrix is_conformant(U[i], U[j])   (1 / 0)            *)
(*   V   the value pool, each value as the harness encodes it               *)
(*   co  co[i][k]  = encoding of  U[i].coerced(V[k])                        *)
(*   co2 co2[i][k] = encoding of  U[i].coerced(U[i].coerced(V[k]))          *)
(*   inv_pos / inv_named [i][k] = value of {f: function(x: U[i]) x, r: f(V[k])}.r *)
(*                         resp. f(x: V[k])  (parameter coercion at invocation)  *)
(* The laws of the property are evaluated on eq / cf themselves; the        *)
(* variance clauses are equalities between entries of cf; pointwise, eq and *)
(* cf are compared with Equiv / Conforms of FeelType.tla (DMN 10.3.2.9);    *)
(* coercion is compared with Coerce.                                        *)
EXTENDS FeelType, TLC, Json, IOUtils

Obs == ndJsonDeserialize(IOEnv.TRACE)[1]

AllPos(q) == \A p \in 1..Len(q) : q[p] > 0
Fail(law, i, j, x) == PrintT(<<"LAWFAIL", ToJson([law |-> law, i |-> i, j |-> j, x |-> x])>>)

Laws ==
  LET u  == Obs.U
      n  == Len(u)
      eq == [i \in 1..n |-> [j \in 1..n |-> Obs.eq[i][j] = 1]]
      cf == [i \in 1..n |-> [j \in 1..n |-> Obs.cf[i][j] = 1]]
      Ix(t) == IF \E a \in 1..n : u[a] = t THEN CHOOSE a \in 1..n : u[a] = t ELSE 0
      ix == [i \in 1..n |-> IF u[i].t \in {"list", "range"} THEN Ix(u[i].of) ELSE 0]          \* index of the element type
      rx == [i \in 1..n |-> IF u[i].t = "fn" THEN Ix(u[i].r) ELSE 0]                          \* index of the result type
      px == [i \in 1..n |-> IF u[i].t = "fn" THEN [p \in 1..Len(u[i].ps) |-> Ix(u[i].ps[p])] ELSE <<>>]
      ex == [i \in 1..n |-> IF u[i].t = "ctx" THEN [p \in 1..Len(u[i].es) |-> Ix(u[i].es[p].ty)] ELSE <<>>]
      any == Ix(Simple("Any"))
      nul == Ix(Simple("Null"))
  IN
  \* preorder and equivalence laws
  /\ \A i \in 1..n : (eq[i][i] /\ cf[i][i]) \/ Fail("reflexive", i, i, 0)
  /\ \A i \in 1..n : cf[i][any] \/ Fail("conforms-to-Any", i, any, 0)
  /\ \A i \in 1..n : cf[nul][i] \/ Fail("Null-conforms", nul, i, 0)
  /\ \A i, j \in 1..n : (eq[i][j] = eq[j][i]) \/ Fail("equivalence-symmetric", i, j, 0)
  /\ \A i, j \in 1..n : (eq[i][j] => (cf[i][j] /\ cf[j][i])) \/ Fail("equivalent-implies-mutually-conformant", i, j, 0)
  /\ \A i, j \in 1..n : cf[i][j] => \A k \in 1..n : (cf[j][k] => cf[i][k]) \/ Fail("conformance-transitive", i, j, k)
  /\ \A i, j \in 1..n : eq[i][j] => \A k \in 1..n : (eq[j][k] => eq[i][k]) \/ Fail("equivalence-transitive", i, j, k)
  \* variance clauses, as equalities between observations
  /\ \A i, j \in 1..n :
       /\ (u[i].t = u[j].t /\ u[i].t \in {"list", "range"} /\ ix[i] > 0 /\ ix[j] > 0) =>
             (cf[i][j] = cf[ix[i]][ix[j]]) \/ Fail("list-range-covariant", i, j, 0)
       /\ (u[i].t = "fn" /\ u[j].t = "fn" /\ rx[i] > 0 /\ rx[j] > 0 /\ AllPos(px[i]) /\ AllPos(px[j])) =>
             /\ (cf[i][j] = (/\ Len(px[i]) = Len(px[j])
                             /\ \A p \in 1..Len(px[i]) : cf[px[j][p]][px[i][p]]
                             /\ cf[rx[i]][rx[j]])) \/ Fail("function-variance", i, j, 0)
             /\ (~eq[rx[i]][rx[j]] => ~eq[i][j]) \/ Fail("different-result-types-not-equivalent", i, j, 0)
       /\ (u[i].t = "ctx" /\ u[j].t = "ctx" /\ AllPos(ex[i]) /\ AllPos(ex[j])) =>
             (cf[i][j] = \A q \in 1..Len(u[j].es) : \E p \in 1..Len(u[i].es) :
                            u[i].es[p].n = u[j].es[q].n /\ cf[ex[i][p]][ex[j][q]]) \/ Fail("context-covariant", i, j, 0)
  \* pointwise agreement with DMN 10.3.2.9
  /\ \A i, j \in 1..n : (eq[i][j] = Equiv(u[i], u[j])) \/ Fail("equivalence-differs-from-DMN", i, j, 0)
  /\ \A i, j \in 1..n : (cf[i][j] = Conforms(u[i], u[j])) \/ Fail("conformance-differs-from-DMN", i, j, 0)

CoercionLaws ==
  LET u == Obs.U  v == Obs.V IN
  \A i \in 1..Len(u), k \in 1..Len(v) :
    LET want == Coerce(u[i], v[k])
        got  == Obs.co[i][k]
    IN
    /\ (got = want.v) \/ Fail("coercion-" \o want.how, i, 0, k)
    /\ (Obs.co2[i][k] = got) \/ Fail("coercion-idempotent", i, 0, k)
    \* the same rule where the evaluator applies it: the parameter of function(x: T) x, invoked f(v) and f(x: v)
    /\ (Obs.inv_pos[i][k].k = "unparsable" \/ Obs.inv_pos[i][k] = want.v) \/ Fail("invocation-positional-" \o want.how, i, 0, k)
    /\ (Obs.inv_named[i][k].k = "unparsable" \/ Obs.inv_named[i][k] = want.v) \/ Fail("invocation-named-" \o want.how, i, 0, k)

\* Outside the listed property (reported, never a violation): the FEEL operator `v instance of T` against
\* "the type of v conforms to T" (DMN 10.3.2.9); io[i][k] = 1 true / 2 false / 0 anything else, 9 = no surface syntax
Extra ==
  LET u == Obs.U  v == Obs.V IN
  \A i \in 1..Len(u), k \in 1..Len(v) :
    \/ Obs.io[i][k] = 9 \/ v[k].k = "null"
    \/ Obs.io[i][k] = (IF Conforms(TypeOf(v[k]), u[i]) THEN 1 ELSE 2)
    \/ PrintT(<<"EXTRA", ToJson([what |-> "instance-of", i |-> i, k |-> k, got |-> Obs.io[i][k]])>>)

VARIABLE st
Init == st = 0
Next == st = 0 /\ st' = 1 /\ Laws /\ CoercionLaws /\ Extra /\ PrintT(<<"LAWS-EVALUATED", Len(Obs.U)>>)
=============================================================================
