----------------------------- MODULE Trace_C03 -----------------------------
(* C03: each record is a decision table (as emitted by Gen_C03 or drawn at  *)
(* random by the harness in the same format) with, for every input tuple,   *)
(* the value the real model evaluator returned for the decision that        *)
(* contains the table (loaded from DMN XML).  DecisionTable!Result decides. *)
EXTENDS DecisionTable, TLC, Json, IOUtils

Recs == ndJsonDeserialize(IOEnv.TRACE)

Scope(t, inp) == <<Ctx([i \in 1..Len(t.ins) |-> [n |-> t.ins[i].name, v |-> inp[i]]])>>

Verdict(r) ==
  LET t == r.table
      bad == {i \in 1..Len(t.inputs) :
                LET want == Result(t, t.inputs[i], Scope(t, t.inputs[i])) IN ~Match(want, r.obs[i])}
  IN IF r.built # "ok" THEN "the model with this table could not be loaded: " \o r.built
     ELSE IF bad = {} THEN "ok" ELSE "the result differs from the one the hit policy prescribes"

Unspecs(r) == Cardinality({i \in 1..Len(r.table.inputs) : IsU(Result(r.table, r.table.inputs[i], Scope(r.table, r.table.inputs[i])))})

VARIABLE i
Init == i \in 1..Len(Recs)
Next == FALSE /\ i' = i
Judged == LET w == Verdict(Recs[i]) IN
          /\ (w = "ok" \/ PrintT(<<"REJECT", i, w>>))
          /\ (Recs[i].built # "ok" \/ Unspecs(Recs[i]) = 0 \/ PrintT(<<"UNSPECN", Unspecs(Recs[i])>>))
=============================================================================
