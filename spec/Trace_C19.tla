----------------------------- MODULE Trace_C19 -----------------------------
(* C19: each record is one drawing configuration t (Gen_C19) with           *)
(*   got    the decision table the recogniser built from the harness's      *)
(*          drawing of t, projected on Recognizer.tla's shape ([ok |->      *)
(*          FALSE, err] when the text was rejected, "panic" when it crashed)*)
(*   evals  for a few input tuples: the value of the recognised table and   *)
(*          of the equivalent table loaded from DMN XML (texts of values)   *)
(* or (kind = "corrupt") one single-character corruption of a drawing with  *)
(* the outcome class of recognising it.                                     *)
EXTENDS Recognizer, Faults, TLC, Json, IOUtils
Recs == ndJsonDeserialize(IOEnv.TRACE)

Verdict(r) ==
  IF r.kind = "corrupt" THEN
       (IF r.death # "" THEN "recognising a corrupted drawing killed the process"
        ELSE IF ~(r.op.i >= 1 /\ r.op.i <= r.len) THEN "HARNESS: the corruption is outside the drawing"
        ELSE IF r.outcome \notin {"table", "error"} THEN "recognising a corrupted drawing panicked"
        ELSE "ok")
  ELSE IF r.got.st = "panic" THEN "recognising a valid drawing panicked"
  ELSE IF r.got.st = "error" THEN "a valid drawing was rejected"
  ELSE LET d == Difference(r.t, r.got) IN
       IF d # "" THEN "recognised differently from what is drawn: " \o d
       ELSE IF \E k \in 1..Len(r.evals) : r.evals[k].drawn # r.evals[k].xml THEN "the recognised table evaluates differently from the XML table"
       ELSE "ok"

VARIABLE i
Init == i \in 1..Len(Recs)
Next == FALSE /\ i' = i
Judged == LET w == Verdict(Recs[i]) IN IF w = "ok" THEN TRUE ELSE PrintT(<<"REJECT", i, w>>)
=============================================================================
