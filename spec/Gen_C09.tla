------------------------------ MODULE Gen_C09 ------------------------------
(* The value alphabet of C09: null, both booleans, numbers (negative, zero, *)
(* a negative zero, equal values with different scale, large), strings,     *)
(* dates, times,                                                            *)
(* date-times, both duration kinds, lists, contexts, ranges, a function.    *)
(* Printed once; the harness builds each value programmatically.            *)
EXTENDS Naturals, Integers, Sequences, TLC, Json
CONSTANT Wide

Null == [k |-> "null"]
B(b) == [k |-> "bool", b |-> b]
\* sc = extra trailing zeros the harness appends to the coefficient (same value, other scale)
N(s, c, e, sc) == [k |-> "num", s |-> s, c |-> c, e |-> e, scale |-> sc]
S(cp) == [k |-> "str", cp |-> cp]
D(y, m, d) == [k |-> "date", y |-> y, m |-> m, d |-> d]
T(h, mi, s, ns, zk, off) == [k |-> "time", h |-> h, mi |-> mi, s |-> s, ns |-> ns, zk |-> zk, off |-> off, zn |-> ""]
TZ(h, mi, s, zn) == [k |-> "time", h |-> h, mi |-> mi, s |-> s, ns |-> 0, zk |-> "zone", off |-> 0, zn |-> zn]     \* a time of day in a named zone
DT(d, t) == [k |-> "dt", date |-> d, time |-> t]
DTD(neg, sec, ns) == [k |-> "dtd", neg |-> neg, sec |-> sec, ns |-> ns]
YMD(neg, mo) == [k |-> "ymd", neg |-> neg, mo |-> mo]
L(items) == [k |-> "list", items |-> items]
C(ents) == [k |-> "ctx", ents |-> ents]
R(lo, lc, hi, hc) == [k |-> "range", lo |-> lo, lc |-> lc, hi |-> hi, hc |-> hc]
Fn == [k |-> "fn"]

One == N(0, <<1>>, 0, 0)
Two == N(0, <<2>>, 0, 0)
Big == N(0, <<1>>, 33, 0)

\* a null that carries a diagnostic text (what a failed evaluation leaves behind): it is a null like any other
NullWhy == [k |-> "null", why |-> "diagnostic"]
Base == <<
  Null, NullWhy, B(TRUE), B(FALSE),
  \* whole numbers beyond the 32-bit and 64-bit integers (exponent 0, many digits)
  N(0, <<2, 1, 4, 7, 4, 8, 3, 6, 4, 8>>, 0, 0), N(0, <<2, 1, 4, 9, 4, 8, 3, 6, 4, 9>>, 0, 0), N(1, <<2, 1, 4, 7, 4, 8, 3, 6, 4, 9>>, 0, 0),
  N(0, <<9, 2, 2, 3, 3, 7, 2, 0, 3, 6, 8, 5, 4, 7, 7, 5, 8, 0, 8>>, 0, 0),
  N(1, <<1>>, 0, 0), N(0, <<>>, 0, 0), N(1, <<>>, 0, 0), One, N(0, <<1>>, 0, 1), N(0, <<1>>, 0, 2), Two, N(0, <<1, 5>>, 0 - 1, 0), Big,
  S(<<>>), S(<<97>>), S(<<98>>), S(<<97, 97>>),
  S(<<57344>>), S(<<65536>>),       \* U+E000 and U+10000: code point order and UTF-16 code unit order differ on this pair
  D(2021, 1, 1), D(2021, 1, 2), D(2020, 2, 29),
  T(10, 0, 0, 0, "utc", 0), T(11, 0, 0, 0, "utc", 0), T(12, 0, 0, 0, "offset", 3600),
  \* readings of one zone that differ in the fraction of a second only; an evening and a morning time (a descending pair)
  T(10, 0, 0, 500000000, "utc", 0), T(10, 0, 0, 700000000, "utc", 0), T(22, 0, 0, 0, "utc", 0), T(6, 0, 0, 0, "utc", 0),
  DT(D(2021, 1, 1), T(10, 0, 0, 500000000, "utc", 0)), DT(D(2021, 1, 1), T(10, 0, 0, 700000000, "utc", 0)),
  DT(D(2021, 1, 1), T(10, 0, 0, 0, "utc", 0)), DT(D(2021, 1, 1), T(11, 0, 0, 0, "offset", 3600)), DT(D(2021, 1, 2), T(0, 0, 0, 0, "utc", 0)),
  \* one named zone on the days its offset changes: a local time that is skipped, one that is repeated, and ordinary ones
  DT(D(2021, 3, 28), TZ(2, 30, 0, "Europe/Warsaw")), DT(D(2021, 3, 28), TZ(12, 0, 0, "Europe/Warsaw")),
  DT(D(2021, 10, 31), TZ(2, 30, 0, "Europe/Warsaw")), DT(D(2021, 10, 31), TZ(12, 0, 0, "Europe/Warsaw")),
  DTD(FALSE, <<3, 6, 0, 0>>, 0), DTD(FALSE, <<8, 6, 4, 0, 0>>, 0), DTD(TRUE, <<1>>, 0),
  YMD(FALSE, <<1, 2>>), YMD(FALSE, <<1, 4>>), YMD(TRUE, <<1>>),
  L(<<>>), L(<<One>>), L(<<One, Two>>), L(<<B(TRUE)>>), L(<<B(FALSE)>>),
  C(<<>>), C(<<[n |-> "a", nc |-> <<97>>, v |-> One]>>),
  R(One, TRUE, Two, TRUE), R(One, FALSE, Two, FALSE),
  Fn >>

More == <<
  N(1, <<1>>, 33, 0), N(0, <<1>>, 0 - 20, 0), N(1, <<1, 5>>, 0 - 1, 0), N(0, <<1, 5>>, 0 - 1, 1), N(0, <<9, 9, 9>>, 6000, 0),
  S(<<65>>), S(<<233>>), S(<<119070>>), S(<<97, 32>>), S(<<49>>),
  D(1, 1, 1), D(9999, 12, 31), D(2021, 12, 31), D(1999, 12, 31),
  T(10, 0, 0, 5, "utc", 0), T(9, 0, 0, 0, "offset", 0 - 3600), T(0, 0, 0, 0, "utc", 0),
  DT(D(2021, 1, 1), T(10, 0, 0, 1, "utc", 0)), DT(D(1999, 12, 31), T(23, 59, 59, 0, "utc", 0)),
  DTD(FALSE, <<>>, 0), DTD(FALSE, <<>>, 1), DTD(TRUE, <<8, 6, 4, 0, 0>>, 0),
  YMD(FALSE, <<>>), YMD(TRUE, <<1, 2>>),
  L(<<Null>>), L(<<Two, One>>), L(<<L(<<>>)>>), L(<<S(<<97>>)>>),
  C(<<[n |-> "a", nc |-> <<97>>, v |-> Two]>>), C(<<[n |-> "b", nc |-> <<98>>, v |-> One]>>),
  R(One, TRUE, Two, FALSE), R(S(<<97>>), TRUE, S(<<98>>), TRUE),
  B(TRUE) >>

Alphabet == IF Wide THEN Base \o More ELSE Base
ASSUME PrintT(<<"ALPHABET", ToJson(Alphabet)>>)
VARIABLE x
Init == x = 0
Next == FALSE /\ x' = x
=============================================================================
