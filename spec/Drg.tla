--------------------------------- MODULE Drg ---------------------------------
(***************************************************************************)
(* Decision requirement graphs (DMN 1.3, 6 / 10.4): the value of an         *)
(* invocable is its logic evaluated in a context that binds                 *)
(*   every required input data   to the supplied input value,               *)
(*   every required decision     to that decision's own value,              *)
(*   every required knowledge model / decision service to a function        *)
(*                               computing its encapsulated logic.          *)
(* Boxed expressions (`form` records) are given their meaning by            *)
(* translation into FEEL trees evaluated by FeelEval:                       *)
(*   lit   the expression itself                                            *)
(*   ctx   a context literal; with a final result entry: the value of that  *)
(*         entry evaluated with the other entries visible                   *)
(*   inv   a named-argument invocation (binding formulas are evaluated in   *)
(*         the invoking scope)                                              *)
(*   rel   a list of contexts, one per row                                  *)
(*   fd    a function definition      list  a list literal                  *)
(*   dt    a decision table (DecisionTable!Result), top level only          *)
(*                                                                         *)
(* model == [inputs, bkms: <<[name, ps, form, reqs]>>, decisions:           *)
(*   <<[name, reqIn, reqDec, reqBkm, reqSvc, form]>>, services:             *)
(*   <<[name, inData, inDec, enc, out]>>]   (acyclic)                       *)
(***************************************************************************)
EXTENDS DecisionTable

AnyTy == [t |-> "Any"]
RECURSIVE TreeOf(_)
TreeOf(f) ==
  CASE f.f = "lit" -> f.tree
    [] f.f = "ctx" -> (LET ents == [i \in 1..Len(f.ents) |-> [key |-> f.ents[i].name, v |-> TreeOf(f.ents[i].form)]] IN
                       IF f.res.f = "none" THEN [n |-> "ctx", ents |-> ents]
                       ELSE [n |-> "path", id |-> "result entry", a |-> [n |-> "ctx", ents |-> Append(ents, [key |-> "result entry", v |-> TreeOf(f.res)])]])
    [] f.f = "inv" -> [n |-> "invoken", f |-> [n |-> "name", id |-> f.callee],
                       nargs |-> [i \in 1..Len(f.binds) |-> [p |-> f.binds[i].p, v |-> TreeOf(f.binds[i].form)]]]
    [] f.f = "rel" -> [n |-> "list", items |-> [r \in 1..Len(f.rows) |->
                         [n |-> "ctx", ents |-> [c \in 1..Len(f.cols) |-> [key |-> f.cols[c], v |-> TreeOf(f.rows[r][c])]]]]]
    [] f.f = "fd" -> [n |-> "fndef", ps |-> [i \in 1..Len(f.ps) |-> [p |-> f.ps[i], ty |-> AnyTy]], body |-> TreeOf(f.body)]
    [] f.f = "list" -> [n |-> "list", items |-> [i \in 1..Len(f.items) |-> TreeOf(f.items[i])]]

Find(seq, name) == seq[CHOOSE i \in 1..Len(seq) : seq[i].name = name]
Has(seq, name) == \E i \in 1..Len(seq) : seq[i].name = name
InputOf(inputs, n) == IF HasKey(inputs, n) THEN Get(inputs, n) ELSE Null

\* logic of a decision / knowledge model in scope sc
EvalForm(f, sc) ==
  IF f.f = "dt" THEN Result(f.table, [i \in 1..Len(f.table.ins) |-> Eval([n |-> "name", id |-> f.table.ins[i].name], sc)], sc)
  ELSE Eval(TreeOf(f), sc)

RECURSIVE BkmFn(_, _), DecisionValue(_, _, _), ServiceValue(_, _, _), ServiceFn(_, _, _), SvcCall(_, _, _, _), CtxFold(_, _, _, _, _, _)

\* a boxed invocation `inv` of a decision service required by decision d, its binding formulas evaluated in scope sc: the
\* bindings name the service's inputs, so their order plays no part; the service is evaluated on exactly the bound values
SvcCall(m, d, inv, sc) ==
  LET s  == Find(m.services, inv.callee)
      bs == inv.binds
      BoundTo(n) == bs[CHOOSE j \in 1..Len(bs) : bs[j].p = n].form
  IN IF s.inDec # <<>> \/ Len(bs) # Len(s.inData) \/ ~(\A i \in 1..Len(s.inData) : \E j \in 1..Len(bs) : bs[j].p = s.inData[i])
        \/ ~(\E i \in 1..Len(d.reqSvc) : d.reqSvc[i] = inv.callee) THEN Unspec
     ELSE LET vals == [i \in 1..Len(s.inData) |-> Eval(TreeOf(BoundTo(s.inData[i])), sc)] IN
          IF \E i \in 1..Len(vals) : IsU(vals[i]) THEN Unspec
          ELSE ServiceValue(m, s.name, Ctx([i \in 1..Len(s.inData) |-> [n |-> s.inData[i], v |-> vals[i]]]))

\* the entries of a boxed context, in order, each seeing the ones before it; an entry may be a boxed invocation of a service
CtxFold(m, d, f, i, base, acc) ==
  IF i > Len(f.ents) THEN acc
  ELSE LET e  == f.ents[i]
           sc == <<base, Ctx(acc)>>
           v  == IF e.form.f = "inv" /\ Has(m.services, e.form.callee) THEN SvcCall(m, d, e.form, sc) ELSE EvalForm(e.form, sc)
       IN CtxFold(m, d, f, i + 1, base, Append(acc, [n |-> e.name, v |-> v]))

\* a knowledge model as a function value; its environment holds the models it requires
BkmFn(m, name) ==
  LET b == Find(m.bkms, name) IN
  [k |-> "fn", ps |-> [i \in 1..Len(b.ps) |-> [p |-> b.ps[i], ty |-> AnyTy]],
   body |-> IF b.form.f = "dt" THEN [n |-> "null"] ELSE TreeOf(b.form),
   env |-> <<Ctx([i \in 1..Len(b.reqs) |-> [n |-> b.reqs[i], v |-> BkmFn(m, b.reqs[i])]])>>]

\* value of decision `name` for the input context `inputs` (a ctx value); `given` = decision values supplied from outside
DecisionValue(m, name, inputs) ==
  LET d == Find(m.decisions, name)
      ents == [i \in 1..Len(d.reqIn) |-> [n |-> d.reqIn[i], v |-> InputOf(inputs, d.reqIn[i])]]
              \o [i \in 1..Len(d.reqDec) |-> [n |-> d.reqDec[i], v |-> DecisionValue(m, d.reqDec[i], inputs)]]
              \o [i \in 1..Len(d.reqBkm) |-> [n |-> d.reqBkm[i], v |-> BkmFn(m, d.reqBkm[i])]]
              \o [i \in 1..Len(d.reqSvc) |-> [n |-> d.reqSvc[i], v |-> ServiceFn(m, d.reqSvc[i], inputs)]]
  IN IF d.form.f = "inv" /\ Has(m.services, d.form.callee) THEN SvcCall(m, d, d.form, <<Ctx(ents)>>)
     ELSE IF d.form.f = "ctx" /\ \E i \in 1..Len(d.form.ents) : d.form.ents[i].form.f = "inv" /\ Has(m.services, d.form.ents[i].form.callee)
     THEN LET all == CtxFold(m, d, d.form, 1, Ctx(ents), <<>>) IN
          IF d.form.res.f = "none" THEN Ctx(all) ELSE EvalForm(d.form.res, <<Ctx(ents), Ctx(all)>>)
     ELSE EvalForm(d.form, <<Ctx(ents)>>)

\* a decision service evaluated on an input context: its output decisions' values
ServiceValue(m, name, inputs) ==
  LET s == Find(m.services, name) IN
  IF Len(s.out) = 1 THEN DecisionValue(m, s.out[1], inputs)
  ELSE Ctx([i \in 1..Len(s.out) |-> [n |-> s.out[i], v |-> DecisionValue(m, s.out[i], inputs)]])

\* a decision service required as knowledge: calling conventions differ between versions of the standard
ServiceFn(m, name, inputs) == Unspec

\* value of any invocable
ValueOf(m, kind, name, inputs) ==
  IF kind = "decision" THEN DecisionValue(m, name, inputs)
  ELSE IF kind = "service" THEN
       (IF Find(m.services, name).inDec # <<>> THEN Unspec ELSE ServiceValue(m, name, inputs))
  ELSE \* a knowledge model invoked by name: its parameters are taken from the input context
       LET f == BkmFn(m, name) IN
       IF Find(m.bkms, name).form.f = "dt" THEN Unspec
       ELSE Eval(f.body, Push(f.env, Ctx([i \in 1..Len(f.ps) |-> [n |-> f.ps[i].p, v |-> InputOf(inputs, f.ps[i].p)]])))
=============================================================================
