------------------------------ MODULE Gen_C18v ------------------------------
(* Values sent through echo decisions of the live service (C18, rendering). *)
(* Strings over an alphabet of characters that need JSON escaping or are    *)
(* non-ASCII; numbers; booleans; null; lists and contexts nesting them,     *)
(* including context keys that need escaping.                               *)
EXTENDS Naturals, Sequences, FiniteSets, TLC, Json
CONSTANT Deep

Alpha == {97, 34, 92, 47, 1, 31, 233, 119070, 8232}       \* a " \ / U+0001 U+001F e-acute G-clef LS
S(v) == [k |-> "str", cp |-> v]
N(s, c, e) == [k |-> "num", s |-> s, c |-> c, e |-> e]
L(v) == [k |-> "list", items |-> v]
C(v) == [k |-> "ctx", ents |-> v]
En(nc, v) == [nc |-> nc, v |-> v]

Strings == {S(f) : f \in UNION {[1..n -> Alpha] : n \in 0..(IF Deep THEN 3 ELSE 2)}}
Nines34 == [i \in 1..34 |-> 9]
Nums == { N(0, <<>>, 0), N(0, <<1>>, 0), N(1, <<1>>, 0), N(0, <<1, 2, 5>>, 0 - 1), N(1, <<1, 5>>, 0 - 8),
          N(0, <<1>>, 21), N(0, Nines34, 0), N(0, <<1>>, 0 - 20), N(1, <<9, 9>>, 0 - 2), N(0, <<1, 5>>, 0 - 1),
          N(0, <<7>>, 0 - 7), N(1, <<1, 2, 3, 4, 5, 6, 7, 8, 9>>, 3),
          \* numbers written with fraction digits that are all zero (10.0, -200.00, 1500.00, 0.0): the scale is kept
          N(0, <<1, 0, 0>>, 0 - 1), N(1, <<2, 0, 0, 0, 0>>, 0 - 2), N(0, <<1, 5, 0, 0, 0, 0>>, 0 - 2), N(0, <<0, 0>>, 0 - 1), N(0, <<3, 0>>, 0 - 1) }
Scalars == Strings \cup Nums \cup {[k |-> "null"], [k |-> "bool", b |-> TRUE], [k |-> "bool", b |-> FALSE]}

Pool == { S(<<>>), S(<<34>>), S(<<92, 97>>), N(1, <<1, 5>>, 0 - 8), N(0, <<1>>, 0), N(0, <<1, 0, 0>>, 0 - 1), [k |-> "null"], [k |-> "bool", b |-> TRUE] }
Keys == { <<97>>, <<107, 34, 113>>, <<98, 92>>, <<233>>, <<107, 32, 50>> }       \* a  k"q  b\  e-acute  "k 2"

Lists1 == {L(<<>>)} \cup {L(<<a>>) : a \in Pool} \cup {L(<<a, b>>) : a \in Pool, b \in Pool}
Ctx1   == {C(<<>>)} \cup {C(<<En(k, a)>>) : k \in Keys, a \in Pool}
          \cup {C(<<En(k1, a), En(k2, b)>>) : k1 \in {<<97>>, <<107, 34, 113>>}, k2 \in {<<98, 92>>, <<233>>}, a \in Pool, b \in {S(<<34>>), N(0, <<1>>, 0)}}
Nested == {L(<<x, y>>) : x \in {L(<<>>), L(<<S(<<34>>)>>), C(<<En(<<107, 34, 113>>, S(<<92>>))>>)}, y \in {L(<<N(1, <<1, 5>>, 0 - 8)>>), C(<<>>), [k |-> "null"]}}
          \cup {C(<<En(k, x)>>) : k \in Keys, x \in {L(<<S(<<34>>), [k |-> "null"]>>), C(<<En(<<98, 92>>, L(<<>>))>>)}}

Values == Scalars \cup Lists1 \cup Ctx1 \cup Nested

ASSUME \A v \in Values : PrintT(<<"CASE", ToJson(v)>>)
ASSUME PrintT(<<"COUNT", Cardinality(Values)>>)
VARIABLE x
Init == x = 0
Next == FALSE /\ x' = x
=============================================================================
