SPECIFICATION Spec
CONSTANTS
 Threads <- PThreads
 Locks <- PLocks
 Script <- PScript
 Semantics = "rp"
 SharedScope = FALSE
 F <- PF
INVARIANT ResultsIntact
INVARIANT NoDeadlock
INVARIANT LockInv
INVARIANT CleanEnd
CHECK_DEADLOCK FALSE
