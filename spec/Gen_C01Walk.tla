---------------------------- MODULE Gen_C01Walk ----------------------------
(* C01 stimuli beyond the exhaustive two-level nests of Gen_C01: random      *)
(* walks through the same templates.  A behaviour starts from an innermost   *)
(* expression and wraps it, step by step, in an outer construct chosen at    *)
(* random (TLC's simulation mode picks the successor), so that after D steps *)
(* the expression is a nest of D + 1 constructs; every expression of a walk  *)
(* is emitted (tag WALK), with its tree and its fully parenthesised rendering, *)
(* as Gen_C01 does.                                                          *)
(*   tlc -simulate num=N -depth D+1 -seed S Gen_C01Walk.tla                  *)
EXTENDS Gen_C01

VARIABLES t, d
WInit == t \in Inner /\ d = 0 /\ v = 0
WNext == t' = RandomElement(Outer(t)) /\ d' = d + 1 /\ v' = v
\* (an invariant: evaluated on the states the walk visits, not on the candidates it did not choose)
Emit == d < 2 \/ PrintT(<<"WALK", ToJson([tree |-> t, full |-> RenderFull(t)])>>)
=============================================================================
