------------------------------ MODULE FeelEval ------------------------------
(***************************************************************************)
(* Big-step semantics of the FEEL core fragment (DMN 1.3, 10.3.2):          *)
(* literals, names, arithmetic, comparison, three-valued and/or, if,        *)
(* between, in (ranges, unary tests, lists of tests), list and context      *)
(* literals (later entries see earlier ones), paths, filters (item / entry  *)
(* binding, numeric index incl. negative, boolean selection), for / some /  *)
(* every over the cartesian product of their domains in declaration order   *)
(* (empty if any domain is empty), function definition and invocation       *)
(* (positional and named).  null is the error value.                        *)
(*                                                                         *)
(* Expressions are the trees of FeelSyntax.tla; number and string literals  *)
(* additionally carry their value (num: m, e ; str: cp) because TLC cannot  *)
(* look inside a string.                                                    *)
(*                                                                         *)
(* Values: [k |-> "null"] [k |-> "bool", b] [k |-> "num", m, e] (m * 10^e,  *)
(* m not divisible by 10; small numbers only - whatever would leave the     *)
(* range of TLC's integers or be inexact is Unspec and C02 owns it)         *)
(* [k |-> "str", cp] [k |-> "list", items] [k |-> "ctx", ents: <<[n, v]>>]  *)
(* [k |-> "fn", ps, body, env] and [k |-> "unspec"]: DMN is silent or the   *)
(* versions of the standard differ - any answer is accepted.  Unspec        *)
(* propagates through everything that looks at the value.                   *)
(***************************************************************************)
EXTENDS Naturals, Integers, Sequences, FiniteSets, IOUtils

\* classification aid: with RELAX_EMPTY_DOMAIN=1 in the environment an iteration over several variables one of whose
\* domains is empty is Unspec - the harness re-judges rejected cases this way to attribute them to that known defect
RelaxEmpty == IOEnv.RELAX_EMPTY_DOMAIN = "1"

Null   == [k |-> "null"]
Unspec == [k |-> "unspec"]
Bool(b) == [k |-> "bool", b |-> b]
Str(cp) == [k |-> "str", cp |-> cp]
List(items) == [k |-> "list", items |-> items]
Ctx(ents) == [k |-> "ctx", ents |-> ents]
\* [k |-> "alt", a, b]: either of two values is accepted (a boolean filter that selects exactly one element yields
\* the one-element list by the standard and the element itself in implementations that unwrap singletons);
\* for every operator that looks at the value it counts as Unspec
Alt(a, b) == [k |-> "alt", a |-> a, b |-> b]
IsU(v) == v.k \in {"unspec", "alt"}

RECURSIVE NormN(_, _)
NormN(m, e) == IF m = 0 THEN [k |-> "num", m |-> 0, e |-> 0]
               ELSE IF m % 10 = 0 THEN NormN(m \div 10, e + 1) ELSE [k |-> "num", m |-> m, e |-> e]
Num(m, e) == NormN(m, e)
Abs(i) == IF i < 0 THEN 0 - i ELSE i
P10(n) == CASE n = 0 -> 1 [] n = 1 -> 10 [] n = 2 -> 100 [] n = 3 -> 1000 [] n = 4 -> 10000
            [] n = 5 -> 100000 [] n = 6 -> 1000000 [] n = 7 -> 10000000 [] n = 8 -> 100000000
Small(i) == Abs(i) < 100000000

\* both mantissas at the common (smaller) exponent, or "no" when that leaves the safe range
Align(a, b) ==
  LET e == IF a.e < b.e THEN a.e ELSE b.e IN
  IF a.e - e > 7 \/ b.e - e > 7 THEN [ok |-> FALSE]
  ELSE LET ma == a.m * P10(a.e - e)  mb == b.m * P10(b.e - e) IN
       IF Small(a.m) /\ Small(b.m) /\ Abs(a.m) * P10(a.e - e) < 100000000 /\ Abs(b.m) * P10(b.e - e) < 100000000
       THEN [ok |-> TRUE, ma |-> ma, mb |-> mb, e |-> e] ELSE [ok |-> FALSE]

AddN(a, b) == LET al == Align(a, b) IN IF al.ok THEN Num(al.ma + al.mb, al.e) ELSE Unspec
SubN(a, b) == LET al == Align(a, b) IN IF al.ok THEN Num(al.ma - al.mb, al.e) ELSE Unspec
MulN(a, b) == IF Abs(a.m) < 30000 /\ Abs(b.m) < 30000 THEN Num(a.m * b.m, a.e + b.e) ELSE Unspec
CmpN(a, b) == LET al == Align(a, b) IN IF ~al.ok THEN 2 ELSE IF al.ma < al.mb THEN 0 - 1 ELSE IF al.ma > al.mb THEN 1 ELSE 0   \* 2 = unknown

RECURSIVE DivK(_, _, _)
DivK(ma, mb, k) ==     \* smallest k <= 6 with ma * 10^k divisible by mb, or 9
  IF k > 6 \/ ma * P10(k) >= 100000000 THEN 9 ELSE IF (ma * P10(k)) % mb = 0 THEN k ELSE DivK(ma, mb, k + 1)
DivN(a, b) ==
  IF b.m = 0 THEN Null
  ELSE IF a.m = 0 THEN Num(0, 0)
  ELSE IF ~Small(a.m) \/ ~Small(b.m) THEN Unspec
  ELSE LET k == DivK(Abs(a.m), Abs(b.m), 0) IN
       IF k = 9 THEN Unspec                                        \* inexact or long quotient: C02's business
       ELSE Num((IF (a.m < 0) # (b.m < 0) THEN 0 - 1 ELSE 1) * ((Abs(a.m) * P10(k)) \div Abs(b.m)), a.e - b.e - k)

RECURSIVE PowN(_, _)
PowN(a, n) == IF n = 0 THEN Num(1, 0) ELSE LET r == PowN(a, n - 1) IN IF IsU(r) THEN Unspec ELSE MulN(r, a)
ExpN(a, b) ==
  IF b.e < 0 \/ Abs(b.m) * P10(IF b.e > 7 THEN 8 ELSE b.e) > 6 THEN Unspec         \* non-integer or large exponent
  ELSE LET n == b.m * P10(b.e) IN
       IF n >= 0 THEN (IF a.m = 0 /\ n = 0 THEN Unspec ELSE PowN(a, n))
       ELSE LET p == PowN(a, 0 - n) IN IF IsU(p) THEN Unspec ELSE IF p.m = 0 THEN Unspec ELSE DivN(Num(1, 0), p)
IsInt(a) == a.e >= 0 /\ a.e <= 7 /\ Small(a.m * P10(a.e))
IntOf(a) == a.m * P10(a.e)

RECURSIVE LtSeq(_, _)
LtSeq(a, b) == IF b = <<>> THEN FALSE ELSE IF a = <<>> THEN TRUE
               ELSE IF a[1] < b[1] THEN TRUE ELSE IF a[1] > b[1] THEN FALSE ELSE LtSeq(Tail(a), Tail(b))

----------------------------------------------------------------------------
\* three-valued logic and comparison on values

T3(v) == IF v.k = "bool" THEN (IF v.b THEN "t" ELSE "f") ELSE IF IsU(v) THEN "u" ELSE "n"
And3(a, b) == LET x == T3(a) y == T3(b) IN
              IF x = "f" \/ y = "f" THEN Bool(FALSE) ELSE IF x = "u" \/ y = "u" THEN Unspec
              ELSE IF x = "t" /\ y = "t" THEN Bool(TRUE) ELSE Null
Or3(a, b)  == LET x == T3(a) y == T3(b) IN
              IF x = "t" \/ y = "t" THEN Bool(TRUE) ELSE IF x = "u" \/ y = "u" THEN Unspec
              ELSE IF x = "f" /\ y = "f" THEN Bool(FALSE) ELSE Null
Not3(v) == IF v.k = "bool" THEN Bool(~v.b) ELSE v

HasKey(c, n) == \E i \in 1..Len(c.ents) : c.ents[i].n = n
Get(c, n) == c.ents[CHOOSE i \in 1..Len(c.ents) : c.ents[i].n = n /\ \A j \in (i + 1)..Len(c.ents) : c.ents[j].n # n].v

\* equality: a boolean value, Null (incomparable kinds) or Unspec
RECURSIVE Eq3(_, _)
Eq3(a, b) ==
  IF IsU(a) \/ IsU(b) THEN Unspec
  ELSE IF a.k = "null" \/ b.k = "null" THEN (IF a.k = b.k THEN Bool(TRUE) ELSE IF a.k = "fn" \/ b.k = "fn" THEN Unspec ELSE Bool(FALSE))
  ELSE IF a.k # b.k THEN Null
  ELSE IF a.k = "bool" THEN Bool(a.b = b.b)
  ELSE IF a.k = "num" THEN (LET c == CmpN(a, b) IN IF c = 2 THEN Unspec ELSE Bool(c = 0))
  ELSE IF a.k = "str" THEN Bool(a.cp = b.cp)
  ELSE IF a.k = "list" THEN
       IF Len(a.items) # Len(b.items) THEN Bool(FALSE)
       ELSE LET r == [i \in 1..Len(a.items) |-> Eq3(a.items[i], b.items[i])] IN
            IF \E i \in 1..Len(a.items) : r[i] = Bool(FALSE) THEN Bool(FALSE)
            ELSE IF \A i \in 1..Len(a.items) : r[i] = Bool(TRUE) THEN Bool(TRUE) ELSE Unspec
  ELSE IF a.k = "ctx" THEN
       IF Len(a.ents) # Len(b.ents) \/ \E i \in 1..Len(a.ents) : ~HasKey(b, a.ents[i].n) THEN Bool(FALSE)
       ELSE LET r == [i \in 1..Len(a.ents) |-> Eq3(a.ents[i].v, Get(b, a.ents[i].n))] IN
            IF \E i \in 1..Len(a.ents) : r[i] = Bool(FALSE) THEN Bool(FALSE)
            ELSE IF \A i \in 1..Len(a.ents) : r[i] = Bool(TRUE) THEN Bool(TRUE) ELSE Unspec
  ELSE Unspec

\* a < b for values of one ordered kind, Null otherwise
Lt3(a, b) ==
  IF IsU(a) \/ IsU(b) THEN Unspec
  ELSE IF a.k = "num" /\ b.k = "num" THEN (LET c == CmpN(a, b) IN IF c = 2 THEN Unspec ELSE Bool(c < 0))
  ELSE IF a.k = "str" /\ b.k = "str" THEN Bool(LtSeq(a.cp, b.cp))
  ELSE Null
Le3(a, b) == LET l == Lt3(a, b) IN IF l.k # "bool" THEN l ELSE Or3(l, Eq3(a, b))

InRange3(v, lo, lc, hi, hc) ==
  IF IsU(v) \/ IsU(lo) \/ IsU(hi) THEN Unspec
  ELSE IF v.k = lo.k /\ lo.k = hi.k /\ v.k \in {"num", "str"}
       THEN And3(IF lc THEN Le3(lo, v) ELSE Lt3(lo, v), IF hc THEN Le3(v, hi) ELSE Lt3(v, hi))
  ELSE Unspec                                      \* operands not of one ordered kind (C09 states the agreement only there)

----------------------------------------------------------------------------
\* scopes: a sequence of contexts, searched from the last (top) to the first

RECURSIVE Lookup(_, _, _)
Lookup(sc, i, n) == IF i = 0 THEN [found |-> FALSE]
                    ELSE IF HasKey(sc[i], n) THEN [found |-> TRUE, v |-> Get(sc[i], n)] ELSE Lookup(sc, i - 1, n)
Push(sc, c) == Append(sc, c)
WithEntry(c, n, v) == Ctx(Append(c.ents, [n |-> n, v |-> v]))
SetTop(sc, n, v) == [sc EXCEPT ![Len(sc)] = WithEntry(sc[Len(sc)], n, v)]

\* cartesian product in declaration order: each element is a context binding every variable
RECURSIVE Product(_, _)
Product(doms, i) ==     \* doms: << [var, vals: <<values>>] >>
  IF i > Len(doms) THEN << <<>> >>
  ELSE LET rest == Product(doms, i + 1)
           RECURSIVE Over(_)
           Over(j) == IF j > Len(doms[i].vals) THEN <<>>
                      ELSE [q \in 1..Len(rest) |-> <<[n |-> doms[i].var, v |-> doms[i].vals[j]]>> \o rest[q]] \o Over(j + 1)
       IN Over(1)

RECURSIVE IntRange(_, _)
IntRange(a, b) == IF a = b THEN <<Num(a, 0)>> ELSE IF a < b THEN <<Num(a, 0)>> \o IntRange(a + 1, b) ELSE <<Num(a, 0)>> \o IntRange(a - 1, b)

RECURSIVE Keep(_, _, _)
Keep(items, res, i) == IF i > Len(items) THEN <<>>
                       ELSE (IF res[i] = Bool(TRUE) THEN <<items[i]>> ELSE <<>>) \o Keep(items, res, i + 1)

RECURSIVE Eval(_, _), EvalSeq(_, _, _), EvalCtx(_, _, _), Doms(_, _, _), InTest(_, _, _), Invoke(_, _, _), ForAcc(_, _, _, _, _)

\* the iterations of a `for`, in order; the special name `partial` is bound to the list of the results so far (10.3.2.14)
ForAcc(body, prod, q, acc, sc) ==
  IF q > Len(prod) THEN acc
  ELSE LET v == Eval(body, Push(sc, Ctx(prod[q] \o <<[n |-> "partial", v |-> List(acc)]>>))) IN
       IF v = v THEN ForAcc(body, prod, q + 1, Append(acc, v), sc) ELSE acc

EvalSeq(es, i, sc) == IF i > Len(es) THEN <<>> ELSE <<Eval(es[i], sc)>> \o EvalSeq(es, i + 1, sc)

\* context literal: entry i is evaluated with the entries 1..i-1 visible
EvalCtx(ents, i, sc) ==
  IF i > Len(ents) THEN sc[Len(sc)]
  ELSE EvalCtx(ents, i + 1, SetTop(sc, ents[i].key, Eval(ents[i].v, sc)))

\* the domains of an iteration, each evaluated in the enclosing scope
Doms(its, i, sc) ==
  IF i > Len(its) THEN <<>>
  ELSE LET it == its[i]
           d  == IF it.kind = "range"
                 THEN LET a == Eval(it.a, sc) b == Eval(it.b, sc) IN
                      IF a.k = "num" /\ b.k = "num" /\ IsInt(a) /\ IsInt(b) /\ Abs(IntOf(a) - IntOf(b)) < 50
                      THEN [ok |-> TRUE, vals |-> IntRange(IntOf(a), IntOf(b))] ELSE [ok |-> FALSE]
                 ELSE LET v == Eval(it.a, sc) IN
                      IF v.k = "list" THEN [ok |-> TRUE, vals |-> v.items] ELSE [ok |-> FALSE]   \* a non-list domain: unspecified
       IN <<[var |-> it.var, ok |-> d.ok, vals |-> IF d.ok THEN d.vals ELSE <<>>]>> \o Doms(its, i + 1, sc)

\* does value v satisfy the test t (rhs of `in`)
InTest(v, t, sc) ==
  IF v.k = "null" THEN Unspec                      \* a null input value: the versions of the standard differ
  ELSE IF t.n = "range" THEN InRange3(v, Eval(t.lo, sc), t.lc, Eval(t.hi, sc), t.hc)
  ELSE IF t.n = "utlt" THEN Lt3(v, Eval(t.a, sc)) ELSE IF t.n = "utle" THEN Le3(v, Eval(t.a, sc))
  ELSE IF t.n = "utgt" THEN Lt3(Eval(t.a, sc), v) ELSE IF t.n = "utge" THEN Le3(Eval(t.a, sc), v)
  ELSE IF t.n = "elist" THEN
       LET r == [i \in 1..Len(t.items) |-> InTest(v, t.items[i], sc)] IN
       IF \E i \in 1..Len(t.items) : r[i] = Bool(TRUE) THEN Bool(TRUE)
       ELSE IF \A i \in 1..Len(t.items) : r[i] = Bool(FALSE) THEN Bool(FALSE) ELSE Unspec
  ELSE LET w == Eval(t, sc) IN
       IF IsU(w) \/ v.k = "list" THEN Unspec           \* a list as input value: membership or equality? not settled
       ELSE IF w.k = "list" THEN
          (LET r == [i \in 1..Len(w.items) |-> IF w.items[i].k = "null" THEN Unspec ELSE Eq3(v, w.items[i])] IN     \* (a null member: as unsettled as `x in null`)
           IF \E i \in 1..Len(w.items) : r[i] = Bool(TRUE) THEN Bool(TRUE)
           ELSE IF \A i \in 1..Len(w.items) : r[i] = Bool(FALSE) THEN Bool(FALSE) ELSE Unspec)
       ELSE LET r == Eq3(v, w) IN IF r.k = "bool" /\ w.k # "null" THEN r ELSE Unspec      \* null input / incomparable kinds: unspecified

\* apply the function value f to arguments bound by name
Invoke(f, binds, ok) ==      \* binds: << [n, v] >> one per parameter
  IF ~ok THEN Null ELSE Eval(f.body, Push(f.env, Ctx(binds)))

Eval(t, sc) ==
  CASE t.n = "num"  -> Num(t.m, t.e)
    [] t.n = "str"  -> Str(t.cp)
    [] t.n = "bool" -> Bool(t.bv)
    [] t.n = "null" -> Null
    [] t.n \in {"name", "qname"} -> (LET r == Lookup(sc, Len(sc), IF t.n = "name" THEN t.id ELSE t.segs[1]) IN IF r.found THEN r.v ELSE Null)
    [] t.n = "neg" -> (LET a == Eval(t.a, sc) IN IF IsU(a) THEN Unspec ELSE IF a.k = "num" THEN Num(0 - a.m, a.e) ELSE Null)
    [] t.n \in {"add", "sub", "mul", "div", "exp"} ->
         (LET a == Eval(t.a, sc) b == Eval(t.b, sc) IN
          IF IsU(a) \/ IsU(b) THEN Unspec
          ELSE IF a.k = "num" /\ b.k = "num" THEN
               (CASE t.n = "add" -> AddN(a, b) [] t.n = "sub" -> SubN(a, b) [] t.n = "mul" -> MulN(a, b)
                  [] t.n = "div" -> DivN(a, b) [] t.n = "exp" -> ExpN(a, b))
          ELSE IF t.n = "add" /\ a.k = "str" /\ b.k = "str" THEN Str(a.cp \o b.cp)
          ELSE Null)
    [] t.n = "eq" -> Eq3(Eval(t.a, sc), Eval(t.b, sc))
    [] t.n = "nq" -> Not3(Eq3(Eval(t.a, sc), Eval(t.b, sc)))
    [] t.n = "lt" -> Lt3(Eval(t.a, sc), Eval(t.b, sc))
    [] t.n = "le" -> Le3(Eval(t.a, sc), Eval(t.b, sc))
    [] t.n = "gt" -> Lt3(Eval(t.b, sc), Eval(t.a, sc))
    [] t.n = "ge" -> Le3(Eval(t.b, sc), Eval(t.a, sc))
    [] t.n = "and" -> And3(Eval(t.a, sc), Eval(t.b, sc))
    [] t.n = "or"  -> Or3(Eval(t.a, sc), Eval(t.b, sc))
    [] t.n = "between" -> InRange3(Eval(t.a, sc), Eval(t.lo, sc), TRUE, Eval(t.hi, sc), TRUE)
    [] t.n = "in" -> InTest(Eval(t.a, sc), t.b, sc)
    [] t.n = "if" -> (LET c == Eval(t.cond, sc) IN
                      IF c = Bool(TRUE) THEN Eval(t.then, sc) ELSE IF c = Bool(FALSE) THEN Eval(t.else, sc) ELSE Unspec)
    [] t.n = "list" -> List(EvalSeq(t.items, 1, sc))
    [] t.n = "ctx" -> EvalCtx(t.ents, 1, Push(sc, Ctx(<<>>)))
    [] t.n = "path" ->
         (LET a == Eval(t.a, sc)
              Field(v) == IF v.k = "ctx" THEN (IF HasKey(v, t.id) THEN Get(v, t.id) ELSE Null) ELSE IF IsU(v) THEN Unspec ELSE Null
          IN IF a.k = "list" THEN (IF \E i \in 1..Len(a.items) : a.items[i].k # "ctx" \/ ~HasKey(a.items[i], t.id) THEN Unspec
                                   ELSE List([i \in 1..Len(a.items) |-> Field(a.items[i])]))
             ELSE Field(a))
    [] t.n = "filter" ->
         (LET a == Eval(t.a, sc) IN
          IF IsU(a) \/ a.k # "list" THEN Unspec          \* (filtering a non-list: versions of the standard / implementations differ)
          ELSE
            LET items == a.items
                idx   == Eval(t.f, sc)                                     \* a filter that is a number is an index
                ItemScope(v) == IF v.k = "ctx" THEN Push(Push(sc, Ctx(<<[n |-> "item", v |-> v]>>)), v)
                                ELSE Push(sc, Ctx(<<[n |-> "item", v |-> v]>>))
                res   == [i \in 1..Len(items) |-> Eval(t.f, ItemScope(items[i]))]
            IN
            IF IsU(idx) THEN Unspec
            ELSE IF idx.k = "num" THEN
               (IF ~IsInt(idx) THEN Unspec
                ELSE LET n == IntOf(idx) IN
                     IF n >= 1 /\ n <= Len(items) THEN items[n]
                     ELSE IF n <= 0 - 1 /\ 0 - n <= Len(items) THEN items[Len(items) + n + 1]
                     ELSE Null)
            ELSE IF \E i \in 1..Len(items) : IsU(res[i]) \/ res[i].k = "num" THEN Unspec
            ELSE LET kept == Keep(items, res, 1) IN
                 IF Len(kept) = 1 THEN Alt(List(kept), kept[1]) ELSE List(kept))
    [] t.n = "for" ->
         (LET doms == Doms(t.its, 1, sc) IN
          IF \E i \in 1..Len(doms) : ~doms[i].ok THEN Unspec
          ELSE IF RelaxEmpty /\ Len(doms) >= 2 /\ \E i \in 1..Len(doms) : doms[i].vals = <<>> THEN Unspec
          ELSE List(ForAcc(t.body, Product(doms, 1), 1, <<>>, sc)))
    [] t.n \in {"some", "every"} ->
         (LET doms == Doms(t.its, 1, sc) IN
          IF \E i \in 1..Len(doms) : ~doms[i].ok THEN Unspec
          ELSE IF RelaxEmpty /\ Len(doms) >= 2 /\ \E i \in 1..Len(doms) : doms[i].vals = <<>> THEN Unspec
          ELSE LET prod == Product(doms, 1)
                   r == [q \in 1..Len(prod) |-> Eval(t.body, Push(sc, Ctx(prod[q])))]
               IN IF t.n = "some"
                  THEN (IF \E q \in 1..Len(prod) : r[q] = Bool(TRUE) THEN Bool(TRUE)
                        ELSE IF \A q \in 1..Len(prod) : r[q] = Bool(FALSE) THEN Bool(FALSE) ELSE Unspec)
                  ELSE (IF \E q \in 1..Len(prod) : r[q] = Bool(FALSE) THEN Bool(FALSE)
                        ELSE IF \A q \in 1..Len(prod) : r[q] = Bool(TRUE) THEN Bool(TRUE) ELSE Unspec))
    [] t.n = "fndef" -> [k |-> "fn", ps |-> t.ps, body |-> t.body, env |-> sc]
    [] t.n = "invoke" ->
         (LET f == Eval(t.f, sc) args == EvalSeq(t.args, 1, sc) IN
          IF IsU(f) THEN Unspec
          ELSE IF f.k # "fn" THEN Null
          ELSE IF \E i \in 1..Len(args) : IsU(args[i]) THEN Unspec
          ELSE IF \E i \in 1..Len(f.ps) : f.ps[i].ty.t # "Any" THEN Unspec          \* typed parameters: C16
          ELSE IF Len(args) > Len(f.ps) THEN Unspec                                  \* more arguments than parameters
          \* fewer: an error (null), or - the other reading - the remaining parameters are null; never anything else,
          \* in particular the parameter's name is not looked up where the call is made
          ELSE IF Len(args) < Len(f.ps) THEN
               Alt(Null, Invoke(f, [i \in 1..Len(f.ps) |-> [n |-> f.ps[i].p, v |-> IF i <= Len(args) THEN args[i] ELSE Null]], TRUE))
          ELSE Invoke(f, [i \in 1..Len(f.ps) |-> [n |-> f.ps[i].p, v |-> args[i]]], TRUE))
    [] t.n = "invoken" ->
         (LET f == Eval(t.f, sc) IN
          IF IsU(f) THEN Unspec
          ELSE IF f.k # "fn" THEN Null
          ELSE IF \E i \in 1..Len(f.ps) : f.ps[i].ty.t # "Any" THEN Unspec
          ELSE IF ~(\A i \in 1..Len(f.ps) : \E j \in 1..Len(t.nargs) : t.nargs[j].p = f.ps[i].p) \/ Len(t.nargs) # Len(f.ps) THEN Unspec
          ELSE LET vals == [i \in 1..Len(f.ps) |-> Eval(t.nargs[CHOOSE j \in 1..Len(t.nargs) : t.nargs[j].p = f.ps[i].p].v, sc)] IN
               IF \E i \in 1..Len(f.ps) : IsU(vals[i]) THEN Unspec
               ELSE Invoke(f, [i \in 1..Len(f.ps) |-> [n |-> f.ps[i].p, v |-> vals[i]]], TRUE))
    [] OTHER -> Unspec

----------------------------------------------------------------------------
\* does the observed value (harness encoding) match the expected one

RECURSIVE Match(_, _)
Match(x, o) ==
  IF x.k = "unspec" THEN TRUE
  ELSE IF x.k = "alt" THEN Match(x.a, o) \/ Match(x.b, o)
  ELSE IF x.k = "null" THEN o.k = "null"
  ELSE IF x.k = "bool" THEN o.k = "bool" /\ o.b = x.b
  ELSE IF x.k = "num" THEN o.k = "num" /\ o.fin /\ o.sm /\ o.m = x.m /\ o.e = x.e
  ELSE IF x.k = "str" THEN o.k = "str" /\ o.cp = x.cp
  ELSE IF x.k = "list" THEN o.k = "list" /\ Len(o.items) = Len(x.items) /\ \A i \in 1..Len(x.items) : Match(x.items[i], o.items[i])
  ELSE IF x.k = "ctx" THEN
       /\ o.k = "ctx" /\ Len(o.ents) = Cardinality({x.ents[i].n : i \in 1..Len(x.ents)})
       /\ \A i \in 1..Len(x.ents) : \E j \in 1..Len(o.ents) : o.ents[j].n = x.ents[i].n /\ Match(Get(x, x.ents[i].n), o.ents[j].v)
  ELSE IF x.k = "fn" THEN o.k = "fn"
  ELSE IF x.k \in {"date", "time", "dt", "dtd", "ymd"} THEN o = x      \* temporal values: field by field
  ELSE FALSE
=============================================================================
