----------------------------- MODULE Trace_C12 -----------------------------
(* C12: each record is one fault script applied to one model text, with     *)
(*   count   number of nodes of the faulted document as re-read by the      *)
(*           harness (0 - 1: not well-formed) - must be what XmlTree says   *)
(*           (binds the text surgery of the harness to the tree model)      *)
(*   load / build   outcome class of dmntk_model::parse / ModelEvaluator::new*)
(*   inv     outcome classes of evaluating every invocable on every context *)
(*   death   "" | "timeout" | "signal n" | "exit n"                         *)
(* Records with src = "bytes" are random byte-level corruptions (no script). *)
EXTENDS XmlTree, Faults, TLC, Json, IOUtils
Trees == ndJsonDeserialize(IOEnv.TREES)
Recs == ndJsonDeserialize(IOEnv.TRACE)

Range(s) == {s[k] : k \in DOMAIN s}
ScriptOk(r) ==
  LET nodes == Trees[r.m].nodes IN
  IF Len(r.ops) = 1 THEN LastOk(nodes, r.ops[1].n) /\ FaultEnabled(nodes, r.ops[1].f, r.ops[1].n) /\ r.count = CountAfter(nodes, r.ops[1].f, r.ops[1].n)
  ELSE LET a == r.ops[1]  b == r.ops[2]
           ca == CountAfter(nodes, a.f, a.n)  cb == CountAfter(nodes, b.f, b.n) IN
       /\ LastOk(nodes, a.n) /\ LastOk(nodes, b.n) /\ FaultEnabled(nodes, a.f, a.n) /\ FaultEnabled(nodes, b.f, b.n) /\ (Disjoint(nodes, a.f, a.n, b.f, b.n)
              \* (a duplicate is inserted BEHIND the element: a reference inside the element - its first copy - may be retargeted as well)
              \/ (a.f = "dup" /\ b.f \in {"self", "other", "ancestor"} /\ b.n > a.n /\ b.n <= Last(nodes, a.n)))
       /\ r.count = (IF ca < 0 \/ cb < 0 THEN 0 - 1 ELSE ca + cb - Len(nodes))
Verdict(r) ==
  IF r.src = "script" /\ ~ScriptOk(r) THEN "HARNESS: the faulted document is not what the fault script yields"
  ELSE IF r.death = "timeout" THEN "loading, building or evaluating did not return (timeout)"
  ELSE IF r.death # "" THEN "the process died"
  ELSE IF r.load \notin LoadContract THEN "loading the model panicked"
  ELSE IF r.build \notin BuildContract THEN "building the evaluator panicked"
  ELSE IF ~(Range(r.inv) \subseteq InvokeContract) THEN "evaluating an invocable panicked"
  ELSE IF r.src = "script" /\ r.count < 0 /\ r.load # "error" THEN "text that is not well-formed XML was loaded as a model"
  ELSE "ok"

VARIABLE i
Init == i \in 1..Len(Recs)
Next == FALSE /\ i' = i
Judged == LET w == Verdict(Recs[i]) IN IF w = "ok" THEN TRUE ELSE PrintT(<<"REJECT", i, w>>)
=============================================================================
