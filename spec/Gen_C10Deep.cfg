INIT Init
NEXT Next
CONSTANT MaxLen = 6
CHECK_DEADLOCK FALSE
