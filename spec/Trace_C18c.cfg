INIT TInit
NEXT TNext
CONSTANT Big = FALSE Wide = FALSE
POSTCONDITION Post
CHECK_DEADLOCK FALSE
