------------------------------ MODULE Gen_C08 ------------------------------
(* Argument tuples for the built-in functions of C08: strings over ASCII,   *)
(* non-ASCII BMP and supplementary-plane characters incl. the empty string; *)
(* lists of length 0..3 with duplicates, nested lists and nulls; every      *)
(* position and length from below -(n+1) to above n+1 incl. 0 and           *)
(* non-integers; every arity including wrong ones.                          *)
EXTENDS Naturals, Integers, Sequences, FiniteSets, TLC, Json
CONSTANT Deep

VN(m, e) == [k |-> "num", m |-> m, e |-> e]
VS(cp) == [k |-> "str", cp |-> cp]
VB(b) == [k |-> "bool", b |-> b]
VNull == [k |-> "null"]
VL(items) == [k |-> "list", items |-> items]
VC(ents) == [k |-> "ctx", ents |-> ents]
Ints(a, b) == {VN(i, 0) : i \in a..b}

Chars == {97, 98, 233, 223, 119070}
Strings == {VS(<<>>), VS(<<97>>), VS(<<97, 98>>), VS(<<98, 97, 98>>), VS(<<233, 97>>), VS(<<119070, 97, 98>>), VS(<<97, 119070>>), VS(<<223>>),
            VS(<<97, 97, 97>>), VS(<<98, 233, 119070, 97>>)}
Matches == {VS(<<>>), VS(<<97>>), VS(<<98>>), VS(<<97, 98>>), VS(<<119070>>), VS(<<233>>), VS(<<122>>)}
Pos == Ints(0 - 5, 5) \cup {VN(15, 0 - 1), VN(0 - 15, 0 - 1)}
Lens == Ints(0 - 1, 5) \cup {VN(15, 0 - 1)}
Elem == {VN(1, 0), VN(2, 0), VNull, VS(<<97>>), VL(<<VN(1, 0)>>)}
Lists0 == {VL(<<>>)} \cup {VL(<<a>>) : a \in Elem} \cup {VL(<<a, b>>) : a \in Elem, b \in Elem}
          \cup {VL(<<a, b, c>>) : a \in {VN(1, 0), VN(2, 0), VNull}, b \in {VN(1, 0), VS(<<97>>)}, c \in {VN(2, 0), VN(1, 0), VL(<<VN(1, 0)>>)}}
NumLists == {VL(<<>>), VL(<<VN(3, 0)>>), VL(<<VN(1, 0), VN(3, 0)>>), VL(<<VN(3, 0), VN(1, 0), VN(2, 0)>>), VL(<<VN(1, 0), VN(1, 0), VN(2, 0), VN(2, 0)>>),
             VL(<<VN(5, 0 - 1), VN(15, 0 - 1)>>), VL(<<VN(1, 0), VNull>>), VL(<<VNull>>), VL(<<VN(4, 0), VN(1, 0), VN(3, 0), VN(2, 0)>>),
             VL(<<VN(2, 0), VN(2, 0), VN(2, 0)>>), VL(<<VN(1, 0), VS(<<97>>)>>), VL(<<VN(0 - 1, 0), VN(1, 0)>>),
             VL(<<VN(1, 0), VN(2, 0), VN(6, 0)>>), VL(<<VN(4, 0), VN(1, 0), VN(1, 0)>>), VL(<<VN(9, 0), VN(1, 0), VN(1, 0), VN(1, 0)>>)}
StrLists == {VL(<<VS(<<98>>), VS(<<97>>)>>), VL(<<VS(<<97>>), VS(<<97, 97>>), VS(<<>>)>>)}
BoolLists == {VL(<<>>), VL(<<VB(TRUE)>>), VL(<<VB(TRUE), VB(FALSE)>>), VL(<<VB(TRUE), VNull>>), VL(<<VNull, VB(FALSE)>>), VL(<<VB(TRUE), VB(TRUE)>>), VL(<<VN(1, 0), VB(FALSE)>>), VL(<<VNull>>)}
L12 == VL(<<VN(1, 0), VN(2, 0)>>)  L123 == VL(<<VN(1, 0), VN(2, 0), VN(3, 0)>>)  L1 == VL(<<VN(1, 0)>>)  L0 == VL(<<>>)
PrefixLists == {VL(<<L12, L123, L1>>), VL(<<L1, L12, L123, L12>>), VL(<<L123>>), VL(<<L0, L1>>), VL(<<L123, L12, L0>>)}
Nested == {VL(<<VL(<<VN(1, 0)>>), VL(<<VN(2, 0), VL(<<VN(3, 0)>>)>>)>>), VL(<<VN(1, 0), VL(<<>>)>>), VL(<<VL(<<VL(<<VN(1, 0)>>)>>)>>)}
Ctxs == {VC(<<>>), VC(<<[n |-> "a", nc |-> <<97>>, v |-> VN(1, 0)]>>), VC(<<[n |-> "a", nc |-> <<97>>, v |-> VNull], [n |-> "b c", nc |-> <<98, 32, 99>>, v |-> VS(<<97>>)]>>)}
Any1 == {VNull, VN(1, 0), VS(<<97>>), VB(TRUE), VL(<<VN(1, 0)>>)}

\* numbers of equal value written with different scales (1 and 1.0, 2 / 2.0 / 2.00, 0.5 / 0.50, 4 / 4.0): one value
ScaleLists == {VL(<<VN(1, 0), VN(10, 0 - 1), VN(2, 0)>>), VL(<<VN(2, 0), VN(20, 0 - 1), VN(200, 0 - 2), VN(3, 0), VN(3, 0)>>),
               VL(<<VN(5, 0 - 1), VN(4, 0), VN(50, 0 - 2), VN(40, 0 - 1), VN(7, 0), VN(7, 0)>>), VL(<<VN(10, 0 - 1), VN(1, 0)>>),
               VL(<<VN(30, 0 - 1), VN(1, 0), VN(3, 0), VN(100, 0 - 2)>>)}
C(f, args) == [fn |-> f, args |-> args]
\* numbers of many digits (coefficient digits, most significant first): items of a stddev that lie close together
VBig(s, c, e) == [k |-> "num", s |-> s, c |-> c, e |-> e]
Zeros(n) == [i \in 1..n |-> 0]
BigNear(d, tail, e) == VBig(0, <<1>> \o Zeros(d) \o tail, e)                     \* 1 0..0 tail  * 10^e
StddevLists ==
  {VL(<<BigNear(18, <<1>>, 0), BigNear(18, <<2>>, 0), BigNear(18, <<3>>, 0)>>),                                  \* 10^19 + 1, + 2, + 3
   VL(<<BigNear(20, <<5>>, 0 - 1), BigNear(19, <<1, 5>>, 0 - 1)>>),                                              \* 10^20 + 0.5, + 1.5
   VL(<<BigNear(15, <<7, 1>>, 0 - 1), BigNear(15, <<7, 2>>, 0 - 1), BigNear(15, <<7, 3>>, 0 - 1), BigNear(15, <<7, 4>>, 0 - 1)>>),
   VL(<<BigNear(28, <<1>>, 0), BigNear(28, <<9>>, 0)>>),
   VL(<<BigNear(16, <<1>>, 5), BigNear(16, <<2>>, 5), BigNear(16, <<4>>, 5)>>),
   VL(<<VBig(1, <<1>> \o Zeros(18) \o <<1>>, 0), VBig(1, <<1>> \o Zeros(18) \o <<3>>, 0)>>),                     \* negative items
   VL(<<BigNear(12, <<1>>, 0), BigNear(12, <<2>>, 0), BigNear(12, <<3>>, 0)>>),
   VL(<<VN(1, 0), VN(2, 0), VN(2, 0)>>), VL(<<VN(0 - 5, 0 - 1), VN(15, 0 - 1)>>), VL(<<VN(1, 0), VN(1, 0)>>), VL(<<VN(1, 6), VN(1, 0 - 6)>>)}
Cases ==
  \* a list followed by further arguments is NOT "the list form": the arguments are the items (a list among numbers)
  {C(f, <<l>> \o rest) : f \in {"min", "max", "sum", "mean", "median", "mode", "stddev"}, l \in {L12, L123, L1, L0},
                          rest \in {<<VN(4, 0)>>, <<L1>>, <<VN(0, 0), VN(9, 0)>>, <<VNull>>}} \cup
  {C("all", <<l>> \o rest) : l \in {VL(<<VB(TRUE), VB(TRUE)>>), VL(<<VB(TRUE)>>), VL(<<>>)}, rest \in {<<VB(FALSE)>>, <<VL(<<VB(FALSE)>>)>>, <<VB(TRUE)>>, <<VB(TRUE), VB(FALSE)>>}} \cup
  {C("stddev", <<l>>) : l \in StddevLists} \cup {C("stddev", l.items) : l \in StddevLists} \cup
  {C(f, <<l>>) : f \in {"min", "max", "sum", "mean", "median", "mode", "stddev", "distinct values", "count", "reverse"}, l \in ScaleLists}
  \cup {C(f, <<l, x>>) : f \in {"index of", "list contains"}, l \in ScaleLists, x \in {VN(1, 0), VN(10, 0 - 1), VN(300, 0 - 2), VN(2, 0)}}
  \cup {C("union", <<a, b>>) : a \in ScaleLists, b \in {VL(<<VN(100, 0 - 2), VN(2, 0)>>)}}
  \* an optional parameter given explicitly as null (positionally and by name: the same answer)
  \cup {C("sublist", <<VL(<<VN(1, 0), VN(2, 0), VN(3, 0), VN(4, 0)>>), p, VNull>>) : p \in {VN(2, 0), VN(0 - 3, 0), VN(1, 0)}}
  \cup {C("substring", <<VS(<<98, 97, 98>>), p, VNull>>) : p \in {VN(2, 0), VN(0 - 1, 0)}}
  \cup {C("sublist", <<VL(<<VN(1, 0), VN(2, 0)>>), VNull, VN(1, 0)>>), C("substring", <<VS(<<98, 97, 98>>), VNull, VN(1, 0)>>), C("insert before", <<VL(<<VN(1, 0)>>), VNull, VN(9, 0)>>),
         C("remove", <<VL(<<VN(1, 0)>>), VNull>>), C("get value", <<VC(<<[n |-> "a", nc |-> <<97>>, v |-> VN(1, 0)]>>), VNull>>)}
  \cup
  {C("substring", <<s, p>>) : s \in Strings, p \in Pos} \cup {C("substring", <<s, p, l>>) : s \in {VS(<<>>), VS(<<98, 97, 98>>), VS(<<119070, 97, 98>>)}, p \in Pos, l \in Lens}
  \cup {C("substring", <<x, VN(1, 0)>>) : x \in Any1} \cup {C("substring", <<VS(<<97>>), x>>) : x \in Any1} \cup {C("substring", <<>>), C("substring", <<VS(<<97>>)>>), C("substring", <<VS(<<97>>), VN(1, 0), VN(1, 0), VN(1, 0)>>)}
  \cup {C("string length", <<s>>) : s \in Strings \cup Any1} \cup {C("string length", <<>>), C("string length", <<VS(<<97>>), VS(<<97>>)>>)}
  \cup {C(f, <<s, m>>) : f \in {"contains", "starts with", "ends with", "substring before", "substring after"}, s \in Strings, m \in Matches}
  \cup {C(f, <<x, y>>) : f \in {"contains", "starts with", "ends with", "substring before", "substring after"}, x \in {VNull, VN(1, 0), VS(<<97>>)}, y \in {VNull, VN(1, 0)}}
  \cup {C(f, <<VS(<<97>>)>>) : f \in {"contains", "starts with", "ends with", "substring before", "substring after"}}
  \cup {C("count", <<l>>) : l \in Lists0 \cup Any1} \cup {C("count", <<>>)}
  \cup {C(f, <<l>>) : f \in {"min", "max", "sum", "mean", "median", "mode", "stddev"}, l \in NumLists \cup StrLists \cup {VNull, VN(7, 0)}}
  \cup {C(f, <<VN(3, 0), VN(1, 0), VN(2, 0)>>) : f \in {"min", "max", "sum", "mean", "median", "mode", "stddev"}} \cup {C(f, <<>>) : f \in {"min", "max", "sum", "mean", "median", "mode", "stddev", "all"}}
  \cup {C("all", <<l>>) : l \in BoolLists \cup {VNull, VB(TRUE)}} \cup {C("all", <<VB(TRUE), VB(FALSE)>>), C("all", <<VB(TRUE), VB(TRUE)>>)}
  \cup {C("not", <<x>>) : x \in Any1 \cup {VB(FALSE)}} \cup {C("not", <<>>), C("not", <<VB(TRUE), VB(TRUE)>>)}
  \cup {C("sublist", <<l, p>>) : l \in Lists0, p \in Pos} \cup {C("sublist", <<l, p, n>>) : l \in {VL(<<>>), VL(<<VN(1, 0), VN(2, 0), VNull>>)}, p \in Pos, n \in Lens}
  \cup {C("sublist", <<x, VN(1, 0)>>) : x \in Any1} \cup {C("sublist", <<VL(<<VN(1, 0)>>)>>)}
  \cup {C("append", <<l, x>>) : l \in Lists0, x \in Any1} \cup {C("append", <<VL(<<VN(1, 0)>>), VN(2, 0), VN(3, 0)>>), C("append", <<VL(<<>>)>>)}
  \cup {C("concatenate", <<a, b>>) : a \in Lists0, b \in {VL(<<>>), VL(<<VN(2, 0)>>), VL(<<VL(<<VN(1, 0)>>), VNull>>)}} \cup {C("concatenate", <<VL(<<VN(1, 0)>>)>>), C("concatenate", <<>>)}
  \cup {C("insert before", <<l, p, x>>) : l \in {VL(<<>>), VL(<<VN(1, 0)>>), VL(<<VN(1, 0), VN(2, 0), VNull>>)}, p \in Pos, x \in {VN(9, 0), VNull, VL(<<VN(9, 0)>>)}}
  \cup {C("insert before", <<VL(<<VN(1, 0)>>), VN(1, 0)>>)}
  \cup {C("remove", <<l, p>>) : l \in Lists0, p \in Pos} \cup {C("remove", <<VL(<<VN(1, 0)>>)>>)}
  \cup {C("reverse", <<l>>) : l \in Lists0 \cup Nested \cup Any1}
  \cup {C(f, <<l, x>>) : f \in {"index of", "list contains"}, l \in Lists0, x \in Elem \cup {VN(2, 0 - 0), VB(TRUE)}}
  \cup {C("union", <<a, b>>) : a \in Lists0, b \in {VL(<<>>), VL(<<VN(2, 0), VN(1, 0)>>), VL(<<VS(<<97>>), VNull>>)}} \cup {C("union", <<VL(<<VN(1, 0), VN(1, 0)>>)>>)}
  \cup {C("distinct values", <<l>>) : l \in Lists0 \cup Nested \cup Any1 \cup PrefixLists}
  \cup {C(f, <<l, x>>) : f \in {"index of", "list contains"}, l \in PrefixLists, x \in {L12, L1, L0, L123}}
  \cup {C("union", <<a, b>>) : a \in PrefixLists, b \in {VL(<<L12>>), VL(<<L0, L123>>)}}
  \cup {C("flatten", <<l>>) : l \in Lists0 \cup Nested \cup Any1}
  \cup {C("get value", <<c, key>>) : c \in Ctxs \cup {VNull, VN(1, 0)}, key \in {VS(<<97>>), VS(<<98, 32, 99>>), VS(<<122>>), VNull, VN(1, 0)}} \cup {C("get value", <<VC(<<>>)>>)}
  \cup {C("get entries", <<c>>) : c \in Ctxs \cup {VNull, VL(<<>>)}}
  \cup {C("string", <<x>>) : x \in Any1 \cup Strings \cup {VB(FALSE)}} \cup {C("string", <<>>)}

\* the regular-expression family: syntax trees (Regex.tla) rendered as pattern text
Re == INSTANCE Regex
RAtoms == {Re!Chr(97), Re!Chr(98), Re!Chr(32), [r |-> "any"], [r |-> "cls", set |-> <<97, 98>>, neg |-> FALSE], [r |-> "cls", set |-> <<97>>, neg |-> TRUE],
           [r |-> "rng", lo |-> 97, hi |-> 98, neg |-> FALSE], Re!Chr(46)}
RUnary == {Re!Star(a) : a \in RAtoms} \cup {Re!Plus(a) : a \in RAtoms} \cup {Re!Opt(a) : a \in RAtoms} \cup {Re!Grp(a, 1) : a \in RAtoms}
RSmall == {Re!Chr(97), Re!Chr(98), [r |-> "any"], Re!Plus(Re!Chr(97)), Re!Star(Re!Chr(98)), Re!Grp(Re!Chr(97), 1)}
RBinary == {Re!Cat(a, b) : a \in RSmall, b \in RSmall \ {Re!Grp(Re!Chr(97), 1)}} \cup {Re!Alt(a, b) : a \in RSmall \ {Re!Grp(Re!Chr(97), 1)}, b \in {Re!Chr(98), Re!Plus(Re!Chr(97)), [r |-> "any"]}}
RSpecial == {Re!Alt(Re!Cat(Re!Chr(97), Re!Chr(98)), Re!Chr(97)), Re!Alt(Re!Chr(97), Re!Cat(Re!Chr(97), Re!Chr(98))),           \* ab|a  a|ab : ordered alternation
             Re!Cat(Re!Grp(Re!Plus(Re!Chr(97)), 1), Re!Chr(98)), Re!Cat(Re!Grp(Re!Chr(97), 1), Re!Grp(Re!Opt(Re!Chr(98)), 2)),
             Re!Star(Re!Alt(Re!Chr(97), Re!Cat(Re!Chr(98), Re!Chr(97)))), Re!Cat(Re!Star([r |-> "any"]), Re!Chr(98)),                 \* greedy then backtrack
             Re!Cat([r |-> "bol"], Re!Chr(97)), Re!Cat(Re!Chr(98), [r |-> "eol"]), Re!Plus(Re!Grp(Re!Alt(Re!Chr(97), Re!Chr(98)), 1)),
             Re!Cat(Re!Chr(32), Re!Plus(Re!Chr(32)))}
Regexes == RAtoms \cup RUnary \cup RBinary \cup RSpecial
RStr3 == UNION {[1..k -> {97, 98, 32}] : k \in 0..3}
RStrings == {VS(s) : s \in RStr3} \cup {VS(<<32, 97, 32>>), VS(<<97, 97, 98, 32, 97, 98>>), VS(<<98, 97, 46, 97, 98>>), VS(<<97, 98, 97, 98, 97>>), VS(<<32, 32, 97, 32, 32>>)}
RStringsI == {VS(<<65, 66>>), VS(<<97, 66>>), VS(<<65, 98, 32>>), VS(<<98>>), VS(<<66, 65, 98, 97>>)}
Reps == {VS(<<>>), VS(<<120>>), VS(<<91, 36, 49, 93>>), VS(<<36, 49, 36, 49>>), VS(<<60, 92, 36, 62>>), VS(<<36>>)}        \* "" x [$1] $1$1 <\$> $
CR(f, args, re) == [fn |-> f, args |-> args, re |-> re]
\* counted repetitions (small and large counts) of characters and of the class escapes \w \d \s \p{L} and their negations,
\* anchored and not, on subjects made of letters (ASCII and not), digits, blanks and hyphens
Uc(c, neg) == [r |-> "uc", c |-> c, neg |-> neg]
Rep(a, lo, hi) == [r |-> "rep", a |-> a, lo |-> lo, hi |-> hi]
UcAtoms == {Uc("w", FALSE), Uc("d", FALSE), Uc("s", FALSE), Uc("L", FALSE), Uc("w", TRUE), Uc("d", TRUE), Uc("L", TRUE)}
Anchored(r) == Re!Cat([r |-> "bol"], Re!Cat(r, [r |-> "eol"]))
RCounted == UcAtoms
            \cup {Rep(a, lo, hi) : a \in UcAtoms \cup {Re!Chr(97), [r |-> "rng", lo |-> 97, hi |-> 98, neg |-> FALSE]}, lo \in {0, 2}, hi \in {2, 3, 40}}
            \cup {Anchored(Rep(a, lo, hi)) : a \in {Uc("w", FALSE), Uc("L", FALSE), Uc("d", FALSE)}, lo \in {1, 8}, hi \in {8, 30, 64}}
            \cup {Rep(Uc("w", FALSE), 30, 30), Rep(Uc("L", FALSE), 1, 50), Anchored(Rep([r |-> "cls", set |-> <<97, 49>>, neg |-> FALSE], 3, 64)),
                  Re!Cat(Rep(Uc("L", FALSE), 1, 40), Re!Cat(Re!Chr(45), Rep(Uc("d", FALSE), 2, 4)))}
UcStrings == {VS(<<>>), VS(<<97>>), VS(<<97, 98, 99>>), VS(<<80, 97, 115, 115, 119, 48, 114, 100, 49, 50, 51, 52>>), VS(<<97, 98, 45, 49, 50, 51>>),
              VS(<<49, 97, 98, 99, 50, 380, 243, 322, 263, 51>>), VS(<<32, 97, 32, 57>>), VS(<<233, 20013, 1078>>), VS(<<49, 50, 51, 52, 53, 54, 55, 56, 57>>), VS(<<45, 45>>)}
RegexCases ==
  {CR("matches", <<s, VS(Re!Render(r))>>, r) : r \in RCounted, s \in UcStrings}
  \cup {CR("split", <<s, VS(Re!Render(r))>>, r) : r \in RCounted, s \in UcStrings}
  \cup {CR("replace", <<s, VS(Re!Render(r)), VS(<<35>>)>>, r) : r \in RCounted, s \in UcStrings}
  \cup
  {CR("matches", <<s, VS(Re!Render(r))>>, r) : r \in Regexes, s \in RStrings}
  \cup {CR("split", <<s, VS(Re!Render(r))>>, r) : r \in Regexes, s \in RStrings}
  \cup {CR("replace", <<s, VS(Re!Render(r)), rep>>, r) : r \in Regexes, s \in RStrings, rep \in Reps}
  \cup {CR("matches", <<s, VS(Re!Render(r)), VS(<<>>)>>, r) : r \in RSpecial, s \in {VS(<<97, 98>>), VS(<<98>>)}}
  \cup {CR("replace", <<s, VS(Re!Render(r)), VS(<<120>>), VS(<<>>)>>, r) : r \in RSpecial, s \in {VS(<<97, 98>>), VS(<<98>>)}}
  \cup {CR("matches", <<s, VS(Re!Render(r)), fl>>, r) : r \in RAtoms \cup RSpecial \cup {Re!Chr(66), Re!Cat(Re!Chr(65), Re!Chr(98))}, s \in RStringsI, fl \in {VS(<<105>>), VS(<<>>)}}
  \cup {CR("matches", <<s, VS(Re!Render(r))>>, r) : r \in {Re!Chr(66), Re!Cat(Re!Chr(65), Re!Chr(98))}, s \in RStringsI}
  \cup {CR("replace", <<s, VS(Re!Render(r)), rep, fl>>, r) : r \in RAtoms \cup RSpecial, s \in RStringsI, rep \in {VS(<<120>>), VS(<<91, 36, 49, 93>>)}, fl \in {VS(<<105>>), VS(<<>>)}}
  \cup {CR("matches", <<s, VS(Re!Render(r)), VNull>>, r) : r \in {Re!Chr(97), Re!Chr(66)}, s \in {VS(<<97, 98>>), VS(<<98>>)}}            \* flags explicitly null
  \cup {CR("replace", <<s, VS(Re!Render(r)), VS(<<120>>), VNull>>, r) : r \in {Re!Chr(97), Re!Chr(66)}, s \in {VS(<<97, 98>>), VS(<<98>>)}}
  \cup {CR(f, <<x, VS(<<97>>)>>, Re!Chr(97)) : f \in {"matches", "split"}, x \in {VNull, VN(1, 0)}}
  \cup {CR("replace", <<VS(<<97>>), VS(<<97>>), x>>, Re!Chr(97)) : x \in {VNull, VN(1, 0)}}
ASSUME \A c \in RegexCases : PrintT(<<"CASE", ToJson(c)>>)
ASSUME PrintT(<<"RCOUNT", Cardinality(Regexes), Cardinality(RegexCases)>>)

\* number(from, grouping separator, decimal separator)
NumTexts == {VS(<<49>>), VS(<<49, 50, 51>>), VS(<<49, 46, 53>>), VS(<<49, 44, 53>>), VS(<<49, 32, 48, 48, 48>>), VS(<<49, 44, 48, 48, 48, 46, 50, 53>>), VS(<<49, 46, 48, 48, 48, 44, 50, 53>>),
             VS(<<45, 49, 50>>), VS(<<45, 46, 53>>), VS(<<46, 53>>), VS(<<49, 46>>), VS(<<>>), VS(<<97>>), VS(<<49, 101, 51>>), VS(<<49, 44, 50, 44, 51>>), VS(<<49, 50, 44, 51, 52>>),
             VS(<<32, 49>>), VS(<<43, 49>>), VS(<<49, 48, 48, 44, 48, 48, 48>>), VS(<<48, 46, 48, 49, 48>>), VS(<<45>>), VS(<<49, 46, 50, 46, 51>>)}
Seps == {VNull, VS(<<32>>), VS(<<44>>), VS(<<46>>), VS(<<59>>), VN(1, 0)}
NumberCases == {C("number", <<t, g, d>>) : t \in NumTexts, g \in Seps, d \in Seps \ {VS(<<32>>)}}
               \cup {C("number", <<x, VNull, VNull>>) : x \in {VNull, VN(1, 0), VB(TRUE)}} \cup {C("number", <<VS(<<49>>)>>), C("number", <<VS(<<49>>), VNull>>)}
ASSUME \A c \in NumberCases : PrintT(<<"CASE", ToJson(c)>>)

\* sort(list, precedes): lists of numbers (with equal values of different scale), strings, contexts, mixed kinds, nulls
CSort(args, cmp) == [fn |-> "sort", args |-> args, cmp |-> cmp]
SNums == {VN(1, 0), VN(2, 0), VN(20, 0 - 1), VN(3, 0), VN(0 - 1, 0), VN(15, 0 - 1)}
SortNumLists == {VL(<<>>)} \cup {VL(<<a>>) : a \in SNums} \cup {VL(<<a, b>>) : a \in SNums, b \in SNums} \cup {VL(<<a, b, c>>) : a \in SNums, b \in SNums, c \in {VN(2, 0), VN(0 - 1, 0), VN(3, 0)}}
                \cup {VL(<<VN(3, 0), VN(1, 0), VN(2, 0), VN(0 - 1, 0)>>), VL(<<VN(1, 0), VN(2, 0), VN(3, 0), VN(4, 0), VN(5, 0)>>), VL(<<VN(5, 0), VN(4, 0), VN(3, 0), VN(2, 0), VN(1, 0)>>),
                      VL(<<VN(2, 0), VN(1, 0), VN(2, 0), VN(1, 0), VN(2, 0), VN(1, 0)>>)}
SStrs == {VS(<<>>), VS(<<97>>), VS(<<98>>), VS(<<97, 98>>), VS(<<233>>), VS(<<66>>)}
SortStrLists == {VL(<<a, b>>) : a \in SStrs, b \in SStrs} \cup {VL(<<VS(<<98>>), VS(<<97, 98>>), VS(<<>>), VS(<<97>>)>>)}
KeyCtx(a, b) == VC(<<[n |-> "a", nc |-> <<97>>, v |-> a], [n |-> "b", nc |-> <<98>>, v |-> b]>>)
SortCtxLists == {VL(<<KeyCtx(VN(2, 0), VN(1, 0)), KeyCtx(VN(1, 0), VN(2, 0)), KeyCtx(VN(2, 0), VN(0, 0))>>), VL(<<KeyCtx(VN(3, 0), VN(1, 0)), KeyCtx(VN(1, 0), VN(1, 0))>>),
                 VL(<<KeyCtx(VS(<<98>>), VN(1, 0)), KeyCtx(VS(<<97>>), VN(2, 0))>>), VL(<<KeyCtx(VN(1, 0), VN(1, 0)), VC(<<>>)>>), VL(<<KeyCtx(VN(1, 0), VN(1, 0)), VN(1, 0)>>)}
SortOdd == {VL(<<VN(3, 0), VS(<<97>>), VN(1, 0)>>), VL(<<VN(3, 0), VNull, VN(1, 0)>>), VL(<<VL(<<VN(2, 0)>>), VL(<<VN(1, 0)>>)>>), VL(<<VB(TRUE), VB(FALSE)>>)}
SortCases ==
  {CSort(<<l, VNull>>, c) : l \in SortNumLists \cup SortStrLists \cup SortOdd, c \in {"lt", "gt", "le", "ge"}}
  \cup {CSort(<<l, VNull>>, "a-lt") : l \in SortCtxLists \cup {VL(<<>>), VL(<<VN(1, 0), VN(2, 0)>>)}}
  \cup {CSort(<<l, VNull>>, c) : l \in {VL(<<VN(3, 0), VN(1, 0), VN(2, 0)>>), VL(<<>>), VL(<<VN(1, 0)>>)}, c \in {"null", "const", "arity1", "arity3"}}
  \cup {CSort(<<l, VN(5, 0)>>, "notfn") : l \in {VL(<<VN(3, 0), VN(1, 0)>>), VL(<<>>)}}
  \cup {CSort(<<l>>, "none") : l \in {VL(<<VN(3, 0), VN(1, 0)>>), VL(<<>>), VNull}}
  \cup {CSort(<<x, VNull>>, "lt") : x \in {VNull, VN(1, 0), VS(<<97>>)}}
  \cup {CSort(<<VL(<<VN(2, 0), VN(1, 0)>>), VNull, VN(1, 0)>>, "lt")}
ASSUME \A c \in SortCases : PrintT(<<"CASE", ToJson(c)>>)
ASSUME PrintT(<<"SCOUNT", Cardinality(SortCases)>>)

ASSUME \A c \in Cases : PrintT(<<"CASE", ToJson(c)>>)
ASSUME PrintT(<<"COUNT", Cardinality(Cases)>>)
VARIABLE v
Init == v = 0
Next == FALSE /\ v' = v
=============================================================================
