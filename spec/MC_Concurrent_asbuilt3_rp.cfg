SPECIFICATION Spec
CONSTANTS
 Threads <- MCThreads
 Locks <- MCLocks
 Script <- MCScript
 Semantics = "rp"
 SharedScope <- MCShared
 F <- MCF
 Design = "asbuilt"
 NThreads = 3
 Depth = 1
INVARIANT ResultsIntact
INVARIANT NoDeadlock
INVARIANT LockInv
INVARIANT CleanEnd
CHECK_DEADLOCK FALSE
