SPECIFICATION Spec
CONSTANT YearsBack = 2371
CONSTANT LastYear = 2401
INVARIANT Agrees
CHECK_DEADLOCK FALSE
