------------------------------- MODULE Stddev -------------------------------
(***************************************************************************)
(* stddev(x1, .., xn), n >= 2: the sample standard deviation               *)
(*     sqrt( sum (xi - mean)^2 / (n - 1) )                                 *)
(* judged RELATIONALLY over natural-number arithmetic (Bignum.tla): the     *)
(* standard gives the formula, not the order of the roundings, so the       *)
(* observed result r is accepted when the exact variance lies between       *)
(* (r - d)^2 and (r + d)^2 for d = 10^-20 * (max |xi| + r): fourteen digits *)
(* of slack over what any evaluation of the formula in 34-digit arithmetic  *)
(* loses (the rounding of the mean costs about 10^-34 * max |xi|), and far  *)
(* less than what a formula that cancels catastrophically loses (the        *)
(* difference sum xi^2 - (sum xi)^2 / n for items of 18 and more digits     *)
(* that lie close together).                                                *)
(* Numbers are records [s, c (digits, most significant first), e].          *)
(***************************************************************************)
EXTENDS Naturals, Integers, Sequences
LOCAL INSTANCE Bignum

LOCAL Mag(x) == FromDigits(x.c)
LOCAL IsZ(x) == x.c = <<>>
LOCAL Adj(x) == x.e + Len(x.c) - 1
RECURSIVE MinE(_, _), SumWhere(_, _, _, _), SumSq(_, _, _), MaxMag(_, _, _)
LOCAL MinE(xs, i) == IF i > Len(xs) THEN 100000 ELSE LET m == MinE(xs, i + 1) IN IF ~IsZ(xs[i]) /\ xs[i].e < m THEN xs[i].e ELSE m
LOCAL Scaled(x, g) == IF IsZ(x) THEN Zero ELSE MulPow10(Mag(x), x.e - g)            \* |x| in units of 10^g
LOCAL SumWhere(xs, g, sign, i) == IF i > Len(xs) THEN Zero
                                  ELSE LET r == SumWhere(xs, g, sign, i + 1) IN IF xs[i].s = sign THEN Add(Scaled(xs[i], g), r) ELSE r
LOCAL SumSq(xs, g, i) == IF i > Len(xs) THEN Zero ELSE LET v == Scaled(xs[i], g) IN Add(Mul(v, v), SumSq(xs, g, i + 1))
LOCAL MaxMag(xs, g, i) == IF i > Len(xs) THEN Zero ELSE LET v == Scaled(xs[i], g)  r == MaxMag(xs, g, i + 1) IN IF Cmp(v, r) > 0 THEN v ELSE r

\* n * (n - 1) * variance, in units of 10^(2g)
VarTimes(xs, g) == LET n == Len(xs)
                       d == AbsDiff(SumWhere(xs, g, 0, 1), SumWhere(xs, g, 1, 1)) IN
                   Sub(MulS(SumSq(xs, g, 1), n), Mul(d, d))

\* "ok", "unspec", or what is wrong with the observed value o (a number record with fin, s, c, e; or another kind)
Judge(xs, o) ==
  LET n == Len(xs) IN
  IF n < 2 THEN "unspec"
  ELSE IF \E i \in 1..n : ~IsZ(xs[i]) /\ (Adj(xs[i]) > 1000 \/ xs[i].e < 0 - 1000) THEN "unspec"      \* squares near the ends of the range
  ELSE IF o.k # "num" THEN "stddev of two or more numbers must be a number"
  ELSE IF ~o.fin THEN "an infinite or NaN value was produced"
  ELSE IF o.s = 1 /\ o.c # <<>> THEN "stddev must not be negative"
  ELSE IF o.c # <<>> /\ (Adj(o) > 1100 \/ o.e < 0 - 1200) THEN "stddev: a result of the wrong magnitude"
  ELSE
    LET e0 == MinE(xs, 1)
        emin == IF e0 = 100000 THEN 0 ELSE e0
        fe == IF o.c = <<>> THEN emin ELSE o.e
        g == (IF emin < fe THEN emin ELSE fe) - 20                        \* everything below is a natural number of units 10^g
        R == Scaled(o, g)
        D == Add(MulPow10(MaxMag(xs, emin, 1), emin - 20 - g), Scaled(o, g + 20))      \* 10^-20 (max |xi| + r), rounded down; + 1 below
        d1 == Add(D, <<1>>)
        lo == IF Cmp(R, d1) > 0 THEN Sub(R, d1) ELSE Zero
        hi == Add(R, d1)
        nn == n * (n - 1)
        V == MulPow10(VarTimes(xs, emin), 2 * (emin - g))                 \* n (n - 1) variance in units of 10^(2g)
    IN IF Cmp(MulS(Mul(lo, lo), nn), V) > 0 THEN "stddev: the result is too large (by more than 10^-20 of the items' magnitude)"
       ELSE IF Cmp(V, MulS(Mul(hi, hi), nn)) > 0 THEN "stddev: the result is too small (by more than 10^-20 of the items' magnitude)"
       ELSE "ok"
=============================================================================
