------------------------------ MODULE Gen_C11 ------------------------------
(* Item definition trees to depth 3 (all eight simple typeRefs at depth 1,  *)
(* a subset below; with and without allowed values; referenced, component   *)
(* and collection-of variants of each) and, for each tree, values that      *)
(* conform and values that violate it at every position of the tree, plus a *)
(* pool holding one value of every FEEL kind.                               *)
EXTENDS Naturals, Integers, Sequences, FiniteSets, SequencesExt, TLC, Json
CONSTANT Deep

Simple(ty, av) == [d |-> "simple", ty |-> ty, av |-> av]
Ref(T) == [d |-> "ref", to |-> T]
Comp(cs) == [d |-> "comp", cs |-> cs]
Coll(T) == [d |-> "coll", of |-> T]
C2(p, q) == Comp(<<[name |-> "p", ty |-> p], [name |-> "q", ty |-> q]>>)

AllSimple == {"number", "string", "boolean", "date", "time", "dateTime", "dayTimeDuration", "yearMonthDuration"}
Num == Simple("number", "none")  Str == Simple("string", "none")  Boo == Simple("boolean", "none")  Dat == Simple("date", "none")
Num12 == Simple("number", "num12")  StrAB == Simple("string", "strab")

L1 == {Simple(t, "none") : t \in AllSimple} \cup {Num12, StrAB}
Sub == IF Deep THEN {Num, Str, Dat, Num12, StrAB, Boo} ELSE {Num, Str, Num12}
L2 == {Ref(x) : x \in Sub} \cup {C2(x, y) : x \in Sub, y \in Sub} \cup {Coll(x) : x \in L1}
Sub2 == {Ref(Num12), C2(Num, Str), Coll(Num), Coll(StrAB)}
L3 == {Ref(x) : x \in Sub2} \cup {C2(x, y) : x \in Sub2, y \in {Num, Coll(Str)}} \cup {Coll(Ref(x)) : x \in {Num12, C2(Num, Str), Coll(Num)}}
      \cup {Coll(C2(Num, Str)), Coll(C2(Num12, Coll(Str))), C2(C2(Num, Str), C2(Num12, Coll(Num)))}
Types == L1 \cup L2 \cup L3

\* ---- values
VN(m) == [k |-> "num", m |-> m, e |-> 0]
VS(cp) == [k |-> "str", cp |-> cp]
VB == [k |-> "bool", b |-> TRUE]
VNull == [k |-> "null"]
VD == [k |-> "date", y |-> 2021, m |-> 2, d |-> 28]
VT == [k |-> "time", h |-> 10, mi |-> 20, s |-> 30, ns |-> 0, zk |-> "utc", off |-> 0, zn |-> ""]
VDT == [k |-> "dt", date |-> VD, time |-> VT]
VDTD == [k |-> "dtd", neg |-> FALSE, sec |-> <<9, 0>>, ns |-> 0]
VYMD == [k |-> "ymd", neg |-> FALSE, mo |-> <<1, 4>>]
VL(items) == [k |-> "list", items |-> items]
VC(ents) == [k |-> "ctx", ents |-> ents]
E(n, v) == [n |-> n, v |-> v]
Pool == {VNull, VN(1), VN(5), VS(<<97>>), VS(<<122>>), VB, VD, VT, VDT, VDTD, VYMD, VL(<<>>), VL(<<VN(1)>>), VL(<<VN(1), VS(<<97>>), VN(3)>>),
         VC(<<>>), VC(<<E("p", VN(1)), E("q", VS(<<97>>))>>), VL(<<VL(<<VN(1)>>)>>)}

SampleOf(ty) == CASE ty = "number" -> VN(1) [] ty = "string" -> VS(<<97>>) [] ty = "boolean" -> VB [] ty = "date" -> VD
                  [] ty = "time" -> VT [] ty = "dateTime" -> VDT [] ty = "dayTimeDuration" -> VDTD [] ty = "yearMonthDuration" -> VYMD
OtherKind(ty) == IF ty = "string" THEN VN(1) ELSE IF ty = "dateTime" THEN VD ELSE IF ty = "date" THEN VDT ELSE VS(<<97>>)

\* a conforming value, and values violating the type at one position
RECURSIVE Conf(_), Viol(_)
Conf(T) == CASE T.d = "simple" -> SampleOf(T.ty)
             [] T.d = "ref" -> Conf(T.to)
             [] T.d = "comp" -> VC([i \in 1..Len(T.cs) |-> E(T.cs[i].name, Conf(T.cs[i].ty))])
             [] T.d = "coll" -> VL(<<Conf(T.of), Conf(T.of)>>)
Viol(T) ==
  CASE T.d = "simple" -> {OtherKind(T.ty)} \cup (IF T.av = "num12" THEN {VN(5)} ELSE IF T.av = "strab" THEN {VS(<<122>>)} ELSE {})
    [] T.d = "ref" -> Viol(T.to)
    [] T.d = "comp" -> {VN(7), VL(<<Conf(T)>>)}
          \cup UNION {{VC([j \in 1..Len(T.cs) |-> E(T.cs[j].name, IF j = i THEN bad ELSE Conf(T.cs[j].ty))]) : bad \in Viol(T.cs[i].ty)} : i \in 1..Len(T.cs)}
          \cup {VC(<<E(T.cs[1].name, Conf(T.cs[1].ty))>>)}                                                    \* a component missing
          \cup {VC([i \in 1..Len(T.cs) |-> E(T.cs[i].name, Conf(T.cs[i].ty))] \o <<E("extra", VN(1))>>)}      \* an extra entry
    [] T.d = "coll" -> {Conf(T.of)}                                                                           \* a single value, not a list
          \cup {VL(<<Conf(T.of), bad, Conf(T.of)>>) : bad \in Viol(T.of)} \cup {VL(<<bad>>) : bad \in Viol(T.of)}

Extra(T) == IF T.d = "coll" THEN {VL(<<>>), VL(<<Conf(T.of)>>)} ELSE {}
Cases == {[ty |-> T, vals |-> SetToSeq({Conf(T)} \cup Viol(T) \cup Extra(T) \cup Pool)] : T \in Types}
ASSUME \A c \in Cases : PrintT(<<"CASE", ToJson(c)>>)
ASSUME PrintT(<<"COUNT", Cardinality(Types)>>)
VARIABLE v
Init == v = 0
Next == FALSE /\ v' = v
=============================================================================
