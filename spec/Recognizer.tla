----------------------------- MODULE Recognizer -----------------------------
(***************************************************************************)
(* Decision tables drawn as text (DMN 1.3, 8.2 "decision table" layouts as  *)
(* the command line tool reads them): the DRAWING CONFIGURATION and the     *)
(* decision table it denotes.                                               *)
(*                                                                         *)
(* A configuration t (also the input of the harness's drawer):              *)
(*   orient  "rows" (rules as rows) | "cols" (rules as columns)             *)
(*   info    information item name ("" = no name box), infow "narrow" |     *)
(*           "equal" (width of the box relative to the table)               *)
(*   hp      the hit policy marker  U A P F R O C C+ C< C> C#               *)
(*   vals    allowed input / output values are drawn                        *)
(*   label   [some |-> BOOLEAN, text] the output label                      *)
(*   ins     << [expr, vals] >>     outs  << [name, vals] >>                *)
(*   anns    << annotation name >>                                          *)
(*   rules   << [ins: << text >>, outs: << text >>, anns: << text >>] >>    *)
(*   style   "tight" | "wide" | "multi" | "merged" (cell widths, multi-line  *)
(*           cells, equal neighbouring entries drawn as one cell)           *)
(* Denotes(t) is what recognition must give back: same orientation, name,   *)
(* policy and aggregator, same input expressions, output names, allowed     *)
(* values, annotations and rule entries in the same order (texts compared   *)
(* after white-space normalisation - a cell may be padded and wrapped).     *)
(***************************************************************************)
EXTENDS Naturals, Sequences

Markers == {"U", "A", "P", "F", "R", "O", "C", "C+", "C<", "C>", "C#"}
None == [some |-> FALSE, text |-> ""]
Some(x) == [some |-> TRUE, text |-> x]

Denotes(t) ==
  [orient |-> t.orient,
   info |-> IF t.info = "" THEN None ELSE Some(t.info),
   hp |-> t.hp,
   ins |-> [i \in 1..Len(t.ins) |-> [expr |-> t.ins[i].expr, vals |-> IF t.vals THEN Some(t.ins[i].vals) ELSE None]],
   outs |-> [j \in 1..Len(t.outs) |-> [name |-> IF Len(t.outs) > 1 THEN Some(t.outs[j].name) ELSE None,
                                         vals |-> IF t.vals THEN Some(t.outs[j].vals) ELSE None]],
   label |-> t.label,
   anns |-> t.anns,
   rules |-> [r \in 1..Len(t.rules) |-> [ins |-> t.rules[r].ins, outs |-> t.rules[r].outs, anns |-> t.rules[r].anns]]]

\* a single output without a label is drawn as an empty header cell: recognised as no label or as an empty one
LabelOk(want, got) == got = want \/ (~want.some /\ got = Some(""))

\* the first difference between what was recognised (got) and what the drawing denotes, or ""
Difference(t, got) ==
  LET want == Denotes(t) IN
  IF got.orient # want.orient THEN "orientation"
  ELSE IF got.info # want.info THEN "information item name"
  ELSE IF got.hp # want.hp THEN "hit policy or aggregator"
  ELSE IF Len(got.ins) # Len(want.ins) THEN "number of inputs"
  ELSE IF Len(got.outs) # Len(want.outs) THEN "number of outputs"
  ELSE IF Len(got.anns) # Len(want.anns) THEN "number of annotations"
  ELSE IF Len(got.rules) # Len(want.rules) THEN "number of rules"
  ELSE IF \E i \in 1..Len(want.ins) : got.ins[i].expr # want.ins[i].expr THEN "input expression"
  ELSE IF \E i \in 1..Len(want.ins) : got.ins[i].vals # want.ins[i].vals THEN "allowed input values"
  ELSE IF \E j \in 1..Len(want.outs) : got.outs[j].name # want.outs[j].name THEN "output name"
  ELSE IF \E j \in 1..Len(want.outs) : got.outs[j].vals # want.outs[j].vals THEN "allowed output values"
  ELSE IF ~LabelOk(want.label, got.label) THEN "output label"
  ELSE IF got.anns # want.anns THEN "annotation names"
  ELSE IF \E r \in 1..Len(want.rules) : got.rules[r].ins # want.rules[r].ins THEN "input entries of a rule"
  ELSE IF \E r \in 1..Len(want.rules) : got.rules[r].outs # want.rules[r].outs THEN "output entries of a rule"
  ELSE IF \E r \in 1..Len(want.rules) : got.rules[r].anns # want.rules[r].anns THEN "annotation entries of a rule"
  ELSE ""
=============================================================================
