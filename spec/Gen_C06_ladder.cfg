INIT Init
NEXT Next
CONSTANT Triples = "ladder"
CHECK_DEADLOCK FALSE
