------------------------------ MODULE Gen_C16 ------------------------------
(* The type universe of C16 (ten simple types closed under list, range,     *)
(* context with 0..2 entries over {a, b} and function with 0..2 parameters, *)
(* to depth 2, the deeper components drawn from representative subsets) and *)
(* a pool of values inhabiting them.  MC part: the laws hold for the        *)
(* specification's own relations over the whole universe.                   *)
EXTENDS FeelType, FiniteSets, SequencesExt, TLC, Json
CONSTANT Wide

S == {Simple(n) : n \in SimpleNames}
Rep3 == {Simple("number"), Simple("string"), Simple("Any")}
Rep4 == Rep3 \cup {Simple("Null")}
Rep2 == {Simple("number"), Simple("Any")}
RepW == IF Wide THEN Rep4 \cup {Simple("date")} ELSE Rep3

D1 == {TList(x) : x \in S} \cup {TRange(x) : x \in S}
      \cup {TCtx(<<>>)}
      \cup {TCtx(<<Ent("a", x)>>) : x \in Rep4} \cup {TCtx(<<Ent("b", x)>>) : x \in Rep4}
      \cup {TCtx(<<Ent("a", x), Ent("b", y)>>) : x \in RepW, y \in RepW}
      \cup {TFn(<<>>, x) : x \in Rep4 \cup {Simple("boolean")}}
      \cup {TFn(<<x>>, y) : x \in RepW, y \in RepW}
      \cup {TFn(<<x, y>>, z) : x \in Rep2, y \in Rep2, z \in Rep2}

D1Rep == {TList(Simple("number")), TList(Simple("Any")), TRange(Simple("number")),
          TCtx(<<Ent("a", Simple("number"))>>), TCtx(<<Ent("a", Simple("number")), Ent("b", Simple("string"))>>),
          TFn(<<>>, Simple("number")), TFn(<<>>, Simple("string")), TFn(<<Simple("number")>>, Simple("number"))}
         \cup (IF Wide THEN {TList(Simple("Null")), TCtx(<<>>), TFn(<<Simple("Any")>>, Simple("number")),
                             TCtx(<<Ent("a", Simple("Any"))>>)} ELSE {})

D2 == {TList(x) : x \in D1Rep} \cup {TRange(TRange(Simple("number")))}
      \cup {TCtx(<<Ent("a", x)>>) : x \in D1Rep}
      \cup {TFn(<<>>, x) : x \in D1Rep} \cup {TFn(<<x>>, Simple("number")) : x \in D1Rep}
      \cup (IF Wide THEN {TFn(<<x>>, y) : x \in D1Rep, y \in D1Rep} ELSE {})

USet == S \cup D1 \cup D2
U == SetToSeq(USet)

\* ---- laws on the specification's relations (MC) ----
\* (LET-bound so that TLC evaluates the matrices once)
SpecLaws ==
  LET u   == U
      NU  == Len(u)
      EqM == [i \in 1..NU |-> [j \in 1..NU |-> Equiv(u[i], u[j])]]
      CfM == [i \in 1..NU |-> [j \in 1..NU |-> Conforms(u[i], u[j])]]
      any == CHOOSE a \in 1..NU : u[a] = Simple("Any")
      nul == CHOOSE a \in 1..NU : u[a] = Simple("Null")
  IN
  /\ \A i \in 1..NU : EqM[i][i] /\ CfM[i][i]
  /\ \A i, j \in 1..NU : EqM[i][j] = EqM[j][i]
  /\ \A i, j \in 1..NU : EqM[i][j] => (CfM[i][j] /\ CfM[j][i])
  /\ \A i, j, k \in 1..NU : (CfM[i][j] /\ CfM[j][k]) => CfM[i][k]
  /\ \A i, j, k \in 1..NU : (EqM[i][j] /\ EqM[j][k]) => EqM[i][k]
  /\ \A i \in 1..NU : CfM[i][any] /\ CfM[nul][i]

\* ---- value pool ----
Num(m) == [k |-> "num", s |-> 0, c |-> <<m>>, e |-> 0]
Str(c) == [k |-> "str", cp |-> <<c>>]
Lst(x) == [k |-> "list", items |-> x]
Ctx(es) == [k |-> "ctx", ents |-> es]
CE(n, nc, v) == [n |-> n, nc |-> nc, v |-> v]
V == << [k |-> "null"], Num(1), Str(97), [k |-> "bool", b |-> TRUE],
        [k |-> "date", y |-> 2021, m |-> 1, d |-> 1],
        [k |-> "time", h |-> 10, mi |-> 0, s |-> 0, ns |-> 0, zk |-> "utc", off |-> 0, zn |-> ""],
        [k |-> "dt", date |-> [k |-> "date", y |-> 2021, m |-> 1, d |-> 1], time |-> [k |-> "time", h |-> 10, mi |-> 0, s |-> 0, ns |-> 0, zk |-> "utc", off |-> 0, zn |-> ""]],
        [k |-> "dtd", neg |-> FALSE, sec |-> <<6, 0>>, ns |-> 0], [k |-> "ymd", neg |-> FALSE, mo |-> <<1, 4>>],
        Lst(<<>>), Lst(<<Num(1)>>), Lst(<<Num(1), Num(2)>>), Lst(<<Str(97)>>), Lst(<<[k |-> "null"]>>),
        Lst(<<Lst(<<Num(1)>>)>>), Lst(<<Lst(<<>>)>>), Lst(<<Ctx(<<CE("a", <<97>>, Num(1))>>)>>),
        Ctx(<<>>), Ctx(<<CE("a", <<97>>, Num(1))>>), Ctx(<<CE("a", <<97>>, Num(1)), CE("b", <<98>>, Str(97))>>),
        Ctx(<<CE("a", <<97>>, Str(97))>>), Ctx(<<CE("b", <<98>>, Num(1))>>), Ctx(<<CE("a", <<97>>, [k |-> "null"])>>),
        [k |-> "range", lo |-> Num(1), lc |-> TRUE, hi |-> Num(2), hc |-> TRUE],
        Lst(<<[k |-> "range", lo |-> Num(1), lc |-> TRUE, hi |-> Num(2), hc |-> TRUE]>>),
        \* lists of several composite items: of one type, and of different types (the list is then a list<Any>)
        Lst(<<Lst(<<Num(1)>>), Lst(<<Num(2)>>)>>), Lst(<<Lst(<<Num(1)>>), Lst(<<Str(97)>>)>>), Lst(<<Lst(<<>>), Lst(<<Num(1)>>)>>),
        Lst(<<Ctx(<<CE("a", <<97>>, Num(1))>>), Ctx(<<CE("a", <<97>>, Str(97))>>)>>), Lst(<<Ctx(<<CE("a", <<97>>, Num(1))>>), Ctx(<<CE("a", <<97>>, Num(2))>>)>>),
        Lst(<<Num(1), Str(97)>>), Lst(<<Lst(<<Num(1)>>), Num(2)>>), Lst(<<Ctx(<<CE("a", <<97>>, Num(1))>>), Ctx(<<>>)>>) >>

ASSUME SpecLaws \/ PrintT(<<"REJECT", 0, "the specification's own relations break a law">>)
ASSUME PrintT(<<"UNIVERSE", ToJson(U)>>)
ASSUME PrintT(<<"VALUES", ToJson(V)>>)
ASSUME PrintT(<<"SPECLAWS", Len(U)>>)
VARIABLE x
Init == x = 0
Next == FALSE /\ x' = x
=============================================================================
