-------------------------- MODULE SelfTest_Decimal --------------------------
(* Decimal.tla's acceptors against CPython's decimal module (tools/          *)
(* gen_decimal_selftest.py): the correctly rounded answer must be accepted,  *)
(* a neighbour one unit in the last place away must be rejected.             *)
EXTENDS Decimal, TLC, Json
Cases == ndJsonDeserialize("selftest/decimal_cases.ndjson")
B3(b) == IF b THEN 1 ELSE 2
V(r, o) ==
  LET op == r.op  a == r.a IN
  CASE op = "add" -> AcceptAdd(a, r.b, o) [] op = "sub" -> AcceptSub(a, r.b, o)
    [] op = "mul" -> AcceptMul(a, r.b, o) [] op = "div" -> AcceptDiv(a, r.b, o)
    [] op = "floor" -> AcceptFloor(a, o) [] op = "ceiling" -> AcceptCeiling(a, o)
    [] op = "decimal" -> AcceptDecimal(a, r.n, o) [] op = "modulo" -> AcceptModulo(a, r.b, o)
    [] op = "sqrt" -> AcceptSqrt(a, o)
    [] op = "powint" -> AcceptPowInt(a, IF r.n < 0 THEN 0 - r.n ELSE r.n, r.n < 0, o)
Good(r) ==
  IF r.op = "cmp" THEN LET c == Compare(r.a, r.b) IN
       r.lt = B3(c < 0) /\ r.eq = B3(c = 0) /\ r.gt = B3(c > 0) /\ r.le = B3(c <= 0) /\ r.ge = B3(c >= 0) /\ r.ne = B3(c # 0)
  ELSE /\ V(r, r.good) \in {OK, Unspec}
       /\ (r.op = "powint" \/ V(r, r.bad) \notin {OK})          \* powers are allowed 2 ulp
VARIABLE i
Init == i \in 1..Len(Cases)
Next == FALSE /\ i' = i
Inv == Good(Cases[i]) \/ PrintT(<<"REJECT", i, "decimal self-test case fails">>)
=============================================================================
