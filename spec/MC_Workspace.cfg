SPECIFICATION Spec
CONSTANT Big = FALSE
INVARIANTS Inv AddableIff
PROPERTY DeployExact
CHECK_DEADLOCK FALSE
