SPECIFICATION Spec
CONSTANT Big = FALSE Wide = FALSE
INVARIANTS Inv AddableIff
PROPERTY DeployExact
CHECK_DEADLOCK FALSE
