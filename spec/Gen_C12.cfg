INIT Init
NEXT Next
CONSTANT Pairs = FALSE
CONSTANT PairLimit = 0
CONSTANT RuleLimit = 400
CHECK_DEADLOCK FALSE
