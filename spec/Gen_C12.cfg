INIT Init
NEXT Next
CONSTANT Pairs = FALSE
CONSTANT PairLimit = 0
CHECK_DEADLOCK FALSE
