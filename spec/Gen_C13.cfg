INIT Init
NEXT Next
CONSTANTS NE = 8 NS = 2 MaxLen = 3
INVARIANT Emit
CHECK_DEADLOCK FALSE
