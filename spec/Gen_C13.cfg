INIT Init
NEXT Next
CONSTANTS NE = 10 NS = 2 MaxLen = 3
INVARIANT Emit
CHECK_DEADLOCK FALSE
