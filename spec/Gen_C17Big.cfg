INIT GInit
NEXT GNext
CONSTANT Big = TRUE
VIEW View
ACTION_CONSTRAINT Emit
CHECK_DEADLOCK FALSE
