INIT GInit
NEXT GNext
CONSTANT Big = TRUE Wide = FALSE
VIEW View
ACTION_CONSTRAINT Emit
CHECK_DEADLOCK FALSE
