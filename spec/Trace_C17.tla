----------------------------- MODULE Trace_C17 -----------------------------
(* impl -> spec: validates a log of operations performed on a real          *)
(* dmntk_workspace::Workspace.  Every event carries the operation, the      *)
(* class of its reply and the full projection of the workspace afterwards   *)
(* (hook H1) plus what evaluation through the public API showed, so every   *)
(* variable is bound and the search is linear.  An event that no Workspace  *)
(* action explains, or after which an invariant fails, is printed as        *)
(* REJECT; validation then resumes at the next "reset" event, so one        *)
(* rejection does not leave the rest of the log unexamined.                 *)
EXTENDS Workspace, TLC, Json, IOUtils

Recs == ndJsonDeserialize(IOEnv.TRACE)

VARIABLE l
tvars == <<defs, byNs, byNm, evals, res, fresh, l>>

Rng(s) == {s[i] : i \in DOMAIN s}
ById(id) == {m \in Models : m.id = id}

\* models denoted by the logged (namespace, name, id) triples
StoredSet(s) == {m \in Models : \E i \in DOMAIN s : s[i][3] = m.id /\ s[i][1] = m.ns /\ s[i][2] = m.nm}

E == Recs[l]
Ev(name) == l <= Len(Recs) /\ E.ev = name

\* the observation binds every variable of the post-state
Bind == /\ Cardinality(StoredSet(E.stored)) = Len(E.stored)       \* known models, no duplicates
        /\ defs'  = StoredSet(E.stored)
        /\ byNs'  = Rng(E.byNs)
        /\ byNm'  = Rng(E.byNm)
        /\ evals' = Rng(E.evals)
        /\ res'   = E.res
        \* what the public API shows: evaluation succeeds exactly for `evals`,
        \* and yields the content of the model stored under that name
        /\ {p[1] : p \in Rng(E.evalok)} = evals'
        \* (W10 holds no invocable: it builds and is deployed like the others; evaluating its `v` answers null - NOINV)
        /\ \A p \in Rng(E.evalok) : \E m \in defs' : m.nm = p[1] /\ (m.id = p[2] \/ (m.id = "W10" /\ p[2] = "NOINV"))

TReset == Ev("reset") /\ defs' = {} /\ byNs' = {} /\ byNm' = {} /\ evals' = {}
                      /\ res' = "ok" /\ fresh' = FALSE
TAdd     == Ev("add")     /\ \E m \in ById(E.m) : Add(m)     /\ Bind
TReplace == Ev("replace") /\ \E m \in ById(E.m) : Replace(m) /\ Bind
TRemove  == Ev("remove")  /\ Remove(E.ns, E.nm) /\ Bind
TClear   == Ev("clear")   /\ Clear  /\ Bind
TDeploy  == Ev("deploy")  /\ Deploy /\ Bind
TEval    == Ev("eval")    /\ Evaluate(E.nm) /\ Bind
\* Workspace::new(directory) on files holding the models E.cands (the loose form: see WorkspaceCore!LoadDirLoose);
\* a candidate left out although nothing loaded clashes with it is reported as a NOTE, not rejected
Cands == {m \in Models : \E i \in DOMAIN E.cands : E.cands[i] = m.id}
TLoad    == Ev("load")    /\ LoadDirLoose(Cands, StoredSet(E.stored)) /\ Bind
                          /\ IF LeftOutClash(defs', Cands) THEN TRUE
                             ELSE PrintT(<<"NOTE", l, "a model file of the directory was not loaded although no loaded model clashes with it">>)

Raw  == TReset \/ TAdd \/ TReplace \/ TRemove \/ TClear \/ TDeploy \/ TEval \/ TLoad
Step == Raw /\ Inv' /\ AddableIff' /\ l' = l + 1

NextReset(k) == IF \E j \in k+1..Len(Recs) : Recs[j].ev = "reset"
                THEN CHOOSE j \in k+1..Len(Recs) : Recs[j].ev = "reset" /\ \A i \in k+1..j-1 : Recs[i].ev # "reset"
                ELSE Len(Recs) + 1

Why == IF ENABLED (Raw /\ l' = l + 1)
       THEN "an invariant of C17 fails after this event"
       ELSE "no Workspace action explains this event"

Skip == /\ l <= Len(Recs) /\ ~ENABLED Step
        /\ PrintT(<<"REJECT", l, Why>>)
        /\ l' = NextReset(l)
        /\ UNCHANGED vars

TInit == Init /\ l = 1
TNext == Step \/ Skip
Done  == l > Len(Recs) => PrintT(<<"CONSUMED", Len(Recs)>>)
=============================================================================
