--------------------------- MODULE SelfTest_Regex ---------------------------
(* Regex.tla against Python's re on random small expressions and strings     *)
(* (selftest/regex_cases.ndjson, written by tools/gen_regex_selftest.py):    *)
(* the pattern text, matches, replace (where the expression cannot match     *)
(* the empty string) and split.                                              *)
EXTENDS Regex, TLC, Json, IOUtils
Cases == ndJsonDeserialize("selftest/regex_cases.ndjson")
Has(c, f) == f \in DOMAIN c
Bad(c) ==
  IF Render(c.ast) # c.pat THEN "render"
  ELSE IF Matches(c.ast, c.s) # c.matches THEN "matches"
  ELSE IF MatchesEmptyIn(c.ast, c.s) # c.empty /\ ~c.empty THEN "empty"
  ELSE IF Has(c, "replaced") /\ (~RepOk(c.rep, 1, c.ngroups) \/ Replace(c.ast, c.s, c.rep) # c.replaced) THEN "replace"
  ELSE IF Has(c, "pieces") /\ Split(c.ast, c.s) # c.pieces THEN "split"
  ELSE IF MatchesI(c.ast, c.s) # c.matches_i THEN "matches with flag i"
  ELSE IF Has(c, "replaced_i") /\ ReplaceI(c.ast, c.s, <<120>>) # c.replaced_i THEN "replace with flag i"
  ELSE ""
VARIABLE i
Init == i \in 1..Len(Cases)
Next == FALSE /\ i' = i
Ok == LET b == Bad(Cases[i]) IN IF b = "" THEN TRUE ELSE PrintT(<<"SELFTEST-FAIL", i, b>>) /\ FALSE
=============================================================================
