------------------------------- MODULE Bignum -------------------------------
(***************************************************************************)
(* Natural numbers of arbitrary size for TLC (whose integers are 32-bit):   *)
(* little-endian sequences of base-10^4 limbs, canonical (no most-          *)
(* significant zero limb; zero is <<>>).  Everything the decimal and        *)
(* calendar specifications need: compare, add, subtract, multiply, divide   *)
(* with remainder, powers of ten, conversion from/to decimal digit          *)
(* sequences (most significant digit first).                                *)
(***************************************************************************)
EXTENDS Naturals, Integers, Sequences

B == 10000

Force(f) == SubSeq(f, 1, Len(f))            \* turn a lazily defined function into a tuple

RECURSIVE Trim(_)
Trim(a) == IF a # <<>> /\ a[Len(a)] = 0 THEN Trim(SubSeq(a, 1, Len(a) - 1)) ELSE a

Limb(a, i) == IF i >= 1 /\ i <= Len(a) THEN a[i] ELSE 0
Zero == <<>>
IsZero(a) == a = <<>>
Small(n) == IF n = 0 THEN <<>> ELSE IF n < B THEN <<n>> ELSE IF n < B * B THEN <<n % B, n \div B>>
            ELSE <<n % B, (n \div B) % B, n \div (B * B)>>          \* any n < 2^31

\* -1, 0, 1
RECURSIVE CmpFrom(_, _, _)
CmpFrom(a, b, i) == IF i = 0 THEN 0
                    ELSE IF a[i] < b[i] THEN -1 ELSE IF a[i] > b[i] THEN 1 ELSE CmpFrom(a, b, i - 1)
Cmp(a, b) == IF Len(a) < Len(b) THEN -1 ELSE IF Len(a) > Len(b) THEN 1 ELSE CmpFrom(a, b, Len(a))

RECURSIVE AddC(_, _, _, _, _)
AddC(a, b, i, carry, acc) ==
  IF i > Len(a) /\ i > Len(b) THEN (IF carry = 0 THEN acc ELSE Append(acc, carry))
  ELSE LET s == Limb(a, i) + Limb(b, i) + carry
           nacc == Append(acc, s % B)
       IN IF nacc = nacc THEN AddC(a, b, i + 1, s \div B, nacc) ELSE <<>>      \* (forces nacc: TLC passes arguments lazily)
Add(a, b) == AddC(a, b, 1, 0, <<>>)

\* a - b for a >= b
RECURSIVE SubC(_, _, _, _, _)
SubC(a, b, i, borrow, acc) ==
  IF i > Len(a) THEN Trim(acc)
  ELSE LET s == a[i] - Limb(b, i) - borrow
           nacc == Append(acc, IF s < 0 THEN s + B ELSE s)
       IN IF nacc = nacc THEN SubC(a, b, i + 1, IF s < 0 THEN 1 ELSE 0, nacc) ELSE <<>>
Sub(a, b) == SubC(a, b, 1, 0, <<>>)
AbsDiff(a, b) == IF Cmp(a, b) >= 0 THEN Sub(a, b) ELSE Sub(b, a)

\* a * k for 0 <= k < B
RECURSIVE MulSC(_, _, _, _, _)
MulSC(a, k, i, carry, acc) ==
  IF i > Len(a) THEN (IF carry = 0 THEN acc ELSE Append(acc, carry))
  ELSE LET s == a[i] * k + carry
           nacc == Append(acc, s % B)
       IN IF nacc = nacc THEN MulSC(a, k, i + 1, s \div B, nacc) ELSE <<>>
MulS(a, k) == IF k = 0 \/ a = <<>> THEN <<>> ELSE MulSC(a, k, 1, 0, <<>>)

ShiftL(a, n) == IF a = <<>> \/ n = 0 THEN a ELSE Force([i \in 1..n |-> 0]) \o a     \* a * B^n

RECURSIVE MulAcc(_, _, _, _)
MulAcc(a, b, j, acc) ==
  IF j > Len(b) THEN acc
  ELSE LET nacc == IF b[j] = 0 THEN acc ELSE Add(acc, ShiftL(MulS(a, b[j]), j - 1))
       IN IF nacc = nacc THEN MulAcc(a, b, j + 1, nacc) ELSE <<>>
Mul(a, b) == IF a = <<>> \/ b = <<>> THEN <<>>
             ELSE IF Len(a) >= Len(b) THEN MulAcc(a, b, 1, <<>>) ELSE MulAcc(b, a, 1, <<>>)

P10(k) == CASE k = 0 -> 1 [] k = 1 -> 10 [] k = 2 -> 100 [] k = 3 -> 1000
Pow10(n) == ShiftL(<<P10(n % 4)>>, n \div 4)                       \* 10^n, n >= 0
MulPow10(a, n) == IF a = <<>> THEN a ELSE ShiftL(MulS(a, P10(n % 4)), n \div 4)   \* a * 10^n

\* a div k, a mod k for 1 <= k < B
RECURSIVE DivSC(_, _, _, _, _)
DivSC(a, k, i, r, acc) ==
  IF i = 0 THEN [q |-> Trim(acc), r |-> r]
  ELSE LET cur == r * B + a[i]
           nacc == <<cur \div k>> \o acc
       IN IF nacc = nacc THEN DivSC(a, k, i - 1, cur % k, nacc) ELSE [q |-> <<>>, r |-> 0]
DivS(a, k) == DivSC(a, k, Len(a), 0, <<>>)

\* largest q in lo..hi with b*q <= r  (binary search; b > 0)
RECURSIVE QDigit(_, _, _, _)
QDigit(r, b, lo, hi) ==
  IF lo = hi THEN lo
  ELSE LET mid == (lo + hi + 1) \div 2 IN
       IF Cmp(MulS(b, mid), r) <= 0 THEN QDigit(r, b, mid, hi) ELSE QDigit(r, b, lo, mid - 1)

\* long division, one base-10^4 limb of the quotient per step, most significant first
RECURSIVE DivC(_, _, _, _, _)
DivC(a, b, i, r, acc) ==
  IF i = 0 THEN [q |-> Trim(acc), r |-> r]
  ELSE LET cur == Trim(<<a[i]>> \o r)                             \* r * B + a[i]
           qd  == IF Cmp(cur, b) < 0 THEN 0 ELSE QDigit(cur, b, 0, B - 1)
           nr  == IF qd = 0 THEN cur ELSE Sub(cur, MulS(b, qd))
           nacc == <<qd>> \o acc
       IN IF nr = nr /\ nacc = nacc THEN DivC(a, b, i - 1, nr, nacc) ELSE [q |-> <<>>, r |-> <<>>]
DivMod(a, b) == IF Cmp(a, b) < 0 THEN [q |-> <<>>, r |-> a] ELSE DivC(a, b, Len(a), <<>>, <<>>)

----------------------------------------------------------------------------
\* decimal digit sequences, most significant digit first

FromDigits(d) ==
  LET n == Len(d)
      L == (n + 3) \div 4
      Dg(p) == IF p >= 1 THEN d[p] ELSE 0
  IN IF n = 0 THEN <<>>
     ELSE Trim(Force([i \in 1..L |-> Dg(n - 4*i + 4) + 10 * Dg(n - 4*i + 3) + 100 * Dg(n - 4*i + 2) + 1000 * Dg(n - 4*i + 1)]))

RECURSIVE StripLeadZ(_)
StripLeadZ(d) == IF d # <<>> /\ d[1] = 0 THEN StripLeadZ(Tail(d)) ELSE d

ToDigits(a) ==
  LET n == Len(a)
      Dig(i) == LET limb == a[n - ((i - 1) \div 4)]  pos == (i - 1) % 4 IN
                CASE pos = 0 -> limb \div 1000 [] pos = 1 -> (limb \div 100) % 10
                  [] pos = 2 -> (limb \div 10) % 10 [] pos = 3 -> limb % 10
  IN IF n = 0 THEN <<>> ELSE StripLeadZ(Force([i \in 1..(4 * n) |-> Dig(i)]))

NumDigits(a) == IF a = <<>> THEN 0
                ELSE LET top == a[Len(a)] IN
                     4 * (Len(a) - 1) + (IF top >= 1000 THEN 4 ELSE IF top >= 100 THEN 3 ELSE IF top >= 10 THEN 2 ELSE 1)

IsEven(a) == a = <<>> \/ a[1] % 2 = 0

\* small value of a bignum known to be < 2^31 (at most 3 limbs, top limb small)
ToInt(a) == Limb(a, 1) + B * Limb(a, 2) + B * B * Limb(a, 3)
=============================================================================
