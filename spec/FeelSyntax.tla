----------------------------- MODULE FeelSyntax -----------------------------
(***************************************************************************)
(* The surface syntax of FEEL expressions: syntax trees, the operator      *)
(* table (binding power and associativity, transcribed from the ordering   *)
(* of the DMN grammar rules 1.a-1.k / 4.a-4.f, which is what the           *)
(* %left/%right/%nonassoc/%precedence lines of feel.y encode) and three     *)
(* renderings of a tree as a token sequence:                                *)
(*   "full"   every compound operand in parentheses                        *)
(*   "min"    parentheses exactly where the table requires them            *)
(*   "wrapmin" the root's operands in redundant parentheses, minimal inside  *)
(*   "nopar"  no parentheses at all (for trees with one needed pair this   *)
(*            is the rendering "with one needed pair removed")              *)
(*                                                                         *)
(* Trees (field names are typed consistently, TLC cannot compare a string   *)
(* with a record):                                                          *)
(*   [n |-> "num", ip, fp]  [n |-> "str", s]  [n |-> "bool", bv]  [n |-> "null"]*)
(*   [n |-> "name", id]     [n |-> "at", s]                                 *)
(*   [n |-> "neg", a]       [n |-> op, a, b]  op \in BinOps                 *)
(*   [n |-> "between", a, lo, hi]   [n |-> "if", cond, then, else]          *)
(*   [n |-> "instof", a, ty]        [n |-> "path", a, id]                   *)
(*   [n |-> "filter", a, f]         [n |-> "invoke", f, args]               *)
(*   [n |-> "invoken", f, nargs]    nargs: << [p, v] >>                     *)
(*   [n |-> "for", its, body]       its: << [var, kind, a] | [var, kind, a, b] >>*)
(*   [n |-> "some"|"every", its, body]                                      *)
(*   [n |-> "fndef", ps, body]      ps: << [p, ty] >>  (ty = [t |-> "Any"] if absent)*)
(*   [n |-> "list", items]  [n |-> "ctx", ents]  ents: << [key, v] >>       *)
(*   [n |-> "range", lo, lc, hi, hc]  [n |-> "utlt"|"utle"|"utgt"|"utge", a]*)
(*   [n |-> "elist", items]   (the parenthesised list after `in`)           *)
(*   [n |-> "qname", segs]    (a name used as range / unary-test endpoint)  *)
(***************************************************************************)
EXTENDS Naturals, Sequences

\* white space between tokens (grammar rules 61 and 62, code points): tab, the vertical spaces LF VT FF CR, the blank,
\* NEL, no-break space, Ogham space mark, Mongolian vowel separator, U+2000..U+200B (en quad .. zero width space),
\* line and paragraph separator, narrow no-break space, medium mathematical space, ideographic space, BOM
WhiteSpace == (9..13) \cup {32, 133, 160, 5760, 6158} \cup (8192..8203) \cup {8232, 8233, 8239, 8287, 12288, 65279}
\* three of them are name characters as well (rule 28 gives U+037F..U+1FFF and U+FDF0..U+FFFD to names), so next to
\* a name the grammar does not say which they are; the layouts use the others
AmbiguousWhiteSpace == {5760, 6158, 65279}
LayoutWhiteSpace == WhiteSpace \ AmbiguousWhiteSpace


BinOps == {"or", "and", "eq", "nq", "lt", "le", "gt", "ge", "in", "add", "sub", "mul", "div", "exp"}
CmpOps == {"eq", "nq", "lt", "le", "gt", "ge"}
OpTok(op) == CASE op = "or" -> "or" [] op = "and" -> "and" [] op = "eq" -> "=" [] op = "nq" -> "!="
               [] op = "lt" -> "<" [] op = "le" -> "<=" [] op = "gt" -> ">" [] op = "ge" -> ">="
               [] op = "in" -> "in" [] op = "add" -> "+" [] op = "sub" -> "-" [] op = "mul" -> "*"
               [] op = "div" -> "/" [] op = "exp" -> "**"

Prefix == {"if", "for", "some", "every", "fndef"}
Atoms  == {"num", "str", "bool", "null", "name", "at", "list", "ctx", "range", "qname"}
UTests == {"utlt", "utle", "utgt", "utge"}

\* binding power of a node seen as an operand (higher binds tighter)
Prec(t) ==
  CASE t.n \in Prefix -> 1
    [] t.n = "or" -> 3 [] t.n = "and" -> 4 [] t.n \in CmpOps -> 5 [] t.n \in UTests -> 5
    [] t.n = "between" -> 6 [] t.n = "in" -> 8
    [] t.n \in {"add", "sub"} -> 9 [] t.n \in {"mul", "div"} -> 10 [] t.n = "exp" -> 11
    [] t.n = "neg" -> 12 [] t.n = "instof" -> 13
    [] t.n \in {"filter", "invoke", "invoken"} -> 15 [] t.n = "path" -> 16
    [] OTHER -> 20

\* least binding power an operand needs in order to stand without parentheses
ReqLeft(op) ==
  CASE op = "or" -> 3 [] op = "and" -> 4 [] op \in CmpOps -> 6 [] op = "in" -> 9
    [] op \in {"add", "sub"} -> 9 [] op \in {"mul", "div"} -> 10 [] op = "exp" -> 11
ReqRight(op) ==
  CASE op = "or" -> 4 [] op = "and" -> 5 [] op \in CmpOps -> 6 [] op = "in" -> 8
    [] op \in {"add", "sub"} -> 10 [] op \in {"mul", "div"} -> 11 [] op = "exp" -> 12

TypeTok(ty) ==   \* tokens of a type
  \* (tokens that introduce a name or spell a type carry the mark "~": the harness strips it and
  \*  knows that a comment placed directly after such a token is the "soft" layout, judged apart)
  CASE ty.t = "number" -> <<"~number">> [] ty.t = "string" -> <<"~string">> [] ty.t = "boolean" -> <<"~boolean">>
    [] ty.t = "date" -> <<"~date">> [] ty.t = "Any" -> <<"~Any">>
    [] ty.t = "named" -> <<"~" \o ty.name>>                                   \* an item definition's name
    [] ty.t = "list" -> <<"~list", "~<">> \o (IF ty.of.t = "number" THEN <<"~number">> ELSE <<"~string">>) \o <<"~>">>
    [] ty.t = "ctx" -> <<"~context", "~<", "~a", "~:", "~number", "~>">>
    [] ty.t = "fn" -> <<"~function", "~<", "~number", "~>", "~->", "~string">>

RECURSIVE R(_, _), W(_, _, _), Sep(_, _, _), Its(_, _, _)

\* operand t in a position that requires binding power `req`
W(t, req, mode) ==
  LET inner == R(t, mode) IN
  IF mode = "nopar" THEN inner
  ELSE IF mode = "wrapmin" THEN (IF t.n \in Atoms \cup UTests \cup {"elist"} THEN R(t, "min") ELSE <<"(">> \o R(t, "min") \o <<")">>)
  ELSE IF mode = "full" THEN (IF t.n \in Atoms \cup UTests \cup {"elist"} THEN inner ELSE <<"(">> \o inner \o <<")">>)
  ELSE IF Prec(t) < req THEN <<"(">> \o inner \o <<")">> ELSE inner

\* items separated by commas, each in a closed position
Sep(items, i, mode) ==
  IF i > Len(items) THEN <<>>
  ELSE (IF i > 1 THEN <<",">> ELSE <<>>) \o W(items[i], 0, mode) \o Sep(items, i + 1, mode)

Its(its, i, mode) ==
  IF i > Len(its) THEN <<>>
  ELSE (IF i > 1 THEN <<",">> ELSE <<>>) \o <<"~" \o its[i].var, "in">>
       \o (IF its[i].kind = "range" THEN W(its[i].a, 9, mode) \o <<"..">> \o W(its[i].b, 9, mode) ELSE W(its[i].a, 9, mode))
       \o Its(its, i + 1, mode)

RECURSIVE CtxEnts(_, _, _)
CtxEnts(ents, i, mode) ==
  IF i > Len(ents) THEN <<>>
  ELSE (IF i > 1 THEN <<",">> ELSE <<>>) \o <<ents[i].key, ":">> \o W(ents[i].v, 0, mode) \o CtxEnts(ents, i + 1, mode)

RECURSIVE NamedArgs(_, _, _)
NamedArgs(nargs, i, mode) ==
  IF i > Len(nargs) THEN <<>>
  ELSE (IF i > 1 THEN <<",">> ELSE <<>>) \o <<nargs[i].p, ":">> \o W(nargs[i].v, 0, mode) \o NamedArgs(nargs, i + 1, mode)

RECURSIVE FParams(_, _)
FParams(ps, i) ==
  IF i > Len(ps) THEN <<>>
  ELSE (IF i > 1 THEN <<",">> ELSE <<>>) \o <<"~" \o ps[i].p>> \o (IF ps[i].ty.t = "Any" THEN <<>> ELSE <<"~:">> \o TypeTok(ps[i].ty))
       \o FParams(ps, i + 1)

\* token sequence of a tree
R(t, mode) ==
  CASE t.n = "num"  -> <<IF t.fp = "" THEN t.ip ELSE t.ip \o "." \o t.fp>>
    [] t.n = "str"  -> <<"\"" \o t.s \o "\"">>
    [] t.n = "bool" -> <<IF t.bv THEN "true" ELSE "false">>
    [] t.n = "null" -> <<"null">>
    [] t.n = "name" -> <<t.id>>
    [] t.n = "qname" -> <<t.segs[1]>>
    [] t.n = "at"   -> <<"@", "\"" \o t.s \o "\"">>
    [] t.n = "neg"  -> <<"-">> \o W(t.a, 12, mode)
    [] t.n \in BinOps -> W(t.a, ReqLeft(t.n), mode) \o <<OpTok(t.n)>> \o W(t.b, ReqRight(t.n), mode)
    [] t.n = "between" -> W(t.a, 8, mode) \o <<"between">> \o W(t.lo, 8, mode) \o <<"and">> \o W(t.hi, 8, mode)
    [] t.n = "if" -> <<"if">> \o W(t.cond, 0, mode) \o <<"then">> \o W(t.then, 0, mode) \o <<"else">> \o W(t.else, 0, mode)
    [] t.n = "instof" -> W(t.a, 15, mode) \o <<"instance of">> \o TypeTok(t.ty)
    [] t.n = "path" -> W(t.a, 15, mode) \o <<".", t.id>>
    [] t.n = "filter" -> W(t.a, 15, mode) \o <<"[">> \o W(t.f, 0, mode) \o <<"]">>
    [] t.n = "invoke" -> W(t.f, 15, mode) \o <<"(">> \o Sep(t.args, 1, mode) \o <<")">>
    [] t.n = "invoken" -> W(t.f, 15, mode) \o <<"(">> \o NamedArgs(t.nargs, 1, mode) \o <<")">>
    [] t.n = "for" -> <<"for">> \o Its(t.its, 1, mode) \o <<"return">> \o W(t.body, 0, mode)
    [] t.n \in {"some", "every"} -> <<t.n>> \o Its(t.its, 1, mode) \o <<"satisfies">> \o W(t.body, 0, mode)
    [] t.n = "fndef" -> <<"~function", "(">> \o FParams(t.ps, 1) \o <<")">> \o W(t.body, 0, mode)
    [] t.n = "list" -> <<"[">> \o Sep(t.items, 1, mode) \o <<"]">>
    [] t.n = "elist" -> <<"(">> \o Sep(t.items, 1, mode) \o <<")">>
    [] t.n = "ctx" -> <<"{">> \o CtxEnts(t.ents, 1, mode) \o <<"}">>
    [] t.n = "range" -> <<IF t.lc THEN "[" ELSE "(">> \o R(t.lo, mode) \o <<"..">> \o R(t.hi, mode) \o <<IF t.hc THEN "]" ELSE ")">>
    [] t.n = "utlt" -> <<"<">> \o R(t.a, mode) [] t.n = "utle" -> <<"<=">> \o R(t.a, mode)
    [] t.n = "utgt" -> <<">">> \o R(t.a, mode) [] t.n = "utge" -> <<">=">> \o R(t.a, mode)

RenderFull(t)  == R(t, "full")
RenderMin(t)   == R(t, "min")
RenderNoPar(t) == R(t, "nopar")
\* the operands of the root in (redundant) parentheses, each rendered minimally inside
RenderWrapMin(t) == R(t, "wrapmin")
=============================================================================
