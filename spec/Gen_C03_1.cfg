INIT Init
NEXT Next
CONSTANT Depth = 1
CHECK_DEADLOCK FALSE
