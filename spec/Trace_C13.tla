----------------------------- MODULE Trace_C13 -----------------------------
(* impl -> spec for C13.  TRACE is one log of what the real code did:       *)
(*   [ev |-> "init", scopes |-> <<rendering of every caller scope>>]        *)
(*   [ev |-> "eval", e, s, res (rendering of the result), scopes (renderings*)
(*      of every caller scope afterwards), pushes, pops, depth0, depth1,    *)
(*      popempty (H3 scope events of this evaluation)]                      *)
(*   [ev |-> "ref", e, s, res]  the result of (e, s) from a fresh evaluator  *)
(*   [ev |-> "parse", same (was the parsing scope left as found)]           *)
(*   [ev |-> "single", before, after, res, res2]  one-off expressions       *)
(* The machine: evaluation is pure - scopes never change, the result is a   *)
(* function of (e, s); pushes and pops balance.                             *)
EXTENDS Naturals, Sequences, TLC, Json, IOUtils

Recs == ndJsonDeserialize(IOEnv.TRACE)
VARIABLES l, scopes, memo
vars == <<l, scopes, memo>>
E == Recs[l]
Ev(n) == l <= Len(Recs) /\ E.ev = n

Key(e, s) == <<e, s>>
TInitEv == Ev("init") /\ scopes' = E.scopes /\ memo' = [k \in {} |-> ""] /\ l' = l + 1
TEval == /\ Ev("eval")
         /\ E.scopes = scopes                                        \* every caller scope exactly as before
         /\ E.pushes = E.pops /\ E.depth0 = E.depth1 /\ E.popempty = 0  \* balanced use of the scope stack
         /\ IF Key(E.e, E.s) \in DOMAIN memo THEN memo[Key(E.e, E.s)] = E.res /\ UNCHANGED memo   \* repeatable
            ELSE memo' = [k \in DOMAIN memo \cup {Key(E.e, E.s)} |-> IF k = Key(E.e, E.s) THEN E.res ELSE memo[k]]
         /\ UNCHANGED scopes /\ l' = l + 1
\* the value of (e, s) evaluated ALONE, by an evaluator built afresh for this one call: every later result must equal it
TRef == /\ Ev("ref") /\ Key(E.e, E.s) \notin DOMAIN memo
        /\ memo' = [k \in DOMAIN memo \cup {Key(E.e, E.s)} |-> IF k = Key(E.e, E.s) THEN E.res ELSE memo[k]]
        /\ UNCHANGED scopes /\ l' = l + 1
TParse == Ev("parse") /\ E.same /\ UNCHANGED <<scopes, memo>> /\ l' = l + 1
TSingle == Ev("single") /\ E.before = E.after /\ E.res = E.res2 /\ E.pushes = E.pops /\ E.popempty = 0
           /\ UNCHANGED <<scopes, memo>> /\ l' = l + 1
Step == TInitEv \/ TRef \/ TEval \/ TParse \/ TSingle
Skip == /\ l <= Len(Recs) /\ ~ENABLED Step
        /\ PrintT(<<"REJECT", l, "this evaluation is not pure: a caller scope changed, the result differs from an earlier one, or the scope stack is unbalanced">>)
        /\ l' = l + 1 /\ UNCHANGED <<scopes, memo>>
Init == l = 1 /\ scopes = <<>> /\ memo = [k \in {} |-> ""]
Next == Step \/ Skip
Done == l > Len(Recs) => PrintT(<<"CONSUMED", Len(Recs)>>)
=============================================================================
