----------------------------- MODULE Trace_C14 -----------------------------
(* C14: each record is one temporal literal text with what the real code    *)
(* made of it: `fn` = value of date("..") / time("..") / date and time("..")*)
(* / duration("..") (null when rejected), `at` = value of @"..", `str` =    *)
(* string(fn) as code points, `back` = the value of that text read again.   *)
(* Temporal.tla decides: valid literals denote exactly the written value,   *)
(* everything else is null; the text form is a valid literal of the same    *)
(* value; durations print normalised.                                       *)
EXTENDS Temporal, TLC, Json, IOUtils
Recs == ndJsonDeserialize(IOEnv.TRACE)

Parse(kind, cp) == CASE kind = "date" -> ParseDate(cp) [] kind = "time" -> ParseTime(cp)
                     [] kind = "dt" -> ParseDateTime(cp) [] kind = "dur" -> ParseDuration(cp)
KindOfValue(v) == IF v.k \in {"dtd", "ymd"} THEN "dur" ELSE v.k

Verdict(r) ==
  LET want == Parse(r.kind, r.cp) IN
  IF r.fn.k = "panic" THEN "the constructor panicked"
  ELSE IF ~want.ok THEN (IF r.fn.k = "null" THEN "ok" ELSE "an invalid literal was accepted")
  ELSE IF want.v.k = "unspec" THEN "unspec"
  ELSE IF want.v.k \in {"time", "dt"} /\ r.zstat = "unknown" THEN "unspec"
  ELSE IF r.fn.k = "null" THEN "a valid literal was rejected (null)"
  ELSE IF ~SameValue(want.v, r.fn) THEN "the literal does not denote the written value"
  ELSE IF r.at.k # "skipped" /\ ~(r.at.k # "null" /\ SameValue(want.v, r.at)) THEN "the @-literal does not denote the written value"
  ELSE IF r.str = <<>> THEN "string() of the value is not text"
  ELSE LET again == Parse(KindOfValue(want.v), r.str) IN
       IF ~again.ok THEN "the text form of the value is not a valid literal"
       ELSE IF again.v.k # "unspec" /\ ~SameValue(want.v, again.v) THEN "the text form denotes another value"
       ELSE IF r.back.k = "null" \/ ~SameValue(want.v, r.back) THEN "the text form does not read back as an equal value"
       ELSE IF want.v.k = "dtd" /\ r.str # FormatDtd(want.v) THEN "the duration is not printed in normalised form"
       ELSE IF want.v.k = "ymd" /\ r.str # FormatYmd(want.v) THEN "the duration is not printed in normalised form"
       ELSE "ok"
VARIABLE i
Init == i \in 1..Len(Recs)
Next == FALSE /\ i' = i
Judged == LET w == Verdict(Recs[i]) IN IF w = "ok" THEN TRUE ELSE IF w = "unspec" THEN PrintT(<<"UNSPEC", i>>) ELSE PrintT(<<"REJECT", i, w>>)
=============================================================================
