SPECIFICATION Spec
CONSTANTS
 Threads <- MCThreads
 Locks <- MCLocks
 Script <- MCScript
 Semantics = "wp"
 SharedScope <- MCShared
 F <- MCF
 Design = "write"
 NThreads = 2
 Depth = 0
INVARIANT ResultsIntact
INVARIANT NoDeadlock
INVARIANT LockInv
INVARIANT CleanEnd
CHECK_DEADLOCK FALSE
