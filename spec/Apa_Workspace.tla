--------------------------- MODULE Apa_Workspace ---------------------------
(***************************************************************************)
(* The invariants of property C17 are INDUCTIVE for every alphabet of       *)
(* models, not only for the alphabets TLC enumerates: Apalache chooses the  *)
(* alphabet (any set of models over three identifiers, three namespaces,    *)
(* three names, building or not - so identical keys, one shared key,        *)
(* disjoint keys and failing models in any combination) and any state that  *)
(* satisfies the invariants, and shows that every action of WorkspaceCore   *)
(* leads to a state that satisfies them again.                              *)
(*   apalache-mc check --cinit=ConstInit --init=Init    --inv=IndInv --length=0 Apa_Workspace.tla                            *)
(*   apalache-mc check --cinit=ConstInit --init=IndInit --next=NextL --inv=IndInv --length=1 Apa_Workspace.tla              *)
(* (run by tools/apalache_workspace.sh; an optional extra, not a registered *)
(* check: Apalache needs minutes)                                           *)
(***************************************************************************)
EXTENDS WorkspaceCore

Ids == {"i1", "i2", "i3"}
NSs == {"s1", "s2", "s3"}
NMs == {"m1", "m2", "m3"}

ConstInit == Models \in SUBSET [id: Ids, ns: NSs, nm: NMs, builds: BOOLEAN]

IndInv == Inv /\ AddableIff

\* any state whatsoever that satisfies the invariants
IndInit ==
  /\ defs \in SUBSET Models
  /\ byNs \in SUBSET NSs /\ byNm \in SUBSET NMs /\ evals \in SUBSET NMs
  /\ res \in {"ok", "err"} /\ fresh \in BOOLEAN
  /\ IndInv
=============================================================================
