------------------------------ MODULE Gen_C12 ------------------------------
(* Fault scripts for C12: every single structural fault (XmlTree) at every  *)
(* node of every model tree the harness dumped (IOEnv.TREES, one line per   *)
(* model), and pairs of faults on disjoint subtrees for the small models.   *)
EXTENDS XmlTree, TLC, Json, IOUtils
CONSTANT Pairs, PairLimit, RuleLimit
Trees == ndJsonDeserialize(IOEnv.TREES)

VARIABLE c
Single == \E m \in 1..Len(Trees) : \E n \in 1..Len(Trees[m].nodes) : \E f \in FaultKinds :
            /\ FaultEnabled(Trees[m].nodes, f, n)
            /\ c = [m |-> m, ops |-> <<[f |-> f, n |-> n]>>]
Double == Pairs /\ \E m \in 1..Len(Trees) : Len(Trees[m].nodes) <= PairLimit /\
            \E n1 \in 1..Len(Trees[m].nodes) : \E n2 \in (n1 + 1)..Len(Trees[m].nodes) : \E f1 \in FaultKinds : \E f2 \in FaultKinds :
              /\ FaultEnabled(Trees[m].nodes, f1, n1) /\ FaultEnabled(Trees[m].nodes, f2, n2)
              /\ Disjoint(Trees[m].nodes, f1, n1, f2, n2)
              /\ (Trees[m].nodes[n1].ref \/ Trees[m].nodes[n2].ref \/ (f1 = "del" /\ f2 = "del"))     \* pairs that can close a cycle or remove two parts
              /\ c = [m |-> m, ops |-> <<[f |-> f1, n |-> n1], [f |-> f2, n |-> n2]>>]
\* two faults among the entries of one rule, or among the clauses of one table, whatever the size of the model: a
\* surplus on one side next to a gap on the other leaves the totals right ("rules whose number of entries disagrees
\* with the table's clauses")
Counted == {"inputEntry", "outputEntry", "input", "output"}
SameParent(nodes, n1, n2) == nodes[n1].d = nodes[n2].d /\ \A j \in n1..n2 : nodes[j].d >= nodes[n1].d
Compensating == \E m \in 1..Len(Trees) : Len(Trees[m].nodes) <= RuleLimit /\
            \E n1 \in 1..Len(Trees[m].nodes) : Trees[m].nodes[n1].k = "e" /\ Trees[m].nodes[n1].nm \in Counted /\
            \E n2 \in (n1 + 1)..Len(Trees[m].nodes) : Trees[m].nodes[n2].k = "e" /\ Trees[m].nodes[n2].nm \in Counted /\
              /\ n2 <= n1 + 40 /\ SameParent(Trees[m].nodes, n1, n2) /\ Trees[m].nodes[n1].nm # Trees[m].nodes[n2].nm
              /\ \E f1 \in {"del", "dup"} : \E f2 \in {"del", "dup"} : f1 # f2
                    /\ Disjoint(Trees[m].nodes, f1, n1, f2, n2)
                    /\ c = [m |-> m, ops |-> <<[f |-> f1, n |-> n1], [f |-> f2, n |-> n2]>>]
\* a definition (decision, knowledge model, decision service, item definition, input data) duplicated - two elements
\* with one id and one name - while a reference INSIDE its first copy is pointed at the definition itself, at the
\* enclosing definition or at the target of the next reference: whichever of the two copies a component of the
\* evaluator goes by, a requirement cycle closed through one copy must not escape the checks made on the other
Definitions == {"decision", "businessKnowledgeModel", "decisionService", "itemDefinition", "inputData"}
DupRetarget == \E m \in 1..Len(Trees) : Len(Trees[m].nodes) <= RuleLimit /\
            \E n1 \in 1..Len(Trees[m].nodes) : Trees[m].nodes[n1].k = "e" /\ Trees[m].nodes[n1].nm \in Definitions /\ Trees[m].nodes[n1].d = 2 /\
            \E n2 \in (n1 + 1)..Trees[m].nodes[n1].last : Trees[m].nodes[n2].ref /\
            \E f2 \in {"self", "other", "ancestor"} :
              /\ FaultEnabled(Trees[m].nodes, "dup", n1) /\ FaultEnabled(Trees[m].nodes, f2, n2)
              /\ c = [m |-> m, ops |-> <<[f |-> "dup", n |-> n1], [f |-> f2, n |-> n2]>>]
Init == (Single \/ Double \/ Compensating \/ DupRetarget) /\ PrintT(<<"CASE", ToJson(c)>>)
Next == FALSE /\ c' = c
=============================================================================
