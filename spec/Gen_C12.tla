------------------------------ MODULE Gen_C12 ------------------------------
(* Fault scripts for C12: every single structural fault (XmlTree) at every  *)
(* node of every model tree the harness dumped (IOEnv.TREES, one line per   *)
(* model), and pairs of faults on disjoint subtrees for the small models.   *)
EXTENDS XmlTree, TLC, Json, IOUtils
CONSTANT Pairs, PairLimit
Trees == ndJsonDeserialize(IOEnv.TREES)

VARIABLE c
Single == \E m \in 1..Len(Trees) : \E n \in 1..Len(Trees[m].nodes) : \E f \in FaultKinds :
            /\ FaultEnabled(Trees[m].nodes, f, n)
            /\ c = [m |-> m, ops |-> <<[f |-> f, n |-> n]>>]
Double == Pairs /\ \E m \in 1..Len(Trees) : Len(Trees[m].nodes) <= PairLimit /\
            \E n1 \in 1..Len(Trees[m].nodes) : \E n2 \in (n1 + 1)..Len(Trees[m].nodes) : \E f1 \in FaultKinds : \E f2 \in FaultKinds :
              /\ FaultEnabled(Trees[m].nodes, f1, n1) /\ FaultEnabled(Trees[m].nodes, f2, n2)
              /\ Disjoint(Trees[m].nodes, f1, n1, f2, n2)
              /\ (Trees[m].nodes[n1].ref \/ Trees[m].nodes[n2].ref \/ (f1 = "del" /\ f2 = "del"))     \* pairs that can close a cycle or remove two parts
              /\ c = [m |-> m, ops |-> <<[f |-> f1, n |-> n1], [f |-> f2, n |-> n2]>>]
Init == (Single \/ Double) /\ PrintT(<<"CASE", ToJson(c)>>)
Next == FALSE /\ c' = c
=============================================================================
