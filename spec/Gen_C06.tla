------------------------------ MODULE Gen_C06 ------------------------------
(* Syntax trees for C06: every construct nested in every operand position   *)
(* of every other construct (pairs), and three-level nests over the         *)
(* operator ladder (triples), each with its full, minimal and (where one    *)
(* needed pair exists) parenthesis-free rendering.                          *)
EXTENDS FeelTrees, TLC, Json
CONSTANT Triples      \* "none" | "ladder" | "all"
SL == INSTANCE StringLiteral

\* a needed pair, certainly: operator under operator where the table demands it
Hole(tp) == IF tp[1] \in BinOps THEN (IF tp[2] = "a" THEN ReqLeft(tp[1]) ELSE ReqRight(tp[1]))
            ELSE CASE tp[1] = "neg" -> 12 [] tp[1] = "between" -> 8 [] tp[1] \in {"instof", "path"} -> 15
                   [] tp = <<"filter", "a">> -> 15 [] tp = <<"invoke", "f">> -> 15 [] OTHER -> 0
Certain(tp, h) == /\ Prec(h) < Hole(tp)
                  /\ h.n \in BinOps \cup {"neg", "between"}       \* (an instance-of test ends with a type: closed on the right)
                  /\ ~(h.n = "in" /\ h.b.n = "elist")               \* `x in (..)` ends with a bracket: closed on the right
                  /\ ~(tp = <<"between", "lo">>)                     \* closed by the `and` of between
                  /\ ~(tp = <<"between", "a">> /\ h.n = "between")

\* The name of a type that is not built in may itself contain the additional name symbols, and the parser has no list
\* of type names to match against: a rendering in which such a name is directly followed by one of those symbols has
\* no single reading, and the fully parenthesised one is used in its place (keywords cannot be part of a name: they
\* do end it).
Amb(toks) == \E i \in 1..(Len(toks) - 1) : toks[i] = "~tX" /\ toks[i + 1] \in {"+", "-", "*", "/", "**", "..", "."}
Unamb(toks, t) == IF Amb(toks) THEN RenderFull(t) ELSE toks
Case(t, drop) == [tree |-> t, full |-> RenderFull(t), min |-> Unamb(RenderMin(t), t), wrapmin |-> Unamb(RenderWrapMin(t), t)]
                 @@ (IF drop /\ ~Amb(RenderNoPar(t)) THEN [nopar |-> RenderNoPar(t)] ELSE [nodrop |-> TRUE])

Pairs == {Case(Fill(tp, h), Certain(tp, h)) : tp \in Templates, h \in Inner}
Trip  == IF Triples = "none" THEN {}
         ELSE IF Triples = "ladder" THEN {Case(Fill(t1, Fill(t2, h)), FALSE) : t1 \in Ladder, t2 \in Ladder, h \in InnerLadder}
         ELSE {Case(Fill(t1, Fill(t2, h)), FALSE) : t1 \in Templates, t2 \in Templates, h \in InnerLadder}

ASSUME \A c \in Pairs \cup Trip : PrintT(<<"CASE", ToJson(c)>>)
ASSUME PrintT(<<"COUNT", Cardinality(Pairs), Cardinality(Trip)>>)
\* string literals: every sequence of up to three (all trees: four) atoms of StringLiteral!Atoms, written alone and in
\* front of / behind further tokens, literals and comments
ASSUME \A s \in SL!AtomSeqs(IF Triples = "all" THEN 4 ELSE 3) :
         PrintT(<<"STRLIT", ToJson([lit |-> SL!Literal(s), ctxs |-> SL!Contexts(SL!Denoted(s))])>>)
\* the white space characters the harness lays the tokens out with (one layout uses every one of them in turn)
ASSUME PrintT(<<"WS", ToJson(LayoutWhiteSpace)>>)
VARIABLE v
Init == v = 0
Next == FALSE /\ v' = v
=============================================================================
