----------------------------- MODULE DecimalExp -----------------------------
(***************************************************************************)
(* exp and the natural logarithm on decimal128 values: rigorous enclosures  *)
(* computed with natural-number arithmetic only (Bignum), from which the    *)
(* acceptors AcceptExp / AcceptLn decide "within two units in the last      *)
(* place" (the accuracy the property grants these two functions).           *)
(*                                                                         *)
(*   e^x, x = r * 2^k with 0 <= r <= 1/2 (r is an exact decimal):           *)
(*     Taylor series of e^r in fixed point with K limbs (4K digits), every  *)
(*     term carried as a pair (lower, upper) of naturals; the tail after a  *)
(*     term below one unit is below two units (ratio <= 1/4);               *)
(*     k squarings of the interval, renormalised to K+2 limbs, rounding     *)
(*     outwards; a reciprocal (outwards) for negative x.                    *)
(*   An enclosure is [lo, hi, q]: lo * B^q <= value <= hi * B^q.            *)
(*                                                                         *)
(*   ln a = y is judged through exp: |y - ln a| <= 2u  <=>                  *)
(*   e^(y - 2u) <= a <= e^(y + 2u).                                         *)
(*                                                                         *)
(* A unit in the last place is that of the exact result (10^(adj - 33), adj *)
(* the adjusted exponent of the exact value); where the enclosure straddles *)
(* a power of ten the larger unit is used, so a correct result is never     *)
(* rejected.                                                               *)
(***************************************************************************)
EXTENDS Decimal

K == 20                                        \* fixed-point limbs: 80 digits
ScaleK == ShiftL(<<1>>, K)                     \* B^K

DropLimbs(a, d) == IF d <= 0 THEN a ELSE IF d >= Len(a) THEN <<>> ELSE SubSeq(a, d + 1, Len(a))   \* floor(a / B^d)

\* floor(t * C * 10^E / n) for E <= 0, n in 1..99
StepDown(t, C, E, n) ==
  IF t = <<>> \/ C = <<>> THEN <<>>
  ELSE LET p  == Mul(t, C)
           dl == (0 - E) \div 4
           p1 == DropLimbs(p, dl)
       IN IF p1 = <<>> THEN <<>> ELSE DivS(p1, P10((0 - E) % 4) * n).q

\* sum of the series of e^r, r = C * 10^E (E <= 0, r <= 1/2), at scale B^K: [lo, hi]
RECURSIVE Series(_, _, _, _, _, _, _)
Series(C, E, n, tl, th, sl, sh) ==
  IF Cmp(th, <<1>>) <= 0 \/ n > 90 THEN [lo |-> sl, hi |-> Add(sh, <<3>>)]
  ELSE LET ntl == StepDown(tl, C, E, n)
           nth == Add(StepDown(th, C, E, n), <<1>>)
           nsl == Add(sl, ntl)
           nsh == Add(sh, nth)
       IN IF nsl = nsl /\ nsh = nsh THEN Series(C, E, n + 1, ntl, nth, nsl, nsh) ELSE [lo |-> <<>>, hi |-> <<>>]
ExpSmall(C, E) == Series(C, E, 1, ScaleK, ScaleK, ScaleK, ScaleK)

\* squaring of an enclosure, renormalised
Square(v) ==
  LET lo2 == Mul(v.lo, v.lo)
      hi2 == Mul(v.hi, v.hi)
      d   == IF Len(hi2) > K + 2 THEN Len(hi2) - (K + 2) ELSE 0
  IN [lo |-> DropLimbs(lo2, d), hi |-> Add(DropLimbs(hi2, d), <<1>>), q |-> 2 * v.q + d]
RECURSIVE SquareN(_, _)
SquareN(v, k) == IF k = 0 THEN v ELSE LET w == Square(v) IN IF w = w THEN SquareN(w, k - 1) ELSE v

\* reciprocal of an enclosure (lo > 0)
Recip(v) ==
  LET M   == 2 * K + 6
      one == ShiftL(<<1>>, M)
  IN [lo |-> DivMod(one, v.hi).q, hi |-> Add(DivMod(one, v.lo).q, <<1>>), q |-> 0 - M - v.q]

\* |x| = mag * 10^e <= 2^j / 2 ?   (mag a Bignum, any e)
RECURSIVE Pow2(_)
Pow2(j) == IF j = 0 THEN 1 ELSE 2 * Pow2(j - 1)
HalfPowGe(mag, e, j) ==
  IF mag = <<>> THEN TRUE
  ELSE IF NumDigits(mag) + e <= 0 - 1 THEN TRUE                       \* below 0.1
  ELSE IF NumDigits(mag) + e > 6 THEN FALSE                           \* 10^6 and more
  ELSE LET m2 == MulS(mag, 2) IN
       IF e >= 0 THEN Cmp(MulPow10(m2, e), Small(Pow2(j))) <= 0
       ELSE Cmp(m2, MulPow10(Small(Pow2(j)), 0 - e)) <= 0
RECURSIVE Halvings(_, _, _)
Halvings(mag, e, j) == IF j >= 16 \/ HalfPowGe(mag, e, j) THEN j ELSE Halvings(mag, e, j + 1)
RECURSIVE Mul5(_, _)
Mul5(a, k) == IF k = 0 THEN a ELSE Mul5(MulS(a, 5), k - 1)

\* enclosure of e^x for x = (-1)^neg * mag * 10^e, |x| < 32768
ExpEncl(neg, mag, e) ==
  IF mag = <<>> THEN [lo |-> <<1>>, hi |-> <<1>>, q |-> 0]
  ELSE LET k  == Halvings(mag, e, 0)
           C  == Mul5(mag, k)                                         \* r = mag * 5^k * 10^(e - k)
           E  == e - k
           s  == IF E >= 0 THEN ExpSmall(MulPow10(C, E), 0) ELSE ExpSmall(C, E)
           p  == SquareN([lo |-> s.lo, hi |-> s.hi, q |-> 0 - K], k)
       IN IF neg THEN Recip(p) ELSE p

\* adjusted exponent of bound * B^q
AdjOf(bound, q) == NumDigits(bound) - 1 + 4 * q

\* comparison of the decimal value mag * 10^e with bound * B^q: -1, 0, 1 (mag, bound # 0)
CmpScaled(mag, e, bound, q) ==
  LET am == NumDigits(mag) - 1 + e
      ab == AdjOf(bound, q)
  IN IF am > ab + 1 THEN 1 ELSE IF am < ab - 1 THEN 0 - 1
     ELSE LET g == IF e < 4 * q THEN e ELSE 4 * q IN
          Cmp(MulPow10(mag, e - g), MulPow10(bound, 4 * q - g))

\* |value - o| <= n units, value in [lo, hi] * B^q, unit = 10^ue; o a non-zero finite number
WithinUnits(v, o, ue, n) ==
  LET ao == Adj(o)
      ah == AdjOf(v.hi, v.q)
  IN IF ao > ah + 1 \/ ao < ah - 2 THEN FALSE
     ELSE LET g0 == IF o.e < 4 * v.q THEN o.e ELSE 4 * v.q
              g  == IF ue < g0 THEN ue ELSE g0
              O  == MulPow10(Mag(o), o.e - g)
              L  == MulPow10(v.lo, 4 * v.q - g)
              H  == MulPow10(v.hi, 4 * v.q - g)
              U  == MulPow10(Small(n), ue - g)
          IN Cmp(Add(O, U), L) >= 0 /\ Cmp(O, Add(H, U)) <= 0

X14150 == [s |-> 0, c |-> <<1, 4, 1, 5>>, e |-> 1]
AcceptExp(a, o) ==
  IF o.k = "num" /\ ~o.fin THEN
       (IF a.s = 0 /\ Compare(a, X14150) >= 0 THEN "overflow: an infinite or NaN value was produced instead of null"
        ELSE "an infinite or NaN value was produced for a representable result")
  ELSE IF a.s = 0 /\ Compare(a, X14150) >= 0 THEN ExpectNull(o, "the result lies outside the decimal128 range: null expected")
  ELSE IF a.s = 1 /\ Compare(a, [X14150 EXCEPT !.s = 1]) <= 0 THEN Unspec                     \* below the smallest subnormal
  ELSE IF IsZ(a) THEN (IF o.k = "num" /\ o.s = 0 /\ o.c = <<1>> /\ o.e = 0 THEN OK ELSE "exp(0) must be 1")
  ELSE LET v == ExpEncl(a.s = 1, Mag(a), a.e)
           al == AdjOf(v.lo, v.q)
           ah == AdjOf(v.hi, v.q)
       IN IF al > EMax THEN ExpectNull(o, "the result lies outside the decimal128 range: null expected")
          ELSE IF ah > EMax \/ al < EMin THEN Unspec                                         \* at the edge of the range / subnormal
          ELSE IF o.k # "num" \/ IsZ(o) \/ o.s = 1 THEN "exp of a moderate argument must be a positive number"
          ELSE IF WithinUnits(v, o, ah - (P - 1), 2) THEN OK
          ELSE "exp: more than two units in the last place away from the exact value"

\* ln: a > 0 finite
OneN == [s |-> 0, c |-> <<1>>, e |-> 0]
AcceptLn(a, o) ==
  IF o.k = "num" /\ ~o.fin THEN "an infinite or NaN value was produced"
  ELSE IF IsZ(a) \/ a.s = 1 THEN ExpectNull(o, "log of a non-positive number must yield null")
  ELSE IF o.k # "num" THEN "log of a positive number must be a number"
  ELSE IF Compare(a, OneN) = 0 THEN (IF IsZ(o) THEN OK ELSE "log(1) must be 0")
  ELSE IF IsZ(o) THEN "log of a number other than 1 cannot be 0"
  ELSE IF (o.s = 1) # (Compare(a, OneN) < 0) THEN "log has the wrong sign"
  ELSE IF Adj(o) > 4 THEN "log result of the wrong magnitude"
  ELSE
    LET pad == P - Len(o.c)
        c34 == MulPow10(Mag(o), pad)
        e34 == o.e - pad
        near == Cmp(Add(c34, <<20>>), Pow10(P)) >= 0                  \* the exact value may lie in the next decade
        w    == IF near THEN <<20>> ELSE <<2>>
        inner == ExpEncl(o.s = 1, Sub(c34, w), e34)                   \* e^(the value 2 units nearer to zero)
        outer == ExpEncl(o.s = 1, Add(c34, w), e34)                   \* e^(the value 2 units farther from zero)
        low  == IF o.s = 0 THEN inner ELSE outer                      \* encloses e^(y - 2u)
        high == IF o.s = 0 THEN outer ELSE inner                      \* encloses e^(y + 2u)
    IN IF CmpScaled(Mag(a), a.e, low.lo, low.q) >= 0 /\ CmpScaled(Mag(a), a.e, high.hi, high.q) <= 0 THEN OK
       ELSE "log: more than two units in the last place away from the exact value"

----------------------------------------------------------------------------
(***************************************************************************)
(* Inexact powers: a ** b = e^(b ln a), a > 0.                              *)
(*   ln a, a = mag * 10^e = t * 2^j * 10^n with 1 <= t < 2:                  *)
(*     ln t = 2 artanh z, z = (t - 1) / (t + 1) < 1/3, by its series in      *)
(*     fixed point (scale B^K) with lower and upper sums; the tail after a   *)
(*     term of at most one unit is below one unit (ratio z^2 < 1/9);         *)
(*     ln 2 and ln 10 are constants of K limbs (checked by the self-test     *)
(*     through ExpEncl: e^LN2lo <= 2 <= e^LN2hi, likewise for 10).           *)
(*   The enclosure of b ln a is an interval of exact decimals; ExpEncl of   *)
(*   its two ends encloses a ** b.                                          *)
(***************************************************************************)
LN2lo  == <<9471, 9696, 3621, 9339, 94, 680, 5412, 2552, 4360, 13, 755, 6568, 5817, 1214, 7232, 941, 9453, 559, 4718, 6931>>            \* floor(ln 2 * B^K)
LN10lo == <<5248, 6773, 2609, 6757, 9009, 3327, 7603, 7729, 8628, 148, 6011, 4207, 8436, 4546, 7991, 8401, 456, 2994, 8509, 3025, 2>>   \* floor(ln 10 * B^K)
LN2hi  == Add(LN2lo, <<1>>)
LN10hi == Add(LN10lo, <<1>>)

FloorK(p) == DropLimbs(p, K)                                          \* floor(p / B^K)
DivSq(a, k) == IF a = <<>> THEN <<>> ELSE DivS(a, k).q

\* pl, ph: enclosure of z^d (d odd) at scale B^K; wl, wh: of z^2; sl, sh: the partial sums of z^i / i
RECURSIVE AtanhSeries(_, _, _, _, _, _, _)
AtanhSeries(pl, ph, wl, wh, d, sl, sh) ==
  IF Cmp(ph, <<1>>) <= 0 \/ d > 400 THEN [lo |-> sl, hi |-> Add(sh, <<3>>)]
  ELSE LET npl == FloorK(Mul(pl, wl))
           nph == Add(FloorK(Mul(ph, wh)), <<1>>)
           nsl == Add(sl, DivSq(npl, d + 2))
           nsh == Add(sh, Add(DivSq(nph, d + 2), <<1>>))
       IN IF nsl = nsl /\ nsh = nsh THEN AtanhSeries(npl, nph, wl, wh, d + 2, nsl, nsh) ELSE [lo |-> <<>>, hi |-> <<>>]

\* ln(mag * 10^e), mag # 0: the value is (-1)^neg * v with lo <= v * B^K <= hi
LnEncl(mag, e) ==
  LET d    == NumDigits(mag)
      n    == d - 1 + e
      p10  == Pow10(d - 1)
      j    == IF Cmp(mag, MulS(p10, 2)) < 0 THEN 0 ELSE IF Cmp(mag, MulS(p10, 4)) < 0 THEN 1 ELSE IF Cmp(mag, MulS(p10, 8)) < 0 THEN 2 ELSE 3
      base == MulS(p10, Pow2(j))
      num  == Sub(mag, base)
      den  == Add(mag, base)
      zl   == IF num = <<>> THEN <<>> ELSE DivMod(ShiftL(num, K), den).q
      zh   == IF num = <<>> THEN <<>> ELSE Add(zl, <<1>>)
      s    == IF num = <<>> THEN [lo |-> <<>>, hi |-> <<>>]
              ELSE AtanhSeries(zl, zh, FloorK(Mul(zl, zl)), Add(FloorK(Mul(zh, zh)), <<1>>), 1, zl, zh)
      pml  == Add(MulS(s.lo, 2), MulS(LN2lo, j))
      pmh  == Add(MulS(s.hi, 2), MulS(LN2hi, j))
  IN IF n >= 0 THEN [neg |-> FALSE, lo |-> Add(pml, MulS(LN10lo, n)), hi |-> Add(pmh, MulS(LN10hi, n))]
     ELSE [neg |-> TRUE, lo |-> Sub(MulS(LN10lo, 0 - n), pmh), hi |-> Sub(MulS(LN10hi, 0 - n), pml)]

\* enclosure of |a| ** b for |a| # 1, a # 0, b # 0: [st = "in", lo, hi, q], or st = "over" / "under" when |b ln a| >= 20000
PowEncl(a, b) ==
  LET L    == LnEncl(Mag(a), a.e)
      xneg == (b.s = 1) # L.neg
      Xl   == Mul(Mag(b), L.lo)                                        \* |b ln a| in [Xl, Xh] * 10^xe
      Xh   == Mul(Mag(b), L.hi)
      xe   == b.e - 4 * K
      xadj == NumDigits(Xl) - 1 + xe
      big  == IF xadj >= 5 THEN TRUE ELSE IF xadj < 4 THEN FALSE ELSE Cmp(Xl, MulPow10(Small(20000), 0 - xe)) >= 0
  IN IF big THEN [st |-> IF xneg THEN "under" ELSE "over"]
     ELSE LET d    == IF Len(Xh) > K + 4 THEN Len(Xh) - (K + 4) ELSE 0     \* K + 4 limbs of the product are plenty: cut outwards
              near == ExpEncl(xneg, DropLimbs(Xl, d), xe + 4 * d)
              far  == ExpEncl(xneg, IF d = 0 THEN Xh ELSE Add(DropLimbs(Xh, d), <<1>>), xe + 4 * d)
              low  == IF xneg THEN far ELSE near
              high == IF xneg THEN near ELSE far
              q    == IF low.q < high.q THEN low.q ELSE high.q
          IN [st |-> "in", lo |-> ShiftL(low.lo, low.q - q), hi |-> ShiftL(high.hi, high.q - q), q |-> q]

IsOne(o) == o.k = "num" /\ o.fin /\ o.c = <<1>> /\ o.e = 0
AbsN(a) == [a EXCEPT !.s = 0]
\* a ** b for an exponent that is not a small integer (those are AcceptPowInt's): within two units in the last place
AcceptPow(a, b, o) ==
  IF o.k = "num" /\ ~o.fin THEN "an infinite or NaN value was produced"
  ELSE IF o.k \notin {"num", "null"} THEN "the result is neither a number nor null"
  ELSE IF IsZ(b) THEN (IF IsZ(a) THEN Unspec ELSE IF IsOne(o) /\ o.s = 0 THEN OK ELSE "x ** 0 must be 1")
  ELSE IF IsZ(a) THEN (IF b.s = 1 THEN ExpectNull(o, "zero to a negative power is undefined: null expected")
                       ELSE IF o.k = "num" /\ IsZ(o) THEN OK ELSE "zero to a positive power must be zero")
  ELSE IF a.s = 1 /\ ~IsInteger(b) THEN ExpectNull(o, "a negative number to a fractional power is undefined: null expected")
  ELSE IF a.s = 1 /\ Adj(b) >= 9 THEN Unspec                          \* integer exponents of ten and more digits with a negative base
  ELSE LET neg == a.s = 1 /\ Odd(b) IN
    IF Compare(AbsN(a), OneN) = 0 THEN (IF IsOne(o) /\ (o.s = 1) = neg THEN OK ELSE "a power of 1 or -1 must be 1 or -1")
    ELSE LET v == PowEncl(a, b) IN
      IF v.st = "over" THEN ExpectNull(o, "the result lies outside the decimal128 range: null expected")
      ELSE IF v.st = "under" THEN Unspec
      ELSE LET al == AdjOf(v.lo, v.q)
               ah == AdjOf(v.hi, v.q)
           IN IF al > EMax THEN ExpectNull(o, "the result lies outside the decimal128 range: null expected")
              ELSE IF ah > EMax \/ al < EMin THEN Unspec
              ELSE IF o.k # "num" THEN "a finite result is representable but null was returned"
              ELSE IF IsZ(o) THEN "zero returned for a non-zero result"
              ELSE IF (o.s = 1) # neg THEN "wrong sign"
              ELSE IF WithinUnits(v, o, ah - (P - 1), 2) THEN OK
              ELSE "power: more than two units in the last place away from the exact value"
=============================================================================
