----------------------------- MODULE Trace_C07 -----------------------------
(* C07: numbers print as plain decimal text that denotes exactly their      *)
(* value.  One record per number:                                           *)
(*   v      the value (raw decimal128 parts, hook H2), canonical [s, c, e]  *)
(*   text   to_string();  json  jsonify()   (strings)                        *)
(*   back   the value of from_str(to_string())  (or [k |-> "err"])          *)
(*   lit    the value of the FEEL literal written by the harness for v      *)
(*   xsd    the value of the same text read as xsd:decimal input            *)
(*          (lit / xsd only for numbers whose plain text the harness wrote) *)
(*   hint   [lead, trail, dot] claimed by the harness: number of zero       *)
(*          digits before and after the coefficient digits and the position *)
(*          of the decimal point in the unsigned text (0 = none).           *)
(* The hints are NOT trusted: the specification rebuilds the only text that *)
(* (value, hints) can denote and compares it with the actual text, so a     *)
(* wrong text is rejected whatever the hints say; they only spare TLC a     *)
(* character-by-character scan of texts of up to 6 200 characters.          *)
EXTENDS Naturals, Integers, Sequences, TLC, Json, IOUtils

Recs == ndJsonDeserialize(IOEnv.TRACE)

\* texts travel as strings (compact); TLC cannot index a string, so the expected text is
\* built from the value and the hints by concatenation and compared as a whole
RECURSIVE Z(_)
Z(n) == IF n <= 0 THEN "" ELSE IF n = 1 THEN "0"
        ELSE LET h == Z(n \div 2) IN IF n % 2 = 0 THEN h \o h ELSE h \o h \o "0"
DigitStr == <<"0", "1", "2", "3", "4", "5", "6", "7", "8", "9">>
RECURSIVE Str(_)
Str(c) == IF c = <<>> THEN "" ELSE DigitStr[c[1] + 1] \o Str(Tail(c))

\* the digits  0^lead c 0^trail  with a decimal point after the first intD of them (dot = intD + 1; 0 = none)
Expected(c, lead, trail, dot) ==
  LET intD == dot - 1  n == Len(c) IN
  IF dot = 0 THEN Z(lead) \o Str(c) \o Z(trail)
  ELSE IF intD <= lead THEN Z(intD) \o "." \o Z(lead - intD) \o Str(c) \o Z(trail)
  ELSE IF intD < lead + n THEN Z(lead) \o Str(SubSeq(c, 1, intD - lead)) \o "." \o Str(SubSeq(c, intD - lead + 1, n)) \o Z(trail)
  ELSE Z(lead) \o Str(c) \o Z(intD - lead - n) \o "." \o Z(trail - (intD - lead - n))

\* "ok" or the reason why `text` is not a plain decimal text denoting v
Denotes(text, v, h, jsonRules) ==
  LET nd     == h.lead + Len(v.c) + h.trail
      intD   == IF h.dot = 0 THEN nd ELSE h.dot - 1                     \* digits before the point
      body   == Expected(v.c, h.lead, h.trail, h.dot)
      neg    == text = "-" \o body
  IN
  IF h.lead < 0 \/ h.trail < 0 \/ h.dot < 0 \/ h.dot > nd + 1 THEN "malformed hints"
  ELSE IF text # body /\ ~neg THEN "the text is not <optional minus><digits>[.<digits>] made of the value's digits and zeros"
  ELSE IF nd = 0 THEN "no digits"
  ELSE IF h.dot # 0 /\ (intD < 1 \/ nd - intD < 1) THEN "a decimal point needs digits on both sides"
  ELSE IF v.c = <<>> THEN "ok"                                          \* zero: any run of zeros
  ELSE IF neg # (v.s = 1) THEN "wrong sign"
  ELSE IF intD - (h.lead + Len(v.c)) # v.e THEN "the digits are right but the decimal point / zeros put them at the wrong magnitude"
  ELSE IF jsonRules /\ intD > 1 /\ h.lead > 0 THEN "a JSON number must not have leading zeros"
  ELSE "ok"

SameNum(a, b) == a.k = "num" /\ a.fin /\ a.s = b.s /\ a.c = b.c /\ a.e = b.e

Verdict(r) ==
  LET t == Denotes(r.text, r.v, r.hint, FALSE)
      j == Denotes(r.json, r.v, r.jhint, TRUE)
  IN IF "panic" \in DOMAIN r THEN "printing or reading the number panicked"
     ELSE IF t # "ok" THEN "to_string: " \o t
     ELSE IF j # "ok" THEN "jsonify: " \o j
     ELSE IF ~SameNum(r.back, r.v) THEN "reading the printed text back does not give an equal number"
     ELSE IF "lit" \in DOMAIN r /\ ~SameNum(r.lit, r.v) THEN "the FEEL literal does not evaluate to the value it denotes"
     ELSE IF "xsd" \in DOMAIN r /\ ~SameNum(r.xsd, r.v) THEN "the xsd:decimal input text does not convert to the value it denotes"
     ELSE IF "xsdd" \in DOMAIN r /\ ~SameNum(r.xsdd, r.v) THEN "the xsd:double input text does not convert to the value it denotes"
     ELSE IF "xsdi" \in DOMAIN r /\ ~SameNum(r.xsdi, r.v) THEN "the xsd:integer input text does not convert to the value it denotes"
     ELSE "ok"

VARIABLE i
Init == i \in 1..Len(Recs)
Next == FALSE /\ i' = i
Judged == LET w == Verdict(Recs[i]) IN w = "ok" \/ PrintT(<<"REJECT", i, w>>)
=============================================================================
