------------------------------ MODULE Gen_C19 ------------------------------
(* Drawing configurations for C19: every combination of the optional parts  *)
(* (orientation, information item name box and its width, allowed values,   *)
(* output label) x 1..3 outputs x 0..2 annotations x cell style x a set of  *)
(* sizes (inputs x rules), and every hit policy marker.                      *)
EXTENDS Recognizer, TLC, Json, FiniteSets
CONSTANT Deep

InExpr == <<"Alpha", "Beta two", "Gamma", "Delta four", "Eps">>
OutName == <<"Out one", "Res", "Third part">>
AnnName == <<"Description", "Ref no">>
EntryCycle == <<"-", "<10", ">=10", "[5..15]", "not(7)">>
Dig(n) == CASE n = 0 -> "0" [] n = 1 -> "1" [] n = 2 -> "2" [] n = 3 -> "3" [] n = 4 -> "4" [] n = 5 -> "5" [] n = 6 -> "6" [] n = 7 -> "7" [] n = 8 -> "8" [] n = 9 -> "9"
OutEntry(r, j) == Dig(r) \o Dig(j)                          \* the number 10 r + j
RECURSIVE OutVals(_, _, _)
OutVals(nr, j, r) == IF r > nr THEN "" ELSE OutEntry(r, j) \o (IF r < nr THEN ", " ELSE "") \o OutVals(nr, j, r + 1)

Config(orient, info, infow, hp, vals, label, nin, nout, nann, nr, style) ==
  [orient |-> orient, info |-> info, infow |-> infow, hp |-> hp, vals |-> vals, style |-> style,
   label |-> IF label THEN Some("Sell options") ELSE None,
   ins |-> [i \in 1..nin |-> [expr |-> InExpr[i], vals |-> "<50, >=50"]],
   outs |-> [j \in 1..nout |-> [name |-> OutName[j], vals |-> OutVals(nr, j, 1)]],
   anns |-> [k \in 1..nann |-> AnnName[k]],
   rules |-> [r \in 1..nr |-> [ins |-> [i \in 1..nin |-> EntryCycle[((r + i) % 5) + 1]],
                               outs |-> [j \in 1..nout |-> OutEntry(r, j)],
                               anns |-> [k \in 1..nann |-> "note " \o Dig(r) \o " " \o Dig(k)]]]]

Infos == {<<"", "narrow">>, <<"Item nm", "narrow">>, <<"Item nm", "equal">>}
Sizes == IF Deep THEN {<<1, 1>>, <<2, 3>>, <<3, 2>>, <<4, 5>>, <<5, 8>>} ELSE {<<1, 1>>, <<2, 3>>, <<5, 8>>}
Styles == {"tight", "wide", "multi", "multicentre"}       \* multicentre: multi-line cells, every text centred in its cell in both directions
Layouts == {Config(o, inf[1], inf[2], hp, v, l, sz[1], nout, nann, sz[2], st) :
              o \in {"rows", "cols"}, inf \in Infos, hp \in (IF Deep THEN {"U", "C+", "F"} ELSE {"F"}), v \in BOOLEAN, l \in BOOLEAN,
              sz \in Sizes, nout \in 1..3, nann \in 0..2, st \in Styles}
MarkerSweep == {Config(o, "", "narrow", hp, v, FALSE, 2, nout, 0, 3, "wide") : o \in {"rows", "cols"}, hp \in Markers, v \in BOOLEAN, nout \in 1..2}

\* multi-line cells whose lines fill the cell from border to border (no padding: the line break is the only separator
\* between the last word of one line and the first of the next)
TightMulti == {[Config(o, "", "narrow", "F", FALSE, l, 1, nout, nann, 2, "multitight") EXCEPT
                  !.ins = <<[expr |-> "Alpha Gamma", vals |-> "<50, >=50"]>>,
                  !.rules = [r \in 1..2 |-> [@[r] EXCEPT !.ins = <<IF r = 1 THEN "<10" ELSE ">=10">>]]]
                : o \in {"rows", "cols"}, l \in BOOLEAN, nout \in 1..2, nann \in 0..1}
\* input expressions that are single letters - among them the letters of the hit policy markers, in lower case
LetterSweep == {[Config(o, "", "narrow", hp, v, FALSE, 2, nout, nann, 2, "tight") EXCEPT
                   !.ins = <<[expr |-> first, vals |-> "<50, >=50"], [expr |-> "b", vals |-> "<50, >=50"]>>]
                : o \in {"rows", "cols"}, hp \in {"U", "C"}, v \in BOOLEAN, nout \in 1..2, nann \in 0..1, first \in {"a", "p", "c", "u", "o", "f", "r", "x"}}

\* neighbouring rules with equal entries, drawn as ONE merged cell (style "merged"): next to the double line on the input
\* side only, on the output side only, on both sides at once, runs of three rules, every clause at once
MIn1 == <<"<10", "<10", ">=10", ">=10">>
MEntry(p, r, side) ==          \* side 1: the last input clause, side 2: the first output clause
  LET own == IF side = 1 THEN EntryCycle[r + 1] ELSE OutEntry(r, 1)
      g12 == IF side = 1 THEN "[5..15]" ELSE "77"
      g234 == IF side = 1 THEN "not(7)" ELSE "88" IN
  CASE p = 1 -> (IF side = 1 /\ r \in {1, 2} THEN g12 ELSE own)
    [] p = 2 -> (IF side = 2 /\ r \in {1, 2} THEN g12 ELSE own)
    [] p = 3 -> (IF r \in {1, 2} THEN g12 ELSE own)
    [] p = 4 -> (IF r \in {2, 3, 4} THEN g234 ELSE own)
    [] OTHER -> (IF r \in {3, 4} THEN g12 ELSE own)
MergedSweep == {[Config(o, "", "narrow", hp, FALSE, FALSE, 2, nout, nann, 4, "merged") EXCEPT
                   !.rules = [r \in 1..4 |-> [@[r] EXCEPT !.ins = <<MIn1[r], MEntry(p, r, 1)>>,
                                                            !.outs = [j \in 1..nout |-> IF j = 1 THEN MEntry(p, r, 2) ELSE IF p = 5 /\ r \in {3, 4} THEN "99" ELSE OutEntry(r, j)]]]]
                : o \in {"rows", "cols"}, hp \in {"F", "C"}, nout \in 1..2, nann \in 0..1, p \in 1..5}
\* output entries that read like rule numbers: the last (first, every) rule's entries read 1, 2, 3; the entries of a
\* clause read 1, 2, 3 down the rules
NumPat(p, r, j) == CASE p = 1 -> (IF r = 3 THEN Dig(j) ELSE Dig(9 - r))
                     [] p = 2 -> Dig(r)
                     [] p = 3 -> (IF r = 1 THEN Dig(j) ELSE Dig(5 + r))
                     [] OTHER -> Dig(j)
NumLikeSweep == {[Config(o, "", "narrow", hp, FALSE, FALSE, 1, nout, nann, 3, st) EXCEPT
                    !.rules = [r \in 1..3 |-> [@[r] EXCEPT !.ins = <<IF r = 1 THEN ">=90" ELSE IF r = 2 THEN ">=50" ELSE "-">>,
                                                             !.outs = [j \in 1..nout |-> NumPat(p, r, j)]]]]
                 : o \in {"rows", "cols"}, hp \in {"F", "U"}, nout \in 1..3, nann \in 0..1, p \in 1..4, st \in {"tight", "wide"}}

VARIABLE c
Init == c \in Layouts \cup MarkerSweep \cup TightMulti \cup LetterSweep \cup MergedSweep \cup NumLikeSweep /\ PrintT(<<"CASE", ToJson(c)>>)
Next == FALSE /\ c' = c
=============================================================================
