----------------------------- MODULE Trace_C15 -----------------------------
(* C15: every record is one case of Gen_C15 together with what the real     *)
(* evaluator answered (see harness/src/drive/c15.rs for the expressions).   *)
(* Calendar.tla says what the answers must be.  Truth values are recorded   *)
(* as "T" / "F" / "N" (null) / "O" (anything else) / "P" (panic).           *)
EXTENDS Calendar, TLC, Json, IOUtils
Recs == ndJsonDeserialize(IOEnv.TRACE)

TV(b) == IF b THEN "T" ELSE "F"
\* the twelve ordering forms, given the sign of the comparison (cmp = -1, 0, 1); returns the name of the first wrong form or ""
OrderForms == <<"eq", "ne", "lt", "le", "gt", "ge", "ult", "ule", "ugt", "uge", "btw", "rng">>
WantForm(f, cmp) ==
  CASE f = "eq" -> TV(cmp = 0) [] f = "ne" -> TV(cmp # 0)
    [] f \in {"lt", "ult"} -> TV(cmp < 0) [] f \in {"le", "ule"} -> TV(cmp <= 0)
    [] f \in {"gt", "ugt"} -> TV(cmp > 0) [] f \in {"ge", "uge"} -> TV(cmp >= 0)
    [] f \in {"btw", "rng"} -> TV(cmp = 0)
RECURSIVE FirstWrong(_, _, _)
FirstWrong(o, cmp, i) ==
  IF i > Len(OrderForms) THEN ""
  ELSE IF o[OrderForms[i]] # WantForm(OrderForms[i], cmp) THEN OrderForms[i] \o " is " \o o[OrderForms[i]] ELSE FirstWrong(o, cmp, i + 1)

\* an observed number as a Bignum magnitude (<<0 - 1>> when it is not a whole number) and its sign
RECURSIVE AllZero(_, _)
AllZero(d, from) == from > Len(d) \/ (d[from] = 0 /\ AllZero(d, from + 1))
NumMag(v) ==
  IF v.e >= 0 THEN MulPow10(FromDigits(v.c), v.e)
  ELSE IF 0 - v.e >= Len(v.c) THEN (IF AllZero(v.c, 1) THEN <<>> ELSE <<0 - 1>>)
  ELSE IF AllZero(v.c, Len(v.c) + v.e + 1) THEN FromDigits(SubSeq(v.c, 1, Len(v.c) + v.e)) ELSE <<0 - 1>>
IsWhole(v, neg, mag) == v.k = "num" /\ v.fin /\ NumMag(v) = mag /\ (mag = <<>> \/ (v.s = 1) = neg)
IsInt(v, n) == IsWhole(v, n < 0, Small(IF n < 0 THEN 0 - n ELSE n))

----------------------------------------------------------------------------
MonthVerdict(r) ==
  LET Want(d) == IF ValidDate(r.y, r.m, d) THEN <<r.y, r.m, d, Weekday(r.y, r.m, d)>> ELSE <<>>
      bad == {d \in 0..32 : r.num[d + 1] # Want(d) /\ ~(r.y = 0 /\ r.num[d + 1] = <<>>)}
      badl == IF r.lit = <<>> THEN {} ELSE {d \in 0..32 : r.lit[d + 1] # Want(d) /\ ~(r.y = 0 /\ r.lit[d + 1] = <<>>)}
      Why(d, got, how) == IF got = <<>> THEN how \o ": a valid date was rejected"
                          ELSE IF Want(d) = <<>> THEN how \o ": an impossible date was accepted"
                          ELSE IF SubSeq(got, 1, 3) # SubSeq(Want(d), 1, 3) THEN how \o ": year month day do not give back the date"
                          ELSE IF got[4] = 0 THEN how \o ": weekday is null"
                          ELSE how \o ": weekday is wrong"
  IN IF bad # {} THEN LET d == CHOOSE d \in bad : TRUE IN Why(d, r.num[d + 1], "date from numbers")
     ELSE IF badl # {} THEN LET d == CHOOSE d \in badl : TRUE IN Why(d, r.lit[d + 1], "date literal")
     ELSE "ok"

CtorVerdict(r) ==
  LET cs == {r.cy.c, r.cm.c, r.cd.c} IN
  IF r.v.k = "panic" THEN "date from numbers panicked"
  ELSE IF "frac" \in cs THEN "unspec"
  ELSE IF "huge" \in cs THEN (IF r.v.k = "null" THEN "ok" ELSE "date from numbers: a component outside its range was accepted")
  ELSE LET y == r.cy.v  m == r.cm.v  d == r.cd.v IN
       IF ValidDate(y, m, d) THEN
            (IF y = 0 THEN "unspec"
             ELSE IF r.v.k = "null" THEN "date from numbers: a valid date was rejected"
             ELSE IF r.v.k = "date" /\ r.v.y = y /\ r.v.m = m /\ r.v.d = d THEN "ok" ELSE "date from numbers: another date came back")
       ELSE IF r.v.k = "null" THEN "ok" ELSE "date from numbers: a component outside its range was accepted"

DPairVerdict(r) ==
  LET w == FirstWrong(r.o, CmpDate(r.a, r.b), 1) IN IF w = "" THEN "ok" ELSE "dates: " \o w

\* instants of a pair, or the reason why the case is open
PairInstants(a, b) ==
  LET oa == OffsetOf(a)  ob == OffsetOf(b) IN
  IF oa.st \in {"gap", "overlap", "unknown"} \/ ob.st \in {"gap", "overlap", "unknown"} THEN [st |-> "open"]
  ELSE IF oa.st = "local" /\ ob.st = "local" THEN [st |-> "ok", ia |-> Instant(a, 0), ib |-> Instant(b, 0)]
  ELSE IF oa.st = "local" \/ ob.st = "local" THEN [st |-> "open"]
  ELSE [st |-> "ok", ia |-> Instant(a, oa.off), ib |-> Instant(b, ob.off)]

DtPairVerdict(r) ==
  LET p == PairInstants(r.a, r.b) IN
  IF "P" \in {r.o[f] : f \in DOMAIN r.o} \/ r.sub.k = "panic" THEN (IF p.st = "open" THEN "unspec" ELSE "date and time: panic")
  ELSE IF p.st = "open" THEN "unspec"
  ELSE LET w == FirstWrong(r.o, CmpLex(p.ia, p.ib), 1)
           far == Abs(r.a.date.y) >= 262143 \/ Abs(r.b.date.y) >= 262143
           allNull == r.sub.k = "null" /\ \A f \in DOMAIN r.o : r.o[f] = "N"
           diff == DiffInstants(p.ia, p.ib)
       IN
       IF far /\ allNull THEN "date and time: values with a year beyond 262142 do not compare (null)"
       ELSE IF w # "" THEN "date and time: " \o w
       ELSE IF r.sub.k = "null" /\ Cmp(diff.sec, FromDigits(<<9, 2, 2, 3, 3, 7, 2, 0, 3, 6>>)) >= 0 THEN "date and time: a difference of more than 2^63 nanoseconds is null"
       ELSE IF r.sub.k # "dtd" THEN "date and time: the difference is not a duration"
       ELSE IF ~SameDur(OfDtd(r.sub), DiffInstants(p.ia, p.ib)) THEN "date and time: the difference is not the exact duration"
       ELSE "ok"

DtPropsVerdict(r) ==
  LET a == r.a  o == OffsetOf(a)  p == r.p IN
  IF ~IsInt(p.year, a.date.y) THEN "property year"
  ELSE IF ~IsInt(p.month, a.date.m) THEN "property month"
  ELSE IF ~IsInt(p.day, a.date.d) THEN "property day"
  ELSE IF ~IsInt(p.hour, a.time.h) THEN "property hour"
  ELSE IF ~IsInt(p.minute, a.time.mi) THEN "property minute"
  ELSE IF ~IsInt(p.second, a.time.s) THEN "property second"
  ELSE IF p.weekday.k = "null" THEN "property weekday is null"
  ELSE IF ~IsInt(p.weekday, Weekday(a.date.y, a.date.m, a.date.d)) THEN "property weekday"
  ELSE IF a.time.zk = "zone" /\ p.timezone # [k |-> "zone", zn |-> a.time.zn] THEN "property timezone"
  ELSE IF a.time.zk # "zone" /\ p.timezone.k # "null" THEN "property timezone of a value without a zone"
  ELSE IF o.st = "local" THEN (IF p.offset.k = "null" THEN "ok" ELSE "property time offset of a local value")
  ELSE IF o.st # "ok" THEN "unspec"
  ELSE IF p.offset.k # "dtd" THEN "property time offset is not a duration"
  ELSE IF ~SameDur(OfDtd(p.offset), SDur(o.off < 0, Small(IF o.off < 0 THEN 0 - o.off ELSE o.off), 0)) THEN "property time offset"
  ELSE "ok"

YmbVerdict(r) ==
  LET want == MonthsBetween(r.a, r.b)
      alt == IF CmpDate(r.a, r.b) <= 0 THEN want + 1 ELSE want - 1         \* the clamping reading, where open
      Is(n) == r.v.k = "ymd" /\ SameDur(SDur(r.v.neg, FromDigits(r.v.mo), 0), SDur(n < 0, Small(IF n < 0 THEN 0 - n ELSE n), 0))
  IN IF r.v.k = "panic" THEN "months between: panic"
     ELSE IF Is(want) THEN "ok"
     ELSE IF MonthsBetweenOpen(r.a, r.b) /\ Is(alt) THEN "unspec"
     ELSE IF r.v.k # "ymd" THEN "months between: not a years and months duration"
     ELSE "months between: not the number of whole months"

OfDur(v) == IF v.k = "dtd" THEN OfDtd(v) ELSE SDur(v.neg, FromDigits(v.mo), 0)
DurPairVerdict(r) ==
  LET a == OfDur(r.a)  b == OfDur(r.b)  kind == r.a.k
      w == FirstWrong(r.o, CmpDur(a, b), 1)
      sum == AddDur(a, b)
      Signed(v, mag) == IsWhole(v, a.neg, mag)
  IN IF r.add.k = "panic" \/ r.neg.k = "panic" THEN "durations: panic"
     ELSE IF w # "" THEN "durations " \o kind \o ": " \o w
     ELSE IF r.add.k # kind THEN "durations " \o kind \o ": the sum is not a duration"
     ELSE IF ~SameDur(OfDur(r.add), sum) THEN "durations " \o kind \o ": the sum is wrong"
     ELSE IF r.neg.k # kind THEN "durations " \o kind \o ": the negation is not a duration"
     ELSE IF ~SameDur(OfDur(r.neg), NegDur(a)) THEN "durations " \o kind \o ": the negation is wrong"
     ELSE IF kind = "dtd" THEN
          LET parts == DtdParts(a) IN
          IF ~Signed(r.c.days, parts.days) THEN "durations dtd: component days"
          ELSE IF ~Signed(r.c.hours, Small(parts.hours)) THEN "durations dtd: component hours"
          ELSE IF ~Signed(r.c.minutes, Small(parts.minutes)) THEN "durations dtd: component minutes"
          ELSE IF a.ns = 0 /\ ~Signed(r.c.seconds, Small(parts.seconds)) THEN "durations dtd: component seconds"
          ELSE "ok"
     ELSE LET q == DivS(a.sec, 12) IN
          IF ~Signed(r.c.years, q.q) THEN "durations ymd: component years"
          ELSE IF ~Signed(r.c.months, Small(q.r)) THEN "durations ymd: component months"
          ELSE "ok"

Verdict(r) ==
  CASE r.kind = "month" -> MonthVerdict(r)
    [] r.kind = "ctor" -> CtorVerdict(r)
    [] r.kind = "dpair" -> DPairVerdict(r)
    [] r.kind = "dtpair" -> DtPairVerdict(r)
    [] r.kind = "dtprops" -> DtPropsVerdict(r)
    [] r.kind = "ymb" -> YmbVerdict(r)
    [] r.kind = "durpair" -> DurPairVerdict(r)

VARIABLE i
Init == i \in 1..Len(Recs)
Next == FALSE /\ i' = i
Judged == LET w == Verdict(Recs[i]) IN IF w = "ok" THEN TRUE ELSE IF w = "unspec" THEN PrintT(<<"UNSPEC", i>>) ELSE PrintT(<<"REJECT", i, w>>)
=============================================================================
