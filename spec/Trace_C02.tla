----------------------------- MODULE Trace_C02 -----------------------------
(* C02: every record is one arithmetic operation performed by the real      *)
(* evaluator on operands bound in the scope, with the raw decimal128 parts  *)
(* of the result (hook H2).  Decimal.tla decides whether the result is the  *)
(* correctly rounded one (or null exactly when it must be).                 *)
EXTENDS DecimalExp, TLC, Json, IOUtils

Recs == ndJsonDeserialize(IOEnv.TRACE)

Tri(code, want) == code = want       \* codes: 0 null, 1 true, 2 false, 3 other
B3(b) == IF b THEN 1 ELSE 2

Verdict(r) ==
  LET op == r.op  a == r.a  o == r.obs IN
  CASE op = "add" -> AcceptAdd(a, r.b, o)
    [] op = "sub" -> AcceptSub(a, r.b, o)
    [] op = "mul" -> AcceptMul(a, r.b, o)
    [] op = "div" -> AcceptDiv(a, r.b, o)
    [] op = "neg" -> AcceptNeg(a, o)
    [] op = "abs" -> AcceptAbs(a, o)
    [] op = "floor" -> AcceptFloor(a, o)
    [] op = "ceiling" -> AcceptCeiling(a, o)
    [] op = "decimal" -> AcceptDecimal(a, r.n, o)
    [] op = "modulo" -> AcceptModulo(a, r.b, o)
    [] op = "sqrt" -> AcceptSqrt(a, o)
    [] op = "powint" -> AcceptPowInt(a, IF r.n < 0 THEN 0 - r.n ELSE r.n, r.n < 0, o)
    [] op = "cmp" -> LET c == Compare(a, r.b) IN
                     IF r.lt = B3(c < 0) /\ r.eq = B3(c = 0) /\ r.gt = B3(c > 0) /\ r.le = B3(c <= 0) /\ r.ge = B3(c >= 0) /\ r.ne = B3(c # 0)
                     THEN OK ELSE "comparison disagrees with the numeric order"
    [] op = "repr" -> \* the same operation on operands of equal value but different scale: results of equal value
                IF (o.k = "null" /\ r.obs2.k = "null") \/ (o.k = "num" /\ r.obs2.k = "num" /\ o.fin = r.obs2.fin /\ (~o.fin \/ Compare(o, r.obs2) = 0))
                THEN OK ELSE "the result depends on the scale (trailing zeros) of operands of equal value"
    [] op = "odd" -> IF r.code = B3(Odd(a)) THEN OK ELSE "odd() wrong"
    [] op = "even" -> IF r.code = B3(Even(a)) THEN OK ELSE "even() wrong"
    [] op = "exp" -> AcceptExp(a, o)          \* DecimalExp: within two units in the last place of the exact value
    [] op = "log" -> AcceptLn(a, o)
    [] op = "pow" -> AcceptPow(a, r.b, o)     \* DecimalExp: e^(b ln a) enclosed; within two units in the last place
    [] OTHER -> "unknown operation"

VARIABLE i
Init == i \in 1..Len(Recs)
Next == FALSE /\ i' = i
Judged == LET w == Verdict(Recs[i]) IN
          IF w = OK THEN TRUE ELSE IF w = Unspec THEN PrintT(<<"UNSPEC", i>>) ELSE PrintT(<<"REJECT", i, w>>)
=============================================================================
