------------------------------ MODULE Gen_C10 ------------------------------
(* C10 stimuli.  For each set of bound names (each bound to a distinct      *)
(* prime, so a number tells which names were resolved) every sequence of    *)
(* parts up to a length bound over the set's alphabet of words, additional  *)
(* symbols and a number literal is offered to FeelNames!ParseOperands; the  *)
(* sequences that denote an arithmetic expression over bound names are the  *)
(* cases.  Each case is embedded at one of the positions in which a name    *)
(* may occur, and in scopes that introduce one more name locally (context   *)
(* entry, iteration variable, function parameter).                          *)
EXTENDS FeelNames, FiniteSets, TLC, Json
CONSTANT MaxLen

B(n, m) == [n |-> n, m |-> m]
Sets == <<
  [id |-> 1, words |-> {"a", "b", "c"}, syms |-> {"-", "+", "*"}, names |-> {B("a", 2), B("b", 3), B("c", 5)}, extra |-> {}],
  [id |-> 2, words |-> {"a", "b", "c"}, syms |-> {"-", "+"}, names |-> {B("a", 2), B("b", 3), B("c", 5), B("a-b", 7)}, extra |-> {}],
  [id |-> 3, words |-> {"a", "b", "c"}, syms |-> {"-", "*"}, names |-> {B("a", 2), B("b", 3), B("c", 5), B("a b", 11), B("b c", 13)}, extra |-> {}],
  [id |-> 4, words |-> {"a", "b"}, syms |-> {"+", "*", "/", "-"}, names |-> {B("a", 2), B("b", 3), B("a+b", 13), B("a*b", 19), B("a/b", 17)}, extra |-> {}],
  [id |-> 5, words |-> {"a", "b", "c"}, syms |-> {"-", "+"}, names |-> {B("a", 2), B("b", 3), B("c", 5), B("a-b", 7), B("a-b c", 31)}, extra |-> {}],
  [id |-> 6, words |-> {"a", "b", "c"}, syms |-> {"'", "-", "."}, names |-> {B("a", 2), B("b", 3), B("c", 5), B("a'b", 29), B("a.b", 23)}, extra |-> {}],
  [id |-> 7, words |-> {"a", "b", "c"}, syms |-> {"-", "+"}, names |-> {B("a", 2), B("b", 3), B("c", 5), B("a-b", 7), B("a-b-c-a", 37), B("a-b-c", 41)},
     extra |-> {<<"a", "-", "b", "-", "c", "-", "a">>, <<"a", "-", "b", "-", "c", "-", "a", "+", "1">>, <<"1", "+", "a", "-", "b", "-", "c", "-", "a">>,
                <<"a", "-", "b", "-", "c", "-", "a", "-", "b">>, <<"a", "-", "b", "-", "c", "-", "b">>}],
  [id |-> 8, words |-> {"Zolc", "b"}, syms |-> {"-", "*"}, names |-> {B("Zolc", 2), B("b", 3), B("Zolc-b", 7), B("b Zolc", 11)}, extra |-> {}],
  \* names whose first word also spells a built-in type or a word of a built-in function's name (none is a keyword)
  [id |-> 9, words |-> {"number", "sold", "b"}, syms |-> {"-", "+"}, names |-> {B("number sold", 7), B("b", 3), B("sold", 5)}, extra |-> {}],
  [id |-> 10, words |-> {"time", "limit", "string"}, syms |-> {"-", "*"}, names |-> {B("time limit", 7), B("string", 3), B("limit", 5), B("string time", 11)}, extra |-> {}],
  \* single words that also spell a temporal built-in function, bound as names
  [id |-> 11, words |-> {"date", "time", "duration"}, syms |-> {"-", "+"}, names |-> {B("date", 2), B("time", 3), B("duration", 5)}, extra |-> {}],
  \* words made of name characters that are no letters (grammar rule 28: the ranges U+2070-218F, U+200C-200D and
  \* U+10000-EFFFF): the harness writes a currency sign for Eur, a numero sign for Nro, a word with a zero-width joiner
  \* for Zwj and an emoji for Emo
  [id |-> 12, words |-> {"Eur", "b", "Nro"}, syms |-> {"-", "+"}, names |-> {B("Eur", 2), B("b", 3), B("b Eur", 7), B("Nro", 5)}, extra |-> {}],
  [id |-> 13, words |-> {"Zwj", "Emo", "b"}, syms |-> {"-", "*"}, names |-> {B("Zwj", 2), B("b", 3), B("Emo", 5), B("Emo b", 11)}, extra |-> {}]
>>

Alphabet(s) == s.words \cup s.syms \cup {"1"}
Seqs(s, n) == UNION {[1..k -> Alphabet(s)] : k \in 1..n}
WellFormed(q) == /\ ~IsSym(q[1]) /\ ~IsSym(q[Len(q)])
                 /\ \A i \in 1..(Len(q) - 1) : ~(IsSym(q[i]) /\ IsSym(q[i + 1])) /\ ~(IsNum(q[i]) /\ ~IsSym(q[i + 1])) /\ ~(IsNum(q[i + 1]) /\ ~IsSym(q[i]))
Bound(s) == {x.n : x \in s.names}
CasesOf(s) == {q \in Seqs(s, MaxLen) \cup s.extra : WellFormed(q) /\ ParseOperands(q, Bound(s)) # Bad}

\* names introduced locally (as part sequences): some start with the unbound word n or m, some with a word that is
\* itself a bound name (at the place of declaration - before `in`, `:` or in a parameter list - only a name can stand,
\* so the whole part sequence is the new name whatever is bound)
Locals == {<<"n">>, <<"n", "m">>, <<"n", "-", "m">>, <<"n", "+", "b">>, <<"m", "*", "n">>, <<"a", "n">>, <<"b", "-", "n">>}
LocalSeqs(s) == {x \in Seqs([words |-> s.words \cup {"n", "m"}, syms |-> s.syms \cup {"-", "+"}], IF MaxLen > 5 THEN 5 ELSE 4) : WellFormed(x)}
LocalCases(s) == {c \in {[parts |-> q, local |-> L] : L \in Locals, q \in LocalSeqs(s)} :
                    /\ ParseOperands(c.parts, Bound(s) \cup {Normal(c.local)}) # Bad
                    /\ ParseOperands(c.parts, Bound(s)) = Bad}                  \* only readable thanks to the local name

ASSUME \A i \in 1..Len(Sets) : PrintT(<<"SET", ToJson([id |-> Sets[i].id, names |-> Sets[i].names, cases |-> CasesOf(Sets[i]),
                                                         locals |-> IF Sets[i].id \in {1, 2, 6} THEN LocalCases(Sets[i]) ELSE {}])>>)
VARIABLE v
Init == v = 0
Next == FALSE /\ v' = v
=============================================================================
