------------------------------ MODULE Gen_C02 ------------------------------
(* Operand classes for C02: coefficient patterns (0, 1, 5, all nines,       *)
(* 50...01, 49...9, 10...01, lengths 1, 2, 17, 33, 34) x exponents (the     *)
(* subnormal and overflow edges, +-34/35 apart, small) x sign.  `core` is   *)
(* crossed with itself for every binary operator by the harness; `wide` is  *)
(* used for unary operations and crossed with the `partners` (values that   *)
(* produce exact ties and cancellation).                                    *)
EXTENDS Naturals, Integers, Sequences, TLC, Json
CONSTANT Deep

Rep(d, n) == SubSeq([i \in 1..n |-> d], 1, n)
N(s, c, e) == [s |-> s, c |-> c, e |-> e]

C1 == <<1>>   C2 == <<2>>   C3 == <<3>>   C5 == <<5>>   C7 == <<7>>   C15 == <<1, 5>>   C25 == <<2, 5>>
N34 == Rep(9, 34)   N33 == Rep(9, 33)   N17 == Rep(9, 17)
H34 == <<5>> \o Rep(0, 32) \o <<1>>          \* 5000...0001
L34 == <<4>> \o Rep(9, 33)                   \* 4999...9999
O34 == <<1>> \o Rep(0, 32) \o <<1>>          \* 1000...0001 (odd)
E34 == <<1>> \o Rep(0, 32) \o <<2>>          \* 1000...0002 (even)
T34 == <<2>> \o Rep(0, 32) \o <<1>>          \* 2000...0001
G34 == <<1,2,3,4,5,6,7,8,9,0,1,2,3,4,5,6,7,8,9,0,1,2,3,4,5,6,7,8,9,0,1,2,3,4>>
G17 == <<1,2,3,4,5,6,7,8,9,0,1,2,3,4,5,6,7>>
G33 == SubSeq(G34, 1, 33)

CoefCore == {C1, C3, C5, N34, H34, L34, O34, G17}
CoefWide == CoefCore \cup {C2, C7, C15, C25, N33, N17, E34, T34, G34, G33}
ExpCore == {0 - 6176, 0 - 35, 0 - 1, 0, 34, 6111}
ExpWide == ExpCore \cup {0 - 6144, 0 - 6111, 0 - 40, 0 - 34, 0 - 33, 0 - 17, 0 - 2, 1, 2, 17, 33, 35, 40, 6077, 6110}

Valid(c, e) == e + Len(c) - 1 <= 6144 /\ e >= 0 - 6176
Zero == N(0, <<>>, 0)
Ok(S) == {n \in S : Valid(n.c, n.e)}
Core == {Zero} \cup Ok({N(s, c, e) : s \in {0, 1}, c \in CoefCore, e \in ExpCore})
Wide == {Zero} \cup Ok({N(s, c, e) : s \in {0, 1}, c \in IF Deep THEN CoefWide ELSE CoefCore \cup {C2, C15, N33, E34, G34},
                                      e \in ExpWide})
\* partners producing ties (x.5 at digit 35), cancellation and simple quotients
Partners == {N(0, C5, 0 - 1), N(1, C5, 0 - 1), N(0, C15, 0 - 1), N(0, C25, 0 - 1), N(0, C1, 0), N(1, C1, 0), N(0, C2, 0), N(0, C3, 0),
             N(0, C7, 0), N(0, <<8>>, 0), N(0, C5, 0 - 35), N(0, C1, 34), N(0, C1, 0 - 34), N(1, O34, 0 - 33), N(0, C1, 6144), N(0, C1, 0 - 6176)}
Scales == {0 - 3, 0 - 1, 0, 1, 2, 5, 33, 34, 40}
PowBases == {N(s, c, e) : s \in {0, 1}, c \in {C2, C3, C15, <<1, 0, 1>>, N17, O34}, e \in {0 - 2, 0, 1}} \cup {Zero, N(0, C1, 3000), N(0, C1, 0 - 3000)}
PowExps == {0 - 3, 0 - 2, 0 - 1, 0, 1, 2, 3, 5, 10, 34}
Trans == {N(s, c, e) : s \in {0, 1}, c \in {C1, C2, C15, G17, N34}, e \in {0 - 34, 0 - 17, 0 - 1, 0, 1, 3, 4}} \cup {Zero, N(0, C1, 5), N(0, C1, 6000), N(0, C1, 0 - 6000)}

\* arguments for exp and log alone (DecimalExp): tiny arguments of either sign around 10^-34 (where e^x leaves 1), the
\* reduction boundary 1/2, the overflow edge, arguments of log next to 1, powers of ten, the ends of the range
C4 == <<4>>  C9 == <<9>>
TransFine == {N(s, c, e) : s \in {0, 1}, c \in {C1, C2, C3, C4, C5, C9, <<2, 5>>, <<3, 5>>}, e \in {0 - 36, 0 - 35, 0 - 34, 0 - 33}}
   \cup {N(s, c, e) : s \in {0, 1}, c \in {C5, <<4, 9>> \o Rep(9, 32), C5 \o Rep(0, 32) \o C1, C1, C3, G34}, e \in {0 - 34, 0 - 33}}
   \cup {N(s, c, 0) : s \in {0, 1}, c \in {<<1, 4, 1, 4, 9>>, <<1, 4, 1, 3, 7>>, <<7, 0, 9>>, C7}}
   \cup {N(0, C1 \o Rep(0, 32) \o C1, 0 - 33), N(0, N34, 0 - 34), N(0, C1 \o Rep(0, 15) \o C1, 0 - 16), N(0, N17, 0 - 17),
         N(0, C1, 1), N(0, C1, 0 - 1), N(0, C1, 6144), N(0, N34, 6111), N(0, C1, 0 - 6143), N(0, C1, 0 - 6176), N(0, G34, 0 - 33), N(0, G34, 0 - 30), N(0, G34, 100)}
TransDeep == IF Deep THEN {N(s, c, e) : s \in {0, 1}, c \in {G17, G34, T34, C7}, e \in (0 - 40)..(0 - 28)} \cup {N(0, c, e) : c \in {G34, C7, N33}, e \in {0 - 6170, 0 - 3000, 0 - 300, 0 - 36, 0 - 34, 0 - 10, 0, 5, 300, 3000, 6110}}
             ELSE {}

\* inexact powers (DecimalExp!AcceptPow): bases next to 1, moderate, at the ends of the range; fractional, tiny and large exponents
One33p == C1 \o Rep(0, 32) \o C1                 \* 1.000...0001 (34 digits)
PowFracBases == {N(0, C2, 0), N(0, C1, 1), N(0, C15, 0 - 1), N(0, C5, 0 - 1), N(0, One33p, 0 - 33), N(0, N34, 0 - 34), N(0, G34, 0 - 33), N(0, G17, 0 - 8)}
   \cup (IF Deep THEN {N(0, N34, 6111), N(0, C1, 0 - 6143), N(0, C7, 0 - 6176), N(0, C3, 0), N(0, G34, 0 - 30), N(0, C1 \o Rep(0, 15) \o C1, 0 - 16), N(0, N17, 0 - 17), N(0, C25, 2)} ELSE {})
PowFracExps == {N(0, C5, 0 - 1), N(1, C5, 0 - 1), N(0, C15, 0 - 1), N(0, Rep(3, 34), 0 - 34), N(0, G17, 0 - 16), N(1, G34, 0 - 32), N(0, C1, 0 - 34)}
   \cup (IF Deep THEN {N(0, C1, 33), N(1, C1, 34), N(0, C25, 0 - 2), N(0, G34, 0 - 30), N(0, C7, 0 - 40), N(0, G17, 0 - 10), N(1, C15, 3), N(0, <<1, 0, 0, 0, 5>>, 0 - 1)} ELSE {})
PowPairs == {<<a, b>> : a \in PowFracBases, b \in PowFracExps}
   \cup {<<N(0, One33p, 0 - 33), N(0, C1, 33)>>, <<N(0, One33p, 0 - 33), N(0, C7, 36)>>, <<N(0, N34, 0 - 34), N(0, C1, 34)>>, <<N(0, N34, 0 - 34), N(1, C3, 37)>>,
          <<N(0, N34, 6111), N(0, Rep(9, 7), 0 - 7)>>, <<N(0, N34, 6111), N(0, C1 \o Rep(0, 6) \o C1, 0 - 7)>>, <<N(0, C1, 0 - 6143), N(0, C5, 0 - 1)>>,
          <<N(0, C2, 0), N(0, <<2, 0, 4, 1, 0, 5>>, 0 - 1)>>, <<N(0, C2, 0), N(1, <<2, 0, 4, 1, 0, 5>>, 0 - 1)>>, <<N(0, C5, 0 - 1), N(0, <<2, 0, 0, 0, 0, 5>>, 0 - 1)>>}

ASSUME PrintT(<<"POWPAIRS", ToJson(PowPairs)>>)
ASSUME PrintT(<<"OPERANDS", ToJson([core |-> Core, wide |-> Wide, partners |-> Partners, scales |-> Scales,
                                     powbases |-> PowBases, powexps |-> PowExps, trans |-> Trans, transfine |-> TransFine \cup TransDeep])>>)
VARIABLE x
Init == x = 0
Next == FALSE /\ x' = x
=============================================================================
