----------------------------- MODULE Concurrent -----------------------------
(***************************************************************************)
(* Threads evaluating invocables against ONE shared model evaluator.        *)
(*                                                                         *)
(* The evaluator's registries are immutable after construction; each is     *)
(* guarded by a read/write lock.  A call is a per-thread script:            *)
(*   begin(call)                  a PRIVATE scope is created from the input *)
(*   read(l) ... release(l)       nested (also recursive) read locks taken  *)
(*                                along the requirement graph               *)
(*   end(call)                    the result is computed from the scope     *)
(* Two lock semantics are modelled, because the standard library does not   *)
(* promise either:                                                          *)
(*   "rp"  reader-preferring: a read is granted whenever no writer holds    *)
(*   "wp"  writer-preferring: a queued writer blocks NEW readers, including *)
(*         recursive ones of a thread that already holds the lock (this is  *)
(*         what std's futex RwLock does)                                    *)
(* Scripts may also contain write(l) (a design that writes in the           *)
(* evaluation path) and the scope may be declared shared (a design that     *)
(* caches one scope) - TLC shows both break the properties, so the          *)
(* properties are not vacuous.                                              *)
(*                                                                         *)
(* Script[t] is a sequence of steps [op, l, call]; Calls[c] = [inv, inp];   *)
(* F[inv][inp] is the value the call has when made alone.                   *)
(***************************************************************************)
EXTENDS Naturals, Sequences, FiniteSets
CONSTANTS Threads, Locks, Script, Semantics, SharedScope, F(_, _)

VARIABLES pc,        \* pc[t]: index of the next step of t
          held,      \* held[l][t]: number of read acquisitions of l by t
          writer,    \* writer[l]: the thread holding l for writing, or 0
          queued,    \* queued[l]: threads waiting to write l
          scope,     \* scope[t]: the input the scope of t's current call was created from ("-" outside a call)
          shared,    \* the input of the most recently begun call (only read when SharedScope)
          result     \* result[t]: sequence of [call, val] of t's finished calls
vars == <<pc, held, writer, queued, scope, shared, result>>

None == 0                 \* (threads are positive numbers)
Done(t) == pc[t] > Len(Script[t])
Step(t) == Script[t][pc[t]]
Readers(l) == {t \in Threads : held[l][t] > 0}

Init == /\ pc = [t \in Threads |-> 1]
        /\ held = [l \in Locks |-> [t \in Threads |-> 0]]
        /\ writer = [l \in Locks |-> None]
        /\ queued = [l \in Locks |-> {}]
        /\ scope = [t \in Threads |-> "-"]
        /\ shared = "-"
        /\ result = [t \in Threads |-> <<>>]

Advance(t) == pc' = [pc EXCEPT ![t] = @ + 1]

Begin(t) == /\ ~Done(t) /\ Step(t).op = "begin"
            /\ scope' = [scope EXCEPT ![t] = Step(t).inp]
            /\ shared' = Step(t).inp
            /\ Advance(t) /\ UNCHANGED <<held, writer, queued, result>>

AcquireRead(t) ==
  LET l == Step(t).l IN
  /\ ~Done(t) /\ Step(t).op = "read"
  /\ writer[l] = None
  /\ (Semantics = "rp" \/ queued[l] = {})            \* writer-preferring: a queued writer blocks every new read
  /\ held' = [held EXCEPT ![l][t] = @ + 1]
  /\ Advance(t) /\ UNCHANGED <<writer, queued, scope, shared, result>>

\* a write is requested in one step (the thread queues) and granted in another
QueueWrite(t) ==
  LET l == Step(t).l IN
  /\ ~Done(t) /\ Step(t).op = "write" /\ t \notin queued[l]
  /\ queued' = [queued EXCEPT ![l] = @ \cup {t}]
  /\ UNCHANGED <<pc, held, writer, scope, shared, result>>
AcquireWrite(t) ==
  LET l == Step(t).l IN
  /\ ~Done(t) /\ Step(t).op = "write" /\ t \in queued[l]
  /\ writer[l] = None /\ Readers(l) = {}
  /\ writer' = [writer EXCEPT ![l] = t]
  /\ queued' = [queued EXCEPT ![l] = @ \ {t}]
  /\ Advance(t) /\ UNCHANGED <<held, scope, shared, result>>

Release(t) ==
  LET l == Step(t).l IN
  /\ ~Done(t) /\ Step(t).op = "release"
  /\ IF writer[l] = t THEN writer' = [writer EXCEPT ![l] = None] /\ held' = held
     ELSE held[l][t] > 0 /\ held' = [held EXCEPT ![l][t] = @ - 1] /\ writer' = writer
  /\ Advance(t) /\ UNCHANGED <<queued, scope, shared, result>>

End(t) ==
  /\ ~Done(t) /\ Step(t).op = "end"
  /\ LET seen == IF SharedScope THEN shared ELSE scope[t] IN
     result' = [result EXCEPT ![t] = Append(@, [inv |-> Step(t).inv, inp |-> Step(t).inp, val |-> F(Step(t).inv, seen)])]
  /\ scope' = [scope EXCEPT ![t] = "-"]
  /\ Advance(t) /\ UNCHANGED <<held, writer, queued, shared>>

Next == \E t \in Threads : Begin(t) \/ AcquireRead(t) \/ QueueWrite(t) \/ AcquireWrite(t) \/ Release(t) \/ End(t)
Finished == \A t \in Threads : Done(t)
Spec == Init /\ [][Next]_vars

----------------------------------------------------------------------------
\* every finished call returned the value it has when made alone
ResultsIntact == \A t \in Threads : \A k \in 1..Len(result[t]) : result[t][k].val = F(result[t][k].inv, result[t][k].inp)
\* no thread is stuck: whenever some thread is not finished, some step is enabled
NoDeadlock == Finished \/ ENABLED Next
\* locks are consistent
LockInv == \A l \in Locks : writer[l] # None => Readers(l) = {}
\* when everything is finished no lock is held
CleanEnd == Finished => \A l \in Locks : writer[l] = None /\ Readers(l) = {} /\ queued[l] = {}
=============================================================================
