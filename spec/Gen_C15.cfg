INIT Init
NEXT Next
CONSTANT Tier = "quick"
CHECK_DEADLOCK FALSE
