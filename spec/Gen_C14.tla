------------------------------ MODULE Gen_C14 ------------------------------
(* Temporal literals for C14: every whole-minute UTC offset -14:59..+14:59  *)
(* (and some with seconds), fractions of 0..9 digits with digit patterns    *)
(* that expose binary rounding, year classes, impossible dates and times,   *)
(* durations (plain, to be normalised, negative, sub-second, large, mixed   *)
(* and malformed), and every single-character corruption (deletion, or      *)
(* replacement from a 13-character alphabet) of a set of valid literals.    *)
EXTENDS Naturals, Integers, Sequences, FiniteSets, TLC, Json
CONSTANT Deep

D1(n) == 48 + n
D2(n) == <<D1(n \div 10), D1(n % 10)>>
RECURSIVE DN(_)
DN(n) == IF n < 10 THEN <<D1(n)>> ELSE DN(n \div 10) \o <<D1(n % 10)>>
Pad4(n) == IF n < 10 THEN <<48, 48, 48>> \o DN(n) ELSE IF n < 100 THEN <<48, 48>> \o DN(n) ELSE IF n < 1000 THEN <<48>> \o DN(n) ELSE DN(n)
Date(y, m, d) == (IF y < 0 THEN <<45>> \o Pad4(0 - y) ELSE Pad4(y)) \o <<45>> \o D2(m) \o <<45>> \o D2(d)
HMS(h, m, s) == D2(h) \o <<58>> \o D2(m) \o <<58>> \o D2(s)
Off(sg, h, m) == <<sg>> \o D2(h) \o <<58>> \o D2(m)
C(kind, cp) == [kind |-> kind, cp |-> cp]

Offsets == {Off(sg, h, m) : sg \in {43, 45}, h \in 0..14, m \in 0..59} \cup {Off(43, 15, 0), Off(45, 15, 0), Off(43, 14, 60), Off(43, 99, 0)}
           \cup {Off(sg, h, 30) \o <<58>> \o D2(s) : sg \in {43, 45}, h \in {0, 14}, s \in {0, 1, 59, 60}}
Fractions == {<<>>, <<46, 53>>, <<46, 48, 48, 49>>, <<46, 49, 50, 51, 52, 53, 54, 55, 56, 57>>, <<46, 48, 48, 48, 48, 48, 48, 48, 48, 49>>,
              <<46, 57, 57, 57, 57, 57, 57, 57, 57, 57>>, <<46, 48, 48, 48, 48, 48, 48, 48, 49, 53>>, <<46, 48, 48, 48, 48, 48, 48, 49, 49, 55>>,
              <<46, 49>>, <<46, 57>>, <<46, 49, 50>>, <<46, 48, 48, 48, 48, 48, 49>>, <<46, 51, 51, 51, 51, 51, 51, 51, 51, 51>>, <<46>>,
              <<46, 49, 50, 51, 52, 53, 54, 55, 56, 57, 49>>}
Times == {C("time", HMS(10, 20, 30) \o o) : o \in Offsets}
         \cup {C("time", HMS(10, 20, 30) \o f \o z) : f \in Fractions, z \in {<<>>, <<90>>, Off(43, 1, 0)}}
         \cup {C("time", HMS(h, m, s)) : h \in {0, 23, 24, 25}, m \in {0, 59, 60}, s \in {0, 59, 60, 61}}
         \cup {C("time", HMS(10, 20, 30) \o <<90, 90>>), C("time", <<49, 48, 58, 50, 48>>), C("time", HMS(10, 20, 30) \o <<64>>)}
Years == {0 - 999999999, 0 - 10000, 0 - 1, 1, 4, 100, 400, 1900, 2000, 2020, 2021, 9999, 10000, 999999999}
Dates == {C("date", Date(y, m, d)) : y \in Years, m \in {0, 1, 2, 12, 13}, d \in {0, 1, 28, 29, 30, 31, 32}}
         \cup {C("date", Date(y, m, d)) : y \in {2021}, m \in 1..12, d \in {30, 31}}
         \cup {C("date", <<48, 48, 48, 48, 45, 48, 49, 45, 48, 49>>), C("date", <<50, 48, 50, 49, 45, 49, 45, 49>>), C("date", <<48, 50, 48, 50, 49, 45, 48, 49, 45, 48, 49>>),
               C("date", <<50, 48, 50, 49, 48, 49, 48, 49>>), C("date", <<43>> \o Date(2021, 1, 1))}
DateTimes == {C("dt", d.cp \o <<84>> \o t) : d \in {C("date", Date(2021, 2, 28)), C("date", Date(2020, 2, 30)), C("date", Date(0 - 1, 1, 1)), C("date", Date(999999999, 12, 31))},
                t \in {HMS(10, 20, 30), HMS(24, 0, 0), HMS(10, 20, 30) \o <<90>>, HMS(23, 59, 59) \o <<46, 57, 57, 57, 57, 57, 57, 57, 57, 57>> \o Off(45, 14, 59), HMS(0, 0, 0) \o Off(43, 14, 0)}}
             \cup {C("dt", Date(2021, 2, 28)), C("dt", Date(2021, 2, 28) \o <<32>> \o HMS(1, 2, 3))}
S(str) == str
Durations == {C("dur", cp) : cp \in {
   <<80, 49, 68>>, <<80, 84, 51, 54, 72>>, <<80, 49, 52, 77>>, <<45, 80, 49, 89>>, <<80, 49, 89, 50, 77>>, <<80, 84, 48, 46, 53, 83>>, <<45, 80, 84, 48, 46, 50, 53, 83>>,
   <<80, 84, 48, 83>>, <<80, 48, 77>>, <<80, 84, 57, 48, 83>>, <<80, 84, 54, 49, 77>>, <<80, 49, 68, 84, 50, 52, 72>>, <<80, 84, 49, 46, 48, 48, 48, 48, 48, 48, 48, 49, 53, 83>>,
   <<80, 57, 57, 57, 57, 57, 57, 57, 57, 57, 68>>, <<80, 57, 57, 57, 57, 57, 57, 57, 57, 57, 89>>, <<80, 84, 49, 72, 49, 77, 49, 83>>, <<80, 50, 68, 84, 51, 72, 52, 77, 53, 46, 54, 83>>,
   <<45, 80, 84, 51, 54, 72>>, <<80, 49, 50, 77>>, <<80, 49, 89, 49, 50, 77>>, <<80, 84, 51, 54, 48, 48, 83>>,
   <<80>>, <<80, 84>>, <<80, 49, 83>>, <<49, 68>>, <<80, 49, 68, 84>>, <<80, 49, 89, 49, 68>>, <<80, 49, 77, 49, 89>>, <<80, 84, 49, 83, 49, 77>>, <<80, 45, 49, 68>>, <<80, 49, 46, 53, 68>>,
   <<80, 84, 49, 46, 83>>, <<80, 84, 46, 53, 83>>, <<112, 49, 100>>, <<80, 49, 68, 32>>, <<43, 80, 49, 68>>, <<80, 84, 49, 77, 51, 48, 83>>, <<45, 80, 48, 68>>, <<80, 49, 48, 48, 77>>}}

Valid == {C("date", Date(2021, 2, 28)), C("date", Date(0 - 44, 3, 15)), C("time", HMS(10, 20, 30)), C("time", HMS(10, 20, 30) \o <<46, 49, 50, 53>> \o <<90>>),
          C("time", HMS(23, 59, 59) \o Off(45, 5, 30)), C("dt", Date(2021, 2, 28) \o <<84>> \o HMS(10, 20, 30) \o Off(43, 2, 0)), C("dt", Date(1999, 12, 31) \o <<84>> \o HMS(23, 59, 59) \o <<46, 53>>),
          C("dur", <<80, 49, 68, 84, 50, 72, 51, 77, 52, 46, 53, 83>>), C("dur", <<45, 80, 49, 89, 50, 77>>), C("dur", <<80, 84, 49, 48, 77>>)}
Alpha == {48, 57, 45, 58, 46, 84, 90, 43, 80, 97, 32, 64, 49}
Corrupt(c) == {C(c.kind, SubSeq(c.cp, 1, i - 1) \o SubSeq(c.cp, i + 1, Len(c.cp))) : i \in 1..Len(c.cp)}
              \cup {C(c.kind, [c.cp EXCEPT ![i] = a]) : i \in 1..Len(c.cp), a \in Alpha}
Corruptions == UNION {Corrupt(c) : c \in Valid}

Cases == Times \cup Dates \cup DateTimes \cup Durations \cup Corruptions \cup Valid
ASSUME \A c \in Cases : PrintT(<<"CASE", ToJson(c)>>)
ASSUME PrintT(<<"COUNT", Cardinality(Cases)>>)
VARIABLE v
Init == v = 0
Next == FALSE /\ v' = v
=============================================================================
