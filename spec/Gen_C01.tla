------------------------------ MODULE Gen_C01 ------------------------------
(* C01 stimuli: every construct of the core fragment nested in every other  *)
(* one (outer templates with a hole x inner expressions), each evaluated in *)
(* several scopes binding the free names x, y, xs, c to numbers, strings,   *)
(* booleans, nulls, lists and contexts (two scopes also bind the name `item`,*)
(* which filters must shadow).  Expressions are printed as trees           *)
(* and as fully parenthesised token sequences (the rendering of C06, so     *)
(* that C01 does not depend on precedence).                                 *)
EXTENDS FeelSyntax, FiniteSets, TLC, Json
CONSTANT Deep

Nm(id) == [n |-> "name", id |-> id]
I(ip, m) == [n |-> "num", ip |-> ip, fp |-> "", m |-> m, e |-> 0]
Half == [n |-> "num", ip |-> "0", fp |-> "5", m |-> 5, e |-> 0 - 1]
S(s, cp) == [n |-> "str", s |-> s, cp |-> cp]
Tr == [n |-> "bool", bv |-> TRUE]  Fa == [n |-> "bool", bv |-> FALSE]  Nu == [n |-> "null"]
X == Nm("x")  Y == Nm("y")  XS == Nm("xs")  C == Nm("c")  Iv == Nm("i")  Jv == Nm("j")  U == Nm("u")  Wv == Nm("w")
Sa == S("a", <<97>>)  Sb == S("b", <<98>>)
Zero == I("0", 0)  One == I("1", 1)  Two == I("2", 2)  Three == I("3", 3)
Bin(op, a, b) == [n |-> op, a |-> a, b |-> b]
Neg(a) == [n |-> "neg", a |-> a]
If(c, t, e) == [n |-> "if", cond |-> c, then |-> t, else |-> e]
Btw(a, lo, hi) == [n |-> "between", a |-> a, lo |-> lo, hi |-> hi]
Rng(lo, lc, hi, hc) == [n |-> "range", lo |-> lo, lc |-> lc, hi |-> hi, hc |-> hc]
Lst(items) == [n |-> "list", items |-> items]
Cx(ents) == [n |-> "ctx", ents |-> ents]
En(k, v) == [key |-> k, v |-> v]
Path(a, id) == [n |-> "path", a |-> a, id |-> id]
Flt(a, f) == [n |-> "filter", a |-> a, f |-> f]
It(v, a) == [var |-> v, kind |-> "single", a |-> a]
Ir(v, a, b) == [var |-> v, kind |-> "range", a |-> a, b |-> b]
For(its, body) == [n |-> "for", its |-> its, body |-> body]
Some(its, body) == [n |-> "some", its |-> its, body |-> body]
Every(its, body) == [n |-> "every", its |-> its, body |-> body]
AnyT == [t |-> "Any"]
Fn(ps, body) == [n |-> "fndef", ps |-> [i \in 1..Len(ps) |-> [p |-> ps[i], ty |-> AnyT]], body |-> body]
Call(f, args) == [n |-> "invoke", f |-> f, args |-> args]
CallN(f, nargs) == [n |-> "invoken", f |-> f, nargs |-> nargs]
EL(items) == [n |-> "elist", items |-> items]
Item == Nm("item")

\* outer constructs with a hole
Outer(h) == {
  Neg(h), Bin("add", h, Y), Bin("add", X, h), Bin("sub", h, Y), Bin("mul", X, h), Bin("div", h, Y), Bin("div", X, h), Bin("exp", h, Two),
  Bin("eq", X, h), Bin("nq", h, Y), Bin("lt", h, Y), Bin("le", X, h), Bin("gt", h, Y), Bin("ge", X, h),
  Bin("and", h, Y), Bin("and", X, h), Bin("or", h, Y), Bin("or", X, h),
  Btw(h, X, Y), Btw(X, h, Y), Btw(X, Zero, h),
  Bin("in", h, Rng(One, TRUE, Three, FALSE)), Bin("in", X, EL(<<h, Two>>)), Bin("in", X, h),
  If(h, X, Y), If(X, h, Y), If(Y, X, h),
  Lst(<<X, h>>), Cx(<<En("k", h), En("j", Nm("k"))>>), Cx(<<En("k", X), En("j", h)>>),
  Path(h, "a"), Flt(h, One), Flt(h, Neg(One)), Flt(XS, h), Flt(h, Bin("gt", Item, One)), Flt(XS, Bin("eq", Item, h)),
  For(<<It("i", h)>>, Iv), For(<<It("i", XS)>>, h), For(<<It("i", XS), It("j", h)>>, Lst(<<Iv, Jv>>)),
  For(<<It("i", h), It("j", XS)>>, Lst(<<Iv, Jv>>)), For(<<Ir("i", One, h)>>, Iv), For(<<Ir("i", One, Two), It("j", h)>>, Lst(<<Iv, Jv>>)),
  Some(<<It("i", h)>>, Bin("eq", Iv, X)), Some(<<It("i", XS)>>, h), Some(<<It("i", XS), It("j", h)>>, Bin("eq", Iv, Jv)),
  Every(<<It("i", h)>>, Bin("eq", Iv, X)), Every(<<It("i", XS)>>, h), Every(<<It("i", XS), It("j", h)>>, Bin("eq", Iv, Jv)),
  \* a free name read after a construct that binds the same name locally (the local binding must be gone)
  Lst(<<Some(<<It("x", h)>>, Bin("gt", X, One)), X>>), Lst(<<Every(<<It("x", h)>>, Bin("gt", X, One)), X>>),
  Lst(<<For(<<It("x", h)>>, X), X>>), Lst(<<Cx(<<En("x", h)>>), X>>), Lst(<<Path(Cx(<<En("x", h)>>), "x"), X, Y>>),
  \* a local binding whose value is null hides an outer binding of the same name (context entry, parameter, loop variable)
  Path(Cx(<<En("x", h), En("r", Lst(<<X, Y>>))>>), "r"), Cx(<<En("y", h), En("r", Bin("add", X, Y))>>),
  Call(Fn(<<"x">>, Lst(<<X, Y>>)), <<h>>), For(<<It("x", h)>>, Lst(<<X, Y>>)), Flt(Lst(<<Cx(<<En("x", h)>>)>>), Bin("eq", X, Nu)),
  \* a function bound to a name that also spells a built-in function, invoked: the binding wins (context entry, parameter,
  \* loop variable; positional and named arguments)
  Path(Cx(<<En("sum", Fn(<<"u", "w">>, Bin("mul", U, Wv))), En("r", Call(Nm("sum"), <<h, Two>>))>>), "r"),
  Path(Cx(<<En("sum", Fn(<<"u", "w">>, Bin("sub", U, Wv))), En("r", CallN(Nm("sum"), <<[p |-> "w", v |-> h], [p |-> "u", v |-> Two]>>))>>), "r"),
  Call(Fn(<<"abs">>, Call(Nm("abs"), <<h>>)), <<Fn(<<"u">>, Lst(<<U, One>>))>>),
  For(<<It("max", Lst(<<Fn(<<"u", "w">>, Lst(<<Wv, U>>))>>))>>, Call(Nm("max"), <<h, One>>)),
  Path(Cx(<<En("count", Fn(<<"u">>, Bin("add", U, One))), En("r", Lst(<<Call(Nm("count"), <<h>>), Nm("count")>>))>>), "r"),
  Flt(Lst(<<Cx(<<En("a", h), En("b", Two)>>), Cx(<<En("a", Three)>>), Cx(<<En("b", One)>>)>>), Bin("ge", Nm("b"), One)),
  Flt(Lst(<<Cx(<<En("y", h)>>), Cx(<<En("a", One)>>)>>), Bin("eq", Y, X)),
  \* equality of composite values whose members are null for different reasons
  Bin("eq", Cx(<<En("a", h), En("b", One)>>), Cx(<<En("a", Nu), En("b", One)>>)), Bin("eq", Lst(<<h, One>>), Lst(<<Nu, One>>)),
  Call(Fn(<<"u">>, Lst(<<U, h>>)), <<X>>),
  Path(Cx(<<En("f", Fn(<<"u">>, Bin("add", U, One))), En("r", Call(Nm("f"), <<h>>))>>), "r"),
  Path(Cx(<<En("f", Fn(<<"u", "w">>, Lst(<<U, Wv>>))), En("r", CallN(Nm("f"), <<[p |-> "w", v |-> h], [p |-> "u", v |-> X]>>))>>), "r"),
  Path(Cx(<<En("f", Fn(<<"u", "w">>, Lst(<<U, Wv>>))), En("r", Call(Nm("f"), <<h>>))>>), "r"),
  \* fewer arguments than parameters, the missing parameter's name being bound where the call is made
  Path(Cx(<<En("f", Fn(<<"u", "y">>, Lst(<<U, Y>>))), En("r", Call(Nm("f"), <<h>>))>>), "r"),
  For(<<It("w", XS)>>, Call(Fn(<<"u", "w">>, Lst(<<U, Wv>>)), <<h>>)),
  \* the special name `partial` of a for: the results so far - read directly, indexed, and as the domain of a nested for
  For(<<It("i", h)>>, Nm("partial")), For(<<It("i", XS)>>, Lst(<<h, Flt(Nm("partial"), Neg(One))>>)),
  For(<<It("i", XS)>>, For(<<It("p", Nm("partial"))>>, Lst(<<Nm("p"), h>>))), For(<<It("i", h)>>, For(<<It("p", Nm("partial"))>>, Nm("p"))),
  Lst(<<For(<<It("i", XS)>>, Nm("partial")), h, Nm("partial")>>),
  \* ranges of strings, the two ends closed differently
  Bin("in", h, Rng(Sa, TRUE, Sb, FALSE)), Bin("in", h, Rng(Sa, FALSE, Sb, TRUE)), Bin("in", X, EL(<<Rng(X, FALSE, Y, TRUE), h>>)), Bin("in", Y, EL(<<h, Rng(X, FALSE, Y, TRUE)>>)) }

Leaves == {One, Two, Half, S("a", <<97>>), Tr, Fa, Nu, X, Y, XS, C}
Inner == Leaves \cup {
  Bin("add", X, Y), Bin("mul", X, Two), Bin("div", X, Y), Bin("sub", Y, X), Neg(X), Bin("eq", X, Y), Bin("lt", X, Y),
  Bin("and", X, Y), Bin("or", X, Y), If(X, One, Two), Btw(X, One, Three), Bin("in", X, Rng(One, TRUE, Two, TRUE)),
  Bin("in", X, EL(<<[n |-> "utlt", a |-> Two], S("a", <<97>>)>>)),
  Lst(<<X, Y>>), Lst(<<>>), Lst(<<Lst(<<One>>)>>), Lst(<<Nu, One>>), Cx(<<En("a", X)>>), Cx(<<En("a", One), En("b", Bin("add", Nm("a"), One))>>),
  Path(C, "a"), Path(XS, "a"), Flt(XS, One), Flt(XS, Neg(One)), Flt(XS, Three), Flt(XS, Bin("gt", Item, One)), Flt(XS, Bin("eq", Path(Item, "a"), One)),
  Flt(XS, Bin("eq", Nm("a"), One)), Flt(XS, Bin("ge", Nm("a"), One)),
  \* filters over contexts with DIFFERENT key sets: an entry of an earlier element must not be seen while a later one is tested
  Flt(Lst(<<Cx(<<En("a", One), En("b", Two)>>), Cx(<<En("a", Three)>>)>>), Bin("eq", Nm("b"), Two)),
  Flt(Lst(<<Cx(<<En("x", One)>>), Cx(<<En("z", Two)>>)>>), Bin("eq", X, One)),
  Flt(Lst(<<Cx(<<En("a", One), En("b", Tr)>>), Cx(<<En("a", Two)>>)>>), Nm("b")),
  Flt(Lst(<<Cx(<<En("a", One)>>), Cx(<<En("b", Two)>>), Cx(<<En("a", Three)>>)>>), Bin("ge", Nm("a"), One)),
  For(<<It("i", XS)>>, Iv), For(<<It("i", XS), It("j", Lst(<<One, Two>>))>>, Lst(<<Iv, Jv>>)), For(<<Ir("i", Three, One)>>, Iv),
  For(<<It("i", XS), It("j", Lst(<<>>))>>, Iv), For(<<Ir("i", One, Two), It("j", Lst(<<Three, Two>>))>>, Lst(<<Iv, Jv>>)),
  For(<<It("i", Lst(<<One, Two>>)), Ir("j", Two, One)>>, Bin("add", Bin("mul", Iv, I("10", 10)), Jv)),
  Some(<<It("i", XS)>>, Bin("eq", Iv, X)), Every(<<It("i", XS)>>, Bin("eq", Iv, X)),
  Some(<<It("i", XS), It("j", Lst(<<>>))>>, Tr), Every(<<It("i", XS), It("j", Lst(<<>>))>>, Fa),
  Call(Fn(<<"u">>, U), <<X>>), Call(Fn(<<"u", "w">>, Bin("sub", U, Wv)), <<Y, X>>), Call(Fn(<<>>, One), <<>>), Call(Fn(<<"u">>, U), <<X, Y>>),
  Bin("in", X, Rng(X, TRUE, Y, FALSE)), Bin("in", X, Rng(X, FALSE, Y, TRUE)), Bin("in", Y, Rng(X, TRUE, Y, FALSE)), Bin("in", Y, Rng(X, FALSE, Y, TRUE)),
  Bin("in", Sb, Rng(Sa, TRUE, Sb, FALSE)), Bin("in", Sb, Rng(Sa, FALSE, Sb, TRUE)), Bin("in", Sa, Rng(Sa, FALSE, Sb, TRUE)), Bin("in", Sa, Rng(Sa, TRUE, Sb, FALSE)),
  Call(Fn(<<"u", "y">>, Lst(<<U, Y>>)), <<X>>), Call(Fn(<<"y", "u">>, Lst(<<U, Y>>)), <<X>>),
  For(<<Ir("i", One, Three)>>, If(Bin("eq", Iv, One), One, Bin("mul", Flt(Nm("partial"), Neg(One)), Iv))),
  For(<<Ir("i", One, Three)>>, For(<<It("p", Nm("partial"))>>, Nm("p"))) }

\* Translation invariance: expressions over the names lo and hi in which a range of integers lo..hi is walked and every
\* value taken from it is used relative to lo or hi.  The harness evaluates them for small lo, hi (FeelEval decides the
\* value) and again with both names moved by the same large amount (beyond 2^31, 2^32, 2^53): the value must not change
\* (Trace_C01!ShiftLaw) - numbers that TLC's integers cannot hold are reached through the law, not through Eval.
LO == Nm("lo")  HI == Nm("hi")
RangeLoHi == For(<<Ir("i", LO, HI)>>, Iv)
ShiftExprs == {
  For(<<Ir("i", LO, HI)>>, Bin("sub", Iv, LO)), For(<<Ir("i", HI, LO)>>, Bin("sub", Iv, LO)), For(<<Ir("i", LO, HI)>>, Bin("sub", HI, Iv)),
  For(<<Ir("i", LO, HI), It("j", Lst(<<One, Two>>))>>, Bin("add", Bin("mul", Bin("sub", Iv, LO), I("10", 10)), Jv)),
  For(<<It("j", Lst(<<One, Two>>)), Ir("i", HI, LO)>>, Bin("add", Bin("mul", Bin("sub", Iv, LO), I("10", 10)), Jv)),
  Bin("sub", Flt(RangeLoHi, Two), LO), Bin("sub", Flt(RangeLoHi, Neg(One)), HI),
  For(<<It("k", RangeLoHi)>>, Bin("sub", Nm("k"), LO)),
  Some(<<It("k", RangeLoHi)>>, Bin("eq", Nm("k"), HI)), Every(<<It("k", RangeLoHi)>>, Bin("ge", Nm("k"), LO)),
  Every(<<It("k", RangeLoHi)>>, Bin("lt", Nm("k"), HI)),
  Flt(For(<<Ir("i", LO, HI)>>, Bin("sub", Iv, LO)), Bin("gt", Item, One)),
  Bin("in", Bin("add", LO, One), Rng(LO, FALSE, HI, TRUE)), Btw(Bin("add", LO, One), LO, HI), Bin("in", HI, Rng(LO, TRUE, HI, FALSE)),
  Call(Fn(<<"u">>, Bin("sub", U, LO)), <<HI>>),
  Path(Cx(<<En("d", Bin("sub", HI, LO)), En("r", For(<<Ir("i", LO, HI)>>, Lst(<<Bin("sub", Iv, LO), Nm("d")>>)))>>), "r"),
  For(<<Ir("i", LO, HI)>>, If(Bin("eq", Iv, LO), Zero, Bin("add", Flt(Nm("partial"), Neg(One)), One))),
  Bin("eq", RangeLoHi, Lst(<<LO, Bin("add", LO, One), Bin("add", LO, Two), HI>>)) }


ExprsQ == Inner \cup UNION {Outer(h) : h \in Inner}
Exprs  == IF Deep THEN ExprsQ \cup UNION {Outer(g) : g \in UNION {Outer(h) : h \in {X, XS, C, Lst(<<X, Y>>), Bin("add", X, Y), Flt(XS, Bin("gt", Item, One)), For(<<It("i", XS)>>, Iv)}}} ELSE ExprsQ

\* scopes (value encoding of FeelEval)
VN(m, e) == [k |-> "num", m |-> m, e |-> e]
VS(cp) == [k |-> "str", cp |-> cp]
VB(b) == [k |-> "bool", b |-> b]
VNull == [k |-> "null"]
VL(items) == [k |-> "list", items |-> items]
VC(ents) == [k |-> "ctx", ents |-> ents]
B(n, v) == [n |-> n, v |-> v]
Scopes == <<
  VC(<<B("x", VN(1, 0)), B("y", VN(2, 0)), B("xs", VL(<<VN(1, 0), VN(2, 0), VN(3, 0)>>)), B("c", VC(<<B("a", VN(1, 0)), B("b", VS(<<122>>))>>)), B("item", VN(5, 0))>>),
  VC(<<B("x", VNull), B("y", VN(0, 0)), B("xs", VL(<<>>)), B("c", VC(<<>>))>>),
  VC(<<B("x", VS(<<97>>)), B("y", VS(<<98>>)), B("xs", VL(<<VS(<<97>>), VS(<<98>>)>>)), B("c", VC(<<B("a", VC(<<B("b", VN(1, 0))>>))>>))>>),
  VC(<<B("x", VB(TRUE)), B("y", VB(FALSE)), B("xs", VL(<<VB(TRUE), VNull, VB(FALSE)>>)), B("c", VC(<<B("a", VL(<<VN(1, 0), VN(2, 0)>>))>>))>>),
  VC(<<B("x", VN(5, 0 - 1)), B("y", VN(0 - 3, 0)), B("xs", VL(<<VL(<<VN(1, 0)>>), VL(<<VN(2, 0), VN(3, 0)>>)>>)), B("c", VC(<<B("a", VNull)>>))>>),
  VC(<<B("x", VL(<<VN(1, 0), VN(2, 0)>>)), B("y", VC(<<B("a", VN(1, 0))>>)), B("xs", VL(<<VC(<<B("a", VN(1, 0))>>), VC(<<B("a", VN(2, 0))>>), VC(<<B("b", VN(3, 0))>>)>>)), B("c", VN(7, 0)), B("item", VN(5, 0))>>)
>>

ShiftScopes == << VC(<<B("lo", VN(1, 0)), B("hi", VN(4, 0))>>), VC(<<B("lo", VN(0 - 2, 0)), B("hi", VN(1, 0))>>),
                  VC(<<B("lo", VN(4, 0)), B("hi", VN(1, 0))>>), VC(<<B("lo", VN(0, 0)), B("hi", VN(0, 0))>>) >>

ASSUME \A t \in Exprs : PrintT(<<"EXPR", ToJson([tree |-> t, full |-> RenderFull(t)])>>)
ASSUME PrintT(<<"SCOPES", ToJson(Scopes)>>)
ASSUME \A t \in ShiftExprs : PrintT(<<"SHIFT", ToJson([tree |-> t, full |-> RenderFull(t)])>>)
ASSUME PrintT(<<"SHIFTSCOPES", ToJson(ShiftScopes)>>)
ASSUME PrintT(<<"COUNT", Cardinality(Exprs)>>)
VARIABLE v
Init == v = 0
Next == FALSE /\ v' = v
=============================================================================
