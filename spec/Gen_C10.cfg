INIT Init
NEXT Next
CONSTANT MaxLen = 5
CHECK_DEADLOCK FALSE
