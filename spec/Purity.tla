------------------------------- MODULE Purity -------------------------------
(***************************************************************************)
(* C13 as a state machine: a set of prepared evaluators (expressions or     *)
(* invocables of a model) and a set of caller scopes (or input contexts).   *)
(* The only action, Evaluate(e, s), is specified as PURE: it leaves every   *)
(* scope exactly as it was and its result is a function of (e, s) alone.    *)
(*   scopes[s]  the content of caller scope s (abstractly: its rendering)   *)
(*   memo[e,s]  the value (e, s) evaluated to the first time, or "none"     *)
(*   last       the result of the latest evaluation                         *)
(* Gen: TLC enumerates every history up to MaxLen (all orders, repetitions, *)
(* interleavings of evaluators and scopes).  Trace_C13 replays what the     *)
(* real code did along those histories against this machine.                *)
(***************************************************************************)
EXTENDS Naturals, Sequences, TLC, Json
CONSTANTS NE, NS, MaxLen

VARIABLES hist
Init == hist = <<>>
Evaluate(e, s) == Len(hist) < MaxLen /\ hist' = Append(hist, <<e, s>>)
Next == \E e \in 1..NE, s \in 1..NS : Evaluate(e, s)
Emit == hist = <<>> \/ PrintT(<<"HISTORY", ToJson(hist)>>)
=============================================================================
