------------------------------ MODULE Gen_C03 ------------------------------
(* Decision tables for C03, exhaustive over small scopes:                   *)
(*  MATCH   one rule, every input-entry form against every input value      *)
(*  POLICY  one input over {1,2,3}, entries from {-, 1, >= 2}, outputs from *)
(*          {10, 20, 30}, every list of 0..3 rules (0..2 in the quick       *)
(*          configuration for the non-priority policies), every hit policy, *)
(*          with and without output values (priority list) and default      *)
(*  MULTI   two output components / two inputs                              *)
(* Each table is printed with the FEEL text of its entries (for the DMN XML *)
(* the harness writes) and the input tuples to evaluate it on.              *)
EXTENDS FeelSyntax, FiniteSets, TLC, Json
CONSTANT Depth

I(ip, m) == [n |-> "num", ip |-> ip, fp |-> "", m |-> m, e |-> 0]
S(s, cp) == [n |-> "str", s |-> s, cp |-> cp]
VN(m) == [k |-> "num", m |-> m, e |-> 0]
VS(cp) == [k |-> "str", cp |-> cp]
VNull == [k |-> "null"]
None == [k |-> "none"]
AnyE == [n |-> "any"]
UT(op, a) == [n |-> op, a |-> a]
Rg(lo, lc, hi, hc) == [n |-> "range", lo |-> lo, lc |-> lc, hi |-> hi, hc |-> hc]
EL(items) == [n |-> "elist", items |-> items]
NotL(items) == [n |-> "notlist", items |-> items]
One == I("1", 1)  Two == I("2", 2)  Three == I("3", 3)  Four == I("4", 4)  Five == I("5", 5)
Scaled20 == [k |-> "num", m |-> 20, e |-> 0 - 1]      \* 2.0  : equal to 2, written with another scale
Scaled300 == [k |-> "num", m |-> 300, e |-> 0 - 2]    \* 3.00

RECURSIVE SepT(_, _)
SepT(items, i) == IF i > Len(items) THEN <<>> ELSE (IF i > 1 THEN <<",">> ELSE <<>>) \o R(items[i], "min") \o SepT(items, i + 1)
EntryText(t) == IF t.n = "any" THEN <<"-">>
                ELSE IF t.n = "notlist" THEN <<"not", "(">> \o SepT(t.items, 1) \o <<")">>
                ELSE IF t.n = "elist" THEN SepT(t.items, 1) ELSE R(t, "min")
ValText(v) == IF v.k = "num" THEN (IF v.m = 10 THEN <<"10">> ELSE IF v.m = 20 THEN <<"20">> ELSE IF v.m = 30 THEN <<"30">> ELSE <<"7">>)
              ELSE IF v.cp = <<108, 111>> THEN <<"\"lo\"">> ELSE <<"\"hi\"">>
RECURSIVE PrioText(_, _)
PrioText(p, i) == IF i > Len(p) THEN <<>> ELSE (IF i > 1 THEN <<",">> ELSE <<>>) \o ValText(p[i]) \o PrioText(p, i + 1)

Rule(ins, outs) == [ins |-> ins, outs |-> outs, instext |-> [i \in 1..Len(ins) |-> EntryText(ins[i])], outstext |-> [i \in 1..Len(outs) |-> R(outs[i], "min")]]
In(name, ty, allowed) == [name |-> name, ty |-> ty, allowed |-> allowed, allowedtext |-> IF allowed.n = "none" THEN <<>> ELSE EntryText(allowed)]
Out(name, prio, def) == [name |-> name, prio |-> prio, priotext |-> PrioText(prio, 1), def |-> def, deftext |-> IF def.k = "none" THEN <<>> ELSE ValText(def)]
Table(fam, hp, ins, outs, rules, inputs) == [fam |-> fam, hp |-> hp, ins |-> ins, outs |-> outs, rules |-> rules, inputs |-> inputs]
NoAllowed == [n |-> "none"]

O10 == I("10", 10)  O20 == I("20", 20)  O30 == I("30", 30)
NumInputs == <<<<VN(1)>>, <<VN(2)>>, <<VN(3)>>, <<VNull>>>>

\* MATCH
NumEntries == {AnyE, One, UT("utlt", Two), UT("utle", Two), UT("utgt", Two), UT("utge", Two),
               Rg(One, TRUE, Three, TRUE), Rg(One, FALSE, Three, FALSE), Rg(One, TRUE, Two, FALSE), Rg(Two, FALSE, Three, TRUE),
               EL(<<One, Three>>), EL(<<UT("utlt", Two), UT("utgt", Two)>>), EL(<<One, Rg(Two, FALSE, Three, TRUE)>>),
               NotL(<<Two>>), NotL(<<One, UT("utgt", Two)>>), NotL(<<Rg(One, TRUE, Two, TRUE)>>),
               NotL(<<UT("utlt", Two)>>), NotL(<<UT("utle", Two)>>), NotL(<<UT("utgt", Two)>>), NotL(<<UT("utge", Two)>>),
               NotL(<<UT("utlt", Two), UT("utge", Three)>>), EL(<<UT("utle", One), UT("utge", Three)>>),
               \* intervals whose end points coincide (closed: exactly that value; otherwise empty) or descend (empty)
               Rg(Two, TRUE, Two, TRUE), Rg(Two, TRUE, Two, FALSE), Rg(Two, FALSE, Two, TRUE), Rg(Two, FALSE, Two, FALSE), Rg(Three, TRUE, One, TRUE),
               EL(<<One, Rg(Two, TRUE, Two, TRUE)>>), NotL(<<Rg(Two, TRUE, Two, TRUE)>>), NotL(<<Rg(Three, TRUE, One, TRUE)>>),
               \* longer lists of plain literals (an input equal to a member matches whatever its scale)
               EL(<<One, Two, Three, Four>>), EL(<<Five, Four, Three, One>>), EL(<<One, Two, Three, Four, Five>>), NotL(<<One, Two, Three, Four>>),
               EL(<<One, Two, Four, Five, UT("utgt", Five)>>)}
StrEntries == {AnyE, S("a", <<97>>), EL(<<S("a", <<97>>), S("b", <<98>>)>>), NotL(<<S("a", <<97>>)>>), UT("utgt", S("a", <<97>>)), Rg(S("a", <<97>>), TRUE, S("b", <<98>>), FALSE)}
Match == {Table("MATCH", "U", <<In("x", "number", NoAllowed)>>, <<Out("", <<>>, None)>>, <<Rule(<<e>>, <<O10>>)>>,
                <<<<VN(1)>>, <<VN(2)>>, <<VN(3)>>, <<[k |-> "num", m |-> 25, e |-> 0 - 1]>>, <<VNull>>, <<Scaled20>>, <<Scaled300>>>>) : e \in NumEntries}
         \cup {Table("MATCH", "U", <<In("x", "string", NoAllowed)>>, <<Out("", <<>>, None)>>, <<Rule(<<e>>, <<O10>>)>>,
                <<<<VS(<<97>>)>>, <<VS(<<98>>)>>, <<VS(<<99>>)>>, <<VNull>>>>) : e \in StrEntries}
         \cup {Table("MATCH", "F", <<In("x", "number", a)>>, <<Out("", <<>>, None)>>, <<Rule(<<e>>, <<O10>>)>>, NumInputs \o <<<<Scaled20>>, <<Scaled300>>>>)
                : e \in {AnyE, UT("utge", Two)}, a \in {EL(<<One, Two>>), Rg(Two, TRUE, Three, TRUE), EL(<<One, Two, Three, Four>>)}}

\* POLICY
E3 == {AnyE, One, UT("utge", Two)}
Outs3 == {O10, O20, O30}
R1 == {Rule(<<e>>, <<o>>) : e \in E3, o \in Outs3}
Lists(n) == UNION {[1..k -> R1] : k \in 0..n}
Prio == <<VN(30), VN(10), VN(20)>>
Policies == {"U", "A", "P", "F", "R", "O", "C", "C+", "C<", "C>", "C#"}
PolicyT == {Table("POLICY", hp, <<In("x", "number", NoAllowed)>>, <<Out("", pr, df)>>, rs, NumInputs)
              : hp \in Policies \ {"P", "O"}, pr \in {<<>>}, df \in {None, VN(7)}, rs \in Lists(IF Depth >= 3 THEN 3 ELSE 2)}
           \cup {Table("POLICY", hp, <<In("x", "number", NoAllowed)>>, <<Out("", Prio, df)>>, rs, NumInputs)
              : hp \in {"P", "O"}, df \in {None}, rs \in Lists(IF Depth >= 2 THEN 3 ELSE 2)}
           \cup {Table("POLICY", hp, <<In("x", "number", NoAllowed)>>, <<Out("", <<>>, None)>>, rs, NumInputs)
              : hp \in {"U", "A", "F", "C", "C+"}, rs \in [1..3 -> {Rule(<<e>>, <<o>>) : e \in {AnyE, UT("utge", Two)}, o \in {O10, O20}}]}

\* MULTI: two outputs, two inputs
Lo == S("lo", <<108, 111>>)  Hi == S("hi", <<104, 105>>)
R2 == {Rule(<<e>>, <<o, p>>) : e \in {AnyE, UT("utge", Two)}, o \in {O10, O20}, p \in {Lo, Hi}}
MultiT == {Table("MULTI", hp, <<In("x", "number", NoAllowed)>>,
                 <<Out("amount", <<VN(20), VN(10)>>, None), Out("level", <<VS(<<104, 105>>), VS(<<108, 111>>)>>, None)>>, <<r1, r2>>, NumInputs)
             : hp \in {"U", "A", "F", "P", "O", "R", "C", "C#", "C+"}, r1 \in R2, r2 \in R2}
R3 == {Rule(<<e, f>>, <<o>>) : e \in {AnyE, One, UT("utge", Two)}, f \in {AnyE, S("a", <<97>>)}, o \in {O10, O20}}
TwoIn == {Table("MULTI", hp, <<In("x", "number", NoAllowed), In("y", "string", NoAllowed)>>, <<Out("", <<>>, None)>>, <<r1, r2>>,
                <<<<VN(1), VS(<<97>>)>>, <<VN(2), VS(<<98>>)>>, <<VN(3), VNull>>, <<VNull, VS(<<97>>)>>>>)
             : hp \in {"U", "F", "C", "C#"}, r1 \in R3, r2 \in R3}

\* two inputs of the same kind: the same entry text occurs in both columns (an entry belongs to its column)
R4 == {Rule(<<e, f>>, <<o>>) : e \in {AnyE, One, UT("utge", Two)}, f \in {AnyE, One, UT("utge", Two)}, o \in {O10, O20}}
TwoNum == {Table("MULTI", hp, <<In("x", "number", NoAllowed), In("y", "number", NoAllowed)>>, <<Out("", <<>>, None)>>, <<r1, r2>>,
                 <<<<VN(1), VN(3)>>, <<VN(3), VN(1)>>, <<VN(2), VN(2)>>, <<VN(1), VN(1)>>>>)
             : hp \in {"F", "C"}, r1 \in R4, r2 \in R4}
Tables == Match \cup PolicyT \cup MultiT \cup TwoIn \cup TwoNum
ASSUME \A t \in Tables : PrintT(<<"TABLE", ToJson(t)>>)
ASSUME PrintT(<<"COUNT", Cardinality(Match), Cardinality(PolicyT), Cardinality(MultiT), Cardinality(TwoIn), Cardinality(TwoNum)>>)
VARIABLE v
Init == v = 0
Next == FALSE /\ v' = v
=============================================================================
