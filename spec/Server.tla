------------------------------- MODULE Server -------------------------------
(***************************************************************************)
(* The HTTP front end (server/src/server.rs) as a thin layer over Workspace:*)
(* one action per endpoint, each the workspace operation it stands for      *)
(* (C18: "behave as the same sequence of workspace operations - replace     *)
(* substituting the stored model of the same namespace and name"), plus the *)
(* requests that must leave the state alone and be answered with `errors`.  *)
(* `res` is the class of the reply: "ok" = a `data` member, "err" = an      *)
(* `errors` member.                                                         *)
(***************************************************************************)
EXTENDS Workspace

PostAdd(m)         == Add(m)
PostReplace(m)     == Replace(m)
PostRemove(ns, nm) == Remove(ns, nm)
PostClear          == Clear
PostDeploy         == Deploy
PostEvaluate(nm)   == Evaluate(nm)

\* malformed JSON body, invalid base64 / UTF-8 / XML content, missing parameter,
\* unknown path, input that is not a FEEL context: answered with `errors`, nothing changes
MalformedKinds == {"bad-json", "bad-base64", "bad-utf8", "bad-xml", "no-content",
                   "no-name", "no-namespace", "unknown-path", "bad-input", "empty-body"}
Malformed(kind) == /\ kind \in MalformedKinds
                   /\ UNCHANGED <<defs, byNs, byNm, evals, fresh>> /\ res' = "err"

\* a deployed model asked for an invocable it does not have: any well-formed reply
UnknownInvocable(nm) == /\ UNCHANGED <<defs, byNs, byNm, evals, fresh>>
                        /\ res' \in (IF nm \in evals THEN {"ok", "err"} ELSE {"err"})

SNext == \/ \E m \in Models : PostAdd(m) \/ PostReplace(m)
         \/ \E ns \in Namespaces, nm \in Names : PostRemove(ns, nm)
         \/ PostClear \/ PostDeploy
         \/ \E nm \in Names : PostEvaluate(nm) \/ UnknownInvocable(nm)
         \/ \E k \in MalformedKinds : Malformed(k)
SSpec == Init /\ [][SNext]_vars
=============================================================================
