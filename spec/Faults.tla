------------------------------- MODULE Faults -------------------------------
(***************************************************************************)
(* Fault injection on documents, and the outcome contract of the total      *)
(* entry points (C05: FEEL text, C12: model text, C19: drawn tables).       *)
(*                                                                         *)
(* A document is a sequence of atoms (tokens, code points, or XML node      *)
(* ids - the operators do not care).  A fault is one of                     *)
(*   [f |-> "del",  i]          delete atom i                               *)
(*   [f |-> "dup",  i]          duplicate atom i                            *)
(*   [f |-> "swap", i]          exchange atoms i and i+1                    *)
(*   [f |-> "rep",  i, a]       replace atom i by the atoms a (a sequence)  *)
(*   [f |-> "ins",  i, a]       insert the atoms a before position i        *)
(*   [f |-> "cut",  i]          truncate: keep the first i-1 atoms          *)
(*   [f |-> "nest", n, o, c]    wrap the document n times in o ... c        *)
(* A behaviour of the fault model starts in a seed document and applies     *)
(* enabled faults; the system under test is then called on the document     *)
(* and must answer inside the contract.                                     *)
(***************************************************************************)
EXTENDS Naturals, Sequences

Enabled(d, op) ==
  CASE op.f \in {"del", "dup", "rep"} -> op.i >= 1 /\ op.i <= Len(d)
    [] op.f = "swap" -> op.i >= 1 /\ op.i < Len(d)
    [] op.f = "ins" -> op.i >= 1 /\ op.i <= Len(d) + 1
    [] op.f = "cut" -> op.i >= 1 /\ op.i <= Len(d)
    [] op.f = "nest" -> op.n >= 1
    [] OTHER -> FALSE

RECURSIVE Repeat(_, _)
Repeat(s, n) == IF n = 0 THEN <<>> ELSE s \o Repeat(s, n - 1)

Apply(d, op) ==
  CASE op.f = "del" -> SubSeq(d, 1, op.i - 1) \o SubSeq(d, op.i + 1, Len(d))
    [] op.f = "dup" -> SubSeq(d, 1, op.i) \o SubSeq(d, op.i, Len(d))
    [] op.f = "swap" -> SubSeq(d, 1, op.i - 1) \o <<d[op.i + 1], d[op.i]>> \o SubSeq(d, op.i + 2, Len(d))
    [] op.f = "rep" -> SubSeq(d, 1, op.i - 1) \o op.a \o SubSeq(d, op.i + 1, Len(d))
    [] op.f = "ins" -> SubSeq(d, 1, op.i - 1) \o op.a \o SubSeq(d, op.i, Len(d))
    [] op.f = "cut" -> SubSeq(d, 1, op.i - 1)
    [] op.f = "nest" -> Repeat(op.o, op.n) \o d \o Repeat(op.c, op.n)

\* the document after a script of faults, or <<"?">> ... when a fault of the script is not enabled
RECURSIVE ApplyAll(_, _, _)
ApplyAll(d, ops, k) ==
  IF k > Len(ops) THEN [ok |-> TRUE, d |-> d]
  ELSE IF ~Enabled(d, ops[k]) THEN [ok |-> FALSE, d |-> d]
  ELSE ApplyAll(Apply(d, ops[k]), ops, k + 1)

\* all single faults of a document over a replacement alphabet (a set of atom sequences)
SingleFaults(d, alphabet) ==
  {[f |-> "del", i |-> i] : i \in 1..Len(d)} \cup {[f |-> "dup", i |-> i] : i \in 1..Len(d)}
  \cup {[f |-> "swap", i |-> i] : i \in 1..(Len(d) - 1)} \cup {[f |-> "cut", i |-> i] : i \in 2..Len(d)}
  \cup {[f |-> "rep", i |-> i, a |-> a] : i \in 1..Len(d), a \in alphabet}
  \cup {[f |-> "ins", i |-> i, a |-> a] : i \in 1..(Len(d) + 1), a \in alphabet}

----------------------------------------------------------------------------
\* the outcome contract.  A call of an entry point answers with one of the classes below;
\* "panic", "death" (abort, stack overflow, killed by a signal) and "timeout" are in no contract.
ParseContract == {"tree", "error"}
EvalContract  == {"value", "none"}            \* "none": nothing to evaluate (the text did not parse)
LoadContract  == {"model", "error"}
BuildContract == {"evaluator", "error", "none"}
InvokeContract == {"value", "none"}
=============================================================================
