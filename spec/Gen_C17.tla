------------------------------ MODULE Gen_C17 ------------------------------
(* Edge tour of the Workspace state graph (spec -> impl).                   *)
(* `path` is a history variable hidden from the fingerprint by VIEW, so     *)
(* every reachable abstract state is expanded once; the ACTION_CONSTRAINT   *)
(* prints every outgoing edge once, with the BFS-shortest operation         *)
(* sequence that leads to it.  Where Workspace is loose, the tour follows   *)
(* the variant the code takes today (named below); the replayed sequences   *)
(* are judged by Trace_C17 against the loose Workspace actions, so a code   *)
(* change that picks another allowed variant costs tour coverage (reported  *)
(* as OFFPATH), never a false alarm.                                        *)
EXTENDS Workspace, TLC, Json

VARIABLES path, ld      \* ld: the path contains a restart (kept in the VIEW, so that the paths to the states reached by
                        \* operations alone stay free of restarts, and every edge is also toured from the states a restart leaves)
Ids0(S) == {m.id : m \in S}
gvars == <<defs, byNs, byNm, evals, res, fresh, path, ld>>
View  == <<defs, byNs, byNm, evals, fresh, ld>>

GAdd(m) == /\ Add(m)
           /\ (Clash(m, defs) # {} => evals' = evals)          \* rejected add keeps evaluators
           /\ path' = Append(path, [op |-> "add", m |-> m.id])
GRemove(ns, nm) ==
           /\ Remove(ns, nm)
           /\ defs' = defs \ (Exact(ns, nm) \cup Partial(ns, nm))  \* either-key eviction
           /\ evals' = {}                                          \* remove always drops evaluators
           /\ path' = Append(path, [op |-> "remove", ns |-> ns, nm |-> nm])
GReplace(m) ==
           /\ ReplaceOk(m)
           /\ defs' = (defs \ Clash(m, defs)) \cup {m}             \* remove-then-add
           /\ path' = Append(path, [op |-> "replace", m |-> m.id])
GClear  == Clear  /\ path' = Append(path, [op |-> "clear"])
GDeploy == Deploy /\ path' = Append(path, [op |-> "deploy"])
GEval(nm) == Evaluate(nm) /\ path' = Append(path, [op |-> "eval", nm |-> nm])
\* a restart on a directory holding the models S: only clash-free S, so that the outcome does not depend on the order in
\* which the file system lists the files (directories with clashing files come from the random histories)
GLoad(S) == ~ld /\ ld' = TRUE /\ ClashFree(S) /\ LoadDir(S) /\ path' = Append(path, [op |-> "load", ms |-> Ids0(S)])

GInit == Init /\ path = <<>> /\ ld = FALSE
GNext == \/ /\ UNCHANGED ld
            /\ \/ \E m \in Models : GAdd(m) \/ GReplace(m)
               \/ \E ns \in Namespaces, nm \in Names : GRemove(ns, nm)
               \/ GClear \/ GDeploy
               \/ \E nm \in Names : GEval(nm)
         \/ \E S \in SUBSET Models : GLoad(S)

Ids(S) == {m.id : m \in S}
Emit == PrintT(<<"EDGE", ToJson([path |-> path',
                                 pre  |-> [defs |-> Ids(defs), evals |-> evals]])>>)
=============================================================================
