INIT Init
NEXT Next
CONSTANTS NE = 6 NS = 3 MaxLen = 3
INVARIANT Emit
CHECK_DEADLOCK FALSE
