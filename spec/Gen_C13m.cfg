INIT Init
NEXT Next
CONSTANTS NE = 4 NS = 3 MaxLen = 3
INVARIANT Emit
CHECK_DEADLOCK FALSE
