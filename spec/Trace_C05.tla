----------------------------- MODULE Trace_C05 -----------------------------
(* C05: each record is one document with the outcome class of every call    *)
(* the harness made on it in a child process:                               *)
(*   p    outcome of each parser entry point under each parsing scope       *)
(*   ev   outcome of evaluating each tree under each scope                  *)
(*   death  "" | "timeout" | "signal n" | "exit n" (the child process)      *)
(*   iter  the document contains iteration / range / power / big operands   *)
(*         (a timeout may then be legitimate long-running work)             *)
(* For documents the harness mutated itself (src = "mut") the record also   *)
(* carries the seed, the fault script and the resulting document as code    *)
(* points, and the script must be a behaviour of Faults.tla ending in that  *)
(* document.  Faults.tla's contract decides the outcome classes.            *)
EXTENDS Faults, TLC, Json, IOUtils
Recs == ndJsonDeserialize(IOEnv.TRACE)

Range(s) == {s[k] : k \in DOMAIN s}
Verdict(r) ==
  IF r.src = "mut" /\ LET m == ApplyAll(r.seed, r.ops, 1) IN ~m.ok \/ m.d # r.doc THEN "HARNESS: the mutated document is not what the fault script yields"
  ELSE IF r.death = "timeout" THEN (IF r.iter THEN "unspec" ELSE "a call did not return (timeout)")
  ELSE IF r.death # "" THEN "the process died"
  ELSE IF ~(Range(r.p) \subseteq ParseContract) THEN "a parser entry point panicked"
  ELSE IF ~(Range(r.ev) \subseteq EvalContract) THEN "evaluation panicked"
  ELSE "ok"

VARIABLE i
Init == i \in 1..Len(Recs)
Next == FALSE /\ i' = i
Judged == LET w == Verdict(Recs[i]) IN IF w = "ok" THEN TRUE ELSE IF w = "unspec" THEN PrintT(<<"UNSPEC", i>>) ELSE PrintT(<<"REJECT", i, w>>)
=============================================================================
