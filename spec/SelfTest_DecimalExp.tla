------------------------ MODULE SelfTest_DecimalExp ------------------------
(* DecimalExp.tla's acceptors against CPython's decimal module (tools/       *)
(* gen_decexp_selftest.py), whose exp and ln are correctly rounded: that      *)
(* answer and a neighbour one unit in the last place away must be accepted,  *)
(* a value three units away must be rejected.                               *)
EXTENDS DecimalExp, TLC, Json, IOUtils
Cases == ndJsonDeserialize(IOEnv.TRACE)        \* the harness passes (a part of) selftest/decexp_cases.ndjson
V(r, o) == IF r.op = "exp" THEN AcceptExp(r.a, o) ELSE IF r.op = "pow" THEN AcceptPow(r.a, r.b, o) ELSE AcceptLn(r.a, o)
\* the constants of the logarithm, through the exponential: e^LN2lo <= 2 <= e^LN2hi (and 10), to 70 digits
Two70 == MulPow10(<<2>>, 70)   Ten70 == Pow10(71)
ConstOk(lo, hi, x70) == LET l == ExpEncl(FALSE, lo, 0 - 4 * K)   h == ExpEncl(FALSE, hi, 0 - 4 * K) IN
   /\ CmpScaled(x70, 0 - 70, l.lo, l.q) >= 0 /\ CmpScaled(Add(x70, <<1>>), 0 - 70, l.hi, l.q) > 0
   /\ CmpScaled(x70, 0 - 70, h.hi, h.q) <= 0 /\ CmpScaled(Sub(x70, <<1>>), 0 - 70, h.lo, h.q) < 0
ASSUME ConstOk(LN2lo, LN2hi, Two70) /\ ConstOk(LN10lo, LN10hi, Ten70)
VARIABLE i
Init == i \in 1..Len(Cases)
Next == FALSE /\ i' = i
Why(r) == IF V(r, r.good) # OK THEN "the correctly rounded value is not accepted"
          ELSE IF V(r, r.near) # OK THEN "a value one unit away is not accepted"
          ELSE IF V(r, r.bad) = OK THEN "a value three units away is accepted" ELSE OK
Judged == LET w == Why(Cases[i]) IN w = OK \/ PrintT(<<"REJECT", i, w>>)
=============================================================================
