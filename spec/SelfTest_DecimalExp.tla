------------------------ MODULE SelfTest_DecimalExp ------------------------
(* DecimalExp.tla's acceptors against CPython's decimal module (tools/       *)
(* gen_decexp_selftest.py), whose exp and ln are correctly rounded: that      *)
(* answer and a neighbour one unit in the last place away must be accepted,  *)
(* a value three units away must be rejected.                               *)
EXTENDS DecimalExp, TLC, Json, IOUtils
Cases == ndJsonDeserialize(IOEnv.TRACE)        \* the harness passes (a part of) selftest/decexp_cases.ndjson
V(r, o) == IF r.op = "exp" THEN AcceptExp(r.a, o) ELSE AcceptLn(r.a, o)
VARIABLE i
Init == i \in 1..Len(Cases)
Next == FALSE /\ i' = i
Why(r) == IF V(r, r.good) # OK THEN "the correctly rounded value is not accepted"
          ELSE IF V(r, r.near) # OK THEN "a value one unit away is not accepted"
          ELSE IF V(r, r.bad) = OK THEN "a value three units away is accepted" ELSE OK
Judged == LET w == Why(Cases[i]) IN w = OK \/ PrintT(<<"REJECT", i, w>>)
=============================================================================
