SPECIFICATION Spec
CONSTANT Big = TRUE
INVARIANTS Inv AddableIff
PROPERTY DeployExact
CHECK_DEADLOCK FALSE
