SPECIFICATION Spec
CONSTANT Big = TRUE Wide = FALSE
INVARIANTS Inv AddableIff
PROPERTY DeployExact
CHECK_DEADLOCK FALSE
