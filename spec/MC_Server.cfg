SPECIFICATION SSpec
CONSTANT Big = FALSE
INVARIANTS Inv AddableIff
CHECK_DEADLOCK FALSE
