SPECIFICATION SSpec
CONSTANT Big = FALSE Wide = FALSE
INVARIANTS Inv AddableIff
CHECK_DEADLOCK FALSE
