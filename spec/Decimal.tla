------------------------------- MODULE Decimal -------------------------------
(***************************************************************************)
(* IEEE 754-2008 decimal128 arithmetic as FEEL uses it (General Decimal     *)
(* Arithmetic: exact result -> round to 34 digits half-even -> range check).*)
(*                                                                         *)
(* A finite number is [s |-> 0|1, c |-> <<digits, MSD first>>, e |-> exp]   *)
(* in canonical form (no leading/trailing zero digits; zero is c = <<>>).   *)
(* Exact intermediate values are positive rationals N/D * 10^en with N, D   *)
(* Bignum naturals, plus a sign.                                            *)
(*                                                                         *)
(* The module is written as a set of ACCEPTORS: given the operands and the  *)
(* observed result, decide whether the observed result is the correctly     *)
(* rounded one.  Acceptors need only multiplication and comparison (a       *)
(* quotient is checked by cross-multiplying), are exact, and cost ~1 ms.    *)
(***************************************************************************)
EXTENDS Bignum

P    == 34          \* precision
EMax == 6144        \* largest adjusted exponent
EMin == 0 - 6143    \* smallest normal adjusted exponent

IsZ(n)  == n.c = <<>>
Mag(n)  == FromDigits(n.c)
Adj(n)  == n.e + Len(n.c) - 1                       \* adjusted exponent of a non-zero number
Num(s, c, e) == [s |-> s, c |-> c, e |-> e]
ZeroN == Num(0, <<>>, 0)

\* canonical number from sign, magnitude (Bignum) and exponent
RECURSIVE StripTrail(_, _)
StripTrail(d, e) == IF d # <<>> /\ d[Len(d)] = 0 THEN StripTrail(SubSeq(d, 1, Len(d) - 1), e + 1) ELSE [d |-> d, e |-> e]
CanonNum(s, mag, e) == IF mag = <<>> THEN ZeroN
                    ELSE LET t == StripTrail(ToDigits(mag), e) IN Num(s, t.d, t.e)

\* verdicts
OK      == "ok"
Unspec  == "unspec"                                   \* any finite answer or null is accepted

----------------------------------------------------------------------------
\* a correct result needs a shift of about digits(D) - digits(N) + 33; anything far from that is wrong
Slack(N, D) == NumDigits(N) + NumDigits(D) + 120

\* Is the (non-zero, finite) number r the round-half-even of  N/D * 10^en
\* to 34 digits?  (N, D > 0; sign handled by the caller.)
RoundedTo34(N, D, en, r) ==
  LET pad  == P - Len(r.c)
      c34  == MulPow10(Mag(r), pad)                     \* coefficient padded to 34 digits
      e34  == r.e - pad
      sh   == en - e34
  IN
  IF sh > Slack(N, D) \/ sh < 0 - Slack(N, D) THEN FALSE  \* magnitude off by hundreds of orders
  ELSE
    LET Nn   == IF sh >= 0 THEN MulPow10(N, sh) ELSE N
        Dd   == IF sh >= 0 THEN D ELSE MulPow10(D, 0 - sh)
        X    == Mul(c34, Dd)                            \* compare Nn/Dd (true value in ulps) with c34
        cmp  == Cmp(Nn, X)
        diff == AbsDiff(Nn, X)
    IN
    IF cmp = 0 THEN TRUE                                \* exact
    ELSE IF cmp < 0 /\ r.c = <<1>> THEN                 \* r is a power of ten and the true value lies below it:
         Cmp(MulS(diff, 20), Dd) <= 0                   \*   there the spacing is ulp/10; a tie goes to r (even)
    ELSE LET two == Cmp(MulS(diff, 2), Dd) IN
         two < 0 \/ (two = 0 /\ IsEven(c34))

\* |true value - r| <= k ulp(r at 34 digits)   (for exp, ln, inexact powers: k = 2)
WithinUlps(N, D, en, r, k) ==
  LET pad  == P - Len(r.c)
      c34  == MulPow10(Mag(r), pad)
      e34  == r.e - pad
      sh   == en - e34
  IN
  IF sh > Slack(N, D) \/ sh < 0 - Slack(N, D) THEN FALSE
  ELSE
    LET Nn == IF sh >= 0 THEN MulPow10(N, sh) ELSE N
        Dd == IF sh >= 0 THEN D ELSE MulPow10(D, 0 - sh)
    IN Cmp(AbsDiff(Nn, Mul(c34, Dd)), MulS(Dd, k)) <= 0

\* bounds on the adjusted exponent of N/D * 10^en
AdjLow(N, D, en)  == en + NumDigits(N) - NumDigits(D) - 1
AdjHigh(N, D, en) == en + NumDigits(N) - NumDigits(D)

\* does N/D * 10^en round (to 34 digits) beyond the largest finite number?
\* i.e.  2 N 10^en >= (2*10^34 - 1) D 10^6111
Overflows(N, D, en) ==
  IF AdjHigh(N, D, en) < EMax THEN FALSE
  ELSE IF AdjLow(N, D, en) > EMax THEN TRUE
  ELSE LET lim == Sub(MulPow10(<<2>>, P), <<1>>)
           sh  == en - 6111
       IN IF sh >= 0 THEN Cmp(MulPow10(MulS(N, 2), sh), Mul(lim, D)) >= 0
                     ELSE Cmp(MulS(N, 2), MulPow10(Mul(lim, D), 0 - sh)) >= 0

\* below the smallest normal number: subnormal / underflow region
\* i.e.  N 10^(en - EMin) < D
Tiny(N, D, en) ==
  IF AdjLow(N, D, en) >= EMin THEN FALSE
  ELSE IF AdjHigh(N, D, en) < EMin THEN TRUE
  ELSE LET sh == en - EMin IN
       IF sh >= 0 THEN Cmp(MulPow10(N, sh), D) < 0 ELSE Cmp(N, MulPow10(D, 0 - sh)) < 0

\* Verdict on an observed result `o` (value encoding: [k |-> "null"] or
\* [k |-> "num", fin, s, c, e]) for the exact value  sign * N/D * 10^en.
\* `tol` = 0: correctly rounded;  tol = k > 0: within k ulp.
Judge(neg, N, D, en, o, tol) ==
  IF o.k = "num" /\ ~o.fin THEN
       (IF N # <<>> /\ Overflows(N, D, en) THEN "overflow: an infinite or NaN value was produced instead of null"
        ELSE "an infinite or NaN value was produced for a representable result")
  ELSE IF o.k \notin {"num", "null"} THEN "the result is neither a number nor null"
  ELSE IF N = <<>> THEN
       (IF o.k = "num" /\ IsZ(o) THEN OK ELSE "the exact result is zero")
  ELSE IF Overflows(N, D, en) THEN
       (IF o.k = "null" THEN OK ELSE "the result lies outside the decimal128 range: null expected")
  ELSE IF Tiny(N, D, en) THEN Unspec
  ELSE IF o.k = "null" THEN "a finite result is representable but null was returned"
  ELSE IF IsZ(o) THEN "zero returned for a non-zero result"
  ELSE IF (o.s = 1) # neg THEN "wrong sign"
  ELSE IF tol = 0 THEN (IF RoundedTo34(N, D, en, o) THEN OK ELSE "not the correctly rounded (34 digits, half-even) result")
  ELSE (IF WithinUlps(N, D, en, o, tol) THEN OK ELSE "farther than the permitted units in the last place from the exact result")

ExpectNull(o, why) == IF o.k = "num" /\ ~o.fin THEN "an infinite or NaN value was produced"
                      ELSE IF o.k = "null" THEN OK ELSE why

----------------------------------------------------------------------------
\* exact signed sum of two numbers, as [neg, N, e]; operands far apart are
\* replaced by a sticky digit (cannot influence rounding at 34 digits)
Sticky(hi, lo) == IF Adj(hi) - Adj(lo) > 2 * P + 8 THEN Num(lo.s, <<1>>, Adj(hi) - (2 * P + 8)) ELSE lo

SumExact(a0, b0) ==
  IF IsZ(a0) THEN [neg |-> b0.s = 1, N |-> Mag(b0), e |-> b0.e]
  ELSE IF IsZ(b0) THEN [neg |-> a0.s = 1, N |-> Mag(a0), e |-> a0.e]
  ELSE
    LET a == IF Adj(a0) >= Adj(b0) THEN a0 ELSE Sticky(b0, a0)
        b == IF Adj(a0) >= Adj(b0) THEN Sticky(a0, b0) ELSE b0
        e == IF a.e < b.e THEN a.e ELSE b.e
        Na == MulPow10(Mag(a), a.e - e)
        Nb == MulPow10(Mag(b), b.e - e)
    IN IF a.s = b.s THEN [neg |-> a.s = 1, N |-> Add(Na, Nb), e |-> e]
       ELSE LET c == Cmp(Na, Nb) IN
            IF c = 0 THEN [neg |-> FALSE, N |-> <<>>, e |-> e]
            ELSE IF c > 0 THEN [neg |-> a.s = 1, N |-> Sub(Na, Nb), e |-> e]
            ELSE [neg |-> b.s = 1, N |-> Sub(Nb, Na), e |-> e]

Negate(n) == IF IsZ(n) THEN n ELSE Num(1 - n.s, n.c, n.e)

\* -1, 0, 1 : numeric comparison (scale-insensitive by construction)
Compare(a, b) ==
  LET d == SumExact(a, Negate(b)) IN IF d.N = <<>> THEN 0 ELSE IF d.neg THEN 0 - 1 ELSE 1

One == <<1>>

AcceptAdd(a, b, o) == LET x == SumExact(a, b) IN Judge(x.neg, x.N, One, x.e, o, 0)
AcceptSub(a, b, o) == AcceptAdd(a, Negate(b), o)
AcceptMul(a, b, o) == Judge(a.s # b.s, Mul(Mag(a), Mag(b)), One, a.e + b.e, o, 0)
AcceptDiv(a, b, o) == IF IsZ(b) THEN ExpectNull(o, "division by zero must yield null")
                      ELSE Judge(a.s # b.s, Mag(a), Mag(b), a.e - b.e, o, 0)
AcceptNeg(a, o)    == Judge(a.s = 0, Mag(a), One, a.e, o, 0)
AcceptAbs(a, o)    == Judge(FALSE, Mag(a), One, a.e, o, 0)

\* integer part and "has a fraction" of |a|
IntPart(a) == IF a.e >= 0 THEN [q |-> MulPow10(Mag(a), a.e), frac |-> FALSE]
              ELSE IF 0 - a.e >= Len(a.c) THEN [q |-> <<>>, frac |-> ~IsZ(a)]
              ELSE LET k == Len(a.c) + a.e IN          \* k integer digits
                   [q |-> FromDigits(SubSeq(a.c, 1, k)), frac |-> TRUE]   \* canonical form: last digit non-zero
IsInteger(a) == IsZ(a) \/ ~IntPart(a).frac

\* floor / ceiling as exact values [neg, N, e]
Floor(a) == IF a.e >= 0 THEN [neg |-> a.s = 1 /\ ~IsZ(a), N |-> Mag(a), e |-> a.e]
            ELSE LET ip == IntPart(a) IN
                 IF a.s = 0 THEN [neg |-> FALSE, N |-> ip.q, e |-> 0]
                 ELSE [neg |-> TRUE, N |-> IF ip.frac THEN Add(ip.q, One) ELSE ip.q, e |-> 0]
Ceiling(a) == IF a.e >= 0 THEN [neg |-> a.s = 1 /\ ~IsZ(a), N |-> Mag(a), e |-> a.e]
              ELSE LET ip == IntPart(a) IN
                   IF a.s = 1 THEN [neg |-> ip.q # <<>>, N |-> ip.q, e |-> 0]
                   ELSE [neg |-> FALSE, N |-> IF ip.frac THEN Add(ip.q, One) ELSE ip.q, e |-> 0]

AcceptFloor(a, o)   == LET f == Floor(a) IN Judge(f.neg, f.N, One, f.e, o, 0)
AcceptCeiling(a, o) == LET f == Ceiling(a) IN Judge(f.neg, f.N, One, f.e, o, 0)

\* decimal(n, scale): n rounded half-even to `scale` fraction digits.  The observed
\* result must be a multiple of 10^-scale nearest to a (ties to even).
AcceptDecimal(a, scale, o) ==
  IF o.k = "num" /\ ~o.fin THEN
       (IF Adj(a) + scale + 1 > P /\ ~IsZ(a) THEN "decimal(): the result needs more than 34 digits and an infinite or NaN value was produced"
        ELSE "an infinite or NaN value was produced for a representable result")
  ELSE IF Adj(a) + scale + 1 > P /\ ~IsZ(a) THEN Unspec          \* would need more than 34 digits
  ELSE IF o.k # "num" THEN "decimal() of a representable value returned a non-number"
  ELSE IF IsZ(a) THEN (IF IsZ(o) THEN OK ELSE "decimal(0, n) must be 0")
  ELSE IF Adj(a) + scale < 0 - 1 THEN (IF IsZ(o) THEN OK ELSE "a value below half a unit of the scale must round to 0")
  ELSE IF a.e + scale >= 0 THEN Judge(a.s = 1, Mag(a), One, a.e, o, 0)       \* already a multiple of the unit
  ELSE
    \* q = o / 10^-scale must be an integer; compare a / 10^-scale with q
    LET eo == o.e + scale IN                                      \* o = Mag(o) * 10^(eo) units
    IF ~IsZ(o) /\ eo < 0 THEN "the result has more fraction digits than the scale"
    ELSE IF ~IsZ(o) /\ (o.s # a.s) THEN "wrong sign"
    ELSE LET q  == IF IsZ(o) THEN <<>> ELSE MulPow10(Mag(o), eo)
             sh == a.e + scale                                     \* a in units: Mag(a) * 10^sh
             Nn == IF sh >= 0 THEN MulPow10(Mag(a), sh) ELSE Mag(a)
             Dd == IF sh >= 0 THEN One ELSE Pow10(0 - sh)
             diff == AbsDiff(Nn, Mul(q, Dd))
             two == Cmp(MulS(diff, 2), Dd)
         IN IF two < 0 \/ (two = 0 /\ IsEven(q)) THEN OK ELSE "not the half-even rounding to the requested scale"

\* modulo(a, b) = a - b * floor(a / b), computed exactly, then rounded
AcceptModulo(a, b, o) ==
  IF IsZ(b) THEN ExpectNull(o, "modulo by zero must yield null")
  ELSE IF IsZ(a) THEN Judge(FALSE, <<>>, One, 0, o, 0)
  ELSE IF Adj(a) - Adj(b) > 80 THEN Unspec                         \* quotient beyond any practical use
  ELSE IF Adj(a) < Adj(b) THEN                                     \* |a| < |b|: floor(a/b) is 0 or -1
       (IF a.s = b.s THEN Judge(a.s = 1, Mag(a), One, a.e, o, 0)
        ELSE LET x == SumExact(a, b) IN Judge(x.neg, x.N, One, x.e, o, 0))
  ELSE
    LET e  == IF a.e < b.e THEN a.e ELSE b.e
        Na == MulPow10(Mag(a), a.e - e)
        Nb == MulPow10(Mag(b), b.e - e)
        dm == DivMod(Na, Nb)                                       \* |a| = q |b| + r
        \* result = a - b*floor(a/b):  same signs -> sign(a) * r ; different -> sign(b) * (|b| - r) if r # 0 else 0
    IN IF dm.r = <<>> THEN Judge(FALSE, <<>>, One, 0, o, 0)
       ELSE IF a.s = b.s THEN Judge(a.s = 1, dm.r, One, e, o, 0)
       ELSE Judge(b.s = 1, Sub(Nb, dm.r), One, e, o, 0)

\* sqrt: o is the correctly rounded root iff (2 c34 - 1)^2 10^(2 e34) <= 4 a <= (2 c34 + 1)^2 10^(2 e34)
AcceptSqrt(a, o) ==
  IF o.k = "num" /\ ~o.fin THEN "an infinite or NaN value was produced"
  ELSE IF a.s = 1 /\ ~IsZ(a) THEN ExpectNull(o, "sqrt of a negative number must yield null")
  ELSE IF IsZ(a) THEN (IF o.k = "num" /\ IsZ(o) THEN OK ELSE "sqrt(0) must be 0")
  ELSE IF o.k # "num" \/ IsZ(o) \/ o.s = 1 THEN "sqrt of a positive number must be a positive number"
  ELSE
    LET pad == P - Len(o.c)
        c34 == MulPow10(Mag(o), pad)
        e34 == o.e - pad
        lo  == Sub(MulS(c34, 2), One)
        hi  == Add(MulS(c34, 2), One)
        sh  == a.e - 2 * e34                                       \* 4a = 4 Mag(a) 10^(a.e)
    IN IF sh > 300 \/ sh < 0 - 300 THEN "sqrt result of the wrong magnitude"
       ELSE LET A4 == IF sh >= 0 THEN MulPow10(MulS(Mag(a), 4), sh) ELSE MulS(Mag(a), 4)
                Lo == IF sh >= 0 THEN Mul(lo, lo) ELSE MulPow10(Mul(lo, lo), 0 - sh)
                Hi == IF sh >= 0 THEN Mul(hi, hi) ELSE MulPow10(Mul(hi, hi), 0 - sh)
            IN IF Cmp(Lo, A4) <= 0 /\ Cmp(A4, Hi) <= 0 THEN OK ELSE "not the correctly rounded square root"

\* integer powers: exact product, observed result within 2 ulp (exactly representable results: within 2 ulp too)
RECURSIVE PowN(_, _)
PowN(m, n) == IF n = 0 THEN One ELSE IF n = 1 THEN m ELSE
              LET h == PowN(m, n \div 2) IN IF n % 2 = 0 THEN Mul(h, h) ELSE Mul(Mul(h, h), m)

\* n: small non-negative integer exponent
AcceptPowInt(a, n, negExp, o) ==
  IF IsZ(a) THEN (IF n = 0 \/ negExp THEN Unspec ELSE Judge(FALSE, <<>>, One, 0, o, 0))
  ELSE LET N == PowN(Mag(a), n)
           neg == a.s = 1 /\ n % 2 = 1
       IN IF negExp THEN Judge(neg, One, N, 0 - a.e * n, o, 2)
          ELSE Judge(neg, N, One, a.e * n, o, 2)

Odd(a)  == IsInteger(a) /\ ~IsZ(a) /\ LET q == IntPart(a).q IN ~IsEven(q)
Even(a) == IsInteger(a) /\ (IsZ(a) \/ IsEven(IntPart(a).q))
=============================================================================
