INIT GInit
NEXT GNext
CONSTANT Big = FALSE Wide = FALSE
VIEW View
ACTION_CONSTRAINT Emit
CHECK_DEADLOCK FALSE
