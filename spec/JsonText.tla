------------------------------ MODULE JsonText ------------------------------
(***************************************************************************)
(* RFC 8259 JSON as a recogniser/decoder over sequences of Unicode code     *)
(* points, written in TLA+ so that "every response is a well-formed JSON    *)
(* document that decodes to the evaluated value" (C18) and "the JSON        *)
(* rendering of a number is a valid JSON number with the same value" (C07)  *)
(* are judged by the specification and not by a library of the harness.     *)
(*                                                                         *)
(* ParseJson(s) = [ok |-> TRUE, v |-> value, p |-> Len(s)+1] or [ok |-> FALSE]*)
(* Values use the encoding shared by all specs (fields of different type    *)
(* have different names: TLC cannot compare a boolean with a sequence):     *)
(*   [k |-> "null"]  [k |-> "bool", b |-> TRUE]                             *)
(*   [k |-> "num", s |-> 0|1, c |-> <<digits>>, e |-> exponent]  canonical: *)
(*       no leading or trailing zero digits; zero is s=0, c=<<>>, e=0       *)
(*   [k |-> "str", cp |-> <<code points>>]                                   *)
(*   [k |-> "list", items |-> <<values>>]                                       *)
(*   [k |-> "ctx", ents |-> << [nc |-> <<code points>>, v |-> value], ... >>]  *)
(***************************************************************************)
EXTENDS Naturals, Integers, Sequences

Fail == [ok |-> FALSE]
Ok(v, p) == [ok |-> TRUE, v |-> v, p |-> p]

IsWs(c)    == c \in {32, 9, 10, 13}
IsDigit(c) == c >= 48 /\ c <= 57
HexVal(c)  == IF c >= 48 /\ c <= 57 THEN c - 48
              ELSE IF c >= 65 /\ c <= 70 THEN c - 55
              ELSE IF c >= 97 /\ c <= 102 THEN c - 87
              ELSE -1

At(s, p) == IF p >= 1 /\ p <= Len(s) THEN s[p] ELSE -1

RECURSIVE SkipWs(_, _)
SkipWs(s, p) == IF IsWs(At(s, p)) THEN SkipWs(s, p + 1) ELSE p

\* position after the longest run of digits starting at p
RECURSIVE DigitsEnd(_, _)
DigitsEnd(s, p) == IF IsDigit(At(s, p)) THEN DigitsEnd(s, p + 1) ELSE p

DigitSeq(s, a, b) == [i \in 1..(b - a) |-> s[a + i - 1] - 48]      \* digits of s[a..b-1]

RECURSIVE StripLead(_)
StripLead(d) == IF d # <<>> /\ d[1] = 0 THEN StripLead(Tail(d)) ELSE d

\* canonical number from sign, digit sequence (MSD first) and exponent
RECURSIVE Canon(_, _, _)
Canon(sg, d, e) ==
  LET x == StripLead(d) IN
  IF x = <<>> THEN [k |-> "num", s |-> 0, c |-> <<>>, e |-> 0]
  ELSE IF x[Len(x)] = 0 THEN Canon(sg, SubSeq(x, 1, Len(x) - 1), e + 1)
  ELSE [k |-> "num", s |-> sg, c |-> x, e |-> e]

RECURSIVE NatOf(_)
NatOf(d) == IF d = <<>> THEN 0 ELSE NatOf(SubSeq(d, 1, Len(d) - 1)) * 10 + d[Len(d)]

\* number = [ minus ] int [ frac ] [ exp ]
PNumber(s, p0) ==
  LET neg == At(s, p0) = 45
      p1  == IF neg THEN p0 + 1 ELSE p0
      p2  == DigitsEnd(s, p1)
  IN
  IF p2 = p1 THEN Fail                                          \* no digit
  ELSE IF At(s, p1) = 48 /\ p2 > p1 + 1 THEN Fail               \* leading zero
  ELSE
    LET hasFrac == At(s, p2) = 46
        p3 == IF hasFrac THEN DigitsEnd(s, p2 + 1) ELSE p2
    IN
    IF hasFrac /\ p3 = p2 + 1 THEN Fail                          \* "1." without digits
    ELSE
      LET hasExp == At(s, p3) \in {69, 101}
          q0 == p3 + 1
          eneg == At(s, q0) = 45
          q1 == IF At(s, q0) \in {43, 45} THEN q0 + 1 ELSE q0
          q2 == DigitsEnd(s, q1)
          ints == DigitSeq(s, p1, p2)
          frac == IF hasFrac THEN DigitSeq(s, p2 + 1, p3) ELSE <<>>
      IN
      IF hasExp /\ (q2 = q1 \/ q2 - q1 > 9) THEN Fail            \* "1e" / absurd exponent
      ELSE
        LET ex == IF hasExp THEN (IF eneg THEN 0 - NatOf(DigitSeq(s, q1, q2)) ELSE NatOf(DigitSeq(s, q1, q2))) ELSE 0
            pe == IF hasExp THEN q2 ELSE p3
        IN Ok(Canon(IF neg THEN 1 ELSE 0, ints \o frac, ex - Len(frac)), pe)

Hex4(s, p) ==   \* value of 4 hex digits at p, or -1
  LET a == HexVal(At(s, p)) b == HexVal(At(s, p + 1)) c == HexVal(At(s, p + 2)) d == HexVal(At(s, p + 3)) IN
  IF a < 0 \/ b < 0 \/ c < 0 \/ d < 0 THEN -1 ELSE ((a * 16 + b) * 16 + c) * 16 + d

\* string body after the opening quote; acc = code points so far
RECURSIVE PStr(_, _, _)
PStr(s, p, acc) ==
  LET c == At(s, p) IN
  IF c < 0 THEN Fail                                             \* unterminated
  ELSE IF c = 34 THEN Ok([k |-> "str", cp |-> acc], p + 1)
  ELSE IF c < 32 THEN Fail                                       \* raw control character
  ELSE IF c # 92 THEN PStr(s, p + 1, Append(acc, c))
  ELSE
    LET e == At(s, p + 1) IN
    IF e = 34 THEN PStr(s, p + 2, Append(acc, 34))
    ELSE IF e = 92 THEN PStr(s, p + 2, Append(acc, 92))
    ELSE IF e = 47 THEN PStr(s, p + 2, Append(acc, 47))
    ELSE IF e = 98 THEN PStr(s, p + 2, Append(acc, 8))
    ELSE IF e = 102 THEN PStr(s, p + 2, Append(acc, 12))
    ELSE IF e = 110 THEN PStr(s, p + 2, Append(acc, 10))
    ELSE IF e = 114 THEN PStr(s, p + 2, Append(acc, 13))
    ELSE IF e = 116 THEN PStr(s, p + 2, Append(acc, 9))
    ELSE IF e = 117 THEN
      LET u == Hex4(s, p + 2) IN
      IF u < 0 THEN Fail
      ELSE IF u >= 55296 /\ u <= 56319 THEN                      \* high surrogate: needs its low half
        LET w == IF At(s, p + 6) = 92 /\ At(s, p + 7) = 117 THEN Hex4(s, p + 8) ELSE -1 IN
        IF w >= 56320 /\ w <= 57343
        THEN PStr(s, p + 12, Append(acc, 65536 + (u - 55296) * 1024 + (w - 56320)))
        ELSE Fail
      ELSE IF u >= 56320 /\ u <= 57343 THEN Fail                 \* lone low surrogate
      ELSE PStr(s, p + 6, Append(acc, u))
    ELSE Fail

Lit(s, p, word) == \A i \in 1..Len(word) : At(s, p + i - 1) = word[i]

RECURSIVE PValue(_, _), PElems(_, _, _), PMembers(_, _, _)

PValue(s, p) ==
  LET c == At(s, p) IN
  IF c = 34 THEN PStr(s, p + 1, <<>>)
  ELSE IF c = 45 \/ IsDigit(c) THEN PNumber(s, p)
  ELSE IF c = 116 THEN IF Lit(s, p, <<116, 114, 117, 101>>) THEN Ok([k |-> "bool", b |-> TRUE], p + 4) ELSE Fail
  ELSE IF c = 102 THEN IF Lit(s, p, <<102, 97, 108, 115, 101>>) THEN Ok([k |-> "bool", b |-> FALSE], p + 5) ELSE Fail
  ELSE IF c = 110 THEN IF Lit(s, p, <<110, 117, 108, 108>>) THEN Ok([k |-> "null"], p + 4) ELSE Fail
  ELSE IF c = 91 THEN
    LET q == SkipWs(s, p + 1) IN
    IF At(s, q) = 93 THEN Ok([k |-> "list", items |-> <<>>], q + 1) ELSE PElems(s, q, <<>>)
  ELSE IF c = 123 THEN
    LET q == SkipWs(s, p + 1) IN
    IF At(s, q) = 125 THEN Ok([k |-> "ctx", ents |-> <<>>], q + 1) ELSE PMembers(s, q, <<>>)
  ELSE Fail

\* p at the first character of an element
PElems(s, p, acc) ==
  LET r == PValue(s, p) IN
  IF ~r.ok THEN Fail
  ELSE LET q == SkipWs(s, r.p) IN
       IF At(s, q) = 44 THEN PElems(s, SkipWs(s, q + 1), Append(acc, r.v))
       ELSE IF At(s, q) = 93 THEN Ok([k |-> "list", items |-> Append(acc, r.v)], q + 1)
       ELSE Fail

\* p at the opening quote of a member name
PMembers(s, p, acc) ==
  IF At(s, p) # 34 THEN Fail
  ELSE
    LET n == PStr(s, p + 1, <<>>) IN
    IF ~n.ok THEN Fail
    ELSE
      LET q == SkipWs(s, n.p) IN
      IF At(s, q) # 58 THEN Fail
      ELSE
        LET r == PValue(s, SkipWs(s, q + 1)) IN
        IF ~r.ok THEN Fail
        ELSE LET t == SkipWs(s, r.p)
                 acc2 == Append(acc, [nc |-> n.v.cp, v |-> r.v]) IN
             IF At(s, t) = 44 THEN PMembers(s, SkipWs(s, t + 1), acc2)
             ELSE IF At(s, t) = 125 THEN Ok([k |-> "ctx", ents |-> acc2], t + 1)
             ELSE Fail

ParseJson(s) ==
  LET r == PValue(s, SkipWs(s, 1)) IN
  IF r.ok /\ SkipWs(s, r.p) = Len(s) + 1 THEN r ELSE Fail

\* a JSON number and nothing else (C07)
IsJsonNumber(s) == LET r == PNumber(s, 1) IN r.ok /\ r.p = Len(s) + 1

----------------------------------------------------------------------------
\* equality of decoded values (contexts: same members whatever their order, no duplicate names)

RECURSIVE JEq(_, _)
JEq(a, b) ==
  IF a.k # b.k THEN FALSE
  ELSE IF a.k = "null" THEN TRUE
  ELSE IF a.k = "bool" THEN a.b = b.b
  ELSE IF a.k = "num" THEN a.s = b.s /\ a.c = b.c /\ a.e = b.e
  ELSE IF a.k = "str" THEN a.cp = b.cp
  ELSE IF a.k = "list" THEN Len(a.items) = Len(b.items) /\ \A i \in 1..Len(a.items) : JEq(a.items[i], b.items[i])
  ELSE IF a.k = "ctx" THEN
       /\ Len(a.ents) = Len(b.ents)
       /\ \A i, j \in 1..Len(b.ents) : b.ents[i].nc = b.ents[j].nc => i = j
       /\ \A i \in 1..Len(a.ents) : \E j \in 1..Len(b.ents) : a.ents[i].nc = b.ents[j].nc /\ JEq(a.ents[i].v, b.ents[j].v)
  ELSE FALSE

HasMember(o, name) == o.k = "ctx" /\ \E i \in 1..Len(o.ents) : o.ents[i].nc = name
Member(o, name) == o.ents[CHOOSE i \in 1..Len(o.ents) : o.ents[i].nc = name].v
=============================================================================
