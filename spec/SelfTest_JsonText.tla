-------------------------- MODULE SelfTest_JsonText --------------------------
(* The TLA+ JSON decoder against a corpus of valid and invalid documents whose *)
(* verdict/decoding was produced independently (tools/gen_json_selftest.py).  *)
EXTENDS JsonText, TLC, Json, IOUtils, FiniteSets
Cases == ndJsonDeserialize("selftest/json_cases.ndjson")
VARIABLE i
Init == i \in 1..Len(Cases)
Next == FALSE /\ i' = i
Good(c) == LET r == ParseJson(c.cp) IN
           IF c.ok THEN r.ok /\ JEq(c.v, r.v) /\ JEq(r.v, c.v) ELSE ~r.ok
Inv == Good(Cases[i]) \/ PrintT(<<"REJECT", i, "json self-test case fails">>)
Count == PrintT(<<"CASES", Len(Cases)>>)
ASSUME Count
=============================================================================
