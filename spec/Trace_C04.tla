----------------------------- MODULE Trace_C04 -----------------------------
(* C04: each record is a model emitted by Gen_C04 with, for every invocable *)
(* and every input context, the value returned by the real model evaluator  *)
(* (loaded from DMN XML) - once with exactly the input context and once     *)
(* with additional entries whose names occur nowhere in the requirement     *)
(* closure.  Drg!ValueOf is the oracle.                                     *)
EXTENDS Drg, TLC, Json, IOUtils

Recs == ndJsonDeserialize(IOEnv.TRACE)

Bad(r) == {<<i, j>> \in (1..Len(r.model.invocables)) \X (1..Len(r.inputs)) :
             LET want == ValueOf(r.model, r.model.invocables[i][1], r.model.invocables[i][2], r.inputs[j]) IN
             ~Match(want, r.obs[i][j]) \/ r.obs[i][j] # r.obs2[i][j]}
Verdict(r) == IF r.built # "ok" THEN "the model could not be loaded: " \o r.built
              ELSE IF Bad(r) = {} THEN "ok" ELSE "an invocable's value is not its logic evaluated over its requirement graph"
VARIABLE i
Init == i \in 1..Len(Recs)
Next == FALSE /\ i' = i
Judged == LET w == Verdict(Recs[i]) IN w = "ok" \/ (PrintT(<<"REJECT", i, w>>) /\ (Recs[i].built # "ok" \/ PrintT(<<"BAD", i, ToJson(Bad(Recs[i]))>>)))
=============================================================================
