INIT Init
NEXT Next
CONSTANT Triples = "none"
CHECK_DEADLOCK FALSE
