--------------------------- MODULE MC_Workspace ---------------------------
(* Exhaustive check of the Workspace design: every reachable state of the   *)
(* model alphabet satisfies the C17 invariants, and every Deploy yields     *)
(* exactly the models that build.  `AsWritten` is the counter-design: the   *)
(* remove of the pinned commit (indexes keyed separately, list filtered on  *)
(* either key); MC_WorkspaceAsWritten.cfg must find IndexesAgree violated,  *)
(* which shows the invariant is not vacuous.                                *)
EXTENDS Workspace, TLC

DeployExact == [][(fresh' /\ ~fresh) => evals' = Built(defs')]_vars

RemoveAsWritten(ns, nm) ==
  /\ byNs' = byNs \ {ns} /\ byNm' = byNm \ {nm}
  /\ defs' = {d \in defs : d.ns # ns /\ d.nm # nm}
  /\ evals' = {} /\ fresh' = FALSE /\ res' = "ok"

AddAsWritten(m) ==
  IF m.ns \in byNs \/ m.nm \in byNm
  THEN UNCHANGED <<defs, byNs, byNm, evals, fresh>> /\ res' = "err"
  ELSE /\ defs' = defs \cup {m} /\ byNs' = byNs \cup {m.ns} /\ byNm' = byNm \cup {m.nm}
       /\ evals' = {} /\ fresh' = FALSE /\ res' = "ok"

NextAsWritten == \/ \E m \in Models : AddAsWritten(m)
                 \/ \E ns \in Namespaces, nm \in Names : RemoveAsWritten(ns, nm)
                 \/ Clear \/ Deploy
SpecAsWritten == Init /\ [][NextAsWritten]_vars
=============================================================================
