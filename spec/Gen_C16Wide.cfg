INIT Init
NEXT Next
CONSTANT Wide = TRUE
CHECK_DEADLOCK FALSE
