----------------------------- MODULE Workspace -----------------------------
(***************************************************************************)
(* The model store of dmntk (workspace/src/workspace.rs).                   *)
(*                                                                         *)
(* One variable per field of `Workspace`, one action per public method.     *)
(*   defs   the stored model definitions            (Workspace.definitions) *)
(*   byNs   the namespaces reserved   (keys of definitions_by_namespace)    *)
(*   byNm   the names reserved        (keys of definitions_by_name)         *)
(*   evals  names with a deployed evaluator (keys of model_evaluators_...)  *)
(*   res    class of the last reply ("ok" / "err")                          *)
(*   fresh  history: no successful modification since the last deploy       *)
(*                                                                         *)
(* Where property C17 is silent the action is deliberately loose (several   *)
(* allowed outcomes); the invariants are the judges:                        *)
(*   - remove(ns, nm) where some stored model matches only one of the keys  *)
(*   - replace(m) where a stored model other than (m.ns, m.nm) clashes      *)
(*   - whether a remove that finds nothing to remove (it succeeds, and      *)
(*     changes nothing) drops the deployed evaluators; a REFUSED add or     *)
(*     replace has failed, is no modification, and keeps them               *)
(***************************************************************************)
EXTENDS Naturals, Sequences, FiniteSets

CONSTANT Big,           \* FALSE: the alphabet of C17; TRUE: a larger one (thorough)
         Wide           \* TRUE: ten more models with keys of their own (trace validation only: many models stored at once)

M(id, ns, nm, b) == [id |-> id, ns |-> ns, nm |-> nm, builds |-> b]

\* A  / A2 : identical keys (A2 is "the same model again" with other content)
\* B       : same namespace as A, different name
\* C       : different namespace, same name as A
\* D       : disjoint
\* E       : disjoint, fails to build
SmallModels == { M("A", "ns1", "n1", TRUE),  M("A2", "ns1", "n1", TRUE),
                 M("B", "ns1", "n2", TRUE),  M("C",  "ns2", "n1", TRUE),
                 M("D", "ns3", "n3", TRUE),  M("E",  "ns4", "n4", FALSE) }
BigModels   == SmallModels \cup
               { M("F", "ns2", "n2", TRUE),  M("G", "ns3", "n1", FALSE),
                 M("H", "ns4", "n3", TRUE) }
\* W1 .. W10: pairwise disjoint keys, disjoint from the others; W4 and W9 fail to build
WideModels  == { M("W1", "ns5", "n5", TRUE),   M("W2", "ns6", "n6", TRUE),   M("W3", "ns7", "n7", TRUE),  M("W4", "ns8", "n8", FALSE),
                 M("W5", "ns9", "n9", TRUE),   M("W6", "ns10", "n10", TRUE), M("W7", "ns11", "n11", TRUE), M("W8", "ns12", "n12", TRUE),
                 M("W9", "ns13", "n13", FALSE), M("W10", "ns14", "n14", TRUE) }
Models == (IF Big THEN BigModels ELSE SmallModels) \cup (IF Wide THEN WideModels ELSE {})


VARIABLES defs, byNs, byNm, evals, res, fresh

vars == <<defs, byNs, byNm, evals, res, fresh>>

\* the actions and the invariants: WorkspaceCore, over this alphabet
INSTANCE WorkspaceCore

Spec == Init /\ [][NextL]_vars
=============================================================================
