----------------------------- MODULE Workspace -----------------------------
(***************************************************************************)
(* The model store of dmntk (workspace/src/workspace.rs).                   *)
(*                                                                         *)
(* One variable per field of `Workspace`, one action per public method.     *)
(*   defs   the stored model definitions            (Workspace.definitions) *)
(*   byNs   the namespaces reserved   (keys of definitions_by_namespace)    *)
(*   byNm   the names reserved        (keys of definitions_by_name)         *)
(*   evals  names with a deployed evaluator (keys of model_evaluators_...)  *)
(*   res    class of the last reply ("ok" / "err")                          *)
(*   fresh  history: no successful modification since the last deploy       *)
(*                                                                         *)
(* Where property C17 is silent the action is deliberately loose (several   *)
(* allowed outcomes); the invariants are the judges:                        *)
(*   - remove(ns, nm) where some stored model matches only one of the keys  *)
(*   - replace(m) where a stored model other than (m.ns, m.nm) clashes      *)
(*   - whether an attempted modification that changes nothing (rejected     *)
(*     add, remove of an absent model) drops the deployed evaluators        *)
(***************************************************************************)
EXTENDS Naturals, Sequences, FiniteSets

CONSTANT Big            \* FALSE: the alphabet of C17; TRUE: a larger one (thorough)

M(id, ns, nm, b) == [id |-> id, ns |-> ns, nm |-> nm, builds |-> b]

\* A  / A2 : identical keys (A2 is "the same model again" with other content)
\* B       : same namespace as A, different name
\* C       : different namespace, same name as A
\* D       : disjoint
\* E       : disjoint, fails to build
SmallModels == { M("A", "ns1", "n1", TRUE),  M("A2", "ns1", "n1", TRUE),
                 M("B", "ns1", "n2", TRUE),  M("C",  "ns2", "n1", TRUE),
                 M("D", "ns3", "n3", TRUE),  M("E",  "ns4", "n4", FALSE) }
BigModels   == SmallModels \cup
               { M("F", "ns2", "n2", TRUE),  M("G", "ns3", "n1", FALSE),
                 M("H", "ns4", "n3", TRUE) }
Models == IF Big THEN BigModels ELSE SmallModels

Namespaces == {m.ns : m \in Models}
Names      == {m.nm : m \in Models}

VARIABLES defs, byNs, byNm, evals, res, fresh
vars == <<defs, byNs, byNm, evals, res, fresh>>

NsOf(S)  == {m.ns : m \in S}
NmOf(S)  == {m.nm : m \in S}
Built(S) == {m.nm : m \in {x \in S : x.builds}}

TypeOK == /\ defs \subseteq Models /\ byNs \subseteq Namespaces /\ byNm \subseteq Names
          /\ evals \subseteq Names /\ res \in {"ok", "err"} /\ fresh \in BOOLEAN

Init == /\ defs = {} /\ byNs = {} /\ byNm = {} /\ evals = {} /\ res = "ok" /\ fresh = FALSE

Clash(m, S) == {d \in S : d.ns = m.ns \/ d.nm = m.nm}

\* An attempted modification that changed nothing may keep or drop the evaluators.
KeepOrDrop == evals' \in {evals, {}}

AddOk(m) ==
  /\ Clash(m, defs) = {}
  /\ defs' = defs \cup {m}
  /\ byNs' = byNs \cup {m.ns} /\ byNm' = byNm \cup {m.nm}
  /\ evals' = {} /\ fresh' = FALSE /\ res' = "ok"

AddRejected(m) ==
  /\ Clash(m, defs) # {}
  /\ UNCHANGED <<defs, byNs, byNm, fresh>>
  /\ KeepOrDrop /\ res' = "err"

Add(m) == AddOk(m) \/ AddRejected(m)

Exact(ns, nm)   == {d \in defs : d.ns = ns /\ d.nm = nm}
Partial(ns, nm) == {d \in defs : (d.ns = ns) # (d.nm = nm)}

\* remove(ns, nm): the model stored under exactly these keys goes, and with it
\* both reservations.  Models matching only one of the keys may go too (the
\* code matches on either key) - but then their reservations go with them.
Remove(ns, nm) ==
  \E gone \in SUBSET Partial(ns, nm) :
    /\ defs' = defs \ (Exact(ns, nm) \cup gone)
    /\ byNs' = NsOf(defs') /\ byNm' = NmOf(defs')
    /\ IF defs' = defs THEN KeepOrDrop /\ UNCHANGED fresh
                       ELSE evals' = {} /\ fresh' = FALSE
    /\ res' = "ok"

\* replace(m): substitute the stored model of the same namespace and name.
\* Without such a model it is an add.  Other clashing models are either
\* evicted (what remove-then-add does) or make the call fail unchanged.
ReplaceOk(m) ==
  \E gone \in SUBSET (Clash(m, defs) \ Exact(m.ns, m.nm)) :
    LET rest == defs \ (Exact(m.ns, m.nm) \cup gone) IN
    /\ Clash(m, rest) = {}
    /\ defs' = rest \cup {m}
    /\ byNs' = NsOf(defs') /\ byNm' = NmOf(defs')
    /\ evals' = {} /\ fresh' = FALSE /\ res' = "ok"

ReplaceRejected(m) ==
  /\ Clash(m, defs) \ Exact(m.ns, m.nm) # {}
  /\ UNCHANGED <<defs, byNs, byNm, fresh>>
  /\ KeepOrDrop /\ res' = "err"

Replace(m) == ReplaceOk(m) \/ ReplaceRejected(m)

Clear ==
  /\ defs' = {} /\ byNs' = {} /\ byNm' = {} /\ evals' = {}
  /\ fresh' = FALSE /\ res' = "ok"

\* deploy: an evaluator for every stored model that builds; the others are skipped.
Deploy ==
  /\ evals' = Built(defs) /\ fresh' = TRUE /\ res' = "ok"
  /\ UNCHANGED <<defs, byNs, byNm>>

\* evaluate_invocable(model name, ...): possible iff the model is deployed.
Evaluate(nm) ==
  /\ res' = IF nm \in evals THEN "ok" ELSE "err"
  /\ UNCHANGED <<defs, byNs, byNm, evals, fresh>>

Next == \/ \E m \in Models : Add(m) \/ Replace(m)
        \/ \E ns \in Namespaces, nm \in Names : Remove(ns, nm)
        \/ Clear \/ Deploy
        \/ \E nm \in Names : Evaluate(nm)

Spec == Init /\ [][Next]_vars

----------------------------------------------------------------------------
(* Property C17 as state invariants *)

IndexesAgree == byNs = NsOf(defs) /\ byNm = NmOf(defs)

UniqueKeys == \A a, b \in defs : (a.ns = b.ns \/ a.nm = b.nm) => a = b

\* evaluation is possible only for models present at the last deploy that
\* built, and only while nothing has been modified since
DeployedFresh == /\ evals # {} => fresh
                 /\ evals \subseteq Built(defs)

Inv == TypeOK /\ IndexesAgree /\ UniqueKeys /\ DeployedFresh

\* addability is decided by the stored models, and the indexes say the same
AddableIff == \A m \in Models :
                (Clash(m, defs) = {}) <=> (m.ns \notin byNs /\ m.nm \notin byNm)
=============================================================================
