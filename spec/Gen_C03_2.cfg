INIT Init
NEXT Next
CONSTANT Depth = 2
CHECK_DEADLOCK FALSE
