----------------------------- MODULE FeelTrees -----------------------------
(* A pool of FEEL syntax trees: every construct as a template with a hole   *)
(* at one operand position (Templates / Fill) and the innermost constructs  *)
(* that go into the holes (Inner).  Shared by Gen_C06 (precedence) and      *)
(* Gen_C05 (fault injection).                                               *)
EXTENDS FeelSyntax, FiniteSets

Nm(id) == [n |-> "name", id |-> id]
Num(ip, fp) == [n |-> "num", ip |-> ip, fp |-> fp]
A == Nm("a")  B == Nm("b")  C == Nm("c")  X == Nm("x")  F == Nm("f")
One == Num("1", "")  Two == Num("2", "")
TNum == [t |-> "number"]

\* templates: a construct with a hole at one operand position
BinT == {<<op, pos>> : op \in BinOps, pos \in {"a", "b"}}
Templates == BinT \cup {<<"neg", "a">>, <<"between", "a">>, <<"between", "lo">>, <<"between", "hi">>,
   <<"if", "cond">>, <<"if", "then">>, <<"if", "else">>, <<"instof", "a">>, <<"path", "a">>,
   <<"filter", "a">>, <<"filter", "f">>, <<"invoke", "f">>, <<"invoke", "arg">>, <<"invoken", "arg">>,
   <<"for", "dom">>, <<"for", "lo">>, <<"for", "hi">>, <<"for", "body">>, <<"some", "dom">>, <<"some", "body">>,
   <<"every", "dom">>, <<"every", "body">>, <<"fndef", "body">>, <<"list", "item">>, <<"list", "first">>, <<"ctx", "val">>, <<"ctx", "first">>, <<"elist", "item">>,
   \* a construct that declares the bound name a locally, followed by a - b read in the outer scope again
   <<"shadow", "for">>, <<"shadow", "some">>, <<"shadow", "fn">>, <<"shadow", "ctx">>}
Ladder == BinT \cup {<<"neg", "a">>, <<"between", "a">>, <<"between", "hi">>, <<"instof", "a">>, <<"path", "a">>,
   <<"filter", "a">>, <<"invoke", "f">>}

Fill(tp, h) ==
  LET k == tp[1]  p == tp[2] IN
  CASE k \in BinOps -> IF p = "a" THEN [n |-> k, a |-> h, b |-> B] ELSE [n |-> k, a |-> A, b |-> h]
    [] k = "neg" -> [n |-> "neg", a |-> h]
    [] k = "between" -> [n |-> "between", a |-> IF p = "a" THEN h ELSE X, lo |-> IF p = "lo" THEN h ELSE One, hi |-> IF p = "hi" THEN h ELSE Two]
    [] k = "if" -> [n |-> "if", cond |-> IF p = "cond" THEN h ELSE A, then |-> IF p = "then" THEN h ELSE B, else |-> IF p = "else" THEN h ELSE C]
    [] k = "instof" -> [n |-> "instof", a |-> h, ty |-> TNum]
    [] k = "path" -> [n |-> "path", a |-> h, id |-> "q"]
    [] k = "filter" -> IF p = "a" THEN [n |-> "filter", a |-> h, f |-> One] ELSE [n |-> "filter", a |-> A, f |-> h]
    [] k = "invoke" -> IF p = "f" THEN [n |-> "invoke", f |-> h, args |-> <<One>>] ELSE [n |-> "invoke", f |-> F, args |-> <<One, h>>]
    [] k = "invoken" -> [n |-> "invoken", f |-> F, nargs |-> <<[p |-> "p", v |-> h]>>]
    [] k = "for" -> (CASE p = "dom" -> [n |-> "for", its |-> <<[var |-> "i", kind |-> "single", a |-> h]>>, body |-> A]
                       [] p = "lo" -> [n |-> "for", its |-> <<[var |-> "i", kind |-> "range", a |-> h, b |-> Two]>>, body |-> A]
                       [] p = "hi" -> [n |-> "for", its |-> <<[var |-> "i", kind |-> "range", a |-> One, b |-> h]>>, body |-> A]
                       [] p = "body" -> [n |-> "for", its |-> <<[var |-> "i", kind |-> "single", a |-> X], [var |-> "j", kind |-> "range", a |-> One, b |-> Two]>>, body |-> h])
    [] k \in {"some", "every"} -> IF p = "dom" THEN [n |-> k, its |-> <<[var |-> "i", kind |-> "single", a |-> h]>>, body |-> A]
                                               ELSE [n |-> k, its |-> <<[var |-> "i", kind |-> "single", a |-> X]>>, body |-> h]
    [] k = "fndef" -> [n |-> "fndef", ps |-> <<[p |-> "u", ty |-> [t |-> "Any"]], [p |-> "w", ty |-> TNum]>>, body |-> h]
    [] k = "list" -> IF p = "item" THEN [n |-> "list", items |-> <<One, h>>]
                     ELSE [n |-> "list", items |-> <<h, [n |-> "sub", a |-> A, b |-> B]>>]        \* something after the hole that reads bound names
    [] k = "ctx" -> IF p = "val" THEN [n |-> "ctx", ents |-> <<[key |-> "k1", v |-> h], [key |-> "k2", v |-> Two]>>]
                    ELSE [n |-> "ctx", ents |-> <<[key |-> "k1", v |-> h], [key |-> "k2", v |-> [n |-> "sub", a |-> A, b |-> B]]>>]
    [] k = "elist" -> [n |-> "in", a |-> A, b |-> [n |-> "elist", items |-> <<h, Two>>]]
    [] k = "shadow" -> [n |-> "list", items |-> <<
          (CASE p = "for" -> [n |-> "for", its |-> <<[var |-> "a", kind |-> "single", a |-> h]>>, body |-> A]
             [] p = "some" -> [n |-> "some", its |-> <<[var |-> "a", kind |-> "single", a |-> X]>>, body |-> h]
             [] p = "fn" -> [n |-> "fndef", ps |-> <<[p |-> "a", ty |-> [t |-> "Any"]]>>, body |-> h]
             [] p = "ctx" -> [n |-> "ctx", ents |-> <<[key |-> "a", v |-> h], [key |-> "k2", v |-> [n |-> "mul", a |-> A, b |-> B]]>>]),
          [n |-> "sub", a |-> A, b |-> B], [n |-> "path", a |-> A, id |-> "q"]>>]

\* innermost constructs
QN(id) == [n |-> "qname", segs |-> <<id>>]
Inner == {Fill(tp, C) : tp \in {<<op, "a">> : op \in BinOps} \cup {<<"neg", "a">>, <<"between", "a">>, <<"if", "cond">>,
              <<"instof", "a">>, <<"path", "a">>, <<"filter", "a">>, <<"invoke", "arg">>, <<"invoken", "arg">>,
              <<"for", "body">>, <<"some", "body">>, <<"every", "body">>, <<"fndef", "body">>, <<"list", "item">>, <<"ctx", "val">>, <<"elist", "item">>}}
         \cup {[n |-> "fndef", ps |-> <<>>, body |-> C], [n |-> "fndef", ps |-> <<>>, body |-> [n |-> "add", a |-> C, b |-> One]]}
         \cup {C, Num("1", "50"), Num("0", "5"), [n |-> "str", s |-> "s t"], [n |-> "bool", bv |-> TRUE], [n |-> "null"],
               [n |-> "at", s |-> "2021-01-01"],
               [n |-> "instof", a |-> C, ty |-> [t |-> "named", name |-> "tX"]],       \* a type that is not built in: its name ends where the next token begins
               [n |-> "in", a |-> C, b |-> [n |-> "range", lo |-> One, lc |-> TRUE, hi |-> QN("b"), hc |-> FALSE]],
               [n |-> "in", a |-> C, b |-> [n |-> "utlt", a |-> Num("5", "")]],
               [n |-> "in", a |-> C, b |-> [n |-> "elist", items |-> <<One, [n |-> "utge", a |-> QN("b")]>>]]}
InnerLadder == {t \in Inner : t.n \in BinOps \cup {"neg", "between", "instof", "path", "filter", "invoke", "name", "if"}}

=============================================================================
