----------------------------- MODULE Trace_C01 -----------------------------
(* C01: each record is one evaluation by the real evaluator: the expression *)
(* tree, the scope (a context of bindings, FeelEval value encoding), the    *)
(* observed value, and the value observed when irrelevant extra bindings    *)
(* and an extra bottom context are present.  FeelEval!Eval is the oracle.   *)
EXTENDS FeelEval, TLC, Json, IOUtils

Recs == ndJsonDeserialize(IOEnv.TRACE)

\* translation invariance (Gen_C01!ShiftExprs): `shifts` holds the values observed with lo and hi moved by a large amount
ShiftLaw(r) == "shifts" \notin DOMAIN r \/ \A k \in 1..Len(r.shifts) : r.shifts[k].obs = r.obs

Verdict(r) ==
  IF r.obs.k = "panic" THEN "the evaluator panicked"
  ELSE IF r.obs # r.obs2 THEN "the result depends on bindings the expression does not mention"
  ELSE IF ~ShiftLaw(r) THEN "the value changes when both ends of the range are moved by the same amount"
  ELSE LET want == Eval(r.tree, <<r.scope>>) IN
       IF IsU(want) THEN "unspec"
       ELSE IF Match(want, r.obs) THEN "ok" ELSE "the value differs from the one the FEEL semantics assigns"

VARIABLE i
Init == i \in 1..Len(Recs)
Next == FALSE /\ i' = i
Judged == LET w == Verdict(Recs[i]) IN
          IF w = "ok" THEN TRUE ELSE IF w = "unspec" THEN PrintT(<<"UNSPEC", i>>) ELSE PrintT(<<"REJECT", i, w>>)
=============================================================================
