----------------------------- MODULE Trace_C08 -----------------------------
(* C08: each record is one built-in invoked on an argument tuple (bound in  *)
(* the scope as a1..an), positionally  f(a1, .., an)  and - where the       *)
(* standard names the parameters - by name  f(p1: a1, .., pn: an).          *)
(* Bif!BifApply decides the value; both forms must match it.  Records of    *)
(* the regular-expression family carry the syntax tree of their pattern    *)
(* (`re`); Bif!BifApplyRe (Regex.tla) decides those.                        *)
EXTENDS Bif, TLC, Json, IOUtils
Recs == ndJsonDeserialize(IOEnv.TRACE)
RECURSIVE TrimL(_), TrimR(_)
TrimL(s) == IF s # <<>> /\ s[1] \in {32, 9, 10, 13} THEN TrimL(Tail(s)) ELSE s
TrimR(s) == IF s # <<>> /\ s[Len(s)] \in {32, 9, 10, 13} THEN TrimR(SubSeq(s, 1, Len(s) - 1)) ELSE s
TrimBlanks(s) == TrimR(TrimL(s))
SortVerdict(r) ==
  LET a == SortJudge(r.args, r.cmp, r.pos)
      b == IF "named" \in DOMAIN r THEN SortJudge(r.args, r.cmp, r.named) ELSE "ok" IN
  IF a \notin {"ok", "unspec"} THEN a ELSE IF b \notin {"ok", "unspec"} THEN "named invocation: " \o b
  ELSE IF a = "unspec" \/ b = "unspec" THEN "unspec" ELSE "ok"
\* stddev of two or more numbers: judged relationally by Stddev.tla (natural-number arithmetic over the digits the
\* harness recorded); everything else about stddev (arity, kinds) stays with Bif!BifApply
SD == INSTANCE Stddev
StddevJudged(r) == LET vs == ListArg(r.args) IN
  r.fn = "stddev" /\ Len(vs) >= 2 /\ \A j \in 1..Len(vs) : vs[j].k = "num" /\ vs[j].fin
StddevVerdict(r) ==
  LET vs == ListArg(r.args)
      a == IF r.pos.k = "panic" THEN "the built-in panicked" ELSE SD!Judge(vs, r.pos)
      b == IF "named" \in DOMAIN r THEN (IF r.named.k = "panic" THEN "the built-in panicked" ELSE SD!Judge(vs, r.named)) ELSE "ok" IN
  IF a \notin {"ok", "unspec"} THEN a ELSE IF b \notin {"ok", "unspec"} THEN "named invocation: " \o b
  ELSE IF a = "unspec" \/ b = "unspec" THEN "unspec" ELSE "ok"
Verdict(r) ==
  IF r.fn = "sort" THEN SortVerdict(r) ELSE
  IF StddevJudged(r) THEN StddevVerdict(r) ELSE
  LET want == IF "re" \in DOMAIN r THEN BifApplyRe(r.fn, r.args, r.re) ELSE BifApply(r.fn, r.args) IN
  IF r.pos.k = "panic" \/ ("named" \in DOMAIN r /\ r.named.k = "panic") THEN "the built-in panicked"
  ELSE IF IsU(want) THEN (IF "named" \in DOMAIN r /\ r.named # r.pos THEN "named and positional invocation differ" ELSE "unspec")
  ELSE IF r.fn = "replace" /\ want.k = "str" /\ r.pos.k = "str" /\ r.pos.cp # want.cp /\ r.pos.cp = TrimBlanks(want.cp) THEN "replace: the result lost its leading or trailing blanks"
  ELSE IF ~Match(want, r.pos) THEN "the positional invocation does not return the specified value"
  ELSE IF "named" \in DOMAIN r /\ ~Match(want, r.named) THEN "the named invocation does not return the specified value"
  ELSE "ok"
VARIABLE i
Init == i \in 1..Len(Recs)
Next == FALSE /\ i' = i
Judged == LET w == Verdict(Recs[i]) IN IF w = "ok" THEN TRUE ELSE IF w = "unspec" THEN PrintT(<<"UNSPEC", i>>) ELSE PrintT(<<"REJECT", i, w>>)
=============================================================================
