----------------------------- MODULE Trace_C10 -----------------------------
(* C10: each record gives the bound names with their values, a sequence of  *)
(* parts, the position (template) it was embedded in, optionally a name     *)
(* introduced locally, and the values the real parser + evaluator produced  *)
(* for the text under several spacings.  FeelNames decides which names the  *)
(* parts denote, FeelEval what the whole expression is worth.               *)
EXTENDS FeelNames, FeelEval, TLC, Json, IOUtils

Recs == ndJsonDeserialize(IOEnv.TRACE)

I(m) == [n |-> "num", ip |-> "0", fp |-> "", m |-> m, e |-> 0]
Nm(id) == [n |-> "name", id |-> id]
Bin(op, x, y) == [n |-> op, a |-> x, b |-> y]
Lst(items) == [n |-> "list", items |-> items]
AnyT == [t |-> "Any"]
It(v, x) == [var |-> v, kind |-> "single", a |-> x]

Wrap(k, r, L) ==
  CASE k = 0 -> r
    [] k = 1 -> [n |-> "if", cond |-> Bin("gt", r, I(0)), then |-> r, else |-> I(0)]
    [] k = 2 -> [n |-> "filter", a |-> Lst(<<r, I(1)>>), f |-> I(1)]
    [] k = 3 -> [n |-> "invoke", f |-> [n |-> "fndef", ps |-> <<[p |-> "z", ty |-> AnyT]>>, body |-> Nm("z")], args |-> <<r>>]
    [] k = 4 -> [n |-> "path", a |-> [n |-> "ctx", ents |-> <<[key |-> "k", v |-> r]>>], id |-> "k"]
    [] k = 5 -> [n |-> "for", its |-> <<It("i", Lst(<<I(1)>>))>>, body |-> r]
    [] k = 6 -> [n |-> "filter", a |-> Lst(<<I(10), I(20), I(30)>>), f |-> Bin("gt", Nm("item"), r)]
    [] k = 7 -> [n |-> "every", its |-> <<It("i", Lst(<<I(1)>>))>>, body |-> Bin("gt", r, I(0))]
    [] k = 8 -> [n |-> "for", its |-> <<It("i", Lst(<<r>>))>>, body |-> Bin("add", Nm("i"), I(1))]
    [] k = 9 -> [n |-> "filter", a |-> Lst(<<I(0), r>>), f |-> I(2)]                     \* [1 instance of tX, r][2]: after a reference to a type
    [] k = 20 -> [n |-> "filter", a |-> Lst(<<I(0), r>>), f |-> I(2)]                    \* [1 instance of list<tX>, r][2]
    [] k \in 22..25 -> [n |-> "filter", a |-> Lst(<<I(0), r>>), f |-> I(2)]               \* [<a construct declaring a bound name locally>, r][2]
    [] k = 21 -> r                                                                        \* if 1 instance of tX then (r) else (r)
    [] k = 16 -> [n |-> "path", a |-> [n |-> "ctx", ents |-> <<[key |-> L, v |-> I(7)], [key |-> "r", v |-> r]>>], id |-> "r"]   \* the key written as a string literal
    [] k = 10 -> [n |-> "path", a |-> [n |-> "ctx", ents |-> <<[key |-> L, v |-> I(7)], [key |-> "r", v |-> r]>>], id |-> "r"]
    [] k = 11 -> [n |-> "for", its |-> <<It(L, Lst(<<I(7)>>))>>, body |-> r]
    [] k = 12 -> [n |-> "invoke", f |-> [n |-> "fndef", ps |-> <<[p |-> L, ty |-> AnyT]>>, body |-> r], args |-> <<I(7)>>]
    [] k = 13 -> [n |-> "for", its |-> <<It(L, Lst(<<I(1), [n |-> "null"], I(3)>>))>>, body |-> Nm(L)]
    [] k = 14 -> [n |-> "path", a |-> [n |-> "ctx", ents |-> <<[key |-> L, v |-> [n |-> "null"]], [key |-> "r", v |-> Nm(L)]>>], id |-> "r"]
    [] k = 15 -> [n |-> "invoke", f |-> [n |-> "fndef", ps |-> <<[p |-> L, ty |-> AnyT]>>, body |-> Nm(L)], args |-> <<[n |-> "null"]>>]

Verdict(r) ==
  LET bound == {r.names[i].n : i \in 1..Len(r.names)}
      L     == IF r.tpl \in 10..16 THEN Normal(r.local) ELSE ""
      inner == IF r.tpl \in 13..15 THEN Nm(L) ELSE ParseOperands(r.parts, IF r.tpl \in 10..16 THEN bound \cup {L} ELSE bound)
      scope == <<Ctx([i \in 1..Len(r.names) |-> [n |-> r.names[i].n, v |-> r.names[i].v]])>>
  IN IF inner.n = "bad" THEN "TOOL: the parts do not denote an expression"
     ELSE LET want == Eval(Wrap(r.tpl, inner, L), scope) IN
          IF IsU(want) THEN "unspec"
          ELSE IF \A j \in 1..Len(r.obs) : Match(want, r.obs[j]) THEN "ok"
          ELSE "a bound name (longest match) was not resolved to its value"
VARIABLE i
Init == i \in 1..Len(Recs)
Next == FALSE /\ i' = i
Judged == LET w == Verdict(Recs[i]) IN IF w = "ok" THEN TRUE ELSE IF w = "unspec" THEN PrintT(<<"UNSPEC", i>>) ELSE PrintT(<<"REJECT", i, w>>)
=============================================================================
