------------------------------ MODULE FeelNames ------------------------------
(***************************************************************************)
(* Names with spaces and additional symbols (DMN 1.3, 10.3.1.4).            *)
(* A text is a sequence of PARTS: words ("a", "b c" is two words), the      *)
(* additional name symbols  . / - ' + *  and number literals.  White space  *)
(* between parts is not significant (the harness lays the parts out with    *)
(* and without spaces around the symbols).                                  *)
(* Where an operand is expected, the name is the LONGEST run of parts,      *)
(* starting there, whose normalised spelling is a bound name.  Only what    *)
(* is left over is read as operators: + - * / and the path dot.             *)
(* ParseOperands turns a part sequence into a FEEL tree (FeelSyntax shape)  *)
(* given the set of bound names; FeelEval gives the tree its value.         *)
(***************************************************************************)
EXTENDS Naturals, Sequences

Symbols == {".", "/", "-", "'", "+", "*"}
IsSym(p) == p \in Symbols
IsNum(p) == p \in {"1", "2", "3", "10"}
NumVal(p) == CASE p = "1" -> 1 [] p = "2" -> 2 [] p = "3" -> 3 [] p = "10" -> 10
IsWord(p) == ~IsSym(p) /\ ~IsNum(p)

\* normalised spelling: words are separated by one space, symbols attach to their neighbours
RECURSIVE Join(_, _)
Join(parts, i) ==
  IF i > Len(parts) THEN ""
  ELSE (IF i > 1 /\ IsWord(parts[i]) /\ IsWord(parts[i - 1]) THEN " " ELSE "") \o parts[i] \o Join(parts, i + 1)
Normal(parts) == Join(parts, 1)

\* length of the maximal run of name parts (words and symbols) starting at pos
RECURSIVE RunLen(_, _)
RunLen(parts, pos) == IF pos > Len(parts) \/ IsNum(parts[pos]) THEN 0 ELSE 1 + RunLen(parts, pos + 1)

\* number of parts of the longest bound name starting at pos (0: none)
RECURSIVE Longest(_, _, _, _)
Longest(parts, pos, k, bound) ==
  IF k = 0 THEN 0
  ELSE IF IsWord(parts[pos]) /\ ~IsSym(parts[pos + k - 1]) /\ Normal(SubSeq(parts, pos, pos + k - 1)) \in bound THEN k
  ELSE Longest(parts, pos, k - 1, bound)
LongestBound(parts, pos, bound) == Longest(parts, pos, RunLen(parts, pos), bound)

Bad == [n |-> "bad"]
NameNode(id) == [n |-> "name", id |-> id]
NumNode(p) == [n |-> "num", ip |-> p, fp |-> "", m |-> NumVal(p), e |-> 0]

\* one operand at pos: [ok, t (tree), p (next position)]; a path `x . w` applies to the operand just read
RECURSIVE PathTail(_, _, _, _)
PathTail(parts, t, pos, bound) ==
  IF pos + 1 <= Len(parts) /\ parts[pos] = "." /\ IsWord(parts[pos + 1])
  THEN PathTail(parts, [n |-> "path", a |-> t, id |-> parts[pos + 1]], pos + 2, bound)
  ELSE [ok |-> TRUE, t |-> t, p |-> pos]
Operand(parts, pos, bound) ==
  IF pos > Len(parts) THEN [ok |-> FALSE]
  ELSE IF IsNum(parts[pos]) THEN [ok |-> TRUE, t |-> NumNode(parts[pos]), p |-> pos + 1]
  ELSE IF parts[pos] = "-" THEN [ok |-> FALSE]                        \* (unary minus is not generated)
  ELSE LET k == LongestBound(parts, pos, bound) IN
       IF k = 0 THEN [ok |-> FALSE]                                   \* no bound name here: not a case of this property
       ELSE PathTail(parts, NameNode(Normal(SubSeq(parts, pos, pos + k - 1))), pos + k, bound)

\* term := operand { (* | /) operand } ;  expr := term { (+ | -) term }
RECURSIVE TermTail(_, _, _, _), ExprTail(_, _, _, _)
Term(parts, pos, bound) ==
  LET o == Operand(parts, pos, bound) IN IF ~o.ok THEN o ELSE TermTail(parts, o.t, o.p, bound)
TermTail(parts, left, pos, bound) ==
  IF pos <= Len(parts) /\ parts[pos] \in {"*", "/"} THEN
     LET o == Operand(parts, pos + 1, bound) IN
     IF ~o.ok THEN o ELSE TermTail(parts, [n |-> IF parts[pos] = "*" THEN "mul" ELSE "div", a |-> left, b |-> o.t], o.p, bound)
  ELSE [ok |-> TRUE, t |-> left, p |-> pos]
ExprTail(parts, left, pos, bound) ==
  IF pos <= Len(parts) /\ parts[pos] \in {"+", "-"} THEN
     LET o == Term(parts, pos + 1, bound) IN
     IF ~o.ok THEN o ELSE ExprTail(parts, [n |-> IF parts[pos] = "+" THEN "add" ELSE "sub", a |-> left, b |-> o.t], o.p, bound)
  ELSE [ok |-> TRUE, t |-> left, p |-> pos]

\* the tree a part sequence denotes, or Bad when it is not an arithmetic expression over bound names
ParseOperands(parts, bound) ==
  LET t == Term(parts, 1, bound) IN
  IF ~t.ok THEN Bad
  ELSE LET e == ExprTail(parts, t.t, t.p, bound) IN
       IF e.ok /\ e.p = Len(parts) + 1 THEN e.t ELSE Bad
=============================================================================
