SPECIFICATION Spec
CONSTANTS
 Threads <- MCThreads
 Locks <- MCLocks
 Script <- MCScript
 Semantics = "rp"
 SharedScope <- MCShared
 F <- MCF
 Design = "shared"
 NThreads = 2
 Depth = 0
INVARIANT ResultsIntact
INVARIANT NoDeadlock
INVARIANT LockInv
INVARIANT CleanEnd
CHECK_DEADLOCK FALSE
