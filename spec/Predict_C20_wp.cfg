SPECIFICATION Spec
CONSTANTS
 Threads <- PThreads
 Locks <- PLocks
 Script <- PScript
 Semantics = "wp"
 SharedScope = FALSE
 F <- PF
INVARIANT ResultsIntact
INVARIANT NoDeadlock
INVARIANT LockInv
INVARIANT CleanEnd
CHECK_DEADLOCK FALSE
