INIT Init
NEXT Next
INVARIANT Ok
CHECK_DEADLOCK FALSE
