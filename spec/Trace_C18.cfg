INIT TInit
NEXT TNext
CONSTANT Big = FALSE
POSTCONDITION Post
CHECK_DEADLOCK FALSE
