---------------------------- MODULE Trace_C18c ----------------------------
(* impl -> spec for OVERLAPPING requests to the HTTP service.               *)
(* A request is logged twice: "begin" before its first byte is sent and     *)
(* "end" after its reply has been read, so the interval between the two     *)
(* events contains the moment at which the service applied it.  The         *)
(* specification applies each pending request at SOME moment between its    *)
(* two events (the silent step Lin: its linearisation point) - the service  *)
(* "behaves as the same sequence of workspace operations" iff some choice   *)
(* of these moments explains every reply and every probe.  Probes (the      *)
(* evaluation of decision `v` of every model name) are taken while nothing  *)
(* is pending.  A definitions request that is refused because an evaluation *)
(* happens to be running, a reply computed from a state that no order of    *)
(* the overlapping requests produces, or a lost update are rejected.        *)
EXTENDS Server, JsonText, TLC, Json, IOUtils

Paths  == ndJsonDeserialize(IOEnv.TRACE)
Bodies == ndJsonDeserialize(IOEnv.BODIES)
Parsed == [i \in 1..Len(Bodies) |-> ParseJson(Bodies[i].cp)]

DATA   == <<100, 97, 116, 97>>
ERRORS == <<101, 114, 114, 111, 114, 115>>
Class(b) == LET r == Parsed[b] IN
            IF ~r.ok \/ r.v.k # "ctx" THEN "bad"
            ELSE IF HasMember(r.v, DATA) /\ ~HasMember(r.v, ERRORS) THEN "ok"
            ELSE IF HasMember(r.v, ERRORS) /\ ~HasMember(r.v, DATA)
                    /\ Member(r.v, ERRORS).k = "list" /\ Len(Member(r.v, ERRORS).items) > 0 THEN "err"
            ELSE "bad"
Data(b) == Member(Parsed[b].v, DATA)
IdCp == [A |-> <<65>>, A2 |-> <<65, 50>>, B |-> <<66>>, C |-> <<67>>, D |-> <<68>>,
         E |-> <<69>>, F |-> <<70>>, G |-> <<71>>, H |-> <<72>>]
NameSeq == <<"n1", "n2", "n3", "n4">>

VARIABLES p, l, pend
wsvars == <<defs, byNs, byNm, evals, res, fresh>>
E == Paths[p].evs[l]
Ev(name) == l <= Len(Paths[p].evs) /\ E.ev = name
ById(id) == {m \in Models : m.id = id}

\* the workspace operation a request stands for
Act(o) == \/ o.op = "add"     /\ \E m \in ById(o.m) : PostAdd(m)
          \/ o.op = "replace" /\ \E m \in ById(o.m) : PostReplace(m)
          \/ o.op = "remove"  /\ PostRemove(o.ns, o.nm)
          \/ o.op = "clear"   /\ PostClear
          \/ o.op = "deploy"  /\ PostDeploy
          \/ o.op \in {"eval", "slow"} /\ PostEvaluate(o.nm)
\* the model an evaluation of name nm reads, in the current state
MidOf(o) == IF o.op \in {"eval", "slow"} /\ o.nm \in evals /\ \E m \in defs : m.nm = o.nm
            THEN (CHOOSE m \in defs : m.nm = o.nm).id ELSE "-"

Max(a, b) == IF a > b THEN a ELSE b
Consume == l' = l + 1 /\ p' = p /\ TLCSet(p, Max(TLCGet(p), l + 1))

TBegin == /\ Ev("begin") /\ E.id \notin DOMAIN pend
          /\ pend' = pend @@ (E.id :> [o |-> E, done |-> FALSE, rs |-> "-", mid |-> "-"])
          /\ UNCHANGED wsvars /\ Consume
Lin    == /\ \E k \in DOMAIN pend :
               /\ ~pend[k].done
               /\ Act(pend[k].o)
               /\ pend' = [pend EXCEPT ![k] = [o |-> pend[k].o, done |-> TRUE, rs |-> res', mid |-> MidOf(pend[k].o)]]
          /\ Inv'
          /\ l' = l /\ p' = p
TEnd   == /\ Ev("end") /\ E.id \in DOMAIN pend /\ pend[E.id].done
          /\ Class(E.b) = pend[E.id].rs
          /\ (pend[E.id].o.op = "eval" /\ Class(E.b) = "ok") => Data(E.b) = [k |-> "str", cp |-> IdCp[pend[E.id].mid]]
          /\ pend' = [k \in DOMAIN pend \ {E.id} |-> pend[k]]
          /\ UNCHANGED wsvars /\ Consume
TProbe == /\ Ev("probe") /\ DOMAIN pend = {}
          /\ \A i \in 1..4 : Class(E.probe[i]) # "bad"
          /\ evals = {NameSeq[i] : i \in {j \in 1..4 : Class(E.probe[j]) = "ok"}}
          /\ \A i \in 1..4 : Class(E.probe[i]) = "ok" =>
               \E m \in defs : m.nm = NameSeq[i] /\ Data(E.probe[i]) = [k |-> "str", cp |-> IdCp[m.id]]
          /\ UNCHANGED <<wsvars, pend>> /\ Consume

TInit == Init /\ p \in 1..Len(Paths) /\ l = 1 /\ pend = <<>> /\ TLCSet(p, 1)
TNext == TBegin \/ Lin \/ TEnd \/ TProbe

Accepted == \A q \in 1..Len(Paths) :
              TLCGet(q) = Len(Paths[q].evs) + 1 \/ PrintT(<<"REJECT", q, TLCGet(q)>>)
Post == Accepted /\ PrintT(<<"CONSUMED", Len(Paths)>>)
=============================================================================
