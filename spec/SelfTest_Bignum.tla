--------------------------- MODULE SelfTest_Bignum ---------------------------
(* Bignum.tla against independently computed answers (tools/gen_bignum_selftest.py). *)
EXTENDS Bignum, TLC, Json
Cases == ndJsonDeserialize("selftest/bignum_cases.ndjson")
VARIABLE i
Init == i \in 1..Len(Cases)
Next == FALSE /\ i' = i
Good(c) ==
  LET a == FromDigits(c.a)  b == FromDigits(c.b) IN
  /\ ToDigits(a) = c.a /\ ToDigits(b) = c.b
  /\ ToDigits(Add(a, b)) = c.add
  /\ ToDigits(Mul(a, b)) = c.mul
  /\ Cmp(a, b) = c.cmp
  /\ ToDigits(AbsDiff(a, b)) = c.absdiff
  /\ ToDigits(MulS(a, c.k)) = c.muls
  /\ ToDigits(DivS(a, c.k).q) = c.divs_q /\ DivS(a, c.k).r = c.divs_r
  /\ ToDigits(MulPow10(a, c.sh)) = c.mulp
  /\ NumDigits(a) = c.nd
  /\ (b # <<>> => (ToDigits(DivMod(a, b).q) = c.q /\ ToDigits(DivMod(a, b).r) = c.r))
Inv == Good(Cases[i]) \/ PrintT(<<"REJECT", i, "bignum self-test case fails">>)
=============================================================================
