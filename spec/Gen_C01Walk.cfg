INIT WInit
NEXT WNext
CONSTANT Deep = FALSE
INVARIANT Emit
CHECK_DEADLOCK FALSE
