--------------------------- MODULE StringLiteral ---------------------------
(***************************************************************************)
(* FEEL string literals (grammar rules 35 and 64): a double quote, then     *)
(* characters other than the double quote and line breaks or escape         *)
(* sequences  \'  \"  \\  \n  \r  \t  \uXXXX , then a double quote.         *)
(* A literal is a sequence of ATOMS; each atom is the characters written    *)
(* and the characters denoted (both as code points, because TLC cannot look *)
(* inside a string).  The alphabet holds what a tokeniser may confuse:      *)
(* escaped quotes and backslashes next to the comment markers  //  /*  */   *)
(* (inside a literal they are ordinary characters), the apostrophe, and the *)
(* quote written as a \u escape.                                            *)
(* Contexts(l): token sequences in which the literal is followed by more    *)
(* tokens, other literals and real comments, with the SHAPE of the tree the *)
(* grammar dictates (string nodes stand as "S", their contents are listed   *)
(* separately in source order).                                             *)
(***************************************************************************)
EXTENDS Naturals, Sequences

Atom(lit, dec) == [lit |-> lit, dec |-> dec]
Atoms == { Atom(<<97>>, <<97>>), Atom(<<32>>, <<32>>),
           Atom(<<47, 47>>, <<47, 47>>), Atom(<<47, 42>>, <<47, 42>>), Atom(<<42, 47>>, <<42, 47>>),       \* //  /*  */
           Atom(<<92, 34>>, <<34>>), Atom(<<92, 92>>, <<92>>), Atom(<<92, 110>>, <<10>>),                   \* \"  \\  \n
           Atom(<<92, 39>>, <<39>>), Atom(<<39>>, <<39>>), Atom(<<92, 116>>, <<9>>),                        \* \'  '   \t
           Atom(<<92, 117, 48, 48, 50, 50>>, <<34>>) }                                                      \* \u0022
AtomSeqs(n) == UNION {[1..k -> Atoms] : k \in 0..n}
RECURSIVE LitOf(_, _), DecOf(_, _)
LitOf(s, i) == IF i > Len(s) THEN <<>> ELSE s[i].lit \o LitOf(s, i + 1)
DecOf(s, i) == IF i > Len(s) THEN <<>> ELSE s[i].dec \o DecOf(s, i + 1)
Literal(s) == <<34>> \o LitOf(s, 1) \o <<34>>       \* the characters written, with the enclosing quotes
Denoted(s) == DecOf(s, 1)                           \* the characters of the string value

\* shapes: the tree with every string node written as S
S == [n |-> "str", s |-> "S"]
NameA == [n |-> "name", id |-> "a"]
NameB == [n |-> "name", id |-> "b"]
\* a second literal that itself looks like comments: "x//y/*z"
Other == <<120, 47, 47, 121, 47, 42, 122>>
\* each context: a key the harness knows how to write around the literal, the expected shape, the expected string contents
Contexts(dec) ==
  { [key |-> "alone",     shape |-> S,                                              strs |-> <<dec>>],
    [key |-> "list",      shape |-> [n |-> "list", items |-> <<S, NameB>>],         strs |-> <<dec>>],                \* [ L , b ]
    [key |-> "sum",       shape |-> [n |-> "add", a |-> S, b |-> NameA],            strs |-> <<dec>>],                \* L + a
    [key |-> "commented", shape |-> [n |-> "add", a |-> S, b |-> NameA],            strs |-> <<dec>>],                \* L /* c */ + a // t
    [key |-> "two",       shape |-> [n |-> "list", items |-> <<S, S, NameB>>],      strs |-> <<dec, Other>>],         \* [ L , "x//y/*z" , b ]
    [key |-> "after",     shape |-> [n |-> "list", items |-> <<S, S, NameB>>],      strs |-> <<Other, dec>>] }        \* [ "x//y/*z" , L , b ]
=============================================================================
