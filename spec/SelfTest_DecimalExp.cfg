INIT Init
NEXT Next
INVARIANT Judged
CHECK_DEADLOCK FALSE
