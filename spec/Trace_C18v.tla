----------------------------- MODULE Trace_C18v -----------------------------
(* C18, rendering of results.  Each record is one response of the live      *)
(* service to an evaluation of an echo decision:                            *)
(*   kind "json": POST /evaluate/..  - `body` must be a well-formed JSON    *)
(*                document {"data": d} and d must decode to `expect`, the   *)
(*                value the decision returned                               *)
(*   kind "tck":  POST /tck/evaluate - `body` must be well-formed and its   *)
(*                data.value must denote the same typed value as the `req`  *)
(*                value that was sent (round trip)                          *)
(* Decoding is done here (JsonText), not in the harness.                    *)
EXTENDS JsonText, TLC, Json, IOUtils

Recs == ndJsonDeserialize(IOEnv.TRACE)

Cp(str) == CASE str = "data" -> <<100, 97, 116, 97>>
             [] str = "errors" -> <<101, 114, 114, 111, 114, 115>>
             [] str = "value" -> <<118, 97, 108, 117, 101>>
             [] str = "simple" -> <<115, 105, 109, 112, 108, 101>>
             [] str = "components" -> <<99, 111, 109, 112, 111, 110, 101, 110, 116, 115>>
             [] str = "list" -> <<108, 105, 115, 116>>
             [] str = "items" -> <<105, 116, 101, 109, 115>>
             [] str = "type" -> <<116, 121, 112, 101>>
             [] str = "text" -> <<116, 101, 120, 116>>
             [] str = "isNil" -> <<105, 115, 78, 105, 108>>
             [] str = "name" -> <<110, 97, 109, 101>>
XsdDecimal == <<120, 115, 100, 58, 100, 101, 99, 105, 109, 97, 108>>
XsdInteger == <<120, 115, 100, 58, 105, 110, 116, 101, 103, 101, 114>>
XsdDouble  == <<120, 115, 100, 58, 100, 111, 117, 98, 108, 101>>
XsdBoolean == <<120, 115, 100, 58, 98, 111, 111, 108, 101, 97, 110>>
XsdString  == <<120, 115, 100, 58, 115, 116, 114, 105, 110, 103>>

\* member that is present and not null
Has(o, f) == HasMember(o, Cp(f)) /\ Member(o, Cp(f)).k # "null"
Get(o, f) == Member(o, Cp(f))
IsNil(o)  == HasMember(o, Cp("isNil")) /\ Get(o, "isNil") = [k |-> "bool", b |-> TRUE]

Bad == [k |-> "bad"]
\* the value a TCK value node denotes
RECURSIVE Tck(_)
Tck(o) ==
  IF o.k # "ctx" THEN Bad
  ELSE IF Has(o, "simple") THEN
    LET s == Get(o, "simple") IN
    IF s.k # "ctx" THEN Bad
    ELSE IF IsNil(s) THEN [k |-> "null"]
    ELSE IF ~Has(s, "type") \/ ~Has(s, "text") \/ Get(s, "type").k # "str" \/ Get(s, "text").k # "str" THEN Bad
    ELSE LET ty == Get(s, "type").cp  tx == Get(s, "text").cp IN
         IF ty \in {XsdDecimal, XsdInteger, XsdDouble}
         THEN LET r == PNumber(tx, 1) IN IF r.ok /\ r.p = Len(tx) + 1 THEN r.v ELSE Bad
         ELSE IF ty = XsdBoolean THEN [k |-> "bool", b |-> (tx = <<116, 114, 117, 101>>)]
         ELSE IF ty = XsdString THEN [k |-> "str", cp |-> tx]
         ELSE [k |-> "typed", ty |-> ty, tx |-> tx]              \* date, time, dateTime, duration: by text
  ELSE IF Has(o, "components") THEN
    LET cs == Get(o, "components") IN
    IF cs.k # "list" THEN Bad
    ELSE [k |-> "ctx", ents |-> [i \in 1..Len(cs.items) |->
            LET c == cs.items[i] IN
            [nc |-> IF c.k = "ctx" /\ Has(c, "name") /\ Get(c, "name").k = "str" THEN Get(c, "name").cp ELSE <<0>>,
             v  |-> IF c.k # "ctx" THEN Bad ELSE IF IsNil(c) THEN [k |-> "null"]
                    ELSE IF Has(c, "value") THEN Tck(Get(c, "value")) ELSE Bad]]]
  ELSE IF Has(o, "list") THEN
    LET li == Get(o, "list") IN
    IF li.k # "ctx" THEN Bad
    ELSE IF IsNil(li) THEN [k |-> "null"]
    ELSE IF ~Has(li, "items") \/ Get(li, "items").k # "list" THEN Bad
    ELSE [k |-> "list", items |-> [i \in 1..Len(Get(li, "items").items) |-> Tck(Get(li, "items").items[i])]]
  ELSE Bad

RECURSIVE TEq(_, _)
TEq(a, b) ==
  IF a.k = "bad" \/ b.k = "bad" \/ a.k # b.k THEN FALSE
  ELSE IF a.k = "typed" THEN a.ty = b.ty /\ a.tx = b.tx
  ELSE IF a.k = "list" THEN Len(a.items) = Len(b.items) /\ \A i \in 1..Len(a.items) : TEq(a.items[i], b.items[i])
  ELSE IF a.k = "ctx" THEN
       /\ Len(a.ents) = Len(b.ents)
       /\ \A i, j \in 1..Len(b.ents) : b.ents[i].nc = b.ents[j].nc => i = j
       /\ \A i \in 1..Len(a.ents) : \E j \in 1..Len(b.ents) : a.ents[i].nc = b.ents[j].nc /\ TEq(a.ents[i].v, b.ents[j].v)
  ELSE JEq(a, b)

Verdict(r) ==
  LET doc == ParseJson(r.body) IN
  IF ~doc.ok THEN "the response body is not a well-formed JSON document"
  ELSE IF doc.v.k # "ctx" \/ ~HasMember(doc.v, Cp("data")) \/ HasMember(doc.v, Cp("errors"))
       THEN "the response has no data member (or has errors) for a successful evaluation"
  ELSE IF r.kind = "json" THEN
       IF JEq(r.expect, Member(doc.v, Cp("data"))) THEN "ok" ELSE "data does not decode to the evaluated value"
  ELSE LET req == ParseJson(r.req)
           d   == Member(doc.v, Cp("data")) IN
       IF ~req.ok THEN "TOOL: request value does not parse"
       ELSE IF d.k # "ctx" \/ ~Has(d, "value") THEN "TCK response without value"
       ELSE IF TEq(Tck(req.v), Tck(Get(d, "value"))) THEN "ok" ELSE "TCK value does not round-trip"

VARIABLE i
Init == i \in 1..Len(Recs)
Next == FALSE /\ i' = i
Judge == LET w == Verdict(Recs[i]) IN w = "ok" \/ PrintT(<<"REJECT", i, w>>)
ASSUME PrintT(<<"RECORDS", Len(Recs)>>)
=============================================================================
