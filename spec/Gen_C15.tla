------------------------------ MODULE Gen_C15 ------------------------------
(* Cases for C15 (calendar and time line).  Each case is abstract data;     *)
(* the harness turns it into FEEL expressions over values bound in the      *)
(* scope and records what the real evaluator answers.                       *)
(*   month   (y, m): date(y, m, d) and the literal for d = 0..32 with       *)
(*           .year .month .day .weekday                                     *)
(*   ctor    date(y, m, d) with components outside their range / width      *)
(*   dpair   two dates: = != < <= > >=, unary tests, between, ranges        *)
(*   dtpair  two date-and-times (UTC, offsets, zones, local): =, ordering   *)
(*           forms, a - b                                                   *)
(*   dtprops one date-and-time: all properties                              *)
(*   ymb     years and months duration(from, to)                            *)
(*   durpair two durations of a kind: + - (unary), =, ordering, components  *)
EXTENDS Calendar, TLC, Json, FiniteSets
CONSTANTS Tier        \* "quick" | "thorough"

D(y, m, d) == [k |-> "date", y |-> y, m |-> m, d |-> d]
T(h, mi, s, ns, zk, off, zn) == [k |-> "time", h |-> h, mi |-> mi, s |-> s, ns |-> ns, zk |-> zk, off |-> off, zn |-> zn]
DT(date, time) == [k |-> "dt", date |-> date, time |-> time]
Utc(h, mi, s, ns) == T(h, mi, s, ns, "utc", 0, "")
Off(h, mi, s, ns, off) == T(h, mi, s, ns, "offset", off, "")
Zn(h, mi, s, ns, zn) == T(h, mi, s, ns, "zone", 0, zn)
Loc(h, mi, s, ns) == T(h, mi, s, ns, "local", 0, "")
OfSod(sod, ns, zn) == Zn(sod \div 3600, (sod % 3600) \div 60, sod % 60, ns, zn)

\* ---- month tables
QuickYears == {0 - 1, 0, 1, 2, 3, 4, 99, 100, 101, 399, 400, 401, 1582, 1599, 1600, 1601, 1699, 1700, 1799, 1800, 1899, 1900, 1901,
               1969, 1970, 1999, 2000, 2001, 2019, 2020, 2021, 2022, 2023, 2024, 2037, 2038, 2099, 2100, 2101, 2399, 2400}
FarYears == {0 - 999999999, 0 - 400000, 0 - 262145, 0 - 262144, 0 - 262143, 0 - 10000, 0 - 401, 0 - 400, 0 - 100, 0 - 4, 9999, 10000, 262142, 262143, 262144, 400000, 999999996, 999999999}
MonthYears == (IF Tier = "quick" THEN QuickYears ELSE (0 - 1)..2400) \cup FarYears
Months == {[kind |-> "month", y |-> y, m |-> m] : y \in MonthYears, m \in 0..13}

\* ---- constructor from numbers: components as text with their class
IntC(v) == [c |-> "int", v |-> v, t |-> ""]
Txt(c, t) == [c |-> c, v |-> 0, t |-> t]
OddComps == {IntC(v) : v \in {0 - 1, 0, 1, 12, 13, 28, 29, 30, 31, 32, 255, 256, 257, 258, 268, 285, 511, 513, 65537, 65548}}
            \cup {Txt("huge", "4294967297"), Txt("huge", "18446744073709551617"), Txt("huge", "1E+30"), Txt("frac", "1.5"), Txt("frac", "12.999")}
OddYears == {IntC(v) : v \in {2020, 2021, 0, 0 - 1, 999999999, 0 - 999999999}} \cup {Txt("huge", "1000000000"), Txt("huge", "-1000000000"), Txt("huge", "4294969317"), Txt("frac", "2020.5")}
Ctors == {[kind |-> "ctor", cy |-> IntC(2020), cm |-> cm, cd |-> cd] : cm \in OddComps, cd \in OddComps}
         \cup {[kind |-> "ctor", cy |-> cy, cm |-> cm, cd |-> cd] : cy \in OddYears, cm \in {IntC(1), IntC(2), IntC(13)}, cd \in {IntC(1), IntC(29), IntC(31)}}

\* ---- date pairs
EdgeDates == {D(2020, 2, 28), D(2020, 2, 29), D(2020, 3, 1), D(2020, 12, 31), D(2021, 1, 1), D(2021, 1, 31), D(2021, 2, 1), D(2021, 2, 28), D(2021, 3, 1),
              D(1999, 12, 31), D(2000, 1, 1), D(1, 1, 1), D(0 - 1, 12, 31), D(0 - 1, 1, 1), D(0 - 2, 6, 15), D(9999, 12, 31), D(10000, 1, 1),
              D(262143, 12, 31), D(262144, 1, 1), D(262144, 1, 2), D(0 - 262144, 1, 1), D(0 - 262145, 12, 31), D(0 - 262145, 12, 30),
              D(999999999, 12, 30), D(999999999, 12, 31), D(0 - 999999999, 1, 1), D(0 - 999999999, 1, 2), D(2021, 10, 9), D(2021, 9, 10),
              \* years around the powers of two at which a packed or shifted representation of a date would wrap
              D(32767, 12, 31), D(32768, 1, 1), D(65536, 1, 1), D(2097151, 12, 31), D(2097152, 1, 1), D(4194303, 12, 31), D(4194304, 1, 1), D(8388608, 1, 1),
              D(0 - 32768, 12, 31), D(0 - 32769, 1, 1), D(0 - 2097152, 6, 15), D(0 - 4194304, 12, 31), D(0 - 4194305, 1, 1), D(0 - 8388609, 1, 1),
              D(16777216, 1, 1), D(100000000, 6, 15), D(0 - 100000000, 6, 15), D(536870912, 1, 1), D(0 - 536870912, 1, 1)}
DPairs == {[kind |-> "dpair", a |-> a, b |-> b] : a \in EdgeDates, b \in EdgeDates}

\* ---- date-and-time pairs: readings around the switch-over days of the zones, against UTC / offset readings
Sods == {0, 1800, 3599, 3600, 5400, 7199, 7200, 9000, 10799, 10800, 12600, 14399, 14400, 43200, 86399}
SwitchDays(y) == {<<3, LastSunday(y, 3)>>, <<10, LastSunday(y, 10)>>, <<3, NthSunday(y, 3, 2)>>, <<11, NthSunday(y, 11, 1)>>,
                  <<4, NthSunday(y, 4, 1)>>, <<10, NthSunday(y, 10, 1)>>, <<1, 15>>, <<7, 15>>, <<12, 31>>, <<2, 28>>}
ZoneYears == IF Tier = "quick" THEN {2021} ELSE {2008, 2016, 2021, 2024, 2037}
ZonedIn(y) == {DT(D(y, md[1], md[2]), OfSod(sod, 0, zn)) : md \in SwitchDays(y), sod \in Sods, zn \in KnownZones}
ZonedReadings == UNION {ZonedIn(y) : y \in ZoneYears}
ZonedPairs == {[kind |-> "dtpair", a |-> a, b |-> DT(a.date, r)] : a \in ZonedReadings, r \in {Utc(1, 0, 0, 0), Utc(12, 30, 0, 0)}}
              \cup {[kind |-> "dtpair", a |-> DT(z.date, Off(12, 0, 0, 0, 0 - 50400)), b |-> z] : z \in {z \in ZonedReadings : z.time.h = 2 /\ z.time.mi = 30}}
\* both readings in the same named zone, one or two days apart around every switch-over (the offsets differ across it)
DayBefore(y, m, d) == IF d > 1 THEN <<m, d - 1>> ELSE <<m - 1, DaysIn(y, m - 1)>>
SameZonePairs == UNION {{[kind |-> "dtpair",
                          a |-> DT(D(y, md[1], md[2]), OfSod(sa, 0, zn)),
                          b |-> DT(D(y, DayBefore(y, md[1], md[2])[1], DayBefore(y, md[1], md[2])[2]), OfSod(sb, 0, zn))]
                           : md \in SwitchDays(y), sa \in {1800, 12600, 43200}, sb \in {43200}, zn \in KnownZones}
                        \cup {[kind |-> "dtpair",
                          a |-> DT(D(y, DayBefore(y, md[1], md[2])[1], DayBefore(y, md[1], md[2])[2]), OfSod(sb, 0, zn)),
                          b |-> DT(D(y, md[1], md[2]), OfSod(sa, 0, zn))]
                           : md \in SwitchDays(y), sa \in {43200, 86399}, sb \in {0, 43200}, zn \in KnownZones}
                        : y \in ZoneYears}
OffsetReadings == {DT(d, t) : d \in {D(2021, 1, 1), D(2020, 12, 31), D(2020, 2, 29), D(2020, 3, 1), D(1, 1, 1), D(0 - 1, 12, 31), D(2300, 6, 1), D(1700, 3, 1)},
                     t \in {Utc(0, 0, 0, 0), Utc(23, 59, 59, 999999999), Off(0, 0, 0, 0, 50400), Off(23, 59, 59, 999999999, 0 - 53999), Off(10, 0, 0, 1, 3600),
                            Off(9, 0, 0, 0, 0), Off(11, 30, 0, 0, 5400), Off(12, 0, 0, 0, 0 - 1), Loc(10, 0, 0, 0),
                            \* readings that differ in the fraction of a second only (one zone), and the same instants read in another zone
                            Utc(10, 0, 0, 500000000), Utc(10, 0, 0, 700000000), Off(11, 0, 0, 500000000, 3600), Off(11, 0, 0, 700000000, 3600), Zn(10, 0, 0, 0, "Asia/Kolkata"), Zn(10, 0, 0, 0, "Etc/GMT+5")}}
OffsetPairs == {[kind |-> "dtpair", a |-> a, b |-> b] : a \in OffsetReadings, b \in OffsetReadings}
FarPairs == {[kind |-> "dtpair", a |-> DT(a, Utc(0, 0, 0, 0)), b |-> DT(b, Off(0, 0, 0, 0, 3600))] : a \in EdgeDates, b \in {D(2021, 1, 1), D(262143, 12, 31), D(0 - 262144, 1, 1), D(999999999, 12, 31)}}

\* ---- properties
DtProps == {[kind |-> "dtprops", a |-> a] : a \in {z \in ZonedReadings : z.time.mi = 0 \/ z.time.s = 59} \cup OffsetReadings}
           \cup {[kind |-> "dtprops", a |-> DT(d, Utc(12, 34, 56, 0))] : d \in EdgeDates}

\* ---- whole months between
YmDates == {D(2020, 1, 31), D(2020, 2, 28), D(2020, 2, 29), D(2020, 3, 30), D(2020, 3, 31), D(2020, 12, 15), D(2021, 1, 14), D(2021, 1, 15), D(2021, 1, 16), D(2021, 1, 31),
            D(2021, 2, 28), D(2021, 3, 15), D(2021, 3, 20), D(2021, 3, 30), D(2021, 12, 31), D(2022, 1, 1), D(1, 1, 1), D(0 - 1, 12, 31), D(9999, 12, 31), D(2421, 1, 15)}
Ymbs == {[kind |-> "ymb", a |-> a, b |-> b] : a \in YmDates, b \in YmDates}

\* ---- durations (as signed magnitudes; the harness builds the values)
Dtd(neg, sec, ns) == [k |-> "dtd", neg |-> neg, sec |-> ToDigits(sec), ns |-> ns]
Ymd(neg, mo) == [k |-> "ymd", neg |-> neg, mo |-> ToDigits(mo)]
DtdMags == {<<<<>>, 0>>, <<<<>>, 1>>, <<<<>>, 500000000>>, <<<<>>, 999999999>>, <<Small(1), 0>>, <<Small(59), 0>>, <<Small(60), 0>>, <<Small(3599), 999999999>>, <<Small(3600), 0>>,
            <<Small(86399), 0>>, <<Small(86400), 0>>, <<Small(93784), 500000000>>, <<Mul(Small(100000), Small(86400)), 0>>, <<Mul(Small(999999999), Small(86400)), 1>>,
            <<Mul(Small(106751), Small(86400)), 0>>, <<Mul(Small(106752), Small(86400)), 0>>}
Dtds == {Dtd(neg, mg[1], mg[2]) : neg \in BOOLEAN, mg \in DtdMags} \ {Dtd(TRUE, <<>>, 0)}
YmdMags == {<<>>, Small(1), Small(11), Small(12), Small(13), Small(1200), Mul(Small(999999999), Small(12)), Small(25)}
Ymds == {Ymd(neg, mg) : neg \in BOOLEAN, mg \in YmdMags} \ {Ymd(TRUE, <<>>)}
DurPairs == {[kind |-> "durpair", a |-> a, b |-> b] : a \in Dtds, b \in Dtds} \cup {[kind |-> "durpair", a |-> a, b |-> b] : a \in Ymds, b \in Ymds}

VARIABLE c
Emit(S) == c \in S /\ PrintT(<<"CASE", ToJson(c)>>)
Init == Emit(Months) \/ Emit(Ctors) \/ Emit(DPairs) \/ Emit(ZonedPairs) \/ Emit(SameZonePairs) \/ Emit(OffsetPairs) \/ Emit(FarPairs) \/ Emit(DtProps) \/ Emit(Ymbs) \/ Emit(DurPairs)
Next == FALSE /\ c' = c
=============================================================================
