INIT Init
NEXT Next
CONSTANT Tier = "thorough"
CHECK_DEADLOCK FALSE
