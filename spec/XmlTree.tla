------------------------------ MODULE XmlTree ------------------------------
(***************************************************************************)
(* An XML document as a tree in document order, and structural faults on    *)
(* it (the XML part of the fault model; Faults.tla has the text part and    *)
(* the outcome contract).                                                   *)
(*   nodes[i] = [k |-> "e" | "a" | "t",      element, attribute, text       *)
(*               d |-> depth,                 root element = 1; an           *)
(*                                            attribute / text / child       *)
(*                                            element is one deeper          *)
(*               nm |-> name,                 element / attribute name       *)
(*               ref |-> BOOLEAN,             an href attribute / a typeRef  *)
(*               last |-> index]              last node of the subtree       *)
(* Attributes come directly after their element, before its content.        *)
(* Faults (n is a node index):                                              *)
(*   del n     remove the node with its subtree                            *)
(*   dup n     repeat the node with its subtree directly after itself       *)
(*   empty n   element: remove its content, keep its attributes;           *)
(*             attribute: empty value                                       *)
(*   swap n    exchange element n with its next sibling element             *)
(*   retarget n  (ref nodes) point the reference at: "missing" (no such     *)
(*             id), "self" (the nearest enclosing element carrying an id /  *)
(*             a name), "other" (the target of the next reference),         *)
(*             "ancestor" (the outermost enclosing element below the root   *)
(*             carrying an id / a name: the item definition a nested        *)
(*             component belongs to, the decision a requirement belongs to) *)
(***************************************************************************)
EXTENDS Naturals, Sequences

\* index of the last node of n's subtree: supplied with the tree (field `last`), checked where it is used
Last(nodes, n) == nodes[n].last
LastOk(nodes, n) == LET k == nodes[n].last IN
                    /\ k >= n /\ k <= Len(nodes)
                    /\ \A j \in (n + 1)..k : nodes[j].d > nodes[n].d
                    /\ (k = Len(nodes) \/ nodes[k + 1].d <= nodes[n].d)
Size(nodes, n) == Last(nodes, n) - n + 1
RECURSIVE CountAttrs(_, _, _)
CountAttrs(nodes, n, k) == IF k <= Len(nodes) /\ nodes[k].k = "a" /\ nodes[k].d = nodes[n].d + 1 THEN 1 + CountAttrs(nodes, n, k + 1) ELSE 0
Attrs(nodes, n) == CountAttrs(nodes, n, n + 1)             \* number of attributes of element n
NextSibling(nodes, n) == LET k == Last(nodes, n) + 1 IN IF k <= Len(nodes) /\ nodes[k].d = nodes[n].d /\ nodes[k].k = "e" THEN k ELSE 0

\* ("selfpad" / "ancestorpad": the same targets as "self" / "ancestor", written with white space around the name)
FaultKinds == {"del", "dup", "empty", "swap", "missing", "self", "other", "ancestor", "selfpad", "ancestorpad"}
FaultEnabled(nodes, f, n) ==
  /\ n >= 1 /\ n <= Len(nodes)
  /\ CASE f = "del" -> TRUE
       [] f = "dup" -> TRUE
       [] f = "empty" -> (nodes[n].k = "e" /\ Size(nodes, n) > 1 + Attrs(nodes, n)) \/ nodes[n].k = "a"
       [] f = "swap" -> nodes[n].k = "e" /\ NextSibling(nodes, n) # 0
       [] f \in {"missing", "self", "other", "ancestor", "selfpad", "ancestorpad"} -> nodes[n].ref
       [] OTHER -> FALSE

\* number of nodes of the document after the fault; 0 - 1 when the result is not well-formed XML
CountAfter(nodes, f, n) ==
  LET N == Len(nodes) IN
  CASE f = "del" -> IF n = 1 THEN 0 - 1 ELSE N - Size(nodes, n)
    [] f = "dup" -> IF nodes[n].k = "a" \/ n = 1 THEN 0 - 1 ELSE IF nodes[n].k = "t" THEN N ELSE N + Size(nodes, n)     \* (adjacent texts are one text node)
    [] f = "empty" -> IF nodes[n].k = "a" THEN N ELSE N - (Size(nodes, n) - 1 - Attrs(nodes, n))
    [] OTHER -> N

\* two faults can be applied independently when the spans of text they touch do not overlap
\* (a swap also moves the next sibling)
SpanEnd(nodes, f, n) == IF f = "swap" /\ NextSibling(nodes, n) # 0 THEN Last(nodes, NextSibling(nodes, n)) ELSE Last(nodes, n)
Disjoint(nodes, f1, n1, f2, n2) == SpanEnd(nodes, f1, n1) < n2 \/ SpanEnd(nodes, f2, n2) < n1
=============================================================================
