--------------------------- MODULE WorkspaceCore ---------------------------
(***************************************************************************)
(* The model store of dmntk (workspace/src/workspace.rs), parametric in the *)
(* alphabet of models.  Workspace.tla instantiates it with the alphabets of *)
(* property C17; Apa_Workspace.tla lets Apalache choose ANY alphabet over   *)
(* small pools of identifiers, namespaces and names and shows the           *)
(* invariants inductive.  (The type annotations are Apalache's; TLC reads   *)
(* them as comments.)  See Workspace.tla for the description of the         *)
(* variables and of the deliberately loose points.                         *)
(***************************************************************************)
EXTENDS Naturals, Sequences, FiniteSets

CONSTANT
  \* @type: Set({id: Str, ns: Str, nm: Str, builds: Bool});
  Models

Namespaces == {m.ns : m \in Models}
Names      == {m.nm : m \in Models}

VARIABLES
  \* @type: Set({id: Str, ns: Str, nm: Str, builds: Bool});
  defs,
  \* @type: Set(Str);
  byNs,
  \* @type: Set(Str);
  byNm,
  \* @type: Set(Str);
  evals,
  \* @type: Str;
  res,
  \* @type: Bool;
  fresh

\* @type: Set({id: Str, ns: Str, nm: Str, builds: Bool}) => Set(Str);
NsOf(S)  == {m.ns : m \in S}
\* @type: Set({id: Str, ns: Str, nm: Str, builds: Bool}) => Set(Str);
NmOf(S)  == {m.nm : m \in S}
\* @type: Set({id: Str, ns: Str, nm: Str, builds: Bool}) => Set(Str);
Built(S) == {m.nm : m \in {x \in S : x.builds}}

TypeOK == /\ defs \subseteq Models /\ byNs \subseteq Namespaces /\ byNm \subseteq Names
          /\ evals \subseteq Names /\ res \in {"ok", "err"} /\ fresh \in BOOLEAN

Init == /\ defs = {} /\ byNs = {} /\ byNm = {} /\ evals = {} /\ res = "ok" /\ fresh = FALSE

\* @type: ({id: Str, ns: Str, nm: Str, builds: Bool}, Set({id: Str, ns: Str, nm: Str, builds: Bool})) => Set({id: Str, ns: Str, nm: Str, builds: Bool});
Clash(m, S) == {d \in S : d.ns = m.ns \/ d.nm = m.nm}

\* A successful operation that changed nothing (remove of an absent model) may keep or drop the evaluators.
KeepOrDrop == evals' \in {evals, {}}

AddOk(m) ==
  /\ Clash(m, defs) = {}
  /\ defs' = defs \cup {m}
  /\ byNs' = byNs \cup {m.ns} /\ byNm' = byNm \cup {m.nm}
  /\ evals' = {} /\ fresh' = FALSE /\ res' = "ok"

\* A refused add has failed: it is no modification, the deployed evaluators stay.
AddRejected(m) ==
  /\ Clash(m, defs) # {}
  /\ UNCHANGED <<defs, byNs, byNm, fresh, evals>>
  /\ res' = "err"

Add(m) == AddOk(m) \/ AddRejected(m)

Exact(ns, nm)   == {d \in defs : d.ns = ns /\ d.nm = nm}
Partial(ns, nm) == {d \in defs : (d.ns = ns) # (d.nm = nm)}

\* remove(ns, nm): the model stored under exactly these keys goes, and with it
\* both reservations.  Models matching only one of the keys may go too (the
\* code matches on either key) - but then their reservations go with them.
Remove(ns, nm) ==
  \E gone \in SUBSET Partial(ns, nm) :
    /\ defs' = defs \ (Exact(ns, nm) \cup gone)
    /\ byNs' = NsOf(defs') /\ byNm' = NmOf(defs')
    /\ IF defs' = defs THEN KeepOrDrop /\ UNCHANGED fresh
                       ELSE evals' = {} /\ fresh' = FALSE
    /\ res' = "ok"

\* replace(m): substitute the stored model of the same namespace and name.
\* Without such a model it is an add.  Other clashing models are either
\* evicted (what remove-then-add does) or make the call fail unchanged.
ReplaceOk(m) ==
  \E gone \in SUBSET (Clash(m, defs) \ Exact(m.ns, m.nm)) :
    LET rest == defs \ (Exact(m.ns, m.nm) \cup gone) IN
    /\ Clash(m, rest) = {}
    /\ defs' = rest \cup {m}
    /\ byNs' = NsOf(defs') /\ byNm' = NmOf(defs')
    /\ evals' = {} /\ fresh' = FALSE /\ res' = "ok"

ReplaceRejected(m) ==
  /\ Clash(m, defs) \ Exact(m.ns, m.nm) # {}
  /\ UNCHANGED <<defs, byNs, byNm, fresh, evals>>
  /\ res' = "err"

Replace(m) == ReplaceOk(m) \/ ReplaceRejected(m)

Clear ==
  /\ defs' = {} /\ byNs' = {} /\ byNm' = {} /\ evals' = {}
  /\ fresh' = FALSE /\ res' = "ok"

\* deploy: an evaluator for every stored model that builds; the others are skipped.
Deploy ==
  /\ evals' = Built(defs) /\ fresh' = TRUE /\ res' = "ok"
  /\ UNCHANGED <<defs, byNs, byNm>>

\* evaluate_invocable(model name, ...): possible iff the model is deployed.
Evaluate(nm) ==
  /\ res' = IF nm \in evals THEN "ok" ELSE "err"
  /\ UNCHANGED <<defs, byNs, byNm, evals, fresh>>

\* Workspace::new(directory): the models found in the *.dmn files below the directory are added one after another,
\* in the order the file system lists them, and then everything is deployed (load_and_deploy_models).  Which of two
\* clashing files wins is therefore open; the outcome is what SOME order of adds leaves: a clash-free subset T of the
\* candidates S such that every candidate left out clashes with a member of T.  The workspace is a new one (a restart
\* of the process): nothing of the previous state survives.
\* @type: Set({id: Str, ns: Str, nm: Str, builds: Bool}) => Bool;
ClashFree(T) == \A a \in T : \A b \in T : (a.ns = b.ns \/ a.nm = b.nm) => a = b
\* @type: (Set({id: Str, ns: Str, nm: Str, builds: Bool}), Set({id: Str, ns: Str, nm: Str, builds: Bool})) => Bool;
LeftOutClash(T, S) == \A m \in S \ T : Clash(m, T) # {}
\* @type: Set({id: Str, ns: Str, nm: Str, builds: Bool}) => Bool;
Loaded(T) ==
  /\ defs' = T /\ byNs' = NsOf(T) /\ byNm' = NmOf(T)
  /\ evals' = Built(T) /\ fresh' = TRUE /\ res' = "ok"
LoadDir(S) == \E T \in SUBSET S : ClashFree(T) /\ LeftOutClash(T, S) /\ Loaded(T)
\* the same without the demand that every file is tried: which files of a directory count as models (extension, depth,
\* readable, well-formed) is a policy C17 does not state, so the trace specification binds a recorded load to this one
\* and only reports when a candidate was left out without a clash
\* @type: (Set({id: Str, ns: Str, nm: Str, builds: Bool}), Set({id: Str, ns: Str, nm: Str, builds: Bool})) => Bool;
LoadDirLoose(S, T) == T \subseteq S /\ ClashFree(T) /\ Loaded(T)      \* (T is what the recorded snapshot shows)

Next == \/ \E m \in Models : Add(m) \/ Replace(m)
        \/ \E ns \in Namespaces, nm \in Names : Remove(ns, nm)
        \/ Clear \/ Deploy
        \/ \E nm \in Names : Evaluate(nm)
\* ... and the process may be started again on a directory of model files
\* (\E S : LoadDir(S) is the same as "any clash-free set of models, loaded": take S = T)
Restart == \E T \in SUBSET Models : ClashFree(T) /\ Loaded(T)
NextL == Next \/ Restart


----------------------------------------------------------------------------
(* Property C17 as state invariants *)

IndexesAgree == byNs = NsOf(defs) /\ byNm = NmOf(defs)

UniqueKeys == \A a, b \in defs : (a.ns = b.ns \/ a.nm = b.nm) => a = b

\* evaluation is possible only for models present at the last deploy that
\* built, and only while nothing has been modified since
DeployedFresh == /\ evals # {} => fresh
                 /\ evals \subseteq Built(defs)

Inv == TypeOK /\ IndexesAgree /\ UniqueKeys /\ DeployedFresh

\* addability is decided by the stored models, and the indexes say the same
AddableIff == \A m \in Models :
                (Clash(m, defs) = {}) <=> (m.ns \notin byNs /\ m.nm \notin byNm)
=============================================================================
