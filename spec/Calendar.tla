------------------------------ MODULE Calendar ------------------------------
(***************************************************************************)
(* The proleptic Gregorian calendar and the UTC time line, as FEEL uses     *)
(* them (DMN 1.3 10.3.2.3.4-7, 10.3.2.15, 10.3.4.1):                        *)
(*   - day numbers (days since 0000-03-01, split in 400-year eras so that   *)
(*     years up to +-999999999 stay inside TLC's integers), weekday,        *)
(*   - the instant of a date-and-time with a UTC offset or an IANA zone,    *)
(*     with the daylight-saving rules of a few zones written out,           *)
(*   - comparison and exact difference of instants,                        *)
(*   - whole months between two dates,                                     *)
(*   - signed arithmetic and components of durations.                      *)
(* Years are astronomical (ISO 8601): year 0 exists and is a leap year.     *)
(* MC_Calendar.tla checks the day-number and weekday formulas against a     *)
(* day-by-day walk through the calendar.                                    *)
(***************************************************************************)
EXTENDS Temporal

EraDays == 146097

\* days since 0000-03-01 as [era, doe]  (era = 400-year block of the March-based year)
Civil(y, m, d) ==
  LET yy == IF m <= 2 THEN y - 1 ELSE y
      mp == (m + 9) % 12                                  \* March = 0
      doy == (153 * mp + 2) \div 5 + d - 1
      yoe == yy % 400
  IN [era |-> yy \div 400, doe |-> yoe * 365 + yoe \div 4 - yoe \div 100 + doy]

\* as one integer (|y| below about 5 800 000)
DayNum(y, m, d) == LET c == Civil(y, m, d) IN c.era * EraDays + c.doe

\* ISO weekday, Monday = 1 .. Sunday = 7 (0000-03-01 is a Wednesday; an era is a whole number of weeks)
Weekday(y, m, d) == ((Civil(y, m, d).doe + 2) % 7) + 1

CmpInt(a, b) == IF a < b THEN 0 - 1 ELSE IF a > b THEN 1 ELSE 0
RECURSIVE CmpLex(_, _)
CmpLex(a, b) == IF a = <<>> THEN 0 ELSE IF a[1] # b[1] THEN CmpInt(a[1], b[1]) ELSE CmpLex(Tail(a), Tail(b))

CmpDate(a, b) == CmpLex(<<a.y, a.m, a.d>>, <<b.y, b.m, b.d>>)

----------------------------------------------------------------------------
\* zones.  Rules (used for the years 2008..2037 only; outside them a named zone is "unknown", except the fixed Etc/ and UTC ids):
\*   "eu"  summer time from the last Sunday of March 01:00 UTC to the last Sunday of October 01:00 UTC
\*   "us"  from the second Sunday of March 02:00 local to the first Sunday of November 02:00 local (daylight)
\*   "au"  (southern) from the first Sunday of October 02:00 local to the first Sunday of April 03:00 local (daylight)
\*   "none" fixed offset
ZoneRule(zn) ==
  CASE zn = "Europe/London"      -> [std |-> 0,         rule |-> "eu"]
    [] zn = "Europe/Paris"       -> [std |-> 3600,      rule |-> "eu"]
    [] zn = "Europe/Warsaw"      -> [std |-> 3600,      rule |-> "eu"]
    [] zn = "Europe/Helsinki"    -> [std |-> 7200,      rule |-> "eu"]
    [] zn = "America/New_York"   -> [std |-> 0 - 18000, rule |-> "us"]
    [] zn = "America/Chicago"    -> [std |-> 0 - 21600, rule |-> "us"]
    [] zn = "America/Los_Angeles"-> [std |-> 0 - 28800, rule |-> "us"]
    [] zn = "Australia/Sydney"   -> [std |-> 36000,     rule |-> "au"]
    [] zn = "Asia/Kolkata"       -> [std |-> 19800,     rule |-> "none"]
    [] zn = "Asia/Tokyo"         -> [std |-> 32400,     rule |-> "none"]
    [] zn = "Asia/Kathmandu"     -> [std |-> 20700,     rule |-> "none"]
    [] zn = "America/Phoenix"    -> [std |-> 0 - 25200, rule |-> "none"]
    [] zn = "Etc/GMT+5"          -> [std |-> 0 - 18000, rule |-> "none"]       \* (POSIX sign: GMT+5 is five hours WEST)
    [] zn = "UTC"                -> [std |-> 0,         rule |-> "none"]
    [] OTHER                     -> [std |-> 0,         rule |-> "unknown"]
KnownZones == {"Europe/London", "Europe/Paris", "Europe/Warsaw", "Europe/Helsinki", "America/New_York", "America/Chicago",
               "America/Los_Angeles", "Australia/Sydney", "Asia/Kolkata", "Asia/Tokyo", "Asia/Kathmandu", "America/Phoenix", "Etc/GMT+5", "UTC"}

LastSunday(y, m) == CHOOSE d \in 1..31 : d <= DaysIn(y, m) /\ d + 7 > DaysIn(y, m) /\ Weekday(y, m, d) = 7
NthSunday(y, m, n) == CHOOSE d \in 1..31 : (d - 1) \div 7 = n - 1 /\ Weekday(y, m, d) = 7

\* position of a wall-clock reading inside its year, as a comparable tuple
Wall(m, d, sod) == <<m, d, sod>>

\* offset in force at the wall-clock reading (y, m, d, sod) in zone zn:
\*   [st |-> "ok", off]  |  [st |-> "gap"] (the reading does not exist)  |  [st |-> "overlap"] (it exists twice)  |  [st |-> "unknown"]
ZoneOffsetAt(zn, y, m, d, sod) ==
  LET z == ZoneRule(zn)
      w == Wall(m, d, sod)
      Ok(o) == [st |-> "ok", off |-> o]
      \* gap: [gs, ge) on the start day;  overlap: [os, oe) on the end day;  daylight strictly between
      Decide(sm, sd, gs, ge, em, ed, os, oe, southern) ==
        IF CmpLex(w, Wall(sm, sd, gs)) >= 0 /\ CmpLex(w, Wall(sm, sd, ge)) < 0 THEN [st |-> "gap"]
        ELSE IF CmpLex(w, Wall(em, ed, os)) >= 0 /\ CmpLex(w, Wall(em, ed, oe)) < 0 THEN [st |-> "overlap"]
        ELSE LET afterStart == CmpLex(w, Wall(sm, sd, ge)) >= 0
                 beforeEnd == CmpLex(w, Wall(em, ed, os)) < 0
                 dst == IF southern THEN afterStart \/ beforeEnd ELSE afterStart /\ beforeEnd
             IN Ok(IF dst THEN z.std + 3600 ELSE z.std)
  IN
  IF z.rule = "unknown" \/ (zn \notin {"UTC", "Etc/GMT+5"} /\ (y < 2008 \/ y > 2037)) THEN [st |-> "unknown"]      \* (local mean time, earlier rules)
  ELSE IF z.rule = "none" THEN Ok(z.std)
  ELSE IF z.rule = "eu" THEN Decide(3, LastSunday(y, 3), 3600 + z.std, 7200 + z.std, 10, LastSunday(y, 10), 3600 + z.std, 7200 + z.std, FALSE)
  ELSE IF z.rule = "us" THEN Decide(3, NthSunday(y, 3, 2), 7200, 10800, 11, NthSunday(y, 11, 1), 3600, 7200, FALSE)
  ELSE Decide(10, NthSunday(y, 10, 1), 7200, 10800, 4, NthSunday(y, 4, 1), 7200, 10800, TRUE)

\* offset of a date-and-time value (encoding of codec.rs): ok / gap / overlap / unknown / local
OffsetOf(dt) ==
  LET t == dt.time  sod == t.h * 3600 + t.mi * 60 + t.s IN
  IF t.zk = "utc" THEN [st |-> "ok", off |-> 0]
  ELSE IF t.zk = "offset" THEN [st |-> "ok", off |-> t.off]
  ELSE IF t.zk = "zone" THEN ZoneOffsetAt(t.zn, dt.date.y, dt.date.m, dt.date.d, sod)
  ELSE [st |-> "local"]

\* the instant of a date-and-time with offset `off`: <<era, doe, second of the UTC day, nanosecond>>, normalised
Instant(dt, off) ==
  LET c == Civil(dt.date.y, dt.date.m, dt.date.d)
      sod == dt.time.h * 3600 + dt.time.mi * 60 + dt.time.s - off
      dd == sod \div 86400
      doe == c.doe + dd
  IN <<IF doe < 0 THEN c.era - 1 ELSE IF doe >= EraDays THEN c.era + 1 ELSE c.era,
       IF doe < 0 THEN doe + EraDays ELSE IF doe >= EraDays THEN doe - EraDays ELSE doe,
       sod % 86400, dt.time.ns>>

----------------------------------------------------------------------------
\* signed durations: [neg, sec (Bignum of whole seconds), ns]   (zero is never negative)
SDur(neg, sec, ns) == [neg |-> neg /\ (sec # <<>> \/ ns # 0), sec |-> sec, ns |-> ns]
ZeroDur == SDur(FALSE, <<>>, 0)
CmpMag(a, b) == LET c == Cmp(a.sec, b.sec) IN IF c # 0 THEN c ELSE CmpInt(a.ns, b.ns)
AddMag(a, b) == LET ns == a.ns + b.ns IN
                IF ns >= 1000000000 THEN [sec |-> Add(Add(a.sec, b.sec), <<1>>), ns |-> ns - 1000000000] ELSE [sec |-> Add(a.sec, b.sec), ns |-> ns]
SubMag(a, b) ==   \* a >= b
  IF a.ns >= b.ns THEN [sec |-> Sub(a.sec, b.sec), ns |-> a.ns - b.ns] ELSE [sec |-> Sub(Sub(a.sec, b.sec), <<1>>), ns |-> a.ns + 1000000000 - b.ns]
NegDur(a) == SDur(~a.neg, a.sec, a.ns)
AddDur(a, b) ==
  IF a.neg = b.neg THEN LET r == AddMag(a, b) IN SDur(a.neg, r.sec, r.ns)
  ELSE IF CmpMag(a, b) >= 0 THEN LET r == SubMag(a, b) IN SDur(a.neg, r.sec, r.ns)
  ELSE LET r == SubMag(b, a) IN SDur(b.neg, r.sec, r.ns)
CmpDur(a, b) ==
  IF a.neg # b.neg THEN (IF a.neg THEN 0 - 1 ELSE 1)
  ELSE IF a.neg THEN CmpMag(b, a) ELSE CmpMag(a, b)

\* the exact difference i1 - i2 of two instants (any years: the era part goes through Bignum)
Abs(n) == IF n < 0 THEN 0 - n ELSE n
DiffInstants(i1, i2) ==
  LET de == i1[1] - i2[1]
      dd == i1[2] - i2[2]
      days == AddDur(SDur(de < 0, Mul(Small(Abs(de)), Small(EraDays)), 0), SDur(dd < 0, Small(Abs(dd)), 0))     \* (field sec holds days here)
      a == SDur(days.neg, Mul(days.sec, <<6400, 8>>), 0)
      ds == i1[3] - i2[3]
      b == SDur(ds < 0, Small(Abs(ds)), 0)
      dn == i1[4] - i2[4]
      c == SDur(dn < 0, <<>>, Abs(dn))
  IN AddDur(AddDur(a, b), c)

\* observed days-and-time duration (codec encoding) as a signed duration
OfDtd(v) == SDur(v.neg, FromDigits(v.sec), v.ns)
SameDur(a, b) == a.neg = b.neg /\ Cmp(a.sec, b.sec) = 0 /\ a.ns = b.ns

\* components of a days-and-time duration: days, hours, minutes, whole seconds of the magnitude
DtdParts(a) ==
  LET dq == DivMod(a.sec, <<6400, 8>>)
      r == ToInt(dq.r)
  IN [days |-> dq.q, hours |-> r \div 3600, minutes |-> (r % 3600) \div 60, seconds |-> r % 60]

----------------------------------------------------------------------------
\* whole months from date a to date b (b not before a): calendar months, less one when the day of month has not been reached
MonthsForward(a, b) ==
  LET raw == (b.y - a.y) * 12 + (b.m - a.m) IN IF b.d < a.d THEN raw - 1 ELSE raw
\* signed, for any order
MonthsBetween(a, b) == IF CmpDate(a, b) <= 0 THEN MonthsForward(a, b) ELSE 0 - MonthsForward(b, a)
\* the day-of-month rule is open when the later date is the last day of a shorter month (clamping): both readings are accepted
MonthsBetweenOpen(a, b) ==
  LET lo == IF CmpDate(a, b) <= 0 THEN a ELSE b
      hi == IF CmpDate(a, b) <= 0 THEN b ELSE a
  IN hi.d < lo.d /\ hi.d = DaysIn(hi.y, hi.m)
=============================================================================
