INIT Init
NEXT Next
CONSTANT Wide = FALSE
CHECK_DEADLOCK FALSE
