--------------------------- MODULE MC_Concurrent ---------------------------
(* Bounded instances of Concurrent.tla.                                      *)
(* Design "asbuilt": the lock pattern of model_evaluator.rs / decision.rs -  *)
(* evaluate_invocable reads the name map, evaluate_decision reads the        *)
(* decision registry, the decision closure reads five registries and then    *)
(* evaluates its required decision (the same five again, recursively) and    *)
(* its knowledge model.  Design "write": the same, but every call first takes the *)
(* decision registry for WRITING (holding nothing, e.g. to count calls): no  *)
(* thread can block itself, yet under the writer-preferring semantics a      *)
(* queued writer stops another thread's recursive read - deadlock.  Design   *)
(* "shared": the as-built locks with one scope shared by all threads.        *)
EXTENDS Concurrent, TLC
CONSTANTS Design, NThreads, Depth

S(op, l, inv, inp) == [op |-> op, l |-> l, inv |-> inv, inp |-> inp]
R(l) == S("read", l, "", "")
W(l) == S("write", l, "", "")
U(l) == S("release", l, "", "")
Five == <<"bkm", "ds", "dec", "inp", "idef">>
AcqFive == [i \in 1..5 |-> R(Five[i])]
RelFive == [i \in 1..5 |-> U(Five[6 - i])]
\* the closure of a decision with `d` levels of required decisions below it
RECURSIVE Closure(_)
Closure(d) == AcqFive \o (IF d > 0 THEN Closure(d - 1) ELSE <<>>) \o RelFive
\* in the "write" design every call first takes the decision registry for writing (holding nothing), then proceeds as built
Call(inv, inp) == <<S("begin", "", inv, inp)>> \o (IF Design = "write" THEN <<W("dec"), U("dec")>> ELSE <<>>)
                  \o <<R("names"), R("dec")>> \o Closure(Depth) \o <<U("dec"), U("names"), S("end", "", inv, inp)>>
MCThreads == 1..NThreads
MCLocks == {"names", "dec", "bkm", "ds", "inp", "idef"}
MCScript == [t \in MCThreads |-> Call("D", t) \o (IF t = 1 THEN Call("E", t + 10) ELSE <<>>)]
MCF(inv, inp) == <<inv, inp>>
MCShared == Design = "shared"
=============================================================================
