------------------------------- MODULE ItemDef -------------------------------
(***************************************************************************)
(* Typed inputs and outputs (DMN 1.3, 7.3.2 / 10.3.2.9.4).                  *)
(* Item definition trees:                                                   *)
(*   [d |-> "simple", ty, av]   ty: a built-in typeRef; av: allowed values  *)
(*                              ("none", "num12" = 1, 2, "strab" = "a","b") *)
(*   [d |-> "ref",  to |-> T]   a reference to another item definition      *)
(*   [d |-> "comp", cs |-> << [name, ty |-> T] >>]  components              *)
(*   [d |-> "coll", of |-> T]   collection of T (T simple, ref or comp)     *)
(* Admit(T, v): what reaches the decision logic when v is supplied for an   *)
(* input of type T - v itself when it conforms, null otherwise, for a       *)
(* component type the non-conforming component only.                        *)
(* OutType(T) / FeelType!Coerce: what a decision declared to return T       *)
(* returns for a logic value v.                                             *)
(***************************************************************************)
EXTENDS FeelEval, FeelType

TyName(ty) == CASE ty = "number" -> "number" [] ty = "string" -> "string" [] ty = "boolean" -> "boolean"
                [] ty = "date" -> "date" [] ty = "time" -> "time" [] ty = "dateTime" -> "dt"
                [] ty = "dayTimeDuration" -> "dtd" [] ty = "yearMonthDuration" -> "ymd"

Allowed(av, v) == CASE av = "none" -> TRUE
                    [] av = "num12" -> v.k = "num" /\ v.e = 0 /\ v.m \in {1, 2}
                    [] av = "strab" -> v.k = "str" /\ v.cp \in {<<97>>, <<98>>}

RECURSIVE Admit(_, _)
Admit(T, v) ==
  IF IsU(v) THEN Unspec
  ELSE IF v.k = "null" THEN Null
  ELSE IF T.d = "simple" THEN (IF KindType(v.k) = TyName(T.ty) /\ Allowed(T.av, v) THEN v ELSE Null)
  ELSE IF T.d = "ref" THEN Admit(T.to, v)
  ELSE IF T.d = "comp" THEN
       IF v.k # "ctx" THEN Null
       ELSE IF \E i \in 1..Len(T.cs) : ~HasKey(v, T.cs[i].name) THEN Unspec                  \* a missing component
       ELSE IF Len(v.ents) # Len(T.cs) THEN Unspec                                            \* entries beyond the components
       ELSE LET r == [i \in 1..Len(T.cs) |-> [n |-> T.cs[i].name, v |-> Admit(T.cs[i].ty, Get(v, T.cs[i].name))]] IN
            IF \E i \in 1..Len(T.cs) : r[i].v.k = "unspec" THEN Unspec ELSE Ctx(r)
  ELSE \* collection
       IF T.of.d = "simple" /\ T.of.av # "none" THEN Unspec    \* allowed values directly on a collection: per element or per list? not settled
       ELSE IF v.k # "list" THEN Null
       ELSE LET r == [i \in 1..Len(v.items) |-> Admit(T.of, v.items[i])] IN
            IF \E i \in 1..Len(v.items) : IsU(r[i]) THEN Unspec
            \* an element that does not conform (it would be replaced by null) makes the list non-conforming: the list is
            \* replaced by null as a whole; an element of a component type keeps its place with only its non-conforming
            \* components replaced
            ELSE IF \E i \in 1..Len(v.items) : r[i].k = "null" /\ v.items[i].k # "null" THEN Null
            ELSE List(r)

\* the FEEL type an item definition denotes
RECURSIVE OutType(_)
OutType(T) == CASE T.d = "simple" -> Simple(TyName(T.ty))
                [] T.d = "ref" -> OutType(T.to)
                [] T.d = "comp" -> TCtx([i \in 1..Len(T.cs) |-> Ent(T.cs[i].name, OutType(T.cs[i].ty))])
                [] T.d = "coll" -> TList(OutType(T.of))
Returned(T, v) == Coerce(OutType(T), v).v
=============================================================================
