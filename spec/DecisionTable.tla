---------------------------- MODULE DecisionTable ----------------------------
(***************************************************************************)
(* Decision tables and their hit policies (DMN 1.3, 8.2 / 8.3).             *)
(*                                                                         *)
(* table == [hp, ins, outs, rules]                                          *)
(*   hp    "U" "A" "P" "F" "R" "O" "C" "C+" "C<" "C>" "C#"                  *)
(*   ins   << [name, allowed] >>  allowed: a unary-tests tree or [n |-> "none"]*)
(*   outs  << [name, prio, def] >> prio: the output values (a sequence of   *)
(*         values, highest priority first, possibly empty); def: the        *)
(*         default output value or [k |-> "none"]                           *)
(*   rules << [ins: << unary-tests tree >>, outs: << expression tree >>] >> *)
(* Input entries: [n |-> "any"] ("-"), an "elist" of tests (disjunction),   *)
(* a "notlist" (not(...)), or a single test / literal.  A rule matches when *)
(* every input entry is satisfied by the corresponding input value (and the *)
(* value is among the allowed input values, when these are given).          *)
(***************************************************************************)
EXTENDS FeelEval

IsTrue(v) == v = Bool(TRUE)
\* does the value satisfy the unary tests of an input entry: Bool / Null / Unspec
Satisfies(v, t, sc) ==
  IF v.k = "null" THEN Unspec                  \* a null input value (even against "-"): implementations differ
  ELSE IF t.n = "any" THEN Bool(TRUE)
  ELSE IF t.n = "notlist" THEN
       (LET r == InTest(v, [n |-> "elist", items |-> t.items], sc) IN IF r.k = "bool" THEN Bool(~r.b) ELSE r)
  ELSE InTest(v, t, sc)

\* "yes" / "no" / "unspec"
RuleMatch(table, r, inputs, sc) ==
  LET res == [i \in 1..Len(table.ins) |->
                LET e == Satisfies(inputs[i], table.rules[r].ins[i], sc)
                    a == IF table.ins[i].allowed.n = "none" THEN Bool(TRUE) ELSE Satisfies(inputs[i], table.ins[i].allowed, sc)
                IN IF IsU(e) \/ IsU(a) THEN "unspec" ELSE IF IsTrue(e) /\ IsTrue(a) THEN "yes" ELSE "no"]
  IN IF \E i \in 1..Len(table.ins) : res[i] = "no" THEN "no"
     ELSE IF \E i \in 1..Len(table.ins) : res[i] = "unspec" THEN "unspec" ELSE "yes"

RECURSIVE HitsFrom(_, _, _, _)
HitsFrom(table, r, inputs, sc) ==
  IF r > Len(table.rules) THEN <<>>
  ELSE (IF RuleMatch(table, r, inputs, sc) = "yes" THEN <<r>> ELSE <<>>) \o HitsFrom(table, r + 1, inputs, sc)

\* the output of rule r: a single value, or a context keyed by the output names
OutOf(table, r, sc) ==
  LET vals == [j \in 1..Len(table.outs) |-> Eval(table.rules[r].outs[j], sc)] IN
  IF Len(table.outs) = 1 THEN vals[1]
  ELSE Ctx([j \in 1..Len(table.outs) |-> [n |-> table.outs[j].name, v |-> vals[j]]])

\* position of value v in the priority list of output j (0 = not listed)
PrioPos(table, j, v) ==
  LET p == table.outs[j].prio IN
  IF \E k \in 1..Len(p) : Eq3(p[k], v) = Bool(TRUE) THEN CHOOSE k \in 1..Len(p) : Eq3(p[k], v) = Bool(TRUE) /\ \A m \in 1..(k - 1) : Eq3(p[m], v) # Bool(TRUE)
  ELSE 0

\* rule a comes strictly before rule b in output-priority order (lexicographic over the outputs)
RECURSIVE Before(_, _, _, _, _)
Before(table, a, b, j, sc) ==
  IF j > Len(table.outs) THEN FALSE
  ELSE LET pa == PrioPos(table, j, Eval(table.rules[a].outs[j], sc))
           pb == PrioPos(table, j, Eval(table.rules[b].outs[j], sc))
       IN IF pa < pb THEN TRUE ELSE IF pa > pb THEN FALSE ELSE Before(table, a, b, j + 1, sc)

\* stable sort of the hit sequence by priority (insertion sort)
RECURSIVE InsertP(_, _, _, _), SortP(_, _, _)
InsertP(table, s, r, sc) == IF s = <<>> THEN <<r>>
                            ELSE IF Before(table, r, s[1], 1, sc) THEN <<r>> \o s ELSE <<s[1]>> \o InsertP(table, Tail(s), r, sc)
SortP(table, hits, sc) == IF hits = <<>> THEN <<>>
                          ELSE LET rest == SortP(table, SubSeq(hits, 1, Len(hits) - 1), sc) IN
                               \* insert the last hit after all hits that are not after it (keeps rule order among equals)
                               LET r == hits[Len(hits)]
                                   RECURSIVE Ins(_)
                                   Ins(s) == IF s = <<>> THEN <<r>>
                                             ELSE IF Before(table, r, s[1], 1, sc) THEN <<r>> \o s ELSE <<s[1]>> \o Ins(Tail(s))
                               IN Ins(rest)

AllListed(table, hits, sc) ==
  \A i \in 1..Len(hits) : \A j \in 1..Len(table.outs) : PrioPos(table, j, Eval(table.rules[hits[i]].outs[j], sc)) > 0

RECURSIVE SumV(_, _)
SumV(vs, i) == IF i > Len(vs) THEN Num(0, 0) ELSE LET rest == SumV(vs, i + 1) IN IF IsU(rest) THEN Unspec ELSE AddN(vs[i], rest)
RECURSIVE BestV(_, _, _)
BestV(vs, i, wantMin) ==
  IF i = Len(vs) THEN vs[i]
  ELSE LET rest == BestV(vs, i + 1, wantMin) IN
       IF IsU(rest) THEN Unspec
       ELSE LET c == CmpN(vs[i], rest) IN IF c = 2 THEN Unspec ELSE IF (wantMin /\ c <= 0) \/ (~wantMin /\ c >= 0) THEN vs[i] ELSE rest

Default(table) ==
  IF Len(table.outs) = 1 THEN (IF table.outs[1].def.k = "none" THEN Null ELSE table.outs[1].def)
  ELSE IF \A j \in 1..Len(table.outs) : table.outs[j].def.k = "none" THEN Null ELSE Unspec   \* compound default: not settled

\* the value of the table for the given input values (sc: the scope the entries are evaluated in)
Result(table, inputs, sc) ==
  LET anyU == \E r \in 1..Len(table.rules) : RuleMatch(table, r, inputs, sc) = "unspec"
      hits == HitsFrom(table, 1, inputs, sc)
      outs == [i \in 1..Len(hits) |-> OutOf(table, hits[i], sc)]
      hp   == table.hp
  IN
  IF anyU THEN Unspec
  \* output values double as the allowed values of the output: what becomes of a matching rule's output that is not
  \* among them is not settled by the property (this implementation nulls it)
  ELSE IF \E i \in 1..Len(hits), j \in 1..Len(table.outs) :
            table.outs[j].prio # <<>> /\ PrioPos(table, j, Eval(table.rules[hits[i]].outs[j], sc)) = 0 THEN Unspec
  \* "when no rule matches the result is the default output entry if one is defined and null otherwise": for every
  \* hit policy, the aggregating ones included (a count of no hits is not 0, a sum of no hits is not 0)
  ELSE IF hits = <<>> THEN Default(table)
  ELSE IF hp = "U" THEN (IF Len(hits) = 1 THEN outs[1] ELSE Null)
  ELSE IF hp = "A" THEN
       (LET eqs == [i \in 1..Len(hits) |-> Eq3(outs[1], outs[i])] IN
        IF \A i \in 1..Len(hits) : eqs[i] = Bool(TRUE) THEN outs[1]
        ELSE IF \E i \in 1..Len(hits) : eqs[i] = Bool(FALSE) THEN Null ELSE Unspec)
  ELSE IF hp = "F" THEN outs[1]
  ELSE IF hp \in {"R", "C"} THEN List(outs)
  ELSE IF hp \in {"P", "O"} THEN
       (IF ~AllListed(table, hits, sc) THEN Unspec
        ELSE LET s == SortP(table, hits, sc) IN
             IF hp = "P" THEN OutOf(table, s[1], sc) ELSE List([i \in 1..Len(s) |-> OutOf(table, s[i], sc)]))
  ELSE IF hp = "C#" THEN Num(Len(hits), 0)
  ELSE IF Len(table.outs) # 1 \/ \E i \in 1..Len(hits) : outs[i].k # "num" THEN Unspec
  ELSE IF hp = "C+" THEN SumV(outs, 1)
  ELSE IF hp = "C<" THEN BestV(outs, 1, TRUE)
  ELSE BestV(outs, 1, FALSE)
=============================================================================
