SPECIFICATION SpecAsWritten
CONSTANT Big = FALSE Wide = FALSE
INVARIANTS IndexesAgree
CHECK_DEADLOCK FALSE
