SPECIFICATION SpecAsWritten
CONSTANT Big = FALSE
INVARIANTS IndexesAgree
CHECK_DEADLOCK FALSE
