----------------------------- MODULE Trace_C09 -----------------------------
(* C09 - the laws of three-valued logic, equality and ordering, evaluated   *)
(* by TLC directly over the table of observations taken from the            *)
(* implementation (no pointwise model of "the right answer" is involved     *)
(* except the and/or truth tables, which the property states outright).     *)
(*                                                                         *)
(* TRACE holds one record: n values with their kinds, for every ordered     *)
(* pair the result of = != < <= > >= and or, and for every triple (x,a,b)   *)
(* the result of  x between a and b,  x in [a..b] (a..b) [a..b) (a..b],     *)
(* and of the four comparison conjunctions.  Result codes: 0 null, 1 true,  *)
(* 2 false, 3 any other value, 4 panic.                                     *)
EXTENDS Naturals, Sequences, TLC, Json, IOUtils

Obs == ndJsonDeserialize(IOEnv.TRACE)[1]
Idx == 1..Obs.n
K(i) == Obs.kind[i]

\* truth value of an operand: every non-boolean counts as null
T3(i) == IF K(i) = "bool" THEN Obs.bval[i] ELSE 0
And3(a, b) == IF a = 2 \/ b = 2 THEN 2 ELSE IF a = 1 /\ b = 1 THEN 1 ELSE 0
Or3(a, b)  == IF a = 1 \/ b = 1 THEN 1 ELSE IF a = 2 /\ b = 2 THEN 2 ELSE 0
Neg(r)     == IF r = 1 THEN 2 ELSE IF r = 2 THEN 1 ELSE r
Ordered(k) == k \in {"num", "str", "date"}
\* The other kinds that < is defined for - times, date-times and the two kinds of durations - are ordered kinds as well,
\* but two of their values need not be comparable (a local time against one with an offset, a time of day in a named
\* zone): for them the laws are demanded in conditional form, of the pairs and triples whose comparisons all have an answer
OrderedIfComparable(k) == k \in {"time", "dt", "dtd", "ymd"}
Def(r) == r \in {1, 2}
Tri(r)     == r \in {0, 1, 2}
Ones(a, b, c) == (IF a = 1 THEN 1 ELSE 0) + (IF b = 1 THEN 1 ELSE 0) + (IF c = 1 THEN 1 ELSE 0)

Fail(law, i, j, x) == PrintT(<<"LAWFAIL", ToJson([law |-> law, i |-> i, j |-> j, x |-> x])>>)

PairLaws ==
  \A i, j \in Idx :
    /\ Obs.and[i][j] = And3(T3(i), T3(j)) \/ Fail("and-truth-table", i, j, 0)
    /\ Obs.or[i][j]  = Or3(T3(i), T3(j))  \/ Fail("or-truth-table", i, j, 0)
    /\ Tri(Obs.eq[i][j])                  \/ Fail("eq-not-three-valued", i, j, 0)
    /\ Obs.eq[i][j] = Obs.eq[j][i]        \/ Fail("eq-symmetric", i, j, 0)
    /\ Obs.ne[i][j] = Neg(Obs.eq[i][j])   \/ Fail("ne-is-negation-of-eq", i, j, 0)
    /\ Obs.lt[i][j] = Obs.gt[j][i]        \/ Fail("lt-mirrors-gt", i, j, 0)
    /\ Obs.le[i][j] = Obs.ge[j][i]        \/ Fail("le-mirrors-ge", i, j, 0)
    /\ (K(i) = K(j) /\ Ordered(K(i))) =>
         /\ (Ones(Obs.lt[i][j], Obs.eq[i][j], Obs.gt[i][j]) = 1
               /\ Obs.lt[i][j] \in {1, 2} /\ Obs.eq[i][j] \in {1, 2} /\ Obs.gt[i][j] \in {1, 2})
            \/ Fail("trichotomy", i, j, 0)
         /\ Obs.le[i][j] = Or3(Obs.lt[i][j], Obs.eq[i][j]) \/ Fail("le-is-lt-or-eq", i, j, 0)
         /\ Obs.ge[i][j] = Or3(Obs.gt[i][j], Obs.eq[i][j]) \/ Fail("ge-is-gt-or-eq", i, j, 0)
    /\ (K(i) = K(j) /\ OrderedIfComparable(K(i)) /\ Def(Obs.lt[i][j]) /\ Def(Obs.eq[i][j]) /\ Def(Obs.gt[i][j])) =>
         /\ Ones(Obs.lt[i][j], Obs.eq[i][j], Obs.gt[i][j]) = 1 \/ Fail("trichotomy (times, date-times, durations)", i, j, 0)
         /\ (Def(Obs.le[i][j]) => Obs.le[i][j] = Or3(Obs.lt[i][j], Obs.eq[i][j])) \/ Fail("le-is-lt-or-eq (times, date-times, durations)", i, j, 0)
         /\ (Def(Obs.ge[i][j]) => Obs.ge[i][j] = Or3(Obs.gt[i][j], Obs.eq[i][j])) \/ Fail("ge-is-gt-or-eq (times, date-times, durations)", i, j, 0)

TripleLaws ==
  \A x, i, j \in Idx :
    (K(x) = K(i) /\ K(i) = K(j) /\ Ordered(K(x))) =>
      /\ Obs.btw[x][i][j]   = Obs.cmp_cc[x][i][j] \/ Fail("between-vs-comparisons", i, j, x)
      /\ Obs.in_cc[x][i][j] = Obs.cmp_cc[x][i][j] \/ Fail("in-closed-closed-vs-comparisons", i, j, x)
      /\ Obs.in_oo[x][i][j] = Obs.cmp_oo[x][i][j] \/ Fail("in-open-open-vs-comparisons", i, j, x)
      /\ Obs.in_co[x][i][j] = Obs.cmp_co[x][i][j] \/ Fail("in-closed-open-vs-comparisons", i, j, x)
      /\ Obs.in_oc[x][i][j] = Obs.cmp_oc[x][i][j] \/ Fail("in-open-closed-vs-comparisons", i, j, x)
      /\ Obs.cmp_cc[x][i][j] = And3(Obs.le[i][x], Obs.le[x][j]) \/ Fail("conjunction-vs-pair-table", i, j, x)

\* the same agreement for times, date-times and durations, of the triples whose two comparisons have an answer
TripleLawsIfComparable ==
  \A x, i, j \in Idx :
    (K(x) = K(i) /\ K(i) = K(j) /\ OrderedIfComparable(K(x)) /\ Def(Obs.le[i][x]) /\ Def(Obs.le[x][j]) /\ Def(Obs.lt[i][x]) /\ Def(Obs.lt[x][j])) =>
      /\ Obs.btw[x][i][j]   = Obs.cmp_cc[x][i][j] \/ Fail("between-vs-comparisons (times, date-times, durations)", i, j, x)
      /\ Obs.in_cc[x][i][j] = Obs.cmp_cc[x][i][j] \/ Fail("in-closed-closed-vs-comparisons (times, date-times, durations)", i, j, x)
      /\ Obs.in_oo[x][i][j] = Obs.cmp_oo[x][i][j] \/ Fail("in-open-open-vs-comparisons (times, date-times, durations)", i, j, x)
      /\ Obs.in_co[x][i][j] = Obs.cmp_co[x][i][j] \/ Fail("in-closed-open-vs-comparisons (times, date-times, durations)", i, j, x)
      /\ Obs.in_oc[x][i][j] = Obs.cmp_oc[x][i][j] \/ Fail("in-open-closed-vs-comparisons (times, date-times, durations)", i, j, x)
      /\ Obs.cmp_cc[x][i][j] = And3(Obs.le[i][x], Obs.le[x][j]) \/ Fail("conjunction-vs-pair-table (times, date-times, durations)", i, j, x)

VARIABLE st
Init == st = 0
Next == st = 0 /\ st' = 1 /\ PairLaws /\ TripleLaws /\ TripleLawsIfComparable /\ PrintT(<<"LAWS-EVALUATED", Obs.n>>)
=============================================================================
