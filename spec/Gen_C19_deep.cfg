INIT Init
NEXT Next
CONSTANT Deep = TRUE
CHECK_DEADLOCK FALSE
