-------------------------- MODULE SelfTest_Stddev --------------------------
(* Worked cases for Stddev!Judge (values cross-checked with CPython's decimal at 60 digits). *)
EXTENDS Naturals, Integers, Sequences, TLC
SD == INSTANCE Stddev
RECURSIVE Dg(_)
Dg(n) == IF n = 0 THEN <<>> ELSE Dg(n \div 10) \o <<n % 10>>
N(s, c, e) == [k |-> "num", fin |-> TRUE, s |-> s, c |-> c, e |-> e]
I(n) == N(0, Dg(n), 0)
Big(k) == N(0, <<1>> \o [i \in 1..18 |-> 0] \o <<k>>, 0)          \* 10^19 + k
R577 == N(0, <<5,7,7,3,5,0,2,6,9,1,8,9,6,2,5,7,6,4,5,0,9,1,4,8,7,8,0,5,0,1,9,5,7,5>>, 0 - 34)   \* stddev(1,2,2) = 0.5773502691896257645091487805019575 (exact ...574810...)
R707 == N(0, <<7,0,7,1,0,6,7,8,1,1,8,6,5,4,7,5,2,4,4,0,0,8,4,4,3,6,2,1,0,4,8,4,9>>, 0 - 33)     \* stddev(x, x+1) = 0.7071067811865475244008443621048490
Cases == <<
  [xs |-> <<I(1), I(2), I(2)>>, o |-> R577, want |-> "ok"],
  [xs |-> <<I(1), I(2), I(2)>>, o |-> N(0, <<5,7,7,3,5,0,2,6,9,1,8,9,6,2,5,7,6,4,5,0,9,1,4,8,7,8,0,5,0,1,9,5,7,6>>, 0 - 34), want |-> "ok"],
  [xs |-> <<I(1), I(2), I(2)>>, o |-> N(0, <<5,7,7,3,5,0,2,6,9,1,8,9,6,2,5,7,6,4,6>>, 0 - 19), want |-> "bad"],   \* off in the 19th digit
  [xs |-> <<Big(1), Big(2), Big(3)>>, o |-> I(1), want |-> "ok"],
  [xs |-> <<Big(1), Big(2), Big(3)>>, o |-> N(0, <<>>, 0), want |-> "bad"],
  [xs |-> <<Big(1), Big(2), Big(3)>>, o |-> I(2), want |-> "bad"],
  [xs |-> <<Big(1), Big(2)>>, o |-> R707, want |-> "ok"],
  [xs |-> <<N(1, <<5>>, 0 - 1), N(0, <<1,5>>, 0 - 1)>>, o |-> N(0, <<1,4,1,4,2,1,3,5,6,2,3,7,3,0,9,5,0,4,8,8,0,1,6,8,8,7,2,4,2,0,9,7>>, 0 - 31), want |-> "ok"],   \* stddev(-0.5, 1.5) = sqrt 2
  [xs |-> <<I(2), I(2), I(2)>>, o |-> N(0, <<>>, 0), want |-> "ok"],
  [xs |-> <<I(2), I(2), I(2)>>, o |-> N(0, <<1>>, 0 - 10), want |-> "bad"],
  [xs |-> <<I(1), I(3)>>, o |-> [k |-> "null"], want |-> "bad"],
  [xs |-> <<I(1), I(3)>>, o |-> [k |-> "num", fin |-> FALSE], want |-> "bad"],
  [xs |-> <<I(1), I(3)>>, o |-> N(1, <<1,4,1,4,2,1,3,5,6,2,3,7,3,0,9,5,0,4,8,8,0,1,6,8,8,7,2,4,2,0,9,7>>, 0 - 31), want |-> "bad"],
  [xs |-> <<N(0, <<1>>, 2000), I(3)>>, o |-> I(1), want |-> "unspec"]
>>
Class(w) == IF w \in {"ok", "unspec"} THEN w ELSE "bad"
ASSUME \A i \in 1..Len(Cases) : LET w == SD!Judge(Cases[i].xs, Cases[i].o) IN
          Class(w) = Cases[i].want \/ (PrintT(<<"SELFTEST-FAIL", i, w>>) /\ FALSE)
VARIABLE x
Init == x = 0
Next == FALSE /\ x' = x
=============================================================================
