------------------------------ MODULE Gen_C07 ------------------------------
(* C07 stimuli: every exponent -6176..6111 combined with coefficient        *)
(* patterns of the lengths 1, 2, 17, 33, 34 (Deep: every length 1..34),     *)
(* with and without trailing zeros, both signs.  The specification states   *)
(* the classes; the harness forms the cross product it prescribes.          *)
EXTENDS Naturals, Integers, Sequences, TLC, Json
CONSTANT Deep
Pat(n) == SubSeq([i \in 1..n |-> IF i = 1 THEN 1 + (n % 9) ELSE IF i = n THEN 7 ELSE (i * 7 + n) % 10], 1, n)   \* first and last digit non-zero
Nines(n) == SubSeq([i \in 1..n |-> 9], 1, n)
Lengths == IF Deep THEN 1..34 ELSE {1, 2, 17, 33, 34}
Coefs == {Pat(n) : n \in Lengths} \cup {Nines(34), <<1>>, <<5>>}
ASSUME PrintT(<<"CLASSES", ToJson([coefs |-> Coefs, emin |-> 0 - 6176, emax |-> 6111, scales |-> {0, 1, 2}, signs |-> {0, 1}])>>)
VARIABLE x
Init == x = 0
Next == FALSE /\ x' = x
=============================================================================
