---------------------------- MODULE Predict_C20 ----------------------------
(* C20, schedules that did not occur: the per-thread sequences of lock      *)
(* operations recorded by hook H4 in one real run (IOEnv.SCRIPTS, one line  *)
(* per thread: the steps of Concurrent.tla) are replayed by TLC in EVERY    *)
(* interleaving, under both lock semantics, looking for deadlock, lock       *)
(* inconsistency and results that are not the thread's own.                 *)
EXTENDS Concurrent, TLC, Json, IOUtils
Lines == ndJsonDeserialize(IOEnv.SCRIPTS)
PThreads == 1..Len(Lines)
PScript == [t \in PThreads |-> Lines[t].steps]
PLocks == UNION {{PScript[t][k].l : k \in 1..Len(PScript[t])} : t \in PThreads} \ {""}
PF(inv, inp) == <<inv, inp>>
Writes == \E t \in PThreads : \E k \in 1..Len(PScript[t]) : PScript[t][k].op = "write"
\* reported once, from the initial state
ASSUME PrintT(<<"SCRIPTS", Len(Lines), Cardinality(PLocks), IF Writes THEN "with-writes" ELSE "reads-only">>)
=============================================================================
