----------------------------- MODULE Trace_C18 -----------------------------
(* impl -> spec for the HTTP service.  Each line of TRACE is one request    *)
(* sequence sent to a freshly cleared live server; BODIES lists the         *)
(* distinct response bodies as code-point sequences.  The specification     *)
(* decodes every body itself (JsonText): a body that is not a well-formed   *)
(* JSON document with exactly a `data` or an `errors` member explains no    *)
(* action.  The workspace state is not observable over HTTP; TLC infers it  *)
(* from the Server actions and the probes (evaluate `v` of every model      *)
(* name) logged with some events.                                           *)
EXTENDS Server, JsonText, TLC, Json, IOUtils

Paths  == ndJsonDeserialize(IOEnv.TRACE)
Bodies == ndJsonDeserialize(IOEnv.BODIES)
Parsed == [i \in 1..Len(Bodies) |-> ParseJson(Bodies[i].cp)]

DATA   == <<100, 97, 116, 97>>
ERRORS == <<101, 114, 114, 111, 114, 115>>

\* class of a response body: "ok" (data), "err" (errors: non-empty list), or "bad"
Class(b) == LET r == Parsed[b] IN
            IF ~r.ok \/ r.v.k # "ctx" THEN "bad"
            ELSE IF HasMember(r.v, DATA) /\ ~HasMember(r.v, ERRORS) THEN "ok"
            ELSE IF HasMember(r.v, ERRORS) /\ ~HasMember(r.v, DATA)
                    /\ Member(r.v, ERRORS).k = "list" /\ Len(Member(r.v, ERRORS).items) > 0 THEN "err"
            ELSE "bad"
Data(b) == Member(Parsed[b].v, DATA)

IdCp == [A |-> <<65>>, A2 |-> <<65, 50>>, B |-> <<66>>, C |-> <<67>>, D |-> <<68>>,
         E |-> <<69>>, F |-> <<70>>, G |-> <<71>>, H |-> <<72>>]
NameSeq == <<"n1", "n2", "n3", "n4">>

VARIABLES p, l
E == Paths[p].evs[l]
Ev(name) == l <= Len(Paths[p].evs) /\ E.ev = name
ById(id) == {m \in Models : m.id = id}
Has(f) == f \in DOMAIN E

\* probes: evaluation of decision `v` of each model name after the request
ProbeOk == Has("probe") =>
   /\ \A i \in 1..4 : Class(E.probe[i]) # "bad"
   /\ evals' = {NameSeq[i] : i \in {j \in 1..4 : Class(E.probe[j]) = "ok"}}
   /\ \A i \in 1..4 : Class(E.probe[i]) = "ok" =>
        \E m \in defs' : m.nm = NameSeq[i] /\ Data(E.probe[i]) = [k |-> "str", cp |-> IdCp[m.id]]

Reply == Class(E.b) # "bad" /\ res' = Class(E.b)

TAdd     == Ev("add")     /\ \E m \in ById(E.m) : PostAdd(m)
TReplace == Ev("replace") /\ \E m \in ById(E.m) : PostReplace(m)
TRemove  == Ev("remove")  /\ PostRemove(E.ns, E.nm)
TClear   == Ev("clear")   /\ PostClear
TDeploy  == Ev("deploy")  /\ PostDeploy
TEval    == Ev("eval")    /\ PostEvaluate(E.nm)
                          /\ (Class(E.b) = "ok" => \E m \in defs : m.nm = E.nm /\ Data(E.b) = [k |-> "str", cp |-> IdCp[m.id]])
TInv     == Ev("evalinv") /\ UnknownInvocable(E.nm)
TBad     == Ev("bad")     /\ Malformed(E.kind)

\* the service was started on a directory holding the models E.cands (WorkspaceCore!LoadDirLoose: some clash-free subset
\* of them, loaded and deployed - which one, the probes tell); there is no reply to judge
Cands    == {m \in Models : \E i \in DOMAIN E.cands : E.cands[i] = m.id}
TStart   == Ev("start")   /\ l = 1 /\ \E T \in SUBSET Cands : LoadDirLoose(Cands, T)

Max(a, b) == IF a > b THEN a ELSE b
Step == /\ \/ (TAdd \/ TReplace \/ TRemove \/ TClear \/ TDeploy \/ TEval \/ TInv \/ TBad) /\ Reply
           \/ TStart
        /\ ProbeOk
        /\ Inv'
        /\ l' = l + 1 /\ p' = p
        /\ TLCSet(p, Max(TLCGet(p), l + 1))

TInit == Init /\ p \in 1..Len(Paths) /\ l = 1 /\ TLCSet(p, 1)
TNext == Step

\* a path is accepted iff some behaviour of Server consumed all of its events
Accepted == \A q \in 1..Len(Paths) :
              TLCGet(q) = Len(Paths[q].evs) + 1 \/ PrintT(<<"REJECT", q, TLCGet(q)>>)
Post == Accepted /\ PrintT(<<"CONSUMED", Len(Paths)>>)
=============================================================================
