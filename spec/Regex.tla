------------------------------- MODULE Regex -------------------------------
(***************************************************************************)
(* Regular expressions as FEEL's matches / replace / split use them (XPath  *)
(* / XML Schema regular expressions, the common core): a syntax tree, its   *)
(* pattern text, and leftmost-first ("backtracking order") matching over    *)
(* code-point sequences.                                                    *)
(*                                                                         *)
(*   [r |-> "chr", c]            one code point                             *)
(*   [r |-> "any"]               .  (any code point except line feed)       *)
(*   [r |-> "cls", set, neg]     [abc] / [^abc]   (set: sequence of cps)    *)
(*   [r |-> "rng", lo, hi, neg]  [a-z] / [^a-z]                             *)
(*   [r |-> "cat", a, b]  [r |-> "alt", a, b]                               *)
(*   [r |-> "star", a]  [r |-> "plus", a]  [r |-> "opt", a]   (greedy)      *)
(*   [r |-> "grp", a, g]         capturing group number g                   *)
(*   [r |-> "bol"]  [r |-> "eol"]   ^ and $                                 *)
(*   [r |-> "rep", a, lo, hi]    a{lo,hi} (greedy; hi = lo: a{lo})           *)
(*   [r |-> "uc", c, neg]        class escapes \w \d \s \p{L} (c = "w", "d",  *)
(*                               "s", "L") and their negations \W \D \S      *)
(*                               \P{L}, decided for the code points of       *)
(*                               KnownCps only                               *)
(* M(r, s, i, caps): the sequence of ways r can match s starting at         *)
(* position i, in the order a backtracking matcher tries them; each is      *)
(* [e |-> position after the match, caps |-> captures so far].  The first   *)
(* element is "the" match at i (leftmost-first semantics).                  *)
(***************************************************************************)
EXTENDS Naturals, Sequences

Chr(c) == [r |-> "chr", c |-> c]
Cat(a, b) == [r |-> "cat", a |-> a, b |-> b]
Alt(a, b) == [r |-> "alt", a |-> a, b |-> b]
Star(a) == [r |-> "star", a |-> a]
Plus(a) == [r |-> "plus", a |-> a]
Opt(a) == [r |-> "opt", a |-> a]
Grp(a, g) == [r |-> "grp", a |-> a, g |-> g]

\* ---- pattern text
IsAtomLike(r) == r.r \in {"chr", "any", "cls", "rng", "grp", "uc"}
RECURSIVE DecDigits(_)
DecDigits(n) == IF n < 10 THEN <<48 + n>> ELSE DecDigits(n \div 10) \o <<48 + (n % 10)>>
RECURSIVE Render(_)
Paren(r) == IF IsAtomLike(r) THEN Render(r) ELSE <<40, 63, 58>> \o Render(r) \o <<41>>       \* (?: ... )
Special == {40, 41, 42, 43, 46, 63, 91, 92, 93, 94, 36, 123, 124, 125, 45}
Render(r) ==
  CASE r.r = "chr" -> IF r.c \in Special THEN <<92, r.c>> ELSE <<r.c>>
    [] r.r = "any" -> <<46>>
    [] r.r = "cls" -> <<91>> \o (IF r.neg THEN <<94>> ELSE <<>>) \o r.set \o <<93>>
    [] r.r = "rng" -> <<91>> \o (IF r.neg THEN <<94>> ELSE <<>>) \o <<r.lo, 45, r.hi>> \o <<93>>
    [] r.r = "cat" -> (IF r.a.r = "alt" THEN Paren(r.a) ELSE Render(r.a)) \o (IF r.b.r = "alt" THEN Paren(r.b) ELSE Render(r.b))
    [] r.r = "alt" -> Render(r.a) \o <<124>> \o Render(r.b)
    [] r.r = "star" -> Paren(r.a) \o <<42>>
    [] r.r = "plus" -> Paren(r.a) \o <<43>>
    [] r.r = "opt" -> Paren(r.a) \o <<63>>
    [] r.r = "grp" -> <<40>> \o Render(r.a) \o <<41>>
    [] r.r = "bol" -> <<94>>
    [] r.r = "eol" -> <<36>>
    [] r.r = "rep" -> Paren(r.a) \o <<123>> \o DecDigits(r.lo) \o (IF r.hi = r.lo THEN <<>> ELSE <<44>> \o DecDigits(r.hi)) \o <<125>>
    [] r.r = "uc" -> CASE r.c = "w" -> <<92, IF r.neg THEN 87 ELSE 119>>
                       [] r.c = "d" -> <<92, IF r.neg THEN 68 ELSE 100>>
                       [] r.c = "s" -> <<92, IF r.neg THEN 83 ELSE 115>>
                       [] OTHER -> <<92, IF r.neg THEN 80 ELSE 112, 123, 76, 125>>          \* \p{L} / \P{L}

\* the code points whose classes are written down here (subjects of patterns with class escapes stay among them):
\* letters (ASCII, Latin-1, Latin Extended, Cyrillic, CJK), decimal digits, white space, the hyphen (punctuation)
KnownLetters == (97..122) \cup (65..90) \cup {233, 243, 263, 322, 380, 1078, 20013}
KnownDigits == 48..57
KnownSpaces == {32, 9, 10}
KnownCps == KnownLetters \cup KnownDigits \cup KnownSpaces \cup {45}
InUc(c, cp) == CASE c = "w" -> cp \in KnownLetters \cup KnownDigits
                 [] c = "d" -> cp \in KnownDigits
                 [] c = "s" -> cp \in KnownSpaces
                 [] OTHER -> cp \in KnownLetters

\* ---- matching
InSeq(c, q) == \E k \in 1..Len(q) : q[k] = c
One(s, i, ok, caps) == IF i <= Len(s) /\ ok THEN <<[e |-> i + 1, caps |-> caps]>> ELSE <<>>

RECURSIVE M(_, _, _, _), Thread(_, _, _, _), StarFrom(_, _, _, _), RepTree(_, _, _)
\* a{lo,hi} written with the other constructs: lo copies of a, then hi - lo nested greedy options  a(a(a)?)?
RepTree(a, lo, hi) == IF lo > 0 THEN (IF hi = 1 THEN a ELSE [r |-> "cat", a |-> a, b |-> RepTree(a, lo - 1, hi - 1)])
                      ELSE IF hi = 1 THEN [r |-> "opt", a |-> a]
                      ELSE [r |-> "opt", a |-> [r |-> "cat", a |-> a, b |-> RepTree(a, 0, hi - 1)]]
\* continue with r from every match of a list, in order
Thread(ms, r, s, k) == IF k > Len(ms) THEN <<>> ELSE M(r, s, ms[k].e, ms[k].caps) \o Thread(ms, r, s, k + 1)
\* greedy star: for each way the body matches (consuming something), the star again; finally the empty match
StarFrom(a, s, i, caps) ==
  LET body == M(a, s, i, caps)
      RECURSIVE Each(_)
      Each(k) == IF k > Len(body) THEN <<>>
                 ELSE (IF body[k].e > i THEN StarFrom(a, s, body[k].e, body[k].caps) ELSE <<>>) \o Each(k + 1)
  IN Each(1) \o <<[e |-> i, caps |-> caps]>>
M(r, s, i, caps) ==
  CASE r.r = "chr" -> One(s, i, i <= Len(s) /\ s[i] = r.c, caps)
    [] r.r = "any" -> One(s, i, i <= Len(s) /\ s[i] # 10, caps)
    [] r.r = "cls" -> One(s, i, i <= Len(s) /\ (InSeq(s[i], r.set) # r.neg), caps)
    [] r.r = "rng" -> One(s, i, i <= Len(s) /\ ((s[i] >= r.lo /\ s[i] <= r.hi) # r.neg), caps)
    [] r.r = "cat" -> Thread(M(r.a, s, i, caps), r.b, s, 1)
    [] r.r = "alt" -> M(r.a, s, i, caps) \o M(r.b, s, i, caps)
    [] r.r = "star" -> StarFrom(r.a, s, i, caps)
    [] r.r = "plus" -> LET first == M(r.a, s, i, caps)
                           RECURSIVE Each(_)
                           Each(k) == IF k > Len(first) THEN <<>>
                                      ELSE (IF first[k].e > i THEN StarFrom(r.a, s, first[k].e, first[k].caps) ELSE <<first[k]>>) \o Each(k + 1)
                       IN Each(1)
    [] r.r = "opt" -> M(r.a, s, i, caps) \o <<[e |-> i, caps |-> caps]>>
    [] r.r = "grp" -> LET ms == M(r.a, s, i, caps) IN
                      [k \in 1..Len(ms) |-> [e |-> ms[k].e, caps |-> [ms[k].caps EXCEPT ![r.g] = <<i, ms[k].e>>]]]
    [] r.r = "rep" -> M(RepTree(r.a, r.lo, r.hi), s, i, caps)
    [] r.r = "uc" -> One(s, i, i <= Len(s) /\ (InUc(r.c, s[i]) # r.neg), caps)
    [] r.r = "bol" -> IF i = 1 THEN <<[e |-> i, caps |-> caps]>> ELSE <<>>
    [] r.r = "eol" -> IF i = Len(s) + 1 THEN <<[e |-> i, caps |-> caps]>> ELSE <<>>

NoCaps == [g \in 1..3 |-> <<0, 0>>]
\* the leftmost-first match at or after position i: [found, b (start), e (end), caps]
RECURSIVE Find(_, _, _)
Find(r, s, i) ==
  IF i > Len(s) + 1 THEN [found |-> FALSE, b |-> 0, e |-> 0, caps |-> NoCaps]
  ELSE LET ms == M(r, s, i, NoCaps) IN
       IF ms # <<>> THEN [found |-> TRUE, b |-> i, e |-> ms[1].e, caps |-> ms[1].caps] ELSE Find(r, s, i + 1)

\* can the expression match the empty string somewhere in s (replace and split are then not defined)
MatchesEmptyIn(r, s) == \E i \in 1..(Len(s) + 1) : \E k \in 1..Len(M(r, s, i, NoCaps)) : M(r, s, i, NoCaps)[k].e = i

Matches(r, s) == Find(r, s, 1).found

\* replacement text: $n (n = 1..3) refers to a group (empty when it did not take part), \$ and \\ are literal
RECURSIVE Expand(_, _, _, _)
Expand(rep, k, s, caps) ==
  IF k > Len(rep) THEN <<>>
  ELSE IF rep[k] = 36 /\ k < Len(rep) /\ rep[k + 1] \in {49, 50, 51} THEN
       LET c == caps[rep[k + 1] - 48] IN (IF c[1] = 0 THEN <<>> ELSE SubSeq(s, c[1], c[2] - 1)) \o Expand(rep, k + 2, s, caps)
  ELSE IF rep[k] = 92 /\ k < Len(rep) THEN <<rep[k + 1]>> \o Expand(rep, k + 2, s, caps)
  ELSE <<rep[k]>> \o Expand(rep, k + 1, s, caps)
\* is the replacement text well formed ($ followed by a digit, \ followed by $ or \)
RECURSIVE RepOk(_, _, _)
RepOk(rep, k, ngroups) ==
  IF k > Len(rep) THEN TRUE
  ELSE IF rep[k] = 36 THEN k < Len(rep) /\ rep[k + 1] >= 49 /\ rep[k + 1] <= 48 + ngroups /\ RepOk(rep, k + 2, ngroups)
  ELSE IF rep[k] = 92 THEN k < Len(rep) /\ rep[k + 1] \in {36, 92} /\ RepOk(rep, k + 2, ngroups)
  ELSE RepOk(rep, k + 1, ngroups)

\* t is the text matched on, s the text copied from (they differ only by case folding)
RECURSIVE ReplaceFrom(_, _, _, _, _)
ReplaceFrom(r, t, s, rep, i) ==
  LET f == Find(r, t, i) IN
  IF ~f.found THEN SubSeq(s, i, Len(s))
  ELSE SubSeq(s, i, f.b - 1) \o Expand(rep, 1, s, f.caps) \o ReplaceFrom(r, t, s, rep, f.e)
Replace(r, s, rep) == ReplaceFrom(r, s, s, rep, 1)

RECURSIVE SplitFrom(_, _, _, _)
SplitFrom(r, t, s, i) ==
  LET f == Find(r, t, i) IN
  IF ~f.found THEN <<SubSeq(s, i, Len(s))>>
  ELSE <<SubSeq(s, i, f.b - 1)>> \o SplitFrom(r, t, s, f.e)
Split(r, s) == SplitFrom(r, s, s, 1)

\* flag "i": letters A..Z and a..z are matched without regard to case
Fold(c) == IF c >= 65 /\ c <= 90 THEN c + 32 ELSE c
FoldS(s) == [k \in 1..Len(s) |-> Fold(s[k])]
RECURSIVE FoldRe(_)
FoldRe(r) ==
  CASE r.r = "chr" -> [r |-> "chr", c |-> Fold(r.c)]
    [] r.r = "cls" -> [r |-> "cls", set |-> FoldS(r.set), neg |-> r.neg]
    [] r.r = "rng" -> [r |-> "rng", lo |-> Fold(r.lo), hi |-> Fold(r.hi), neg |-> r.neg]
    [] r.r \in {"cat", "alt"} -> [r |-> r.r, a |-> FoldRe(r.a), b |-> FoldRe(r.b)]
    [] r.r \in {"star", "plus", "opt"} -> [r |-> r.r, a |-> FoldRe(r.a)]
    [] r.r = "rep" -> [r |-> "rep", a |-> FoldRe(r.a), lo |-> r.lo, hi |-> r.hi]
    [] r.r = "grp" -> [r |-> "grp", a |-> FoldRe(r.a), g |-> r.g]
    [] OTHER -> r
MatchesI(r, s) == Matches(FoldRe(r), FoldS(s))
ReplaceI(r, s, rep) == ReplaceFrom(FoldRe(r), FoldS(s), s, rep, 1)
=============================================================================
