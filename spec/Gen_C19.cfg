INIT Init
NEXT Next
CONSTANT Deep = FALSE
CHECK_DEADLOCK FALSE
