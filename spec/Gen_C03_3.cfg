INIT Init
NEXT Next
CONSTANT Depth = 3
CHECK_DEADLOCK FALSE
