--------------------------------- MODULE Bif ---------------------------------
(***************************************************************************)
(* Built-in functions of the string, list, numeric-aggregate, boolean and   *)
(* conversion families (DMN 1.3, 10.3.4, Tables 71-76).                     *)
(* BifApply(name, args): the value for a positional argument tuple - a      *)
(* value, Null outside the domain, or Unspec where the standard is silent.  *)
(* ParamNames[name]: the parameter names of the standard's tables, used for *)
(* the named form f(p1: a1, p2: a2), which must give the same result.       *)
(* Strings are sequences of code points: positions count characters.        *)
(***************************************************************************)
EXTENDS FeelEval

IsStr(v) == v.k = "str"
IsNumV(v) == v.k = "num"
IsList(v) == v.k = "list"
IntArg(v) == IsNumV(v) /\ IsInt(v)

\* does m occur in s at position p (1-based)
OccursAt(s, m, p) == p + Len(m) - 1 <= Len(s) /\ SubSeq(s, p, p + Len(m) - 1) = m
RECURSIVE FindFrom(_, _, _)
FindFrom(s, m, p) == IF p + Len(m) - 1 > Len(s) THEN 0 ELSE IF OccursAt(s, m, p) THEN p ELSE FindFrom(s, m, p + 1)

RECURSIVE SumL(_, _), FlattenL(_), DistinctL(_, _), IndexOfL(_, _, _)
SumL(vs, i) == IF i > Len(vs) THEN Num(0, 0) ELSE LET r == SumL(vs, i + 1) IN IF IsU(r) THEN Unspec ELSE AddN(vs[i], r)
FlattenL(vs) == IF vs = <<>> THEN <<>>
                ELSE (IF vs[1].k = "list" THEN FlattenL(vs[1].items) ELSE <<vs[1]>>) \o FlattenL(Tail(vs))
\* keep the first of values that are equal
DistinctL(vs, acc) == IF vs = <<>> THEN acc
                      ELSE IF \E i \in 1..Len(acc) : Eq3(acc[i], vs[1]) = Bool(TRUE) THEN DistinctL(Tail(vs), acc)
                      ELSE DistinctL(Tail(vs), Append(acc, vs[1]))
IndexOfL(vs, m, i) == IF i > Len(vs) THEN <<>>
                      ELSE (IF Eq3(vs[i], m) = Bool(TRUE) THEN <<Num(i, 0)>> ELSE <<>>) \o IndexOfL(vs, m, i + 1)
AllEqDef(vs, m) == \A i \in 1..Len(vs) : Eq3(vs[i], m).k = "bool"       \* every comparison is decided

AllNums(vs) == \A i \in 1..Len(vs) : vs[i].k = "num"
AllStrs(vs) == \A i \in 1..Len(vs) : vs[i].k = "str"
RECURSIVE Best(_, _, _)
Best(vs, i, wantMin) ==      \* min / max of numbers or of strings
  IF i = Len(vs) THEN vs[i]
  ELSE LET r == Best(vs, i + 1, wantMin) IN
       IF IsU(r) THEN Unspec
       ELSE LET lt == Lt3(vs[i], r) IN
            IF lt.k # "bool" THEN Unspec
            ELSE IF wantMin THEN (IF lt.b THEN vs[i] ELSE IF Lt3(r, vs[i]) = Bool(TRUE) THEN r ELSE vs[i])
            ELSE (IF Lt3(r, vs[i]) = Bool(TRUE) THEN vs[i] ELSE IF lt.b THEN r ELSE vs[i])

\* insertion sort of numbers / strings (ascending), used by median and for the sort() oracle
RECURSIVE InsSorted(_, _), SortAsc(_)
InsSorted(s, v) == IF s = <<>> THEN <<v>> ELSE IF Lt3(v, s[1]) = Bool(TRUE) THEN <<v>> \o s ELSE <<s[1]>> \o InsSorted(Tail(s), v)
SortAsc(vs) == IF vs = <<>> THEN <<>> ELSE InsSorted(SortAsc(Tail(vs)), vs[1])

\* a varargs call f(a, b, c) is f([a, b, c]); a single list argument is the list itself
ListArg(args) == IF Len(args) = 1 /\ args[1].k = "list" THEN args[1].items ELSE args

ToEnd == 0 - 999999

\* concatenate is one level: the items of its arguments, in order
RECURSIVE ConcatFrom(_, _)
ConcatFrom(args, i) == IF i > Len(args) THEN <<>> ELSE args[i].items \o ConcatFrom(args, i + 1)
Concat(args) == ConcatFrom(args, 1)

Substring(s, start, len) ==     \* start: integer, len: integer or ToEnd
  LET n == Len(s)
      from == IF start >= 1 THEN start ELSE n + start + 1 IN
  IF start = 0 \/ from < 1 \/ from > n THEN Unspec                  \* position outside the string: not settled
  ELSE IF len = ToEnd THEN Str(SubSeq(s, from, n))
  ELSE IF len < 1 \/ from + len - 1 > n THEN Unspec                  \* length running over the end / not positive
  ELSE Str(SubSeq(s, from, from + len - 1))

\* number(from, grouping separator, decimal separator): the text with the grouping separators removed and the decimal
\* separator read as the decimal point must be a numeric literal  [-] digits [. digits]  |  [-] . digits
IsDg(c) == c >= 48 /\ c <= 57
RECURSIVE Without(_, _), DigitsVal(_, _), AllDg(_, _, _)
Without(s, g) == IF s = <<>> THEN <<>> ELSE (IF Head(s) = g THEN <<>> ELSE <<Head(s)>>) \o Without(Tail(s), g)
AllDg(s, a, b) == a > b \/ (IsDg(s[a]) /\ AllDg(s, a + 1, b))
DigitsVal(s, k) == IF k = 0 THEN 0 ELSE DigitsVal(s, k - 1) * 10 + (s[k] - 48)
PosOf(s, c) == IF \E k \in 1..Len(s) : s[k] = c THEN CHOOSE k \in 1..Len(s) : s[k] = c /\ \A j \in 1..(k - 1) : s[j] # c ELSE 0
\* groups of the integer part are regular: the first has 1..3 digits, the others exactly 3
RECURSIVE GroupsOk(_, _, _, _)
GroupsOk(s, g, k, run) ==       \* scanning from the right end of the integer part
  IF k = 0 THEN run >= 1 /\ run <= 3
  ELSE IF s[k] = g THEN run = 3 /\ GroupsOk(s, g, k - 1, 0)
  ELSE IF IsDg(s[k]) THEN GroupsOk(s, g, k - 1, run + 1)
  ELSE k = 1 /\ s[1] = 45 /\ run >= 1 /\ run <= 3
NumberOf(cp, g, d) ==
  LET dec == IF d = 0 THEN 46 ELSE d
      dp == PosOf(cp, dec)
      intPart == IF dp = 0 THEN cp ELSE SubSeq(cp, 1, dp - 1)
      hasG == g # 0 /\ \E k \in 1..Len(cp) : cp[k] = g
      t0 == IF g = 0 THEN cp ELSE Without(cp, g)
      t == [k \in 1..Len(t0) |-> IF t0[k] = dec THEN 46 ELSE t0[k]]
      neg == t # <<>> /\ t[1] = 45
      u == IF neg THEN Tail(t) ELSE t
      p == PosOf(u, 46)
      ip == IF p = 0 THEN u ELSE SubSeq(u, 1, p - 1)
      fp == IF p = 0 THEN <<>> ELSE SubSeq(u, p + 1, Len(u))
      digits == ip \o fp
  IN
  IF \E k \in 1..Len(cp) : cp[k] \in {69, 101} THEN Unspec                                  \* exponent notation: open
  ELSE IF cp # <<>> /\ (cp[1] = 43 \/ cp[Len(cp)] = dec) THEN Unspec                         \* a leading plus sign, a trailing decimal separator: lenient forms, open
  ELSE IF d # 0 /\ d # 46 /\ g # 46 /\ (\E k \in 1..Len(cp) : cp[k] = 46) THEN Unspec       \* a period although the decimal separator is a comma
  ELSE IF d = 0 /\ g = 46 /\ FALSE THEN Unspec
  ELSE IF hasG /\ (g = dec \/ ~GroupsOk(intPart, g, Len(intPart), 0) \/ (dp # 0 /\ \E k \in dp..Len(cp) : cp[k] = g)) THEN Unspec   \* irregular grouping: open
  ELSE IF u = <<>> \/ ~AllDg(digits, 1, Len(digits)) \/ digits = <<>> THEN Null
  ELSE IF p # 0 /\ fp = <<>> THEN Null
  ELSE IF Len(digits) > 8 THEN Unspec                                                         \* (beyond the integers of this specification)
  ELSE LET m == DigitsVal(digits, Len(digits)) IN Num(IF neg THEN 0 - m ELSE m, 0 - Len(fp))

BifApply(name, args) ==
  LET n == Len(args)
      a1 == IF n >= 1 THEN args[1] ELSE Null
      a2 == IF n >= 2 THEN args[2] ELSE Null
      a3 == IF n >= 3 THEN args[3] ELSE Null
  IN
  IF \E i \in 1..n : IsU(args[i]) THEN Unspec
  ELSE CASE
     name = "substring" ->
        IF n \notin {2, 3} THEN Null
        ELSE IF n = 3 /\ IsStr(a1) /\ IsNumV(a2) /\ a3.k = "null" THEN Unspec       \* the optional length given as null
        ELSE IF ~IsStr(a1) \/ ~IsNumV(a2) \/ (n = 3 /\ ~IsNumV(a3)) THEN Null
        ELSE IF ~IsInt(a2) \/ (n = 3 /\ ~IsInt(a3)) THEN Unspec
        ELSE Substring(a1.cp, IntOf(a2), IF n = 3 THEN IntOf(a3) ELSE ToEnd)
  [] name = "string length" -> IF n # 1 \/ ~IsStr(a1) THEN Null ELSE Num(Len(a1.cp), 0)
  [] name = "contains" -> IF n # 2 \/ ~IsStr(a1) \/ ~IsStr(a2) THEN Null ELSE Bool(FindFrom(a1.cp, a2.cp, 1) > 0 \/ a2.cp = <<>>)
  [] name = "starts with" -> IF n # 2 \/ ~IsStr(a1) \/ ~IsStr(a2) THEN Null ELSE Bool(OccursAt(a1.cp, a2.cp, 1) \/ a2.cp = <<>>)
  [] name = "ends with" -> IF n # 2 \/ ~IsStr(a1) \/ ~IsStr(a2) THEN Null
                           ELSE Bool(a2.cp = <<>> \/ (Len(a2.cp) <= Len(a1.cp) /\ OccursAt(a1.cp, a2.cp, Len(a1.cp) - Len(a2.cp) + 1)))
  [] name = "substring before" ->
        IF n # 2 \/ ~IsStr(a1) \/ ~IsStr(a2) THEN Null
        ELSE IF a2.cp = <<>> THEN Unspec
        ELSE LET p == FindFrom(a1.cp, a2.cp, 1) IN IF p = 0 THEN Str(<<>>) ELSE Str(SubSeq(a1.cp, 1, p - 1))
  [] name = "substring after" ->
        IF n # 2 \/ ~IsStr(a1) \/ ~IsStr(a2) THEN Null
        ELSE IF a2.cp = <<>> THEN Unspec
        ELSE LET p == FindFrom(a1.cp, a2.cp, 1) IN IF p = 0 THEN Str(<<>>) ELSE Str(SubSeq(a1.cp, p + Len(a2.cp), Len(a1.cp)))
  [] name = "count" -> IF n = 1 /\ IsList(a1) THEN Num(Len(a1.items), 0) ELSE IF n = 1 THEN Null ELSE Unspec
  [] name \in {"min", "max"} ->
        IF n = 0 THEN Null
        ELSE LET vs == ListArg(args) IN
             IF vs = <<>> THEN Null
             ELSE IF AllNums(vs) \/ AllStrs(vs) THEN Best(vs, 1, name = "min")
             ELSE IF \E i \in 1..Len(vs) : vs[i].k \in {"list", "ctx"} THEN Null    \* e.g. min([3, 1], 0): a list among the items is not comparable
             ELSE Unspec                                              \* nulls / mixed kinds: not settled
  [] name = "sum" ->
        IF n = 0 THEN Null
        ELSE LET vs == ListArg(args) IN
             IF vs = <<>> THEN Null ELSE IF AllNums(vs) THEN SumL(vs, 1) ELSE IF \E i \in 1..Len(vs) : vs[i].k \notin {"num", "null"} THEN Null ELSE Unspec
  [] name = "mean" ->
        IF n = 0 THEN Null
        ELSE LET vs == ListArg(args) IN
             IF vs = <<>> THEN Null
             ELSE IF AllNums(vs) THEN (LET s == SumL(vs, 1) IN IF IsU(s) THEN Unspec ELSE DivN(s, Num(Len(vs), 0)))
             ELSE IF \E i \in 1..Len(vs) : vs[i].k \notin {"num", "null"} THEN Null ELSE Unspec
  [] name = "median" ->
        IF n = 0 THEN Null
        ELSE LET vs == ListArg(args) IN
             IF vs = <<>> THEN Null
             ELSE IF ~AllNums(vs) THEN (IF \E i \in 1..Len(vs) : vs[i].k \notin {"num", "null"} THEN Null ELSE Unspec)
             ELSE LET s == SortAsc(vs)  k == Len(s) IN
                  IF k % 2 = 1 THEN s[(k + 1) \div 2]
                  ELSE LET t == AddN(s[k \div 2], s[k \div 2 + 1]) IN IF IsU(t) THEN Unspec ELSE DivN(t, Num(2, 0))
  [] name = "mode" ->
        IF n = 0 THEN Null
        ELSE LET vs == ListArg(args) IN
             IF vs = <<>> THEN List(<<>>)
             ELSE IF ~AllNums(vs) THEN (IF \E i \in 1..Len(vs) : vs[i].k \notin {"num", "null"} THEN Null ELSE Unspec)
             ELSE LET d == SortAsc(DistinctL(vs, <<>>))
                      cnt(v) == Cardinality({i \in 1..Len(vs) : Eq3(vs[i], v) = Bool(TRUE)})
                      top == CHOOSE c \in {cnt(d[i]) : i \in 1..Len(d)} : \A i \in 1..Len(d) : cnt(d[i]) <= c
                  IN List(SelectSeq(d, LAMBDA v : cnt(v) = top))
  [] name = "stddev" ->
        IF n = 0 THEN Null
        ELSE LET vs == ListArg(args) IN
             IF Len(vs) < 2 THEN (IF vs = <<>> \/ AllNums(vs) THEN Null ELSE Unspec)
             ELSE IF \E i \in 1..Len(vs) : vs[i].k \notin {"num", "null"} THEN Null ELSE IF ~AllNums(vs) THEN Unspec
             ELSE IF \A i \in 1..Len(vs) : Eq3(vs[i], vs[1]) = Bool(TRUE) THEN Num(0, 0) ELSE Unspec   \* accuracy of roots: C02
  [] name = "all" ->
        IF n = 0 THEN Null
        ELSE LET vs == ListArg(args) IN
             IF \E i \in 1..Len(vs) : vs[i] = Bool(FALSE) THEN Bool(FALSE)
             ELSE IF \A i \in 1..Len(vs) : vs[i] = Bool(TRUE) THEN Bool(TRUE) ELSE Null
  [] name = "not" -> IF n # 1 THEN Null ELSE IF a1.k = "bool" THEN Bool(~a1.b) ELSE Null
  [] name = "sublist" ->
        IF n = 3 /\ IsList(a1) /\ IsNumV(a2) /\ a3.k = "null" THEN Unspec       \* the optional length given as null: absent, or outside the domain? (both call forms must agree)
        ELSE IF n \notin {2, 3} \/ ~IsList(a1) \/ ~IsNumV(a2) \/ (n = 3 /\ ~IsNumV(a3)) THEN Null
        ELSE IF ~IsInt(a2) \/ (n = 3 /\ ~IsInt(a3)) THEN Unspec
        ELSE LET len == Len(a1.items)  st == IntOf(a2)
                 from == IF st >= 1 THEN st ELSE len + st + 1 IN
             IF st = 0 \/ from < 1 \/ from > len THEN Unspec
             ELSE IF n = 2 THEN List(SubSeq(a1.items, from, len))
             ELSE IF IntOf(a3) < 1 \/ from + IntOf(a3) - 1 > len THEN Unspec
             ELSE List(SubSeq(a1.items, from, from + IntOf(a3) - 1))
  [] name = "append" -> IF n < 2 \/ ~IsList(a1) THEN (IF n < 1 THEN Null ELSE Unspec) ELSE List(a1.items \o SubSeq(args, 2, n))
  [] name = "concatenate" ->
        IF n = 0 THEN Null ELSE IF \E i \in 1..n : args[i].k # "list" THEN Unspec
        ELSE List(Concat(args))
  [] name = "insert before" ->
        IF n # 3 \/ ~IsList(a1) \/ ~IsNumV(a2) THEN Null
        ELSE IF ~IsInt(a2) THEN Unspec
        ELSE LET len == Len(a1.items)  p == IntOf(a2)
                 at == IF p >= 1 THEN p ELSE len + p + 1 IN
             IF p = 0 \/ at < 1 \/ at > len THEN Unspec
             ELSE List(SubSeq(a1.items, 1, at - 1) \o <<a3>> \o SubSeq(a1.items, at, len))
  [] name = "remove" ->
        IF n # 2 \/ ~IsList(a1) \/ ~IsNumV(a2) THEN Null
        ELSE IF ~IsInt(a2) THEN Unspec
        ELSE LET len == Len(a1.items)  p == IntOf(a2)
                 at == IF p >= 1 THEN p ELSE len + p + 1 IN
             IF p = 0 \/ at < 1 \/ at > len THEN Unspec
             ELSE List(SubSeq(a1.items, 1, at - 1) \o SubSeq(a1.items, at + 1, len))
  [] name = "reverse" -> IF n # 1 \/ ~IsList(a1) THEN Null ELSE List([i \in 1..Len(a1.items) |-> a1.items[Len(a1.items) + 1 - i]])
  [] name = "index of" -> IF n # 2 \/ ~IsList(a1) THEN Null
                          ELSE IF ~AllEqDef(a1.items, a2) THEN Unspec ELSE List(IndexOfL(a1.items, a2, 1))
  [] name = "union" ->
        IF n = 0 THEN Null ELSE IF \E i \in 1..n : args[i].k # "list" THEN Unspec
        ELSE LET all == Concat(args) IN
             IF \E i, j \in 1..Len(all) : Eq3(all[i], all[j]).k # "bool" THEN Unspec ELSE List(DistinctL(all, <<>>))
  [] name = "distinct values" ->
        IF n # 1 \/ ~IsList(a1) THEN Null
        ELSE IF \E i, j \in 1..Len(a1.items) : Eq3(a1.items[i], a1.items[j]).k # "bool" THEN Unspec ELSE List(DistinctL(a1.items, <<>>))
  [] name = "flatten" -> IF n # 1 \/ ~IsList(a1) THEN Null ELSE List(FlattenL(a1.items))
  [] name = "list contains" -> IF n # 2 \/ ~IsList(a1) THEN Null
                               ELSE IF ~AllEqDef(a1.items, a2) THEN Unspec ELSE Bool(\E i \in 1..Len(a1.items) : Eq3(a1.items[i], a2) = Bool(TRUE))
  [] name = "get value" -> IF n # 2 \/ a1.k # "ctx" \/ ~IsStr(a2) THEN Null
                           ELSE IF \E i \in 1..Len(a1.ents) : a1.ents[i].nc = a2.cp
                                THEN a1.ents[CHOOSE i \in 1..Len(a1.ents) : a1.ents[i].nc = a2.cp].v ELSE Null
  [] name = "get entries" -> IF n # 1 \/ a1.k # "ctx" THEN Null
                             ELSE List([i \in 1..Len(a1.ents) |-> Ctx(<<[n |-> "key", v |-> Str(a1.ents[i].nc)], [n |-> "value", v |-> a1.ents[i].v]>>)])
  [] name = "string" ->
        IF n # 1 THEN Null
        ELSE IF a1.k = "str" THEN a1
        ELSE IF a1.k = "bool" THEN Str(IF a1.b THEN <<116, 114, 117, 101>> ELSE <<102, 97, 108, 115, 101>>)
        ELSE IF a1.k = "null" THEN Null
        ELSE Unspec                                                   \* numbers: C07; composite values: format not settled
  [] name = "number" ->
        IF n # 3 THEN Unspec                                           \* (other arities: not in the table)
        ELSE IF a1.k # "str" THEN Null
        ELSE IF ~(a2.k = "null" \/ (a2.k = "str" /\ a2.cp \in {<<32>>, <<44>>, <<46>>})) THEN Null
        ELSE IF ~(a3.k = "null" \/ (a3.k = "str" /\ a3.cp \in {<<44>>, <<46>>})) THEN Null
        ELSE IF a2.k = "str" /\ a3.k = "str" /\ a2.cp = a3.cp THEN Null
        ELSE NumberOf(a1.cp, IF a2.k = "str" THEN a2.cp[1] ELSE 0, IF a3.k = "str" THEN a3.cp[1] ELSE 0)
  [] OTHER -> Unspec

\* the regular-expression built-ins, for a pattern given with its syntax tree (Regex.tla); flags other than "" are not specified
Re == INSTANCE Regex
BifApplyRe(name, args, re) ==
  LET n == Len(args)
      a1 == IF n >= 1 THEN args[1] ELSE Null
      a2 == IF n >= 2 THEN args[2] ELSE Null
      a3 == IF n >= 3 THEN args[3] ELSE Null
      a4 == IF n >= 4 THEN args[4] ELSE Null
      strs(k) == \A j \in 1..k : args[j].k = "str"
  IN
  IF n >= 2 /\ a2.k = "str" /\ a2.cp # Re!Render(re) THEN Unspec            \* (the tree does not belong to the pattern: not a case)
  ELSE IF (name = "matches" /\ n = 3 /\ a3.k = "null") \/ (name = "replace" /\ n = 4 /\ a4.k = "null") THEN Unspec   \* flags given as null: absent, or an error? (both forms must agree)
  ELSE CASE name = "matches" ->
              IF n < 2 \/ n > 3 THEN Null ELSE IF ~strs(n) THEN Null
              ELSE IF n = 3 /\ a3.cp = <<105>> THEN Bool(Re!MatchesI(re, a1.cp))         \* flag "i"
              ELSE IF n = 3 /\ a3.cp # <<>> THEN Unspec
              ELSE Bool(Re!Matches(re, a1.cp))
         [] name = "replace" ->
              IF n < 3 \/ n > 4 THEN Null ELSE IF ~strs(n) THEN Null
              ELSE IF n = 4 /\ a4.cp \notin {<<>>, <<105>>} THEN Unspec
              ELSE IF n = 4 /\ a4.cp = <<105>> THEN
                   (IF Re!MatchesEmptyIn(Re!FoldRe(re), Re!FoldS(a1.cp)) \/ ~Re!RepOk(a3.cp, 1, 3) THEN Unspec ELSE Str(Re!ReplaceI(re, a1.cp, a3.cp)))
              ELSE IF Re!MatchesEmptyIn(re, a1.cp) THEN Unspec              \* an expression matching the empty string: an error in XPath
              ELSE IF ~Re!RepOk(a3.cp, 1, 3) THEN Unspec                    \* malformed replacement text: an error in XPath
              ELSE Str(Re!Replace(re, a1.cp, a3.cp))
         [] name = "split" ->
              IF n # 2 THEN Null ELSE IF ~strs(2) THEN Null
              ELSE IF Re!MatchesEmptyIn(re, a1.cp) THEN Unspec
              ELSE LET ps == Re!Split(re, a1.cp) IN List([k \in 1..Len(ps) |-> Str(ps[k])])
         [] OTHER -> Unspec

----------------------------------------------------------------------------
(***************************************************************************)
(* sort(list, precedes).  The ordering function is one of a few named       *)
(* comparators the harness binds as the second argument (`cmp`):            *)
(*   lt  function(x, y) x < y      gt  function(x, y) x > y                 *)
(*   le  function(x, y) x <= y     ge  function(x, y) x >= y                *)
(*   a-lt function(x, y) x.a < y.a (contexts ordered by their entry a)      *)
(*   null function(x, y) null      const function(x, y) true                *)
(*   arity1 function(x) true       arity3 function(x, y, z) x < y           *)
(*   notfn (the number 5)          none (no second argument)                *)
(* The standard asks for "a list of the same elements but ordered according *)
(* to the sorting function": the verdict is relational - a permutation of   *)
(* the argument in which no later item strictly precedes an earlier one     *)
(* (for <= / >=: every earlier item precedes every later one); ties may     *)
(* stand in any order.  Where the function does not decide every pair       *)
(* (nulls, mixed kinds, null / constant functions) nothing is demanded.     *)
(***************************************************************************)
Prec(cmp, x, y) ==
  CASE cmp = "lt" -> Lt3(x, y) [] cmp = "gt" -> Lt3(y, x) [] cmp = "le" -> Le3(x, y) [] cmp = "ge" -> Le3(y, x)
    [] cmp = "a-lt" -> (IF x.k = "ctx" /\ y.k = "ctx" /\ HasKey(x, "a") /\ HasKey(y, "a") THEN Lt3(Get(x, "a"), Get(y, "a")) ELSE Null)
    [] OTHER -> Null
CountOf(xs, v) == Cardinality({i \in 1..Len(xs) : xs[i] = v})
SortJudge(args, cmp, o) ==
  LET n == Len(args)
      nullWanted(why) == IF o.k = "null" THEN "ok" ELSE why IN
  IF o.k = "panic" THEN "the built-in panicked"
  ELSE IF n # 2 THEN nullWanted("sort with a wrong number of arguments must be null")
  ELSE IF args[1].k = "null" THEN nullWanted("sort of null must be null")
  ELSE IF args[1].k # "list" THEN "unspec"                                  \* (a single value as a list of one: not settled)
  ELSE IF cmp \in {"notfn", "arity1", "arity3"} THEN nullWanted("sort with something else than a function of two parameters must be null")
  ELSE IF cmp \in {"null", "const"} THEN "unspec"
  ELSE LET xs == args[1].items IN
    IF \E i, j \in 1..Len(xs) : i # j /\ Prec(cmp, xs[i], xs[j]).k # "bool" THEN "unspec"
    ELSE IF o.k # "list" \/ Len(o.items) # Len(xs) THEN "sort must return a list of the same length"
    ELSE IF \E i \in 1..Len(xs) : CountOf(o.items, xs[i]) # CountOf(xs, xs[i]) THEN "sort must return the same elements"
    ELSE IF cmp \in {"lt", "gt", "a-lt"} /\ \E i, j \in 1..Len(xs) : i < j /\ Prec(cmp, o.items[j], o.items[i]) = Bool(TRUE) THEN "sort: a later item precedes an earlier one"
    ELSE IF cmp \in {"le", "ge"} /\ \E i, j \in 1..Len(xs) : i < j /\ Prec(cmp, o.items[i], o.items[j]) # Bool(TRUE) THEN "sort: an earlier item does not precede a later one"
    ELSE "ok"

ParamNames(name) ==
  CASE name = "substring" -> <<"string", "start position", "length">>
    [] name = "string length" -> <<"string">>
    [] name \in {"contains", "starts with", "ends with", "substring before", "substring after"} -> <<"string", "match">>
    [] name \in {"count", "min", "max", "sum", "mean", "median", "mode", "stddev", "all", "reverse", "distinct values", "flatten"} -> <<"list">>
    [] name = "sublist" -> <<"list", "start position", "length">>
    [] name = "append" -> <<"list", "item">>
    [] name = "insert before" -> <<"list", "position", "newItem">>
    [] name = "remove" -> <<"list", "position">>
    [] name = "index of" -> <<"list", "match">>
    [] name = "list contains" -> <<"list", "element">>
    [] name = "get value" -> <<"m", "key">>
    [] name = "get entries" -> <<"m">>
    [] name = "not" -> <<"negand">>
    [] name = "string" -> <<"from">>
    [] name = "matches" -> <<"input", "pattern", "flags">>
    [] name = "replace" -> <<"input", "pattern", "replacement", "flags">>
    [] name = "split" -> <<"string", "delimiter">>
    [] name = "number" -> <<"from", "grouping separator", "decimal separator">>
    [] name = "sort" -> <<"list", "precedes">>
    [] OTHER -> <<>>
=============================================================================
