INIT TInit
NEXT TNext
CONSTANT Big = TRUE
INVARIANT Done
CHECK_DEADLOCK FALSE
