INIT TInit
NEXT TNext
CONSTANT Big = TRUE Wide = TRUE
INVARIANT Done
CHECK_DEADLOCK FALSE
