INIT Init
NEXT Next
INVARIANT Judge
CHECK_DEADLOCK FALSE
