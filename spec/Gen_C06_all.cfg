INIT Init
NEXT Next
CONSTANT Triples = "all"
CHECK_DEADLOCK FALSE
