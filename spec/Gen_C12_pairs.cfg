INIT Init
NEXT Next
CONSTANT Pairs = TRUE
CONSTANT PairLimit = 60
CHECK_DEADLOCK FALSE
