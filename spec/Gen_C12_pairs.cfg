INIT Init
NEXT Next
CONSTANT Pairs = TRUE
CONSTANT PairLimit = 60
CONSTANT RuleLimit = 3000
CHECK_DEADLOCK FALSE
