INIT Init
NEXT Next
CONSTANTS NE = 10 NS = 2 MaxLen = 4
INVARIANT Emit
CHECK_DEADLOCK FALSE
