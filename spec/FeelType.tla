------------------------------ MODULE FeelType ------------------------------
(***************************************************************************)
(* FEEL types, equivalence, conformance (DMN 1.3, 10.3.2.9.1-2), the type   *)
(* of a value and coercion (10.3.2.9.4).                                    *)
(*   [t |-> "Any" | "Null" | "number" | "string" | "boolean" | "date" |     *)
(*          "time" | "dt" | "dtd" | "ymd"]                                  *)
(*   [t |-> "list",  of |-> T]        [t |-> "range", of |-> T]              *)
(*   [t |-> "ctx",   es |-> << [n |-> name, ty |-> T], ... >>]  (names distinct)*)
(*   [t |-> "fn",    ps |-> << T, ... >>, r |-> T]                          *)
(***************************************************************************)
EXTENDS Naturals, Sequences

SimpleNames == {"Any", "Null", "number", "string", "boolean", "date", "time", "dt", "dtd", "ymd"}
Simple(n) == [t |-> n]
TList(x)  == [t |-> "list", of |-> x]
TRange(x) == [t |-> "range", of |-> x]
TCtx(es)  == [t |-> "ctx", es |-> es]
TFn(ps, r) == [t |-> "fn", ps |-> ps, r |-> r]
Ent(n, ty) == [n |-> n, ty |-> ty]

HasEntry(c, n) == \E i \in 1..Len(c.es) : c.es[i].n = n
EntryType(c, n) == c.es[CHOOSE i \in 1..Len(c.es) : c.es[i].n = n].ty

RECURSIVE Equiv(_, _)
Equiv(a, b) ==
  IF a.t # b.t THEN FALSE
  ELSE IF a.t \in SimpleNames THEN TRUE
  ELSE IF a.t \in {"list", "range"} THEN Equiv(a.of, b.of)
  ELSE IF a.t = "ctx" THEN
       /\ Len(a.es) = Len(b.es)
       /\ \A i \in 1..Len(a.es) : HasEntry(b, a.es[i].n) /\ Equiv(a.es[i].ty, EntryType(b, a.es[i].n))
  ELSE \* fn
       /\ Len(a.ps) = Len(b.ps)
       /\ \A i \in 1..Len(a.ps) : Equiv(a.ps[i], b.ps[i])
       /\ Equiv(a.r, b.r)

\* a conforms to b   (a <: b)
RECURSIVE Conforms(_, _)
Conforms(a, b) ==
  IF Equiv(a, b) THEN TRUE
  ELSE IF a.t = "Null" THEN TRUE
  ELSE IF b.t = "Any" THEN TRUE
  ELSE IF a.t # b.t THEN FALSE
  ELSE IF a.t \in {"list", "range"} THEN Conforms(a.of, b.of)
  ELSE IF a.t = "ctx" THEN        \* width and depth: every entry demanded by b is present in a and conforms
       \A i \in 1..Len(b.es) : HasEntry(a, b.es[i].n) /\ Conforms(EntryType(a, b.es[i].n), b.es[i].ty)
  ELSE IF a.t = "fn" THEN         \* contravariant parameters, covariant result
       /\ Len(a.ps) = Len(b.ps)
       /\ \A i \in 1..Len(a.ps) : Conforms(b.ps[i], a.ps[i])
       /\ Conforms(a.r, b.r)
  ELSE FALSE

----------------------------------------------------------------------------
\* type of a value (value encoding of the other specs); lists are typed by
\* their elements when these agree, list<Null> when empty

KindType(k) == CASE k = "null" -> "Null" [] k = "num" -> "number" [] k = "str" -> "string"
                 [] k = "bool" -> "boolean" [] k = "date" -> "date" [] k = "time" -> "time"
                 [] k = "dt" -> "dt" [] k = "dtd" -> "dtd" [] k = "ymd" -> "ymd" [] OTHER -> "other"

RECURSIVE TypeOf(_)
TypeOf(v) ==
  IF v.k = "list" THEN
     IF v.items = <<>> THEN TList(Simple("Null"))
     ELSE LET t1 == TypeOf(v.items[1]) IN
          IF \A i \in 1..Len(v.items) : TypeOf(v.items[i]) = t1 THEN TList(t1) ELSE TList(Simple("Any"))
  ELSE IF v.k = "ctx" THEN TCtx([i \in 1..Len(v.ents) |-> Ent(v.ents[i].n, TypeOf(v.ents[i].v))])
  ELSE IF v.k = "range" THEN
     LET a == TypeOf(v.lo) b == TypeOf(v.hi) IN IF a = b THEN TRange(a) ELSE TRange(Simple("Any"))
  ELSE Simple(KindType(v.k))

\* coercion: the value itself when its type conforms; a singleton wrap or
\* unwrap when that conforms; null otherwise.  Result = [how, v].
Coerce(T, v) ==
  IF Conforms(TypeOf(v), T) THEN [how |-> "same", v |-> v]
  ELSE IF T.t = "list" /\ Conforms(TypeOf(v), T.of) THEN [how |-> "wrap", v |-> [k |-> "list", items |-> <<v>>]]
  ELSE IF v.k = "list" /\ Len(v.items) = 1 /\ Conforms(TypeOf(v.items[1]), T) THEN [how |-> "unwrap", v |-> v.items[1]]
  ELSE [how |-> "null", v |-> [k |-> "null"]]
=============================================================================
