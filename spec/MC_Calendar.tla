---------------------------- MODULE MC_Calendar ----------------------------
(* The closed formulas of Calendar.tla (day number, weekday) against a      *)
(* day-by-day walk through the calendar, forwards and backwards from        *)
(* 1970-01-01 (a Thursday), using only the month lengths and the leap-year  *)
(* rule.  Also: the zone rules give the well-known switch-over days.        *)
EXTENDS Calendar, TLC
CONSTANTS YearsBack, LastYear
FirstYear == 1970 - YearsBack
VARIABLES y, m, d, n, wd, dir
vars == <<y, m, d, n, wd, dir>>

Init == y = 1970 /\ m = 1 /\ d = 1 /\ n = 0 /\ wd = 4 /\ dir \in {1, 0 - 1}
Forward == /\ dir = 1 /\ y <= LastYear
           /\ IF d < DaysIn(y, m) THEN d' = d + 1 /\ m' = m /\ y' = y
              ELSE IF m < 12 THEN d' = 1 /\ m' = m + 1 /\ y' = y
              ELSE d' = 1 /\ m' = 1 /\ y' = y + 1
           /\ n' = n + 1 /\ wd' = (wd % 7) + 1 /\ dir' = dir
Backward == /\ dir = 0 - 1 /\ y >= FirstYear
            /\ IF d > 1 THEN d' = d - 1 /\ m' = m /\ y' = y
               ELSE IF m > 1 THEN d' = DaysIn(y, m - 1) /\ m' = m - 1 /\ y' = y
               ELSE d' = 31 /\ m' = 12 /\ y' = y - 1
            /\ n' = n - 1 /\ wd' = (IF wd = 1 THEN 7 ELSE wd - 1) /\ dir' = dir
Next == Forward \/ Backward
Spec == Init /\ [][Next]_vars

Agrees == /\ ValidDate(y, m, d)
          /\ DayNum(y, m, d) - DayNum(1970, 1, 1) = n
          /\ Weekday(y, m, d) = wd
          /\ LET c == Civil(y, m, d) IN c.doe >= 0 /\ c.doe < EraDays

ASSUME DayNum(1970, 1, 1) = 719468
ASSUME Weekday(2000, 1, 1) = 6 /\ Weekday(2021, 1, 5) = 2 /\ Weekday(1582, 10, 15) = 5
ASSUME LastSunday(2021, 3) = 28 /\ LastSunday(2021, 10) = 31 /\ NthSunday(2021, 3, 2) = 14 /\ NthSunday(2021, 11, 1) = 7
ASSUME NthSunday(2021, 4, 1) = 4 /\ NthSunday(2021, 10, 1) = 3 /\ LastSunday(2024, 3) = 31
ASSUME ZoneOffsetAt("Europe/Paris", 2021, 3, 28, 7199) = [st |-> "ok", off |-> 3600]
ASSUME ZoneOffsetAt("Europe/Paris", 2021, 3, 28, 7200) = [st |-> "gap"]
ASSUME ZoneOffsetAt("Europe/Paris", 2021, 3, 28, 10800) = [st |-> "ok", off |-> 7200]
ASSUME ZoneOffsetAt("Europe/Paris", 2021, 10, 31, 7199) = [st |-> "ok", off |-> 7200]
ASSUME ZoneOffsetAt("Europe/Paris", 2021, 10, 31, 7200) = [st |-> "overlap"]
ASSUME ZoneOffsetAt("Europe/Paris", 2021, 10, 31, 10800) = [st |-> "ok", off |-> 3600]
ASSUME ZoneOffsetAt("America/New_York", 2021, 3, 14, 10800) = [st |-> "ok", off |-> 0 - 14400]
ASSUME ZoneOffsetAt("America/New_York", 2021, 11, 7, 7200) = [st |-> "ok", off |-> 0 - 18000]
ASSUME ZoneOffsetAt("Australia/Sydney", 2021, 1, 15, 0) = [st |-> "ok", off |-> 39600]
ASSUME ZoneOffsetAt("Australia/Sydney", 2021, 4, 4, 10800) = [st |-> "ok", off |-> 36000]
ASSUME ZoneOffsetAt("Australia/Sydney", 2021, 7, 1, 0) = [st |-> "ok", off |-> 36000]
ASSUME ZoneOffsetAt("Australia/Sydney", 2021, 10, 3, 10800) = [st |-> "ok", off |-> 39600]
ASSUME MonthsBetween([y |-> 2020, m |-> 1, d |-> 31], [y |-> 2021, m |-> 3, d |-> 30]) = 13
ASSUME MonthsBetween([y |-> 2021, m |-> 3, d |-> 30], [y |-> 2020, m |-> 1, d |-> 31]) = 0 - 13
ASSUME LET a == SDur(FALSE, Small(5), 500000000)  b == SDur(TRUE, Small(6), 0) IN AddDur(a, b) = SDur(TRUE, <<>>, 500000000)
=============================================================================
