------------------------------- MODULE Temporal -------------------------------
(***************************************************************************)
(* FEEL temporal literals (DMN 1.3 10.3.2.3.4-7 / XML Schema part 2) as    *)
(* recognisers over code-point sequences, the calendar they rely on, and    *)
(* the normalised text form of durations.                                   *)
(*   date      [-]YYYY..-MM-DD          year -999999999..999999999 (not 0)  *)
(*   time      hh:mm:ss[.f{1,9}][zone]  zone: Z | (+|-)hh:mm[:ss] (hours <= *)
(*                                      14) | @Region/City                  *)
(*   date-time date T time                                                  *)
(*   days-and-time duration   [-]P[nD][T[nH][nM][n[.f]S]]                   *)
(*   years-and-months duration [-]P[nY][nM]                                 *)
(* Parse*(s) = [ok |-> TRUE, v |-> value] / [ok |-> FALSE] (not a literal)  *)
(* / [ok |-> TRUE, v |-> Unspec] (the standard leaves it open).             *)
(* Values: the encoding of the other specs; durations carry their total     *)
(* seconds / months as decimal digit sequences (Bignum inside).             *)
(***************************************************************************)
EXTENDS Bignum

No == [ok |-> FALSE]
Yes(v) == [ok |-> TRUE, v |-> v]
UnspecV == [k |-> "unspec"]
IsD(c) == c >= 48 /\ c <= 57
Ch(s, p) == IF p >= 1 /\ p <= Len(s) THEN s[p] ELSE 0 - 1

RECURSIVE DigEnd(_, _)
DigEnd(s, p) == IF IsD(Ch(s, p)) THEN DigEnd(s, p + 1) ELSE p          \* first position after the digits at p
RECURSIVE NatOfDigits(_, _, _)
NatOfDigits(s, a, b) == IF a > b THEN 0 ELSE NatOfDigits(s, a, b - 1) * 10 + (s[b] - 48)    \* value of s[a..b] (at most 9 digits)
DigitsOf(s, a, b) == [i \in 1..(b - a + 1) |-> s[a + i - 1] - 48]

IsLeap(y) == (y % 4 = 0 /\ y % 100 # 0) \/ y % 400 = 0
DaysIn(y, m) == IF m \in {4, 6, 9, 11} THEN 30 ELSE IF m = 2 THEN (IF IsLeap(y) THEN 29 ELSE 28) ELSE 31
ValidDate(y, m, d) == m >= 1 /\ m <= 12 /\ d >= 1 /\ d <= DaysIn(y, m)

\* date starting at p and ending exactly at q (inclusive)
DateAt(s, p, q) ==
  LET neg == Ch(s, p) = 45
      a == IF neg THEN p + 1 ELSE p
      b == DigEnd(s, a)                       \* year digits a..b-1
      yl == b - a
  IN
  IF yl < 4 \/ yl > 9 \/ (yl > 4 /\ s[a] = 48) THEN No
  ELSE IF ~(Ch(s, b) = 45 /\ IsD(Ch(s, b + 1)) /\ IsD(Ch(s, b + 2)) /\ Ch(s, b + 3) = 45 /\ IsD(Ch(s, b + 4)) /\ IsD(Ch(s, b + 5)) /\ q = b + 5) THEN No
  ELSE LET y0 == NatOfDigits(s, a, b - 1)
           y == IF neg THEN 0 - y0 ELSE y0
           m == NatOfDigits(s, b + 1, b + 2)
           d == NatOfDigits(s, b + 4, b + 5)
       IN IF y0 = 0 THEN Yes(UnspecV)                                   \* year 0000: XML Schema versions differ
          ELSE IF ~ValidDate(y, m, d) THEN No
          ELSE Yes([k |-> "date", y |-> y, m |-> m, d |-> d])
ParseDate(s) == IF Len(s) = 0 THEN No ELSE DateAt(s, 1, Len(s))

\* zone suffix s[p..Len(s)]: "" (local), Z, +hh:mm[:ss], @name
ZoneAt(s, p) ==
  LET n == Len(s) IN
  IF p = n + 1 THEN Yes([zk |-> "local", off |-> 0, zn |-> ""])
  ELSE IF Ch(s, p) = 90 /\ p = n THEN Yes([zk |-> "utc", off |-> 0, zn |-> ""])
  ELSE IF Ch(s, p) = 64 THEN (IF p < n THEN Yes([zk |-> "zone", off |-> 0, zn |-> "?"]) ELSE No)
  ELSE IF Ch(s, p) \in {43, 45} THEN
       LET two(q) == IsD(Ch(s, q)) /\ IsD(Ch(s, q + 1))
           hasSec == n = p + 8
       IN IF ~(two(p + 1) /\ Ch(s, p + 3) = 58 /\ two(p + 4) /\ (n = p + 5 \/ (hasSec /\ Ch(s, p + 6) = 58 /\ two(p + 7)))) THEN No
          ELSE LET hh == NatOfDigits(s, p + 1, p + 2) mm == NatOfDigits(s, p + 4, p + 5)
                   ss == IF hasSec THEN NatOfDigits(s, p + 7, p + 8) ELSE 0
                   total == hh * 3600 + mm * 60 + ss
               IN IF hh > 14 \/ mm > 59 \/ ss > 59 THEN No
                  ELSE Yes([zk |-> "offset", off |-> IF Ch(s, p) = 45 THEN 0 - total ELSE total, zn |-> ""])
  ELSE No

P10N(k) == CASE k = 0 -> 1 [] k = 1 -> 10 [] k = 2 -> 100 [] k = 3 -> 1000 [] k = 4 -> 10000 [] k = 5 -> 100000
             [] k = 6 -> 1000000 [] k = 7 -> 10000000 [] k = 8 -> 100000000 [] k = 9 -> 1000000000

\* time starting at p, running to the end of s
TimeAt(s, p) ==
  LET two(q) == IsD(Ch(s, q)) /\ IsD(Ch(s, q + 1)) IN
  IF ~(two(p) /\ Ch(s, p + 2) = 58 /\ two(p + 3) /\ Ch(s, p + 5) = 58 /\ two(p + 6)) THEN No
  ELSE LET h == NatOfDigits(s, p, p + 1) mi == NatOfDigits(s, p + 3, p + 4) sec == NatOfDigits(s, p + 6, p + 7)
           hasF == Ch(s, p + 8) = 46
           fe == IF hasF THEN DigEnd(s, p + 9) ELSE p + 8              \* first position after the fraction
           fl == IF hasF THEN fe - (p + 9) ELSE 0
           z == ZoneAt(s, fe)
       IN IF hasF /\ fl = 0 THEN No
          ELSE IF h > 23 \/ mi > 59 \/ sec > 59 THEN No
          ELSE IF ~z.ok THEN No
          ELSE IF fl > 9 THEN Yes(UnspecV)                              \* beyond nanoseconds
          ELSE Yes([k |-> "time", h |-> h, mi |-> mi, s |-> sec,
                    ns |-> IF fl = 0 THEN 0 ELSE NatOfDigits(s, p + 9, fe - 1) * P10N(9 - fl),
                    zk |-> z.v.zk, off |-> z.v.off, zn |-> z.v.zn])
ParseTime(s) == TimeAt(s, 1)

RECURSIVE FindT(_, _)
FindT(s, p) == IF p > Len(s) THEN 0 ELSE IF s[p] = 84 THEN p ELSE FindT(s, p + 1)
ParseDateTime(s) ==
  LET t == FindT(s, 1) IN
  IF t = 0 THEN (IF ParseDate(s).ok THEN Yes(UnspecV) ELSE No)   \* a date alone as date-time: midnight in this implementation, open in the standard
  ELSE LET d == DateAt(s, 1, t - 1)  tm == TimeAt(s, t + 1) IN
       IF ~d.ok \/ ~tm.ok THEN No
       ELSE IF d.v.k = "unspec" \/ tm.v.k = "unspec" THEN Yes(UnspecV)
       ELSE Yes([k |-> "dt", date |-> d.v, time |-> tm.v])

----------------------------------------------------------------------------
\* durations.  A component is digits followed by a designator letter.

\* [ok, n (Bignum), p (after the designator)] for "digits X" at p, X the expected designator code
Comp(s, p, x) == LET e == DigEnd(s, p) IN
                 IF e > p /\ Ch(s, e) = x THEN [ok |-> TRUE, n |-> FromDigits(DigitsOf(s, p, e - 1)), p |-> e + 1] ELSE [ok |-> FALSE, n |-> <<>>, p |-> p]

ParseDuration(s) ==
  LET neg == Ch(s, 1) = 45
      p0 == IF neg THEN 2 ELSE 1
  IN
  IF Ch(s, p0) # 80 THEN No
  ELSE
    LET y == Comp(s, p0 + 1, 89)                       \* Y
        mo == Comp(s, y.p, 77)                         \* M (months)
        d == Comp(s, mo.p, 68)                         \* D
        hasT == Ch(s, d.p) = 84
        tp == IF hasT THEN d.p + 1 ELSE d.p
        h == IF hasT THEN Comp(s, tp, 72) ELSE [ok |-> FALSE, n |-> <<>>, p |-> tp]
        mi == IF hasT THEN Comp(s, h.p, 77) ELSE [ok |-> FALSE, n |-> <<>>, p |-> tp]
        \* seconds with optional fraction
        se == DigEnd(s, mi.p)
        hasF == se > mi.p /\ Ch(s, se) = 46
        fe == IF hasF THEN DigEnd(s, se + 1) ELSE se
        secOk == hasT /\ se > mi.p /\ Ch(s, fe) = 83 /\ (~hasF \/ fe > se + 1)
        endp == IF secOk THEN fe + 1 ELSE mi.p
        fl == IF hasF THEN fe - (se + 1) ELSE 0
        anyT == h.ok \/ mi.ok \/ secOk
        anyYM == y.ok \/ mo.ok
        anyDT == d.ok \/ anyT
    IN
    IF endp # Len(s) + 1 THEN No                        \* trailing garbage / components out of order
    ELSE IF hasT /\ ~anyT THEN No                       \* "T" without a time component
    ELSE IF ~anyYM /\ ~anyDT THEN No                    \* "P" alone
    ELSE IF anyYM /\ anyDT THEN Yes(UnspecV)            \* mixed kinds: not a FEEL duration (null) or an error - open
    ELSE IF anyYM THEN
         LET months == Add(MulS(y.n, 12), mo.n) IN
         Yes([k |-> "ymd", neg |-> neg /\ months # <<>>, mo |-> ToDigits(months)])
    ELSE IF secOk /\ fl > 9 THEN Yes(UnspecV)
    ELSE LET secs == Add(Add(Mul(d.n, <<6400, 8>>), MulS(h.n, 3600)), Add(MulS(mi.n, 60), IF secOk THEN FromDigits(DigitsOf(s, mi.p, se - 1)) ELSE <<>>))
             ns == IF secOk /\ fl > 0 THEN NatOfDigits(s, se + 1, fe - 1) * P10N(9 - fl) ELSE 0
         IN Yes([k |-> "dtd", neg |-> neg /\ (secs # <<>> \/ ns # 0), sec |-> ToDigits(secs), ns |-> ns])

----------------------------------------------------------------------------
\* normalised text of durations: P[nD][T[nH][nM][n[.f]S]] with H < 24, M < 60, S < 60; P[nY][nM] with M < 12

Dig(c) == [i \in 1..Len(c) |-> 48 + c[i]]
NatDigits(n) == IF n = 0 THEN <<0>> ELSE ToDigits(Small(n))
RECURSIVE StripZ(_)
StripZ(d) == IF d # <<>> /\ d[Len(d)] = 0 THEN StripZ(SubSeq(d, 1, Len(d) - 1)) ELSE d
Pad9(ns) == LET d == NatDigits(ns) IN [i \in 1..(9 - Len(d)) |-> 0] \o d

FormatDtd(v) ==
  LET total == FromDigits(v.sec)
      dq == DivMod(total, <<6400, 8>>)                 \* days, rest
      hq == DivS(dq.r, 3600)
      mq == hq.r \div 60
      sq == hq.r % 60
      days == dq.q  hours == ToInt(hq.q)
      secPart == IF sq # 0 \/ v.ns # 0 THEN Dig(NatDigits(sq)) \o (IF v.ns # 0 THEN <<46>> \o Dig(StripZ(Pad9(v.ns))) ELSE <<>>) \o <<83>> ELSE <<>>
      timePart == (IF hours # 0 THEN Dig(NatDigits(hours)) \o <<72>> ELSE <<>>) \o (IF mq # 0 THEN Dig(NatDigits(mq)) \o <<77>> ELSE <<>>) \o secPart
  IN IF total = <<>> /\ v.ns = 0 THEN <<80, 84, 48, 83>>                                  \* PT0S
     ELSE (IF v.neg THEN <<45>> ELSE <<>>) \o <<80>> \o (IF days # <<>> THEN Dig(ToDigits(days)) \o <<68>> ELSE <<>>)
          \o (IF timePart # <<>> THEN <<84>> \o timePart ELSE <<>>)

FormatYmd(v) ==
  LET total == FromDigits(v.mo)
      q == DivS(total, 12)
  IN IF total = <<>> THEN <<80, 48, 77>>                                                    \* P0M
     ELSE (IF v.neg THEN <<45>> ELSE <<>>) \o <<80>> \o (IF q.q # <<>> THEN Dig(ToDigits(q.q)) \o <<89>> ELSE <<>>)
          \o (IF q.r # 0 THEN Dig(NatDigits(q.r)) \o <<77>> ELSE <<>>)

\* equality of temporal values as observed (UTC and offset 0 denote the same zone)
SameZone(a, b) == (a.zk = b.zk /\ a.off = b.off /\ (a.zk # "zone" \/ b.zn = "?" \/ a.zn = "?" \/ a.zn = b.zn))
                  \/ ({a.zk, b.zk} = {"utc", "offset"} /\ a.off = 0 /\ b.off = 0)
SameTime(a, b) == a.h = b.h /\ a.mi = b.mi /\ a.s = b.s /\ a.ns = b.ns /\ SameZone(a, b)
SameValue(a, b) ==
  IF a.k # b.k THEN FALSE
  ELSE IF a.k = "date" THEN a.y = b.y /\ a.m = b.m /\ a.d = b.d
  ELSE IF a.k = "time" THEN SameTime(a, b)
  ELSE IF a.k = "dt" THEN a.date.y = b.date.y /\ a.date.m = b.date.m /\ a.date.d = b.date.d /\ SameTime(a.time, b.time)
  ELSE IF a.k = "dtd" THEN a.neg = b.neg /\ a.sec = b.sec /\ a.ns = b.ns
  ELSE IF a.k = "ymd" THEN a.neg = b.neg /\ a.mo = b.mo
  ELSE FALSE
=============================================================================
