------------------------------ MODULE Gen_C04 ------------------------------
(* Requirement graphs for C04.  Inputs a, b; a knowledge model k1 whose     *)
(* parameters are deliberately named a and b as well (so that a value tells *)
(* which binding was used: k1(a, b) = 10a + b), k2 requiring k1, decisions  *)
(* d1 (requires a), d2 (requires a, b, d1, k1), d3 (requires d1, d2, k2: a  *)
(* diamond), a decision in relation form, two decision services (boxed      *)
(* lists and decision-level function definitions are not accepted by this   *)
(* implementation's model parser / evaluator and are not generated).        *)
(* decision services.  Every combination of the boxed forms of k1, k2, d1,  *)
(* d2 is a model; every invocable is evaluated on every input context.      *)
EXTENDS FeelSyntax, FiniteSets, TLC, Json

Nm(id) == [n |-> "name", id |-> id]
I(ip, m) == [n |-> "num", ip |-> ip, fp |-> "", m |-> m, e |-> 0]
Bin(op, x, y) == [n |-> op, a |-> x, b |-> y]
Call(f, args) == [n |-> "invoke", f |-> Nm(f), args |-> args]
A == Nm("a")  B == Nm("b")  P == Nm("p")  D1 == Nm("d1")  D2 == Nm("d2")
One == I("1", 1)  Ten == I("10", 10)  Hundred == I("100", 100)
Lit(t) == [f |-> "lit", tree |-> t, text |-> R(t, "min")]
None == [f |-> "none"]
CtxF(ents, res) == [f |-> "ctx", ents |-> ents, res |-> res]
En(name, form) == [name |-> name, form |-> form]
Inv(callee, binds) == [f |-> "inv", callee |-> callee, binds |-> binds]
Bd(p, form) == [p |-> p, form |-> form]

K1Body == Bin("add", Bin("mul", A, Ten), B)
K1Forms == { Lit(K1Body),
             CtxF(<<En("t", Lit(Bin("mul", A, Ten)))>>, Lit(Bin("add", Nm("t"), B))) }
K2Forms == { Lit(Bin("add", Call("k1", <<P, One>>), Hundred)),
             \* the body names an input of the model that is not one of its parameters: invisible when invoked by name
             Lit([n |-> "list", items |-> <<Call("k1", <<P, One>>), A, B>>]),
             CtxF(<<En("r", Inv("k1", <<Bd("a", Lit(P)), Bd("b", Lit(One))>>))>>, Lit(Bin("add", Nm("r"), Hundred))) }
\* a decision table whose single rule returns an expression over the input
TableD1 == [fam |-> "DRG", hp |-> "F", ins |-> <<[name |-> "a", ty |-> "number", allowed |-> [n |-> "none"], allowedtext |-> <<>>]>>,
            outs |-> <<[name |-> "", prio |-> <<>>, priotext |-> <<>>, def |-> [k |-> "none"], deftext |-> <<>>]>>,
            rules |-> <<[ins |-> <<[n |-> "utgt", a |-> I("1000", 1000)]>>, outs |-> <<I("0", 0)>>, instext |-> <<<<">", "1000">>>>, outstext |-> <<<<"0">>>>],
                        [ins |-> <<[n |-> "any"]>>, outs |-> <<Bin("add", A, One)>>, instext |-> <<<<"-">>>>, outstext |-> <<R(Bin("add", A, One), "min")>>]>>,
            inputs |-> <<>>]
D1Forms == { Lit(Bin("add", A, One)),
             CtxF(<<En("x", Lit(A))>>, Lit(Bin("add", Nm("x"), One))),
             [f |-> "dt", table |-> TableD1] }
D2Forms == { Lit(Call("k1", <<B, D1>>)),
             Inv("k1", <<Bd("a", Lit(B)), Bd("b", Lit(D1))>>),
             Inv("k1", <<Bd("a", Lit(B)), Bd("b", Lit(A))>>),
             Inv("k1", <<Bd("b", Lit(A)), Bd("a", Lit(Bin("add", B, D1)))>>),
             Lit(Bin("add", Bin("add", Call("k1", <<Hundred, One>>), Call("k1", <<A, B>>)), A)),
             CtxF(<<En("u", Lit(Call("k1", <<Bin("add", A, One), D1>>))), En("w", Lit(Bin("add", Nm("u"), A)))>>, None) }

Model(k1, k2, d1, d2) ==
  [inputs |-> <<"a", "b">>,
   bkms |-> <<[name |-> "k1", ps |-> <<"a", "b">>, form |-> k1, reqs |-> <<>>],
              [name |-> "k2", ps |-> <<"p">>, form |-> k2, reqs |-> <<"k1">>],
              \* no parameters, a boxed context whose first entry is named like an input of the model: the entries are the
              \* model's own business and must not show in the scope of the decision that invokes it
              [name |-> "k0", ps |-> <<>>, form |-> CtxF(<<En("a", Lit(Hundred)), En("r", Lit(Bin("add", A, One)))>>, None), reqs |-> <<>>]>>,
   decisions |-> <<
     [name |-> "d1", reqIn |-> <<"a">>, reqDec |-> <<>>, reqBkm |-> <<>>, reqSvc |-> <<>>, form |-> d1],
     [name |-> "d2", reqIn |-> <<"a", "b">>, reqDec |-> <<"d1">>, reqBkm |-> <<"k1">>, reqSvc |-> <<>>, form |-> d2],
     [name |-> "d3", reqIn |-> <<>>, reqDec |-> <<"d1", "d2">>, reqBkm |-> <<"k2">>, reqSvc |-> <<>>,
        form |-> Lit([n |-> "list", items |-> <<D1, D2, Call("k2", <<D1>>)>>])],
     [name |-> "dr", reqIn |-> <<"a", "b">>, reqDec |-> <<>>, reqBkm |-> <<>>, reqSvc |-> <<>>,
        form |-> [f |-> "rel", cols |-> <<"x", "y">>, rows |-> <<<<Lit(A), Lit(One)>>, <<Lit(Ten), Lit(B)>>>>]],
     \* boxed invocations of required decision services (one output decision: its value; several: a context of them)
     [name |-> "d4", reqIn |-> <<"a", "b">>, reqDec |-> <<>>, reqBkm |-> <<>>, reqSvc |-> <<"s2">>,
        form |-> Inv("s2", <<Bd("b", Lit(A)), Bd("a", Lit(Bin("add", B, One)))>>)],
     [name |-> "d5", reqIn |-> <<"a", "b">>, reqDec |-> <<>>, reqBkm |-> <<>>, reqSvc |-> <<"s1">>,
        form |-> Inv("s1", <<Bd("a", Lit(B)), Bd("b", Lit(Hundred))>>)],
     \* the same decision (d1) required directly AND evaluated inside a service that is given other input values
     [name |-> "d7", reqIn |-> <<"a", "b">>, reqDec |-> <<"d1">>, reqBkm |-> <<>>, reqSvc |-> <<"s2">>,
        form |-> CtxF(<<En("u1", Lit(D1)), En("u2", Inv("s2", <<Bd("a", Lit(Bin("add", A, One))), Bd("b", Lit(B))>>)), En("u3", Lit(D1))>>,
                      Lit([n |-> "list", items |-> <<Nm("u1"), Nm("u2"), Nm("u3")>>]))],
     [name |-> "d6", reqIn |-> <<"a", "b">>, reqDec |-> <<>>, reqBkm |-> <<"k0">>, reqSvc |-> <<>>,
        form |-> Lit([n |-> "list", items |-> <<A, [n |-> "path", id |-> "r", a |-> Call("k0", <<>>)], A, B>>])]>>,
   services |-> <<[name |-> "s1", inData |-> <<"a", "b">>, inDec |-> <<>>, enc |-> <<"d1", "d2">>, out |-> <<"d3">>],
                  [name |-> "s2", inData |-> <<"a", "b">>, inDec |-> <<>>, enc |-> <<>>, out |-> <<"d1", "d2">>],
                  \* several output decisions next to an encapsulated one (which is not part of the result)
                  [name |-> "s3", inData |-> <<"a", "b">>, inDec |-> <<>>, enc |-> <<"d1">>, out |-> <<"d2", "dr">>]>>,
   invocables |-> <<<<"decision", "d1">>, <<"decision", "d2">>, <<"decision", "d3">>, <<"decision", "dr">>,
                    <<"bkm", "k1">>, <<"bkm", "k2">>, <<"service", "s1">>, <<"service", "s2">>,
                    <<"decision", "d4">>, <<"decision", "d5">>, <<"service", "s3">>, <<"decision", "d6">>, <<"bkm", "k0">>, <<"decision", "d7">>>>]

V(m) == [k |-> "num", m |-> m, e |-> 0]
Inputs == << [k |-> "ctx", ents |-> <<[n |-> "a", v |-> V(2)], [n |-> "b", v |-> V(3)]>>],
             [k |-> "ctx", ents |-> <<[n |-> "a", v |-> V(7)], [n |-> "b", v |-> V(0)], [n |-> "p", v |-> V(4)]>>],
             [k |-> "ctx", ents |-> <<[n |-> "a", v |-> V(1)]>>] >>

Models == {Model(k1, k2, d1, d2) : k1 \in K1Forms, k2 \in K2Forms, d1 \in D1Forms, d2 \in D2Forms}
ASSUME \A m \in Models : PrintT(<<"MODEL", ToJson(m)>>)
ASSUME PrintT(<<"INPUTS", ToJson(Inputs)>>)
ASSUME PrintT(<<"COUNT", Cardinality(Models)>>)
VARIABLE v
Init == v = 0
Next == FALSE /\ v' = v
=============================================================================
