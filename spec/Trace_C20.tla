----------------------------- MODULE Trace_C20 -----------------------------
(* C20, real schedules: each record is one concurrent run against one       *)
(* shared evaluator: n threads, a randomised start barrier and call order,  *)
(*   events  <<thread, k, inv, inp, val>> - the k-th call of the thread,    *)
(*           its invocable, the index of its input and the text of the      *)
(*           value that came back                                           *)
(*   death   "" | "timeout" (a hang: deadlock) | "signal n" | "exit n"      *)
(*   poisoned  some lock of the evaluator was poisoned afterwards (H4)      *)
(* IOEnv.SEQ holds the value of every (inv, inp) made alone (recorded       *)
(* single-threaded beforehand, twice).  Concurrent.tla's ResultsIntact, on  *)
(* the observed calls: every call returns what it returns when made alone;  *)
(* plus: every thread made all its calls, in order.  One record is a run of *)
(* a single thread making every call of the table in the opposite order in  *)
(* a fresh process: "made alone" also means whatever was called before.     *)
EXTENDS Naturals, Sequences, FiniteSets, TLC, Json, IOUtils
Recs == ndJsonDeserialize(IOEnv.TRACE)
Alone == ndJsonDeserialize(IOEnv.SEQ)
SeqSet == {Alone[k] : k \in 1..Len(Alone)}
Keys == {<<r.inv, r.inp>> : r \in SeqSet}
F == [key \in Keys |-> (CHOOSE r \in SeqSet : r.inv = key[1] /\ r.inp = key[2]).val]

Events(r) == {r.events[k] : k \in 1..Len(r.events)}
OfThread(r, t) == {e \in Events(r) : e[1] = t}
Verdict(r) ==
  IF r.death = "timeout" THEN "the run did not finish (deadlock or livelock)"
  ELSE IF r.death # "" THEN "the run died"
  ELSE IF r.poisoned THEN "a lock of the evaluator was left poisoned"
  ELSE IF \E e \in Events(r) : <<e[3], e[4]>> \notin Keys THEN "HARNESS: a call outside the sequential table"
  ELSE IF \E e \in Events(r) : e[5] # F[<<e[3], e[4]>>] THEN "a call returned another value than the same call made alone"
  ELSE IF \E t \in 1..r.n : {e[2] : e \in OfThread(r, t)} # 1..r.calls \/ Cardinality(OfThread(r, t)) # r.calls THEN "a thread lost or repeated a call"
  ELSE "ok"

VARIABLE i
Init == i \in 1..Len(Recs)
Next == FALSE /\ i' = i
Judged == LET w == Verdict(Recs[i]) IN IF w = "ok" THEN TRUE ELSE PrintT(<<"REJECT", i, w>>)
=============================================================================
