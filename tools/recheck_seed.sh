#!/bin/bash
# tools/recheck_seed.sh <seed> [check ids...]   applies /verif/seeded/<seed>/patch.diff to /repo, runs the quick checks, reverts /repo
set -u
S=$1; shift
D=/verif/seeded/$S
P=$D/patch.diff; [ -f $D/patch_rebased.diff ] && P=$D/patch_rebased.diff
CHECKS=${@:-$(echo $S | cut -c1-3)}
git -C /repo diff --quiet || { echo "/repo is not clean"; exit 2; }
git -C /repo apply $P || { echo "patch does not apply"; exit 2; }
RES=""
for c in $CHECKS; do
  ( cd /verif && ./check $c quick ) > $D/recheck_$c.out 2>&1; RC=$?
  RES="$RES $c:exit$RC"
  grep -m2 "VIOLATION\|TOOL-ERROR" $D/recheck_$c.out | cut -c1-300
done
git -C /repo checkout -q -- .
echo "$S:$RES"
