#!/usr/bin/env python3
"""Development aid: cases for SelfTest_Decimal — CPython's decimal (prec 34, half-even, decimal128 range) gives the
correctly rounded answers; each case carries the right answer (must be accepted) and a wrong one (must be rejected)."""
import json, random, decimal
from decimal import Decimal as D
random.seed(5)
ctx = decimal.Context(prec=34, rounding=decimal.ROUND_HALF_EVEN, Emin=-6143, Emax=6144, clamp=1, traps=[])
def canon(d):
    if d.is_nan() or d.is_infinite(): return None
    sign, digits, exp = d.as_tuple()
    digits=list(digits)
    while digits and digits[0]==0: digits.pop(0)
    while digits and digits[-1]==0: digits.pop(); exp+=1
    if not digits: return {"s":0,"c":[],"e":0}
    return {"s":sign,"c":digits,"e":exp}
def obs(d):
    if d is None: return {"k":"null"}
    c=canon(d)
    if c is None: return {"k":"null"}
    c.update({"k":"num","fin":True}); return c
def rnd():
    L=random.choice([1,1,2,5,17,33,34,34])
    digs=[random.choice([0,9,5,1,random.randrange(10)]) for _ in range(L)]
    if digs[0]==0: digs[0]=random.randrange(1,10)
    e=random.choice([0,0,-1,-2,1,5,-17,-33,-34,-35,34,40,-40,random.randrange(-60,60)])
    s=random.randrange(2)
    if random.random()<0.05: return D(0)
    return D((s,tuple(digs),e))
def bump(d):
    # a different 34-digit-precision neighbour (one ulp away at 34 digits)
    c=canon(d)
    if c is None or not c["c"]: return D(1)
    pad=34-len(c["c"])
    coef=int(''.join(map(str,c["c"])))*10**pad + random.choice([1,-1])
    return D((c["s"], tuple(int(x) for x in str(coef)), c["e"]-pad))
out=[]
def tiny_or_huge(r):
    return r.is_nan() or r.is_infinite() or (r!=0 and r.adjusted()< -6143)
for _ in range(700):
    a,b=rnd(),rnd()
    if random.random()<0.15:
        # ties and cancellation
        a=D((0,tuple([random.randrange(1,10)]+[random.randrange(10) for _ in range(33)]),0)); b=random.choice([D('0.5'),D('-0.5'),D('1.5'),D(2),-a+D(1)])
    op=random.choice(["add","sub","mul","div","sqrt","floor","ceiling","decimal","modulo","powint","cmp"])
    rec={"op":op,"a":canon(a),"b":canon(b)}
    ctx.clear_flags()
    if op=="add": r=ctx.add(a,b)
    elif op=="sub": r=ctx.subtract(a,b)
    elif op=="mul": r=ctx.multiply(a,b)
    elif op=="div":
        if b==0: rec["good"]={"k":"null"}; rec["bad"]=obs(D(1)); out.append(rec); continue
        r=ctx.divide(a,b)
    elif op=="sqrt":
        if a<0: rec["good"]={"k":"null"}; rec["bad"]=obs(D(1)); out.append(rec); continue
        r=ctx.sqrt(a)
    elif op=="floor": r=a.to_integral_value(rounding=decimal.ROUND_FLOOR)
    elif op=="ceiling": r=a.to_integral_value(rounding=decimal.ROUND_CEILING)
    elif op=="decimal":
        n=random.choice([-2,0,1,2,5,10]); rec["n"]=n
        if a!=0 and a.adjusted()+n+1>34: continue
        r=a.quantize(D((0,(1,),-n)), rounding=decimal.ROUND_HALF_EVEN, context=decimal.Context(prec=200))
    elif op=="modulo":
        if b==0 or (a!=0 and a.adjusted()-b.adjusted()>60): continue
        big=decimal.Context(prec=400)
        q=big.divide(a,b).to_integral_value(rounding=decimal.ROUND_FLOOR)
        exact=big.subtract(a, big.multiply(b,q))
        r=ctx.plus(exact)
    elif op=="powint":
        n=random.choice([-3,-2,-1,0,1,2,3,5]); rec["n"]=n
        if a==0: continue
        big=decimal.Context(prec=400)
        r=ctx.plus(big.power(a,n))
    elif op=="cmp":
        c=(a>b)-(a<b); B=lambda x: 1 if x else 2
        rec.update({"lt":B(c<0),"le":B(c<=0),"gt":B(c>0),"ge":B(c>=0),"eq":B(c==0),"ne":B(c!=0)})
        rec["goodcmp"]=True; out.append(rec); continue
    if tiny_or_huge(r): continue
    rec["good"]=obs(r)
    rec["bad"]=obs(bump(r)) if op not in ("floor","ceiling","decimal") else obs(r+D(1).scaleb(-rec.get("n",0)) if op=="decimal" else r+1)
    if rec["bad"]==rec["good"]: continue
    out.append(rec)
with open('/verif/spec/selftest/decimal_cases.ndjson','w') as f:
    for r in out: f.write(json.dumps(r)+'\n')
print(len(out))
