#!/usr/bin/env python3
"""tools/seed_prompt.py <Cnn> <round>   prints the brief for a fresh sub-agent that seeds changes breaking one property.

The brief contains the property record (text + anchors), the location of the agent's own scratch worktree, build
facts about the repository, and the one-line descriptions of changes seeded in earlier rounds (so that they are not
repeated) - nothing about the checks in /verif."""
import json, sys, re, os

pid, rnd = sys.argv[1], sys.argv[2]
tag = f"{pid}r{rnd}"
prop = None
for l in open('/verif/properties.jsonl'):
    p = json.loads(l)
    if p['id'] == pid:
        prop = p
earlier = []
notes = '/verif/seeded/NOTES.md'
if os.path.exists(notes):
    for l in open(notes):
        m = re.match(r'^\| (C\d\d[^ ]*) \| (.*?) \| (.*?) \|', l)
        if m and m.group(1).startswith(pid):
            earlier.append(f"- {m.group(2)} (needs: {m.group(3)})")
print(f"""You are working on a scratch git worktree of the Rust project dmntk.rs (a DMN decision-model toolkit: FEEL lexer and
LALR parser, FEEL evaluator, decimal numbers, temporal types, DMN XML model parser and evaluator, workspace, HTTP
server, decision-table recogniser). The worktree is at /tmp/wt/{tag} (create nothing outside /tmp/wt/{tag} and
/tmp/wt/{tag}.scratch; never touch /repo or /verif and do not read anything under /verif).

ONE semantic property of the code is given below. Produce TWO independent, realistic changes to the project's source
(Rust, or the bundled C decimal library under feel-number/decnumber) that each BREAK this property, such that
  (a) the whole workspace still compiles,
  (b) the existing test suite still passes exactly as it does without the change (same set of passing tests), and
  (c) a small demonstration program of yours FAILS (non-zero exit) with the change and PASSES (exit 0) without it.

The changes must look like things a maintainer could plausibly commit (an optimisation, a refactoring, a cache, a
"simplification", an early exit, a changed bound, a fix for something else with a side effect) - not sabotage with an
obvious marker - and each must need something SPECIFIC to manifest: a particular interleaving, a crash or fault at a
particular point, a multi-step sequence of operations, an unusual input or boundary value, a particular combination of
features, or two cooperating sites that each look fine alone. Changes that ordinary use would expose at once are not
wanted. The two changes should be different in kind and touch different places. Prefer places that the anchors of the
property point to, but anything that makes the stated property false is in scope.

PROPERTY {pid}: {prop.get('title','')}
{prop.get('statement','')}

Full property record (anchors name the files, mechanisms and observation points):
{json.dumps(prop, indent=1)}

Changes seeded in earlier rounds for this property - do NOT repeat these ideas or close variants:
{chr(10).join(earlier) if earlier else '- (none)'}

Build facts you need:
* Work offline: export CARGO_NET_OFFLINE=true ; use --offline ; use CARGO_BUILD_JOBS=4 (other jobs share the machine).
* The test suite: cd /tmp/wt/{tag} && CARGO_BUILD_JOBS=4 cargo nextest run --workspace --no-fail-fast --offline --test-threads 4
  (about 3374 tests; on the UNCHANGED tree 3 of them fail for environmental reasons - note which - and the SAME set must
  pass/fail with your change). Run it once unchanged to get the baseline, then once per change.
* IMPORTANT: inside the repository workspace every dmntk-* crate depends on its siblings BY VERSION ("0.0.46"), which
  Cargo.lock resolves to the crates.io copies in the cargo cache, not to the working tree. So a demonstration must be its
  own little cargo project with a [patch.crates-io] section pointing all 13 packages at the worktree, e.g.
  /tmp/wt/{tag}.scratch/demo1/Cargo.toml:
      [package]
      name = "{tag.lower()}-demo1"
      version = "0.0.0"
      edition = "2021"
      [workspace]
      [dependencies]
      dmntk-feel = "0.0.46"            # whichever of the crates you need
      [patch.crates-io]
      dmntk-common = {{ path = "/tmp/wt/{tag}/common" }}
      dmntk-evaluator = {{ path = "/tmp/wt/{tag}/evaluator" }}
      dmntk-examples = {{ path = "/tmp/wt/{tag}/examples" }}
      dmntk-feel = {{ path = "/tmp/wt/{tag}/feel" }}
      dmntk-feel-evaluator = {{ path = "/tmp/wt/{tag}/feel-evaluator" }}
      dmntk-feel-grammar = {{ path = "/tmp/wt/{tag}/feel-grammar" }}
      dmntk-feel-number = {{ path = "/tmp/wt/{tag}/feel-number" }}
      dmntk-feel-parser = {{ path = "/tmp/wt/{tag}/feel-parser" }}
      dmntk-model = {{ path = "/tmp/wt/{tag}/model" }}
      dmntk-model-evaluator = {{ path = "/tmp/wt/{tag}/model-evaluator" }}
      dmntk-recognizer = {{ path = "/tmp/wt/{tag}/recognizer" }}
      dmntk-server = {{ path = "/tmp/wt/{tag}/server" }}
      dmntk-workspace = {{ path = "/tmp/wt/{tag}/workspace" }}
  and `cp /tmp/wt/{tag}/Cargo.lock /tmp/wt/{tag}.scratch/demo1/Cargo.lock` before the first build (generating a lock
  file offline fails). Other crates available offline include serde, serde_json, rand, actix-web 3.3.2, base64 0.13.0.
  If a C file under feel-number/decnumber is changed, `touch feel-number/build.rs` so that it is recompiled.
* Code behind `#[cfg(dmntk_verif)]` is instrumentation that is compiled out in normal builds; leave it alone.

Deliverables, all under /tmp/wt/{tag}.scratch/ (N = 1, 2):
  mutN.diff     `git diff` of the change against the worktree's HEAD (applies with `git apply` from the worktree root)
  demoN/        the demonstration cargo project (Cargo.toml, Cargo.lock, src/main.rs); exit 0 = property held on the
                demonstrated inputs, non-zero = broken; it prints what it observed
  demoN.cmd     one shell line that runs it:   cd /tmp/wt/{tag}.scratch/demoN && cargo run -q --offline
  metaN.json    {{"property": "{pid}", "what": "<what was changed and why it looks innocent>", "needs": "<what it needs
                in order to manifest, with concrete example inputs>", "files": [...], "ran": ["<each command you ran
                and its outcome: baseline suite, suite with change, demo without, demo with>"]}}
Leave the worktree CLEAN at the end (git checkout -- . ; no untracked source files), keep its target/ directory.
Verify everything yourself: (1) baseline suite, (2) for each change: apply, build, suite identical to baseline, demo
fails; revert, demo passes. If a change makes an existing test fail, pick another change. Report briefly: for each
change one paragraph (what, needs, demo outcome with/without, suite outcome).""")
