#!/usr/bin/env python3
"""Self-test data for Regex.tla: random small syntax trees rendered by this script the way Regex!Render
does, with Python's re (a leftmost-first backtracking matcher) as the independent oracle."""
import json, random, re, sys
OUT = sys.argv[2] if len(sys.argv) > 2 else '/verif/spec/selftest/regex_cases.ndjson'
random.seed(20260924)
ALPHA = [97, 98, 99, 45, 49, 65, 66]   # a b c - 1 A B
WIDE = ALPHA + [32, 233, 1078, 20013, 57]   # + blank, e-acute, a Cyrillic and a CJK letter, 9 (subjects of expressions with class escapes)
SPECIAL = {40, 41, 42, 43, 46, 63, 91, 92, 93, 94, 36, 123, 124, 125, 45}
def gen(d, groups):
    k = random.random()
    if d == 0 or k < 0.3:
        t = random.random()
        if t < 0.6: return {"r": "chr", "c": random.choice(ALPHA)}
        if t < 0.7: return {"r": "any"}
        if t < 0.78: return {"r": "uc", "c": random.choice(["w", "d", "s", "L"]), "neg": random.random() < 0.25}
        if t < 0.85: return {"r": "cls", "set": random.sample([97, 98, 99, 49], random.randint(1, 3)), "neg": random.random() < 0.3}
        return {"r": "rng", "lo": 97, "hi": random.choice([97, 98, 99]), "neg": random.random() < 0.3}
    if k < 0.55: return {"r": "cat", "a": gen(d - 1, groups), "b": gen(d - 1, groups)}
    if k < 0.7: return {"r": "alt", "a": gen(d - 1, groups), "b": gen(d - 1, groups)}
    if k < 0.78: return {"r": "star", "a": gen(d - 1, groups)}
    if k < 0.86: return {"r": "plus", "a": gen(d - 1, groups)}
    if k < 0.90: return {"r": "opt", "a": gen(d - 1, groups)}
    if k < 0.95:
        lo = random.randint(0, 3); hi = lo + random.choice([0, 0, 1, 2, 40]) if lo > 0 else random.choice([1, 2, 3, 40])
        return {"r": "rep", "a": gen(0, groups), "lo": lo, "hi": hi}       # (a single character or class is repeated)
    if groups[0] < 3:
        groups[0] += 1
        g = groups[0]
        return {"r": "grp", "a": gen(d - 1, groups), "g": g}
    return {"r": "chr", "c": random.choice(ALPHA)}
def atom(r): return r["r"] in ("chr", "any", "cls", "rng", "grp", "uc")
LETTERS = "a-zA-Z\u00e9\u00f3\u0142\u017c\u0436\u4e2d"
def has(r, kind): return r["r"] == kind or any(has(r[f], kind) for f in ("a", "b") if f in r and isinstance(r[f], dict))
def pyrender(r):
    # the same expression for Python's re: \p{L} is not known to it, the known letters are spelled out
    k = r["r"]
    if k == "uc":
        if r["c"] == "L": return "[" + ("^" if r["neg"] else "") + LETTERS + "]"
        return "\\" + (r["c"].upper() if r["neg"] else r["c"])
    if k == "rep": return pyparen(r["a"]) + "{" + str(r["lo"]) + ("" if r["hi"] == r["lo"] else "," + str(r["hi"])) + "}"
    if k == "cat": return (pyparen(r["a"]) if r["a"]["r"] == "alt" else pyrender(r["a"])) + (pyparen(r["b"]) if r["b"]["r"] == "alt" else pyrender(r["b"]))
    if k == "alt": return pyrender(r["a"]) + "|" + pyrender(r["b"])
    if k == "star": return pyparen(r["a"]) + "*"
    if k == "plus": return pyparen(r["a"]) + "+"
    if k == "opt": return pyparen(r["a"]) + "?"
    if k == "grp": return "(" + pyrender(r["a"]) + ")"
    return ''.join(map(chr, render(r)))
def pyparen(r): return pyrender(r) if atom(r) else "(?:" + pyrender(r) + ")"
def paren(r): return render(r) if atom(r) else [40, 63, 58] + render(r) + [41]
def render(r):
    k = r["r"]
    if k == "chr": return [92, r["c"]] if r["c"] in SPECIAL else [r["c"]]
    if k == "any": return [46]
    if k == "cls": return [91] + ([94] if r["neg"] else []) + r["set"] + [93]
    if k == "rng": return [91] + ([94] if r["neg"] else []) + [r["lo"], 45, r["hi"]] + [93]
    if k == "cat": return (paren(r["a"]) if r["a"]["r"] == "alt" else render(r["a"])) + (paren(r["b"]) if r["b"]["r"] == "alt" else render(r["b"]))
    if k == "alt": return render(r["a"]) + [124] + render(r["b"])
    if k == "star": return paren(r["a"]) + [42]
    if k == "plus": return paren(r["a"]) + [43]
    if k == "opt": return paren(r["a"]) + [63]
    if k == "grp": return [40] + render(r["a"]) + [41]
    if k == "rep": return paren(r["a"]) + [123] + [ord(c) for c in str(r["lo"])] + ([] if r["hi"] == r["lo"] else [44] + [ord(c) for c in str(r["hi"])]) + [125]
    if k == "uc":
        if r["c"] == "L": return [92, 80 if r["neg"] else 112, 123, 76, 125]
        return [92, ord(r["c"].upper() if r["neg"] else r["c"])]
def groups_in_order(r, acc):
    # group numbers must follow the order of opening parentheses
    if r["r"] == "grp":
        acc.append(r["g"]); groups_in_order(r["a"], acc)
    for f in ("a", "b"):
        if f in r and r["r"] != "grp": groups_in_order(r[f], acc)
    return acc
out = []
n = int(sys.argv[1]) if len(sys.argv) > 1 else 400
while len(out) < n:
    g = [0]
    ast = gen(3, g)
    order = groups_in_order(ast, [])
    if order != sorted(order): continue
    pat = pyrender(ast)
    try: cre = re.compile(pat)
    except re.error: continue
    s = ''.join(chr(random.choice(WIDE if (has(ast, "uc") or has(ast, "rep")) else ALPHA)) for _ in range(random.randint(0, 7)))
    empty = any(m.start() == m.end() for m in cre.finditer(s)) or cre.fullmatch('') is not None
    rep = random.choice(["", "x", "[$1]", "$1$1", "<\\$>", "$2-"])
    rec = {"ast": ast, "pat": render(ast), "s": [ord(c) for c in s], "matches": cre.search(s) is not None, "empty": empty, "ngroups": g[0]}
    crei = re.compile(pat, re.I)
    rec["matches_i"] = crei.search(s) is not None
    if not any(m.start() == m.end() for m in crei.finditer(s)) and crei.fullmatch('') is None:
        rec["replaced_i"] = [ord(c) for c in crei.sub('x', s)]
    if not empty:
        ok = True
        # the replacement refers to existing groups only
        for d in ("1", "2", "3"):
            if "$" + d in rep and int(d) > g[0]: ok = False
        if ok:
            pyrep = rep.replace("\\$", "\0").replace("\\", "\\\\").replace("$1", "\\1").replace("$2", "\\2").replace("$3", "\\3").replace("\0", "$")
            res = cre.sub(lambda m: m.expand(pyrep) if False else ''.join((m.group(int(t[1])) or '') if t.startswith('$') else t for t in re.findall(r'\$[123]|\\.|[^$\\]', rep)).replace('\\$', '$').replace('\\\\', '\\'), s)
            rec["rep"] = [ord(c) for c in rep]; rec["replaced"] = [ord(c) for c in res]
        pieces, last = [], 0
        for m in cre.finditer(s):
            pieces.append(s[last:m.start()]); last = m.end()
        pieces.append(s[last:])
        rec["pieces"] = [[ord(c) for c in p] for p in pieces]
    out.append(rec)
with open(OUT, 'w') as f:
    for r in out: f.write(json.dumps(r) + '\n')
print(len(out), 'cases', sum(1 for r in out if 'replaced' in r), 'with replace', sum(1 for r in out if r['matches']), 'matching')
