#!/usr/bin/env python3
"""Self-test data for Regex.tla: random small syntax trees rendered by this script the way Regex!Render
does, with Python's re (a leftmost-first backtracking matcher) as the independent oracle."""
import json, random, re, sys
OUT = sys.argv[2] if len(sys.argv) > 2 else '/verif/spec/selftest/regex_cases.ndjson'
random.seed(20260924)
ALPHA = [97, 98, 99, 45, 49, 65, 66]   # a b c - 1 A B
SPECIAL = {40, 41, 42, 43, 46, 63, 91, 92, 93, 94, 36, 123, 124, 125, 45}
def gen(d, groups):
    k = random.random()
    if d == 0 or k < 0.3:
        t = random.random()
        if t < 0.6: return {"r": "chr", "c": random.choice(ALPHA)}
        if t < 0.7: return {"r": "any"}
        if t < 0.85: return {"r": "cls", "set": random.sample([97, 98, 99, 49], random.randint(1, 3)), "neg": random.random() < 0.3}
        return {"r": "rng", "lo": 97, "hi": random.choice([97, 98, 99]), "neg": random.random() < 0.3}
    if k < 0.55: return {"r": "cat", "a": gen(d - 1, groups), "b": gen(d - 1, groups)}
    if k < 0.7: return {"r": "alt", "a": gen(d - 1, groups), "b": gen(d - 1, groups)}
    if k < 0.78: return {"r": "star", "a": gen(d - 1, groups)}
    if k < 0.86: return {"r": "plus", "a": gen(d - 1, groups)}
    if k < 0.92: return {"r": "opt", "a": gen(d - 1, groups)}
    if groups[0] < 3:
        groups[0] += 1
        g = groups[0]
        return {"r": "grp", "a": gen(d - 1, groups), "g": g}
    return {"r": "chr", "c": random.choice(ALPHA)}
def atom(r): return r["r"] in ("chr", "any", "cls", "rng", "grp")
def paren(r): return render(r) if atom(r) else [40, 63, 58] + render(r) + [41]
def render(r):
    k = r["r"]
    if k == "chr": return [92, r["c"]] if r["c"] in SPECIAL else [r["c"]]
    if k == "any": return [46]
    if k == "cls": return [91] + ([94] if r["neg"] else []) + r["set"] + [93]
    if k == "rng": return [91] + ([94] if r["neg"] else []) + [r["lo"], 45, r["hi"]] + [93]
    if k == "cat": return (paren(r["a"]) if r["a"]["r"] == "alt" else render(r["a"])) + (paren(r["b"]) if r["b"]["r"] == "alt" else render(r["b"]))
    if k == "alt": return render(r["a"]) + [124] + render(r["b"])
    if k == "star": return paren(r["a"]) + [42]
    if k == "plus": return paren(r["a"]) + [43]
    if k == "opt": return paren(r["a"]) + [63]
    if k == "grp": return [40] + render(r["a"]) + [41]
def groups_in_order(r, acc):
    # group numbers must follow the order of opening parentheses
    if r["r"] == "grp":
        acc.append(r["g"]); groups_in_order(r["a"], acc)
    for f in ("a", "b"):
        if f in r and r["r"] != "grp": groups_in_order(r[f], acc)
    return acc
out = []
n = int(sys.argv[1]) if len(sys.argv) > 1 else 400
while len(out) < n:
    g = [0]
    ast = gen(3, g)
    order = groups_in_order(ast, [])
    if order != sorted(order): continue
    pat = ''.join(map(chr, render(ast)))
    try: cre = re.compile(pat)
    except re.error: continue
    s = ''.join(chr(random.choice(ALPHA)) for _ in range(random.randint(0, 6)))
    empty = any(m.start() == m.end() for m in cre.finditer(s)) or cre.fullmatch('') is not None
    rep = random.choice(["", "x", "[$1]", "$1$1", "<\\$>", "$2-"])
    rec = {"ast": ast, "pat": render(ast), "s": [ord(c) for c in s], "matches": cre.search(s) is not None, "empty": empty, "ngroups": g[0]}
    crei = re.compile(pat, re.I)
    rec["matches_i"] = crei.search(s) is not None
    if not any(m.start() == m.end() for m in crei.finditer(s)) and crei.fullmatch('') is None:
        rec["replaced_i"] = [ord(c) for c in crei.sub('x', s)]
    if not empty:
        ok = True
        # the replacement refers to existing groups only
        for d in ("1", "2", "3"):
            if "$" + d in rep and int(d) > g[0]: ok = False
        if ok:
            pyrep = rep.replace("\\$", "\0").replace("\\", "\\\\").replace("$1", "\\1").replace("$2", "\\2").replace("$3", "\\3").replace("\0", "$")
            res = cre.sub(lambda m: m.expand(pyrep) if False else ''.join((m.group(int(t[1])) or '') if t.startswith('$') else t for t in re.findall(r'\$[123]|\\.|[^$\\]', rep)).replace('\\$', '$').replace('\\\\', '\\'), s)
            rec["rep"] = [ord(c) for c in rep]; rec["replaced"] = [ord(c) for c in res]
        pieces, last = [], 0
        for m in cre.finditer(s):
            pieces.append(s[last:m.start()]); last = m.end()
        pieces.append(s[last:])
        rec["pieces"] = [[ord(c) for c in p] for p in pieces]
    out.append(rec)
with open(OUT, 'w') as f:
    for r in out: f.write(json.dumps(r) + '\n')
print(len(out), 'cases', sum(1 for r in out if 'replaced' in r), 'with replace', sum(1 for r in out if r['matches']), 'matching')
