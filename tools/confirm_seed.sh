#!/bin/bash
# tools/confirm_seed.sh <ID> <N> [check ids...]
# Confirms a sub-agent's seeded change in its scratch worktree /tmp/wt/<ID> (compiles, suite still passes,
# demonstration fails with / passes without), then applies it to /repo, runs the given checks (default: <ID>),
# reverts /repo, and files everything under /verif/seeded/<ID>-<N>/.
set -u
ID=$1; N=$2; shift 2
CHECKS=${@:-$ID}
WT=/tmp/wt/$ID; SC=/tmp/wt/$ID.scratch
OUT=/verif/seeded/$ID-$N; mkdir -p $OUT
cp $SC/mut$N.diff $OUT/patch.diff
[ -e $SC/demo$N.cmd ] && cp $SC/demo$N.cmd $OUT/demo.cmd
[ -d $SC/demo$N ] && { mkdir -p $OUT/demo; cp -r $SC/demo$N/src $SC/demo$N/Cargo.toml $OUT/demo/ 2>/dev/null; }
[ -f $SC/demo$N.rs ] && cp $SC/demo$N.rs $OUT/demo.rs
LOG=$OUT/confirm.log; : > $LOG
cd $WT || exit 2
git checkout -q -- . ; git clean -fdq -e target >/dev/null 2>&1
echo "== demo WITHOUT change" >> $LOG
( bash $SC/demo$N.cmd ) >> $LOG 2>&1; D0=$?
git apply $SC/mut$N.diff || { echo "patch does not apply" | tee -a $LOG; exit 2; }
touch feel-number/build.rs     # (a changed C file of the bundled decimal library is recompiled only when the build script is newer)
echo "== suite WITH change" >> $LOG
NEXTEST_EXPERIMENTAL_LIBTEST_JSON=1 CARGO_NET_OFFLINE=true cargo nextest run --workspace --no-fail-fast --test-threads 8 --offline --message-format libtest-json-plus > $OUT/nextest.json 2>>$LOG
PASSED=$(python3 - $OUT/nextest.json <<'PY'
import json,sys,re
base=set(json.load(open('/root/.vp/BASELINE.json'))['stable_pass']); ok=set()
for l in open(sys.argv[1]):
    try: e=json.loads(l)
    except Exception: continue
    if e.get('type')=='test' and e.get('event')=='ok':
        m=re.match(r'^([^:]+)::([^$]*)\$(.*)$', e['name'])
        if m:
            c,b,r=m.groups(); ok.add(c+'::'+r); ok.add(c+'::'+b+'::'+r)
print(len([t for t in base if t in ok]), len(base))
PY
)
rm -f $OUT/nextest.json
echo "suite with change: passing/baseline = $PASSED" >> $LOG
echo "== demo WITH change" >> $LOG
( bash $SC/demo$N.cmd ) >> $LOG 2>&1; D1=$?
git checkout -q -- . ; git clean -fdq -e target >/dev/null 2>&1; touch feel-number/build.rs
# now the registered checks against /repo
cd /repo && git apply $SC/mut$N.diff || { echo "patch does not apply to /repo" | tee -a $LOG; exit 2; }
RES=""
for c in $CHECKS; do
  ( cd /verif && ./check $c quick ) > $OUT/check_$c.out 2>&1; RC=$?
  RES="$RES $c:exit$RC"
  grep -m3 "VIOLATION\|TOOL-ERROR" $OUT/check_$c.out >> $LOG
done
git -C /repo checkout -q -- .
echo "demo_without=$D0 demo_with=$D1 suite=$PASSED checks=$RES" | tee -a $LOG
python3 - "$ID" "$N" "$D0" "$D1" "$PASSED" "$RES" <<'PY'
import json,sys
i,n,d0,d1,passed,res=sys.argv[1:]
meta=json.load(open(f'/tmp/wt/{i}.scratch/meta{n}.json'))
meta.update({"confirmed":{"demo_exit_without_change":int(d0),"demo_exit_with_change":int(d1),"suite_passing_of_baseline":passed,"checks":res.strip()}})
json.dump(meta,open(f'/verif/seeded/{i}-{n}/meta.json','w'),indent=1)
PY
