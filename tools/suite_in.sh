#!/bin/bash
# tools/suite_in.sh <dir>   runs the repository's test suite in <dir> (a worktree of /repo) and prints how many of the
# baseline's stable-pass tests pass: "<passing> <baseline>"
cd "$1" || exit 2
OUT=$(mktemp)
NEXTEST_EXPERIMENTAL_LIBTEST_JSON=1 CARGO_NET_OFFLINE=true cargo nextest run --workspace --no-fail-fast --test-threads 8 --offline --message-format libtest-json-plus > $OUT 2>/dev/null
python3 - $OUT <<'PY'
import json,sys,re
base=set(json.load(open('/root/.vp/BASELINE.json'))['stable_pass']); ok=set()
for l in open(sys.argv[1]):
    try: e=json.loads(l)
    except Exception: continue
    if e.get('type')=='test' and e.get('event')=='ok':
        m=re.match(r'^([^:]+)::([^$]*)\$(.*)$', e['name'])
        if m:
            c,b,r=m.groups(); ok.add(c+'::'+r); ok.add(c+'::'+b+'::'+r)
missing=[t for t in base if t not in ok]
print(len(base)-len(missing), len(base))
for t in missing[:20]: print("MISSING", t)
PY
rm -f $OUT
