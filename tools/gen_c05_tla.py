BS = chr(92)
def tla_str(s):
    # TLA+ string literal for the Python string s
    return '"' + s.replace(BS, BS+BS).replace('"', BS+'"') + '"'
U = BS + 'u'
UU = BS + 'U'
escape_atoms = [U+'D83D', U+'DE00', U+'DBFF', U+'DC00', U+'DFFF', U+'D800', U+'0041', U+'0000', U+'FFFF', UU+'01F600', UU+'110000', UU+'FFFFFF', UU+'00D83D',
                U+'12', U, BS+'x', BS+BS, BS+'"', BS+'n', 'a', BS]
bifs = ["abs","after","all","any","append","before","ceiling","coincides","concatenate","contains","count","date","date and time","day of week","day of year","decimal","distinct values","duration","during","ends with","even","exp","finished by","finishes","flatten","floor","get entries","get value","includes","index of","insert before","is","list contains","log","lower case","matches","max","mean","median","meets","met by","min","mode","modulo","month of year","not","number","odd","overlaps after","overlaps before","product","remove","replace","reverse","sort","split","sqrt","started by","starts","starts with","stddev","string","string length","sublist","substring","substring after","substring before","sum","time","union","upper case","week of year","years and months duration"]
# argument pool: token sequences (the first 12 form the quick pool)
args = [
 ['null'], ['0'], ['1'], ['-', '1'], ['"a"'], ['""'], ['[', ']'], ['[', '1', ',', 'null', ']'], ['[', 'null', ',', 'null', ']'], ['true'],
 ['10', '**', '6144'], ['0.5'],
 ['"' + 'z' + U + '00F3' + U + '0142w' + '"'], ['"' + U + '00F3' + '"'], ['"' + UU + '01F600' + 'a' + UU + '01F600' + '"'], ['"' + UU + '01F600' + '"'],
 ['-', '5'], ['4294967297'], ['18446744073709551617'], ['-', '10', '**', '6144'], ['10', '**', '-', '6176'], ['1', '/', '3'],
 ['[', '1', ',', '2', ',', '3', ']'], ['[', '"b"', ',', '"a"', ']'], ['[', '[', ']', ',', '[', '1', ']', ']'], ['{', 'k', ':', '1', '}'], ['{', '}'],
 ['"(a"'], ['"[a-"'], ['"x{99999}"'], ['"' + BS + BS + '"'], ['"' + U + 'D83D' + U + 'DE00' + '"'],
 ['@', '"2021-03-28T02:30:00@Europe/Paris"'], ['@', '"2021-10-31T02:30:00@Europe/Paris"'], ['@', '"999999999-12-31"'], ['@', '"-999999999-01-01T00:00:00Z"'],
 ['@', '"P999999999999999999D"'], ['@', '"-P999999999999999999Y"'], ['@', '"PT0.000000001S"'], ['@', '"23:59:59.999999999+14:59:59"'], ['@', '"2021-01-01"'],
 ['[', '1', '..', '2', ']'], ['(', '"a"', '..', '"b"', ')'], ['function', '(', 'x', ')', 'x'], ['biglist'], ['bigtext'],
]
quick_args = 16
# machine-integer edges (the ends of u8 / u16 / i32 / u32 / i64 / u64 and their neighbours), as literal tokens; the first
# `quick_edges` are used in the quick tier
def lit(n):
    return [str(n)] if n >= 0 else ['-', str(-n)]
edges = [2147483647, 2147483648, 4294967296, 9223372036854775807, 9223372036854775808, 18446744073709551615, 18446744073709551616, -2147483649, -9223372036854775808, -9223372036854775809,
         4294967295, 9223372036854775806, -2147483648, 255, 256, 65535, 65536, 18446744073709551614]
quick_edges = 10
# strings holding the character U+0000 (written as an escape), which C interfaces cannot carry
nul_strings = [['"' + U + '0000' + '"'], ['"1' + U + '00002"']]
# expressions whose value is not a finite number on this implementation (recorded for C02): as an ARGUMENT such a value
# passes range tests like (0..60).contains(x)
non_finite = [['decimal', '(', '1.5', ',', '6175', ')'], ['10', '**', '6144', '*', '10'], ['-', '10', '**', '6144', '*', '10']]
fillers = [['[', '1', ',', '2', ',', '3', ']'], ['"abc"'], ['2'], ['@', '"2021-01-01"']]
# offsets for time(h, m, s, offset): inside, at and beyond what a zone offset can be
offsets = ['PT14H', 'PT14H1S', 'PT18H', 'PT23H59M59S', 'P1D', '-P1D', 'PT24H1S', 'P2D', '-PT23H59M59S', 'P1000D', '-PT18H', 'PT0.5S']
edge_special = []
for e in edges:
    E = lit(e)
    edge_special += [['[', '1', ',', '2', ',', '3', ']', '['] + E + [']'], ['for', 'i', 'in'] + E + ['..'] + E + ['return', 'i'],
                     ['for', 'i', 'in'] + lit(e - 1) + ['..'] + E + ['return', 'i'], ['for', 'i', 'in'] + E + ['..'] + lit(e + 1) + ['return', 'i'],
                     ['for', 'i', 'in'] + E + ['..'] + lit(e - 1) + ['return', 'i'], ['some', 'i', 'in'] + E + ['..'] + E + ['satisfies', 'i', '>', '0'],
                     E + ['+', '1'], E + ['*'] + E, ['-', '('] + E + [')'], E + ['**', '2'], ['2', '**'] + E, ['1', 'in', '['] + E + ['..'] + lit(e + 1) + [']'],
                     ['@', '"P1D"', '*'] + E, ['@', '"P1M"', '*'] + E, ['@', '"2021-01-01"', '+', '@', '"P1D"', '*'] + E]
for n in nul_strings:
    edge_special += [['number', '('] + n + [',', '","', ',', '"."', ')'], ['number', '('] + n + [',', 'null', ',', 'null', ')'], ['number', '(', '"1"', ','] + n + [',', '"."', ')'],
                     ['matches', '('] + n + [','] + n + [')'], ['replace', '('] + n + [','] + n + [','] + n + [')'], ['split', '('] + n + [','] + n + [')'],
                     n + ['+'] + n, ['{'] + n + [':', '1', '}'], ['@'] + n, n + ['<'] + n, ['string length', '('] + n + [')'], ['contains', '('] + n + [','] + n + [')']]
# many DIFFERENT texts of one kind in one evaluation (caches, pools and rings keyed by a text fill up and turn over)
def many(body):
    return ['count', '(', 'for', 'i', 'in', '1', '..', '300', 'return'] + body + [')']
edge_special += [many(['matches', '(', '"aaaaa"', ',', '"^a{"', '+', 'string', '(', 'i', ')', '+', '"}$"', ')']),
                 many(['replace', '(', '"abcabc"', ',', '"b{1,"', '+', 'string', '(', 'i', ')', '+', '"}"', ',', '"x"', ')']),
                 many(['split', '(', '"a1b2c"', ',', '"[0-9]{1,"', '+', 'string', '(', 'i', ')', '+', '"}"', ')']),
                 many(['number', '(', 'string', '(', 'i', ')', '+', '".5"', ',', '","', ',', '"."', ')']),
                 many(['duration', '(', '"P"', '+', 'string', '(', 'i', ')', '+', '"D"', ')']),
                 many(['date', '(', '2000', '+', 'i', ',', '1', ',', '1', ')']),
                 many(['date', '(', 'string', '(', '2000', '+', 'i', ')', '+', '"-01-01"', ')']),
                 many(['time', '(', '"10:00:00+00:"', '+', 'string', '(', '10', '+', 'i', '/', '10', ')', ')']),
                 many(['string', '(', 'i', '/', '7', ')']),
                 many(['{', 'a', ':', 'i', '}', '.', 'a']),
                 many(['(', 'function', '(', 'u', ')', 'u', '+', 'i', ')', '(', '1', ')'])]
# durations at the ends of the 64-bit month count and of the 32-bit second count of a zone offset, combined and printed
ym_edges = ['P9223372036854775807M', '-P9223372036854775807M', 'P768614336404564650Y7M', '-P768614336404564650Y7M']
for a in ym_edges:
    A = ['duration', '(', '"%s"' % a, ')']
    for b in ['P1M', '-P1M', 'P1Y']:
        B = ['duration', '(', '"%s"' % b, ')']
        for op in ['+', '-']:
            edge_special += [['string', '('] + A + [op] + B + [')'], ['('] + A + [op] + B + [')', '.', 'years'], A + [op] + B + ['<'] + A]
    edge_special += [['string', '(', '-'] + A + [')'], ['string', '('] + A + ['*', '2', ')'], ['abs', '('] + A + [')'], ['string', '('] + A + ['/', '0.5', ')']]
offsets += ['P24855DT3H14M7S', 'P24855DT3H14M8S', '-P24855DT3H14M8S', '-P24855DT3H14M9S', 'P49710DT6H28M16S']
for d in offsets:
    T = ['time', '(', '10', ',', '0', ',', '0', ',', 'duration', '(', '"%s"' % d, ')', ')']
    edge_special += [T, T + ['='] + T, T + ['<'] + T, T + ['-'] + T, ['string', '('] + T + [')'], T + ['.', 'time offset'], T + ['.', 'timezone'],
                     ['date and time', '(', 'date', '(', '"2021-01-01"', ')', ','] + T + [')'],
                     ['date and time', '(', 'date', '(', '"2021-01-01"', ')', ','] + T + [')', '=', 'date and time', '(', '"2021-01-01T10:00:00Z"', ')'],
                     ['date and time', '(', 'date', '(', '"2021-01-01"', ')', ','] + T + [')', '-', 'date and time', '(', '"2021-01-01T10:00:00Z"', ')'],
                     T + ['+', '@', '"PT1H"'], T + ['in', '['] + T + ['..'] + T + [']']]
special = [
 # temporal arithmetic and properties at extremes and switch-over readings
 ['date and time', '(', '"2021-03-28T02:30:00@Europe/Paris"', ')', '.', 'time offset'],
 ['date and time', '(', '"2021-03-28T02:30:00@Europe/Paris"', ')', '=', 'date and time', '(', '"2021-03-28T01:30:00Z"', ')'],
 ['date and time', '(', '"2021-03-28T02:30:00@Europe/Paris"', ')', '-', 'date and time', '(', '"2021-03-28T01:30:00Z"', ')'],
 ['date and time', '(', '"2021-10-31T02:30:00@Europe/Paris"', ')', '<', 'date and time', '(', '"2021-03-28T01:30:00Z"', ')'],
 ['time', '(', '"02:30:00@America/New_York"', ')', '.', 'time offset'],
 ['date and time', '(', '"2021-03-14T02:30:00@America/New_York"', ')', '.', 'weekday'],
 ['string', '(', 'date and time', '(', '"2021-03-28T02:30:00@Europe/Paris"', ')', ')'],
 ['duration', '(', '"P999999999999999999Y"', ')'], ['duration', '(', '"P99999999999999999999D"', ')'], ['duration', '(', '"P18446744073709551615DT18446744073709551615H"', ')'],
 ['duration', '(', '"P999999999999999999D"', ')', '+', 'duration', '(', '"P999999999999999999D"', ')'],
 ['-', 'duration', '(', '"-P9223372036854775807M"', ')'], ['duration', '(', '"P9223372036854775807M"', ')', '+', 'duration', '(', '"P1M"', ')'],
 ['duration', '(', '"P768614336404564650Y8M"', ')'], ['duration', '(', '"P768614336404564651Y"', ')'], ['duration', '(', '"-P999999999999999999D"', ')', '.', 'days'],
 ['date', '(', '"999999999-12-31"', ')', '.', 'weekday'], ['date', '(', '999999999', ',', '12', ',', '31', ')'], ['date', '(', '10', '**', '30', ',', '1', ',', '1', ')'],
 ['date and time', '(', 'date', '(', '"999999999-12-31"', ')', ',', 'time', '(', '"23:59:59+14:00"', ')', ')'],
 ['date and time', '(', '"999999999-12-31T23:59:59Z"', ')', '-', 'date and time', '(', '"-999999999-01-01T00:00:00Z"', ')'],
 ['years and months duration', '(', 'date', '(', '"-999999999-01-01"', ')', ',', 'date', '(', '"999999999-12-31"', ')', ')'],
 ['time', '(', '24', ',', '0', ',', '0', ')'], ['time', '(', '-', '1', ',', '300', ',', '70', ')'], ['time', '(', '10', ',', '0', ',', '0', ',', 'duration', '(', '"P999999999D"', ')', ')'],
 ['time', '(', '10', ',', '0', ',', '0.9999999999', ')'], ['date', '(', '2020', ',', '2', ',', '29.5', ')'], ['date and time', '(', '"2021-01-01"', ')'],
 ['string', '(', '10', '**', '6144', ')'], ['string', '(', '10', '**', '-', '6176', ')'], ['decimal', '(', '1', '/', '3', ',', '10', '**', '10', ')'], ['decimal', '(', '1', ',', '-', '10', '**', '10', ')'],
 ['1', '/', '0'], ['10', '**', '6144', '*', '10'], ['2', '**', '0.5'], ['(', '-', '8', ')', '**', '(', '1', '/', '3', ')'], ['0', '**', '0'], ['0', '**', '-', '1'], ['10', '**', '10', '**', '10'],
 ['substring', '(', '"abc"', ',', '-', '10', '**', '30', ')'], ['substring', '(', '"abc"', ',', '1', ',', '10', '**', '30', ')'], ['substring', '(', '"abc"', ',', '0.5', ',', '1.5', ')'],
 ['sublist', '(', '[', '1', ',', '2', ']', ',', '-', '3', ',', '1', ')'], ['sublist', '(', '[', '1', ',', '2', ']', ',', '2', ',', '-', '1', ')'], ['sublist', '(', '[', '1', ']', ',', '10', '**', '30', ')'],
 ['remove', '(', '[', '1', ']', ',', '2', '**', '64', ')'], ['insert before', '(', '[', '1', ']', ',', '-', '2', ',', '0', ')'], ['[', '1', ',', '2', ']', '[', '-', '3', ']'], ['[', '1', ',', '2', ']', '[', '2', '**', '64', ']'],
 ['[', '1', ',', '2', ']', '[', '0.5', ']'], ['replace', '(', '"abc"', ',', '"(b)"', ',', '"$2"', ')'], ['replace', '(', '"abc"', ',', '"b"', ',', '"$"', ')'], ['matches', '(', '"a"', ',', '"a"', ',', '"zz"', ')'],
 ['split', '(', '"abc"', ',', '""', ')'], ['number', '(', '"1,5"', ',', '","', ',', '","', ')'], ['number', '(', '"1e999999999"', ',', 'null', ',', 'null', ')'], ['number', '(', '""', ',', '" "', ',', '"."', ')'],
 ['for', 'i', 'in', '3', '..', '1', 'return', 'i'], ['for', 'i', 'in', '1', '..', '3', 'return', 'partial', '[', '-', '1', ']'], ['for', 'i', 'in', '[', ']', 'return', 'partial'],
 ['for', 'i', 'in', '1', '..', '0.5', 'return', 'i'], ['for', 'i', 'in', '0.5', '..', '2', 'return', 'i'], ['for', ' ', 'in', 'x', 'return', '1'], ['some', 'in', 'in', 'x', 'satisfies', 'in'],
 ['{', 'a', ':', '1', ',', 'a', ':', '2', '}'], ['{', '"', '"', ':', '1', '}'], ['{', 'a b', ':', '1', '}', '.', 'a b'], ['x', '.', 'q', '.', 'q', '.', 'q'], ['sort', '(', '[', '3', ',', '"a"', ',', 'null', ']', ',', 'function', '(', 'x', ',', 'y', ')', 'x', '<', 'y', ')'],
 ['sort', '(', '[', '3', ',', '1', ']', ',', 'function', '(', 'x', ')', 'x', ')'], ['sort', '(', '[', '3', ',', '1', ']', ',', 'function', '(', 'x', ',', 'y', ')', 'null', ')'], ['function', '(', 'x', ')', 'external', '{', 'java', ':', '{', 'class', ':', '"c"', ',', 'method signature', ':', '"m()"', '}', '}'],
 ['(', 'function', '(', 'f', ')', 'f', '(', 'f', ')', ')', '(', 'function', '(', 'f', ')', 'f', ')'], ['@', '"P1D"', '*', '10', '**', '40'], ['@', '"P1D"', '/', '0'], ['@', '"P1Y"', '*', '10', '**', '40'], ['@', '"P1D"', '/', '@', '"PT0S"'],
 ['@', '"2021-01-01"', '+', '@', '"P999999999Y"'], ['@', '"2021-01-01"', '-', '@', '"P999999999999D"'], ['@', '"2021-01-31T10:00:00"', '+', '@', '"P1M"'], ['@', '"10:00:00"', '+', '@', '"P999999999D"'],
 # differences and sums at the edges of a 64-bit count of nanoseconds (about 292 years)
 ['date and time', '(', '"2300-01-01T00:00:00Z"', ')', '-', 'date and time', '(', '"2000-01-01T00:00:00Z"', ')'],
 ['date and time', '(', '"2000-01-01T00:00:00Z"', ')', '-', 'date and time', '(', '"2300-01-01T00:00:00Z"', ')'],
 ['date and time', '(', '"9999-12-31T23:59:59.999999999Z"', ')', '-', 'date and time', '(', '"0001-01-01T00:00:00Z"', ')'],
 ['date and time', '(', '"262000-01-01T00:00:00Z"', ')', '-', 'date and time', '(', '"-262000-01-01T00:00:00Z"', ')'],
 ['date and time', '(', '"2262-04-11T23:47:16.854775807Z"', ')', '-', 'date and time', '(', '"1970-01-01T00:00:00Z"', ')'],
 ['date and time', '(', '"2262-04-11T23:47:16.854775808Z"', ')', '-', 'date and time', '(', '"1970-01-01T00:00:00Z"', ')'],
 ['date', '(', '"9999-12-31"', ')', '-', 'date', '(', '"0001-01-01"', ')'], ['date', '(', '"2300-01-01"', ')', '-', 'date', '(', '"2000-01-01"', ')'],
 ['@', '"2300-01-01T00:00:00"', '-', '@', '"2000-01-01T00:00:00"'], ['@', '"2300-01-01T00:00:00@Europe/Paris"', '<', '@', '"2000-01-01T00:00:00Z"'],
 ['@', '"2021-01-01T00:00:00Z"', '+', '@', '"P106751DT23H47M16.854775807S"'], ['@', '"2021-01-01T00:00:00Z"', '+', '@', '"P106752D"'], ['@', '"2021-01-01T00:00:00Z"', '-', '@', '"P106752D"'],
 ['duration', '(', '"P106751DT23H47M16.854775807S"', ')', '+', 'duration', '(', '"PT0.000000001S"', ')'], ['duration', '(', '"P106751DT23H47M16.854775808S"', ')'],
 ['duration', '(', '"-P106751DT23H47M16.854775808S"', ')', '-', 'duration', '(', '"PT1S"', ')'], ['@', '"P106751D"', '*', '2'], ['@', '"P53376D"', '*', '2.5'], ['@', '"P106751D"', '/', '0.5'],
 ['@', '"10:00:00"', '-', '@', '"P106752D"'], ['@', '"10:00:00Z"', '-', '@', '"09:00:00+14:00"'],
 ['day of year', '(', '@', '"999999999-12-31"', ')'], ['week of year', '(', '@', '"-999999999-01-01"', ')'], ['month of year', '(', 'null', ')'], ['day of week', '(', '@', '"262144-01-01"', ')'],
]
nests = [
 (['('], [')']), (['['], [']']), (['-'], []), (['not', '('], [')']), (['{', 'a', ':'], ['}']), (['if', 'true', 'then'], ['else', '1']), (['f', '('], [')']), (['1', '+'], []),
 (['function', '(', ')'], []), (['[', '1', ']', '['], [']']), (['x', '.'], []), (['for', 'i', 'in', '['], [']', 'return', 'i']), (['string', '('], [')']), (['abs', '('], [')']),
 (['1', '<'], []), (['a', 'and'], []), (['some', 'i', 'in', '['], [']', 'satisfies', 'i']), (['[', '1', '..'], [']']), (['"', ], ['"']), (['/*'], ['*/']), (['a', 'instance of', 'list', '<'], ['>']),
]
# nesting in the LEFT operand and in suffix position (a construct that compiles or evaluates an operand twice doubles the
# work with every level)
nests += [
 (['('], ['between', '0', 'and', '2', ')']), (['('], ['in', '[', '0', '..', '2', ']', ')']), (['('], ['=', '1', ')']), (['('], ['instance of', 'boolean', ')']),
 (['if'], ['then', '1', 'else', '0']), (['1', 'between', '0', 'and'], []), (['('], [')', '[', '1', ']']), (['{', 'a', ':'], ['}', '.', 'a']),
 (['('], ['+', '1', ')']), (['('], ['and', 'true', ')']), (['1', 'in', '('], [',', '2', ')']),
]
def seq(toks):
    return '<<' + ', '.join(tla_str(t) for t in toks) + '>>'
out = []
out.append('''------------------------------ MODULE Gen_C05 ------------------------------
(* Documents for C05 (FEEL parsing and evaluation are total).  Written by    *)
(* tools/gen_c05_tla.py (the string-escape atoms contain backslash-u, which  *)
(* must not pass through an editor).  Families:                              *)
(*   tree    minimal renderings of the FeelTrees pool (pairs of constructs)  *)
(*   fault   every single fault (Faults!SingleFaults) of the seed documents  *)
(*           over a replacement alphabet of tokens; pairs of faults (Deep)   *)
(*   escape  string literals built from all sequences (<= 3, Deep: <= 4) of  *)
(*           escape atoms: surrogate halves, pairs, out-of-range, truncated   *)
(*   bif     every built-in function name applied to 0..3 arguments of a     *)
(*           pool of extreme values                                          *)
(*   special hand-picked extreme temporal / numeric / positional documents   *)
(*   nest    seeds wrapped 1..200 times in every bracketing construct        *)
(*   edge    every built-in function with a machine-integer edge (the ends   *)
(*           of 8 / 16 / 32 / 64-bit integers and their neighbours) or a      *)
(*           string holding U+0000 in every argument position; the edges in  *)
(*           filters, iteration ranges and arithmetic; time() with offsets   *)
(*           inside, at and beyond a day, compared, subtracted and printed   *)
EXTENDS FeelTrees, Faults, TLC, Json
CONSTANT Deep

Strip(t) == t     \\* (the soft-token mark "~" is removed by the harness)
''')
out.append('EscapeAtoms == {' + ', '.join(tla_str(a) for a in escape_atoms) + '}\n')
out.append('''Q == "\\""
Esc1 == {Q \\o a \\o Q : a \\in EscapeAtoms}
Esc2 == {Q \\o a \\o b \\o Q : a \\in EscapeAtoms, b \\in EscapeAtoms}
Esc3 == {Q \\o a \\o b \\o c \\o Q : a \\in EscapeAtoms, b \\in EscapeAtoms, c \\in EscapeAtoms}
EscapeDocs == {<<s>> : s \\in Esc1 \\cup Esc2 \\cup (IF Deep THEN Esc3 ELSE {})}
              \\cup {<<"@", s>> : s \\in Esc1} \\cup {<<s, "+", s>> : s \\in Esc1} \\cup {<<"{", s, ":", "1", "}">> : s \\in Esc1}
''')
out.append('Bifs == {' + ', '.join(tla_str(b) for b in bifs) + '}\n')
out.append('ArgPool == <<' + ',\n            '.join(seq(a) for a in args) + '>>\n')
out.append('QuickArgs == %d\n' % quick_args)
out.append('''Args1 == {ArgPool[i] : i \\in 1..(IF Deep THEN Len(ArgPool) ELSE QuickArgs)}
Args2 == {ArgPool[i] : i \\in (1..(IF Deep THEN 16 ELSE 8)) \\cup {13, 14, 16}}
Args3 == {ArgPool[i] : i \\in (1..(IF Deep THEN 6 ELSE 4)) \\cup {12}}       \\* (12: a number that is not an integer, where hours, positions, scales are expected)
BifDocs == {<<f, "(", ")">> : f \\in Bifs}
           \\cup {<<f, "(">> \\o a \\o <<")">> : f \\in Bifs, a \\in Args1}
           \\cup {<<f, "(">> \\o a \\o <<",">> \\o b \\o <<")">> : f \\in Bifs, a \\in Args2, b \\in Args1}
           \\cup {<<f, "(">> \\o a \\o <<",">> \\o b \\o <<",">> \\o c \\o <<")">> : f \\in Bifs, a \\in Args3, b \\in Args2, c \\in Args3}
           \\cup {<<f, "(">> \\o a \\o <<",">> \\o a \\o <<",">> \\o a \\o <<",">> \\o a \\o <<")">> : f \\in Bifs, a \\in Args3}
''')
out.append('Edges == <<' + ', '.join(seq(lit(e)) for e in edges) + '>>\n')
out.append('QuickEdges == %d\n' % quick_edges)
out.append('NulStrings == {' + ', '.join(seq(a) for a in nul_strings + non_finite) + '}\n')
out.append('Fillers == {' + ', '.join(seq(a) for a in fillers) + '}\n')
out.append('''\\* every built-in function with a machine-integer edge (or a string holding U+0000) in every argument position, the other
\\* positions holding a list, a string, a number or a date (first position) and the number 2 (the others)
EdgeAtoms == {Edges[i] : i \\in 1..(IF Deep THEN Len(Edges) ELSE QuickEdges)} \\cup NulStrings
TwoTok == <<"2">>
Call1(f, a) == <<f, "(">> \\o a \\o <<")">>
Call2(f, a, b) == <<f, "(">> \\o a \\o <<",">> \\o b \\o <<")">>
Call3(f, a, b, c) == <<f, "(">> \\o a \\o <<",">> \\o b \\o <<",">> \\o c \\o <<")">>
EdgeDocs == {Call1(f, e) : f \\in Bifs, e \\in EdgeAtoms}
            \\cup {Call2(f, x, e) : f \\in Bifs, x \\in Fillers, e \\in EdgeAtoms} \\cup {Call2(f, e, x) : f \\in Bifs, x \\in Fillers, e \\in EdgeAtoms}
            \\cup {Call3(f, x, TwoTok, e) : f \\in Bifs, x \\in Fillers, e \\in EdgeAtoms} \\cup {Call3(f, x, e, TwoTok) : f \\in Bifs, x \\in Fillers, e \\in EdgeAtoms}
            \\cup {Call3(f, x, e, e) : f \\in Bifs, x \\in Fillers, e \\in EdgeAtoms}
''')
out.append('EdgeSpecialDocs == {' + ',\n                '.join(seq(s) for s in edge_special) + '}\n')
out.append('SpecialDocs == {' + ',\n                '.join(seq(s) for s in special) + '}\n')
out.append('NestPairs == {' + ',\n              '.join('<<%s, %s>>' % (seq(o), seq(c)) for o, c in nests) + '}\n')
out.append('''NestDepths == IF Deep THEN {1, 2, 3, 10, 50, 100, 150, 200} ELSE {1, 3, 50, 200}
NestSeeds == {<<"1">>, <<"x">>, <<>>}
NestDocs == {Apply(s, [f |-> "nest", n |-> n, o |-> p[1], c |-> p[2]]) : s \\in NestSeeds, n \\in NestDepths, p \\in NestPairs}

\\* seed documents for fault injection: one rendering per template (hole filled with a name), the innermost constructs, some specials
TreeDocs == {RenderMin(Fill(tp, h)) : tp \\in Templates, h \\in Inner}
FaultSeeds == {RenderMin(Fill(tp, C)) : tp \\in Templates} \\cup {RenderMin(h) : h \\in Inner}
              \\cup (IF Deep THEN {RenderMin(Fill(tp, h)) : tp \\in {<<"add", "a">>, <<"and", "b">>, <<"between", "hi">>, <<"instof", "a">>, <<"path", "a">>, <<"filter", "a">>, <<"invoke", "f">>, <<"neg", "a">>}, h \\in InnerLadder} ELSE {})
              \\cup {<<"substring", "(", "\\"abc\\"", ",", "2", ",", "1", ")">>, <<"date", "(", "\\"2021-01-01\\"", ")">>, <<"@", "\\"P1D\\"">>,
                    <<"for", "i", "in", "1", "..", "3", "return", "i", "*", "2">>, <<"{", "a", ":", "1", ",", "b", ":", "a", "+", "1", "}", ".", "b">>,
                    <<"some", "i", "in", "[", "1", ",", "2", "]", "satisfies", "i", ">", "1">>, <<"[", "1", "..", "5", ")">>, <<"not", "(", "1", ",", "[", "2", "..", "3", "]", ")">>,
                    <<"function", "(", "u", ":", "number", ")", "u", "+", "1">>, <<"x", "[", "item", ">", "1", "]">>, <<"a", "instance of", "function", "<", "number", ">", "->", "string">>}
Alphabet == {<<t>> : t \\in {"(", ")", "[", "]", "{", "}", ",", ":", ".", "..", "-", "+", "*", "**", "/", "=", "<", ">=", "!=", "in", "and", "or", "not", "if", "then", "else", "for", "return",
                            "some", "every", "satisfies", "function", "between", "instance of", "null", "true", "1", "0.5", "a", "item", "\\"s\\"", "\\"", "@", "?", "->", "external", "//", "/*", "*/",
                            \\* white space characters of the grammar other than the blank (the harness writes the character for <U+XXXX>)
                            "<U+200B>", "<U+00A0>", "<U+FEFF>", "<U+2028>", "<U+0085>", "<U+3000>", "<U+000B>"}}
            \\cup {<<"(", ")">>, <<"[", "]">>, <<"-", "-">>, <<"in", "(">>, <<"a", " ", "b">>}
SmallAlphabet == {<<t>> : t \\in {"(", "[", ",", "-", "in", "\\""}}
Mutants(d, alpha) == {Apply(d, op) : op \\in SingleFaults(d, alpha)}
FaultDocs == UNION {Mutants(d, Alphabet) : d \\in FaultSeeds}
DoubleSeeds == {RenderMin(Fill(tp, C)) : tp \\in {<<"add", "a">>, <<"between", "a">>, <<"filter", "a">>, <<"invoke", "f">>, <<"path", "a">>, <<"in", "b">>}}
DoubleDocs == IF Deep THEN UNION {UNION {Mutants(m, SmallAlphabet) : m \\in Mutants(d, SmallAlphabet)} : d \\in DoubleSeeds} ELSE {}

VARIABLE c
Emit(fam, S) == \\E d \\in S : c = [fam |-> fam, toks |-> d] /\\ PrintT(<<"CASE", ToJson(c)>>)
Init == Emit("tree", TreeDocs) \\/ Emit("fault", FaultDocs) \\/ Emit("fault2", DoubleDocs) \\/ Emit("escape", EscapeDocs) \\/ Emit("bif", BifDocs)
        \\/ Emit("special", SpecialDocs) \\/ Emit("nest", NestDocs) \\/ Emit("edge", EdgeDocs) \\/ Emit("edge", EdgeSpecialDocs)
Next == FALSE /\\ c' = c
=============================================================================
''')
import sys
open(sys.argv[1] if len(sys.argv) > 1 else __import__('os').path.join(__import__('os').path.dirname(__import__('os').path.abspath(__file__)), '..', 'spec', 'Gen_C05.tla'), 'w').write(''.join(out))
