#!/usr/bin/env python3
"""Development aid: random big-natural cases with CPython's answers → spec/selftest/bignum_cases.ndjson."""
import json, random
random.seed(11)
def dg(n): return [int(c) for c in str(n)] if n>0 else []
out=[]
def rnd():
    k=random.choice([0,1,3,4,5,8,17,33,34,35,68,70,120])
    if k==0: return 0
    return random.randrange(10**(k-1), 10**k)
for _ in range(400):
    a,b=rnd(),rnd()
    if random.random()<0.1: b=a
    k=random.randrange(1,10000)
    sh=random.randrange(0,40)
    rec={"a":dg(a),"b":dg(b),"k":k,"sh":sh,"add":dg(a+b),"mul":dg(a*b),"cmp":(a>b)-(a<b),
         "absdiff":dg(abs(a-b)),"muls":dg(a*k),"divs_q":dg(a//k),"divs_r":a%k,"mulp":dg(a*10**sh),"nd":len(str(a)) if a else 0}
    if b>0: rec["q"]=dg(a//b); rec["r"]=dg(a%b)
    else: rec["q"]=[]; rec["r"]=[]
    out.append(rec)
with open('/verif/spec/selftest/bignum_cases.ndjson','w') as f:
    for r in out: f.write(json.dumps(r)+'\n')
print(len(out))
