#!/bin/bash
# tools/precheck_private_pair.sh <diff file> <checks...>
# Applies a diff to a PRIVATE worktree of /repo (/tmp/repo2) and runs quick checks from a PRIVATE clone of /verif (/tmp/vw, whose
# harness/Cargo.toml paths were sed-ed from /repo/ to /tmp/repo2/), then reverts - so that seeds can be pre-checked while a
# confirmation job owns /repo and /verif. Set the pair up with:
#   git -C /repo worktree add --detach /tmp/repo2 HEAD ; git clone /verif /tmp/vw ; sed -i "s#path = \"/repo/#path = \"/tmp/repo2/#" /tmp/vw/harness/Cargo.toml
P=$1; shift
git -C /tmp/repo2 diff --quiet || { echo "repo2 not clean"; exit 2; }
git -C /tmp/repo2 apply $P || { echo "patch does not apply"; exit 2; }
CSUM=$(cat /tmp/repo2/feel-number/decnumber/*.c /tmp/repo2/feel-number/decnumber/*.h /tmp/repo2/feel-number/build.rs | md5sum | cut -c1-12)
( cd /tmp/vw/harness && touch /tmp/repo2/feel-number/build.rs && CFLAGS="-DVERIF_SRC_DIGEST_$CSUM=1" cargo build --offline >/dev/null 2>&1 ) || echo "build failed"
RES=""
for c in "$@"; do
  ( cd /tmp/vw && VERIF_DIR=/tmp/vw ./harness/target/debug/dmntk-verif check $c quick ) > /tmp/wt/re3_$c.out 2>&1; RES="$RES $c:exit$?"
  grep -a -m2 "VIOLATION\|TOOL-ERROR" -A1 /tmp/wt/re3_$c.out | cut -c1-260
done
git -C /tmp/repo2 checkout -q -- .
( cd /tmp/vw/harness && cargo build --offline >/dev/null 2>&1 )
echo "$(basename $(dirname $P))/$(basename $P):$RES"
