#!/usr/bin/env python3
"""Regenerates the 'As built' block of DESIGN.md (between the AS-BUILT markers) from
MANIFEST.json, evidence/*.json, known_findings.json, seeded/NOTES.md and /repo's git log."""
import json, re, subprocess, os

V = '/verif'
man = json.load(open(f'{V}/MANIFEST.json'))
kf = json.load(open(f'{V}/known_findings.json'))
props = {json.loads(l)['id']: json.loads(l) for l in open(f'{V}/properties.jsonl')}
log = subprocess.run(['git', '-C', '/repo', 'log', '--format=%h %s', 'f2b7a1b..HEAD'], capture_output=True, text=True).stdout.splitlines()

SPECS = {
 'C01': 'FeelEval, FeelSyntax; Gen_C01, Trace_C01', 'C02': 'Bignum, Decimal; Gen_C02, Trace_C02 (+SelfTest_Bignum/Decimal)',
 'C03': 'DecisionTable (FeelEval); Gen_C03, Trace_C03', 'C04': 'Drg; Gen_C04, Trace_C04', 'C05': 'Faults, FeelTrees; Gen_C05, Trace_C05',
 'C06': 'FeelSyntax, FeelTrees; Gen_C06, Trace_C06', 'C07': 'Decimal; Gen_C07, Trace_C07', 'C08': 'Bif; Gen_C08, Trace_C08',
 'C09': 'FeelEval laws; Gen_C09, Trace_C09', 'C10': 'FeelNames; Gen_C10, Trace_C10', 'C11': 'ItemDef; Gen_C11, Trace_C11',
 'C12': 'XmlTree, Faults; Gen_C12, Trace_C12', 'C13': 'Purity; Gen_C13, Trace_C13', 'C14': 'Temporal (Bignum); Gen_C14, Trace_C14',
 'C15': 'Calendar (Temporal); MC_Calendar, Gen_C15, Trace_C15', 'C16': 'FeelType; Gen_C16, Trace_C16',
 'C17': 'Workspace; MC_Workspace(+Big, AsWritten), Gen_C17, Trace_C17', 'C18': 'Server, JsonText; MC_Server, Gen_C18(v), Trace_C18(v)',
 'C19': 'Recognizer, Faults; Gen_C19, Trace_C19', 'C20': 'Concurrent; MC_Concurrent (7 cfgs), Trace_C20, Predict_C20',
}
out = []
out.append('### 10.1 Status per property\n')
out.append('| id | level | specification modules | last recorded run (tier, wall s) | measured coverage (from the evidence file) | open findings |')
out.append('|---|---|---|---|---|---|')
for c in man['checks']:
    i = c['property_id']
    ev = {}
    p = f'{V}/evidence/{i}.json'
    if os.path.exists(p):
        ev = json.load(open(p))
    cov = ev.get('coverage', {})
    keys = [k for k in cov if k not in ('rule', 'samples') and isinstance(cov[k], (int, float))]
    covs = ', '.join(f'{k}={cov[k]}' for k in keys[:7])
    nopen = len([e for e in kf if e['property'] == i and e['status'] == 'open'])
    out.append(f"| {i} | {(c.get('level_claimed') or {}).get('category', ev.get('level', ''))} | {SPECS.get(i, '')} | {ev.get('tier', '')} {ev.get('wall_s', 0):.0f} | {covs} | {nopen} |")
out.append('')
out.append('### 10.2 Defects found in the repository\n')
out.append('Repaired (one `fix:` commit each in /repo; the unedited baseline suite passed before every commit):\n')
out.append('| commit | repair |')
out.append('|---|---|')
for l in reversed(log):
    h, s = l.split(' ', 1)
    if s.startswith('fix:'):
        out.append(f'| {h} | {s[4:].strip()} |')
out.append('')
out.append('`known_findings.json` records each of them as `fixed: property=<id> <commit> <what failed>` (these entries suppress nothing).\n')
out.append('Recorded, not repaired (`open` entries of `known_findings.json`; each check prints them as KNOWN-FINDING and reports anything else):\n')
out.append('| prop | signature | what fails / why it is not repaired |')
out.append('|---|---|---|')
for e in kf:
    if e['status'] == 'open':
        out.append(f"| {e['property']} | `{e['signature']}` | {e['what'].replace('|', '/')} |")
out.append('')
out.append('### 10.3 Seeded changes (fresh sub-agents, property text only) and the checks that catch them\n')
notes = open(f'{V}/seeded/NOTES.md').read()
tbl = [l for l in notes.splitlines() if l.startswith('|')]
out.extend(tbl)
out.append('')
out.append('Hooks in /repo (all `#[cfg(dmntk_verif)]`): ' + '; '.join(l for l in reversed(log) if 'verif hook' in l) + '.')
block = '\n'.join(out)
d = open(f'{V}/DESIGN.md').read()
a, b = '<!-- BEGIN AS-BUILT -->', '<!-- END AS-BUILT -->'
if a in d:
    d = d[:d.index(a) + len(a)] + '\n' + block + '\n' + d[d.index(b):]
    open(f'{V}/DESIGN.md', 'w').write(d)
    print('DESIGN.md as-built block regenerated,', len(block.splitlines()), 'lines')
else:
    print('markers not found')
