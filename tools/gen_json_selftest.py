#!/usr/bin/env python3
"""Development aid: writes spec/selftest/json_cases.ndjson (JSON texts with CPython's verdict and decoding,
used by SelfTest_JsonText to test the TLA+ JSON decoder before it is trusted as an oracle)."""
import json, random, decimal
random.seed(7)
def canon_num(text):
    d = decimal.Decimal(text)
    sign, digits, exp = d.as_tuple()
    digits = list(digits)
    while digits and digits[0] == 0: digits.pop(0)
    while digits and digits[-1] == 0: digits.pop(); exp += 1
    if not digits: return {"k":"num","s":0,"c":[],"e":0}
    return {"k":"num","s":sign,"c":digits,"e":exp}
def enc(v):
    if v is None: return {"k":"null"}
    if isinstance(v,bool): return {"k":"bool","b":v}
    if isinstance(v,decimal.Decimal): return canon_num(str(v))
    if isinstance(v,str): return {"k":"str","cp":[ord(c) for c in v]}
    if isinstance(v,list): return {"k":"list","items":[enc(x) for x in v]}
    if isinstance(v,dict): return {"k":"ctx","ents":[{"nc":[ord(c) for c in k],"v":enc(x)} for k,x in v.items()]}
    raise ValueError
def has_lone_surrogate(v):
    if isinstance(v,str): return any(0xD800 <= ord(c) <= 0xDFFF for c in v)
    if isinstance(v,list): return any(has_lone_surrogate(x) for x in v)
    if isinstance(v,dict): return any(has_lone_surrogate(k) or has_lone_surrogate(x) for k,x in v.items())
    return False
texts = ['null','true','false','0','-0','1','-1','10','1.5','-1.50','0.000','1e2','1E-2','1.25e+3','123456789012345678901234567890.123456789',
 '""','"a"','"a\\"b"','"\\\\"','"\\/"','"\\b\\f\\n\\r\\t"','"\\u0041"','"\\u00e9"','"\\ud834\\udd1e"','"é𝄞"','[]','[1]','[1,2]','[ 1 , [ 2 ] ]',
 '{}','{"a":1}','{"a":1,"b":[true,null]}',' {"data" : "x"} ','{"data":{"k":[1,{"z":null}]}}','{"errors":[{"details":"boom"}]}',
 # invalid
 '','nul','tru','01','1.','.5','-','+1','1e','1e+','"a','"a"b"','"\\x"','"\\u12"','"\\ud834"','"\\udd1e"','"\t"','"\n"','[1,]','[,1]','[1 2]','{"a"}','{"a":}','{a:1}','{"a":1,}','{"a":1 "b":2}','1 2','[1]]','{"data":"a"b"}','0.000000-15','jsonify not implemented for: 2021-01-01','\'a\'','[1','{"a":1','NaN','Infinity','-Infinity','1e999999999']
alphabet = ['a','"','\\','/','\x01','\x1f','é','𝄞','\u2028',' ']
def rnd_val(d):
    k = random.randrange(7 if d>0 else 4)
    if k==0: return None
    if k==1: return random.choice([True,False])
    if k==2: return decimal.Decimal(random.choice(['0','1','-1','12.50','0.001','1E+3','-0.00000015','123456789012345678901234567890123']))
    if k==3: return ''.join(random.choice(alphabet) for _ in range(random.randrange(4)))
    if k in (4,5): return [rnd_val(d-1) for _ in range(random.randrange(3))]
    return {''.join(random.choice(alphabet) for _ in range(random.randrange(1,3))): rnd_val(d-1) for _ in range(random.randrange(3))}
class Enc(json.JSONEncoder):
    def default(self,o):
        if isinstance(o,decimal.Decimal): return float(o)
        return super().default(o)
def dumps(v, ascii):
    # write Decimals verbatim
    if isinstance(v,decimal.Decimal): return str(v) if 'E' not in str(v) else format(v,'f')
    if isinstance(v,list): return '['+','.join(dumps(x,ascii) for x in v)+']'
    if isinstance(v,dict): return '{'+','.join(json.dumps(k,ensure_ascii=ascii)+':'+dumps(x,ascii) for k,x in v.items())+'}'
    return json.dumps(v,ensure_ascii=ascii)
for i in range(150):
    v = rnd_val(2)
    texts.append(dumps(v, i%2==0))
out = []
for t in texts:
    try:
        v = json.loads(t, parse_float=decimal.Decimal, parse_int=decimal.Decimal, parse_constant=lambda c: (_ for _ in ()).throw(ValueError(c)))
        ok = not has_lone_surrogate(v)
        # python accepts raw control characters only with strict=False; strict is default → rejects. good.
        if ok and isinstance(v, dict) and False: pass
    except Exception:
        ok = False
    rec = {"cp":[ord(c) for c in t], "ok": ok}
    if ok:
        # python keeps the last duplicate key; avoid duplicate keys in tests
        rec["v"] = enc(v)
    out.append(rec)
with open('/verif/spec/selftest/json_cases.ndjson','w') as f:
    for r in out: f.write(json.dumps(r)+'\n')
print(len(out), sum(1 for r in out if r['ok']))
