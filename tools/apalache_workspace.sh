#!/bin/sh
# tools/apalache_workspace.sh   the C17 invariants are inductive for every alphabet of models (Apa_Workspace.tla)
# base case: Init => IndInv ; step: IndInv /\ Next => IndInv'.  Both must end with "EXITCODE: OK".
cd "$(dirname "$0")/../spec" || exit 2
OUT="${TMPDIR:-/tmp}/apalache_workspace.$$"
timeout 600 apalache-mc check --out-dir="$OUT" --cinit=ConstInit --init=Init --inv=IndInv --length=0 Apa_Workspace.tla | tail -3
timeout 1800 apalache-mc check --out-dir="$OUT" --cinit=ConstInit --init=IndInit --next=NextL --inv=IndInv --length=1 Apa_Workspace.tla | tail -3
rm -rf "$OUT"
