#!/usr/bin/env python3
"""Development aid: cases for SelfTest_DecimalExp - CPython's decimal (prec 34; its exp and ln are correctly rounded)
gives the reference; each case carries the correctly rounded answer and a neighbour one unit away (both must be
accepted: the property grants two units) and one three units away (must be rejected)."""
import json, random, decimal, sys
from decimal import Decimal as D
random.seed(11)
n_cases = int(sys.argv[1]) if len(sys.argv) > 1 else 160
path = sys.argv[2] if len(sys.argv) > 2 else '/verif/spec/selftest/decexp_cases.ndjson'
ctx = decimal.Context(prec=34, rounding=decimal.ROUND_HALF_EVEN, Emin=-6143, Emax=6144, clamp=1, traps=[])
def canon(d):
    sign, digits, exp = d.as_tuple()
    digits = list(digits)
    while digits and digits[0] == 0: digits.pop(0)
    while digits and digits[-1] == 0: digits.pop(); exp += 1
    if not digits: return {"s": 0, "c": [], "e": 0}
    return {"s": sign, "c": digits, "e": exp}
def obs(d):
    c = canon(d); c.update({"k": "num", "fin": True}); return c
def bump(d, units):
    c = canon(d)
    pad = 34 - len(c["c"])
    coef = int(''.join(map(str, c["c"]))) * 10 ** pad + units
    if not (10 ** 33 <= coef < 10 ** 34): return None        # leaves the decade: the unit changes there
    return D((c["s"], tuple(int(x) for x in str(coef)), c["e"] - pad))
def rnd_exp_arg():
    k = random.random()
    L = random.choice([1, 1, 2, 5, 17, 34])
    digs = [random.randrange(10) for _ in range(L)]; digs[0] = random.randrange(1, 10)
    if k < 0.25: e = random.choice([-34, -35, -36, -33, -40, -68, -100, -3000])       # tiny arguments
    elif k < 0.5: e = -L + random.choice([0, 1])                                        # around 1
    elif k < 0.8: e = -L + random.choice([2, 3, 4])                                     # tens to thousands
    else: e = -L + random.choice([-1, -2, -5, -10])
    return D((random.randrange(2), tuple(digs), e))
def rnd_ln_arg():
    k = random.random()
    L = random.choice([1, 2, 5, 17, 34])
    digs = [random.randrange(10) for _ in range(L)]; digs[0] = random.randrange(1, 10)
    if k < 0.3:                                                                          # next to 1
        m = random.choice([1, 2, 5, 17, 33]); s = random.choice([1, -1])
        return D(1) + s * D((0, tuple(digs[:min(L, 34 - m)]), -33)) if m == 33 else D(1) + s * D((0, (random.randrange(1, 10),), -m))
    e = random.choice([0, -L, -L + 1, 3, -3, 40, -40, 6000, -6000, 6144 - L, -6143 - L + 1])
    return D((0, tuple(digs), e))
out = []
fixed_exp = [D('-4E-34'), D('-3E-34'), D('-2E-34'), D('-4E-35'), D('4E-34'), D('1'), D('-1'), D('0.5'), D('14149'), D('-14140'), D('100'), D('-100'), D('0.4999999999999999999999999999999999'), D('0.5000000000000000000000000000000001')]
fixed_ln = [D('10'), D('2'), D('0.5'), D('9.999999999999999999999999999999999E+6144'), D('1E-6143'), D('1.000000000000000000000000000000001'), D('0.9999999999999999999999999999999999'), D('2.718281828459045235360287471352662')]
def rnd_pow_args():
    k = random.random()
    La = random.choice([1, 2, 5, 17, 34]); Lb = random.choice([1, 2, 5, 17, 34])
    da = [random.randrange(10) for _ in range(La)]; da[0] = random.randrange(1, 10)
    db = [random.randrange(10) for _ in range(Lb)]; db[0] = random.randrange(1, 10)
    if k < 0.25:      # base next to 1, large exponent
        m = random.choice([5, 17, 30, 33]); a = D(1) + random.choice([1, -1]) * D((0, (random.randrange(1, 10),), -m))
        b = D((random.randrange(2), tuple(db), -Lb + m + random.choice([-2, -1, 0, 1])))
    elif k < 0.6:     # moderate base, moderate exponent
        a = D((0, tuple(da), -La + random.choice([0, 1, 2, -1, -3])))
        b = D((random.randrange(2), tuple(db), -Lb + random.choice([0, 1, 2, -1, -5])))
    elif k < 0.8:     # extreme base, small exponent
        a = D((0, tuple(da), random.choice([6000, -6000, 3000, -3000, 100, -100]) - La))
        b = D((random.randrange(2), tuple(db), -Lb + random.choice([0, -1, -2])))
    else:             # tiny exponent
        a = D((0, tuple(da), -La + random.choice([0, 1, 5, 40])))
        b = D((random.randrange(2), tuple(db), -Lb + random.choice([-30, -33, -34, -36, -60])))
    return a, b
fixed_pow = [(D('2'), D('0.5')), (D('4'), D('0.5')), (D('10'), D('-0.5')), (D('2'), D('1E+4')), (D('1.000000000000000000000000000000001'), D('1E+33')),
             (D('0.9999999999999999999999999999999999'), D('1E+34')), (D('9.999999999999999999999999999999999E+6144'), D('0.9999999')), (D('1E-6143'), D('0.5')),
             (D('3'), D('12345.678')), (D('0.5'), D('20000.5')), (D('2.5'), D('-3.5')), (D('7'), D('1E-40')), (D('123456789'), D('123.456'))]
args = [("exp", a) for a in fixed_exp] + [("log", a) for a in fixed_ln]
n_el = n_cases
while len(args) < n_el:
    args.append(("exp", rnd_exp_arg()) if random.random() < 0.5 else ("log", rnd_ln_arg()))
args += [("pow", x) for x in fixed_pow]
while len(args) < n_el + n_cases // 2:
    args.append(("pow", rnd_pow_args()))
for op, a in args:
    b = None
    if op == "pow":
        a, b = ctx.plus(a[0]), ctx.plus(a[1])
        if a <= 0 or a == 1 or b == 0 or b == b.to_integral_value() and abs(b) < 1000: continue
        r = ctx.power(a, b)
        # the reference must itself be right: recompute with 60 digits and require agreement after rounding
        big = decimal.Context(prec=60, Emin=-999999, Emax=999999, traps=[])
        if r.is_nan() or r.is_infinite() or ctx.plus(big.power(a, b)) != r: continue
    else:
        a = ctx.plus(a)
    if op == "pow": pass
    elif op == "exp":
        if abs(a) >= 14100: continue
        r = ctx.exp(a)
    else:
        if a <= 0 or a == 1: continue
        r = ctx.ln(a)
    if r.is_nan() or r.is_infinite() or r == 0 or r.adjusted() < -6143: continue
    near = bump(r, random.choice([1, -1])); bad = bump(r, random.choice([3, -3]))
    if near is None or bad is None: continue
    c = canon(r); c34 = int(''.join(map(str, c["c"]))) * 10 ** (34 - len(c["c"]))
    if op == "pow" and (c34 >= 10 ** 34 - 30 or c34 <= 10 ** 33 + 30): continue     # next to a power of ten the enclosure may straddle it (larger unit)
    if op == "log" and c34 >= 10 ** 34 - 30: continue      # next to a power of ten the acceptor deliberately uses the larger unit
    if op == "exp" and (c34 >= 10 ** 34 - 30 or c34 <= 10 ** 33 + 30): continue   # a neighbour "one unit away" across a power of ten is ten units of the lower decade away (found by the thorough tier: exp(-89E-68))
    rec = {"op": op, "a": canon(a), "good": obs(r), "near": obs(near), "bad": obs(bad)}
    if b is not None: rec["b"] = canon(b)
    out.append(rec)
# the exp / ln file is kept as generated before the power cases existed (their random draws come later in the stream now)
pow_path = path.replace('decexp_cases', 'decpow_cases')
assert pow_path != path
open(pow_path, 'w').write(''.join(json.dumps(r) + '\n' for r in out if r["op"] == "pow"))
print(sum(r["op"] == "pow" for r in out), 'power cases ->', pow_path)
