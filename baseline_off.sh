#!/bin/sh
# Runs the repository's own test suite with the verification guard OFF (no --cfg dmntk_verif),
# and compares the set of passing tests with /root/.vp/BASELINE.json "stable_pass".
# exit 0 iff every stable-pass test of the baseline still passes.
cd /repo || exit 2
OUT="${1:-/verif/work/baseline}"
mkdir -p "$OUT"
NEXTEST_EXPERIMENTAL_LIBTEST_JSON=1 CARGO_NET_OFFLINE=true cargo nextest run --workspace --no-fail-fast --test-threads 8 --offline \
  --message-format libtest-json-plus >"$OUT/nextest.json" 2>"$OUT/nextest.err"
python3 - "$OUT" <<'PY'
import json, sys, re
out = sys.argv[1]
base = set(json.load(open('/root/.vp/BASELINE.json'))['stable_pass'])
passed = set()
for line in open(out + '/nextest.json'):
    try: e = json.loads(line)
    except Exception: continue
    if e.get('type') == 'test' and e.get('event') == 'ok':
        name = e['name']                       # "crate::bin$mod::test"
        m = re.match(r'^([^:]+)::([^$]*)\$(.*)$', name)
        if m:
            crate, binary, rest = m.groups()
            passed.add(crate + '::' + rest)
            passed.add(crate + '::' + binary + '::' + rest)
        passed.add(name)
missing = sorted(t for t in base if t not in passed)
print('baseline stable_pass=%d still passing=%d missing=%d' % (len(base), len(base) - len(missing), len(missing)))
for t in missing[:40]: print('  NOT PASSING:', t)
sys.exit(1 if missing else 0)
PY
