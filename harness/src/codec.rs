//! Value  <->  specification JSON (the encoding of DESIGN.md §3).
//!
//! null   {"k":"null"}
//! bool   {"k":"bool","b":true}
//! num    {"k":"num","fin":true,"s":0|1,"c":[digits, MSD first, no leading/trailing zeros],"e":exp,
//!         "sm":bool,"m":signed mantissa when |m| < 10^9 and |e| <= 60}   (zero: s=0,c=[],e=0,m=0)
//!        {"k":"num","fin":false}                                         (infinite / NaN)
//! str    {"k":"str","cp":[code points]}
//! list   {"k":"list","items":[...]}
//! ctx    {"k":"ctx","ents":[{"n":"name","nc":[code points],"v":value},...]}   (in key order)
//! (fields of different type carry different names: TLC cannot compare a boolean with a sequence)
//! date   {"k":"date","y":..,"m":..,"d":..}
//! time   {"k":"time","h","mi","s","ns","zk":"utc|local|offset|zone","off":seconds,"zn":"name"}
//! dt     {"k":"dt","date":date,"time":time}
//! dtd    {"k":"dtd","neg":bool,"sec":[digits of |seconds|],"ns":nanos}
//! ymd    {"k":"ymd","neg":bool,"mo":[digits of |months|]}
//! range  {"k":"range","lo":v,"lc":bool,"hi":v,"hc":bool}
//! fn     {"k":"fn"}      other {"k":"other","dbg":"..."}

use dmntk_feel::context::FeelContext;
use dmntk_feel::values::{Value, Values};
use dmntk_feel::{FeelDate, FeelDateTime, FeelDaysAndTimeDuration, FeelNumber, FeelTime, FeelYearsAndMonthsDuration, Name};
use serde_json::{json, Value as J};

pub fn cps(s: &str) -> Vec<u32> {
  s.chars().map(|c| c as u32).collect()
}

pub fn from_cps(v: &J) -> String {
  v.as_array().map(|a| a.iter().filter_map(|x| x.as_u64()).filter_map(|u| char::from_u32(u as u32)).collect()).unwrap_or_default()
}

pub fn digits_of_u128(mut n: u128) -> Vec<u8> {
  let mut d = vec![];
  while n > 0 {
    d.push((n % 10) as u8);
    n /= 10;
  }
  d.reverse();
  d
}

pub fn enc_number(n: &FeelNumber) -> J {
  let (finite, negative, bcd, exponent) = n.verif_parts();
  if !finite {
    return json!({"k": "num", "fin": false});
  }
  let mut digits: Vec<u8> = bcd.into_iter().skip_while(|d| *d == 0).collect();
  let mut e = exponent;
  while let Some(0) = digits.last() {
    digits.pop();
    e += 1;
  }
  if digits.is_empty() {
    return json!({"k": "num", "fin": true, "s": 0, "c": [], "e": 0, "sm": true, "m": 0});
  }
  let small = digits.len() <= 9 && e.abs() <= 60;
  let mut o = json!({"k": "num", "fin": true, "s": if negative { 1 } else { 0 }, "c": digits, "e": e, "sm": small});
  if small {
    let mut m: i64 = 0;
    for d in &digits {
      m = m * 10 + *d as i64;
    }
    o["m"] = json!(if negative { -m } else { m });
  }
  o
}

pub fn enc_date(d: &FeelDate) -> J {
  json!({"k": "date", "y": d.year(), "m": d.month(), "d": d.day()})
}

pub fn enc_time(t: &FeelTime) -> J {
  let (h, mi, s, ns, zk, off, zn) = t.verif_parts();
  json!({"k": "time", "h": h, "mi": mi, "s": s, "ns": ns, "zk": zk, "off": off, "zn": zn})
}

pub fn enc_value(v: &Value) -> J {
  match v {
    Value::Null(_) => json!({"k": "null"}),
    Value::Boolean(b) => json!({"k": "bool", "b": b}),
    Value::Number(n) => enc_number(n),
    Value::String(s) => json!({"k": "str", "cp": cps(s)}),
    Value::List(items) => json!({"k": "list", "items": items.as_vec().iter().map(enc_value).collect::<Vec<_>>()}),
    Value::Context(ctx) => json!({"k": "ctx", "ents": ctx.iter().map(|(n, v)| json!({"n": n.to_string(), "nc": cps(&n.to_string()), "v": enc_value(v)})).collect::<Vec<_>>()}),
    Value::Date(d) => enc_date(d),
    Value::Time(t) => enc_time(t),
    Value::DateTime(dt) => json!({"k": "dt", "date": enc_date(&dt.date()), "time": enc_time(&dt.time())}),
    Value::DaysAndTimeDuration(d) => {
      let n = d.verif_nanos();
      let a = n.unsigned_abs();
      json!({"k": "dtd", "neg": n < 0, "sec": digits_of_u128(a / 1_000_000_000), "ns": (a % 1_000_000_000) as u64})
    }
    Value::YearsAndMonthsDuration(d) => {
      let m = d.as_months();
      json!({"k": "ymd", "neg": m < 0, "mo": digits_of_u128(m.unsigned_abs() as u128)})
    }
    Value::Range(lo, lc, hi, hc) => json!({"k": "range", "lo": enc_value(lo), "lc": lc, "hi": enc_value(hi), "hc": hc}),
    Value::FunctionDefinition(..) | Value::BuiltInFunction(_) => json!({"k": "fn"}),
    other => json!({"k": "other", "dbg": format!("{:?}", other).chars().take(80).collect::<String>()}),
  }
}

pub fn number_from_parts(neg: bool, digits: &[u8], e: i64) -> FeelNumber {
  let mut s = String::new();
  if neg {
    s.push('-');
  }
  if digits.is_empty() {
    s.push('0');
  }
  for d in digits {
    s.push((b'0' + *d) as char);
  }
  s.push_str(&format!("E{}", e));
  FeelNumber::from_string(&s)
}

pub fn dec_number(j: &J) -> FeelNumber {
  if let Some(m) = j.get("m").and_then(|m| m.as_i64()) {
    if j.get("c").is_none() {
      let e = j["e"].as_i64().unwrap_or(0);
      return FeelNumber::from_string(&format!("{}E{}", m, e));
    }
  }
  let digits: Vec<u8> = j["c"].as_array().map(|a| a.iter().map(|d| d.as_u64().unwrap_or(0) as u8).collect()).unwrap_or_default();
  number_from_parts(j["s"].as_i64().unwrap_or(0) == 1, &digits, j["e"].as_i64().unwrap_or(0))
}

fn u8_of(j: &J) -> u8 {
  j.as_u64().unwrap_or(0) as u8
}

pub fn dec_time(j: &J) -> FeelTime {
  let (h, mi, s, ns) = (u8_of(&j["h"]), u8_of(&j["mi"]), u8_of(&j["s"]), j["ns"].as_u64().unwrap_or(0));
  match j["zk"].as_str().unwrap_or("local") {
    "utc" => FeelTime::utc(h, mi, s, ns),
    "offset" => FeelTime::offset(h, mi, s, ns, j["off"].as_i64().unwrap_or(0) as i32),
    "zone" => {
      let text = format!("{:02}:{:02}:{:02}@{}", h, mi, s, j["zn"].as_str().unwrap_or("Etc/UTC"));
      text.parse::<FeelTime>().unwrap_or_else(|_| FeelTime::local(h, mi, s, ns))
    }
    _ => FeelTime::local(h, mi, s, ns),
  }
}

pub fn u128_of_digits(j: &J) -> u128 {
  let mut n: u128 = 0;
  for d in j.as_array().cloned().unwrap_or_default() {
    n = n * 10 + d.as_u64().unwrap_or(0) as u128;
  }
  n
}

/// Builds a [Value] from the specification encoding (used for scopes and inputs, so that
/// bindings never pass through the lexer under test).
pub fn dec_value(j: &J) -> Value {
  match j["k"].as_str().unwrap_or("null") {
    "null" => Value::Null(None),
    "bool" => Value::Boolean(j["b"].as_bool().unwrap_or(false)),
    "num" => Value::Number(dec_number(j)),
    "str" => Value::String(from_cps(&j["cp"])),
    "list" => Value::List(Values::new(j["items"].as_array().map(|a| a.iter().map(dec_value).collect()).unwrap_or_default())),
    "ctx" => Value::Context(dec_context(j)),
    "date" => Value::Date(FeelDate::new(j["y"].as_i64().unwrap_or(1) as i32, u8_of(&j["m"]), u8_of(&j["d"]))),
    "time" => Value::Time(dec_time(j)),
    "dt" => Value::DateTime(FeelDateTime::new(
      FeelDate::new(j["date"]["y"].as_i64().unwrap_or(1) as i32, u8_of(&j["date"]["m"]), u8_of(&j["date"]["d"])),
      dec_time(&j["time"]),
    )),
    "dtd" => {
      let total = (u128_of_digits(&j["sec"]) * 1_000_000_000 + j["ns"].as_u64().unwrap_or(0) as u128) as i128;
      let total = if j["neg"].as_bool().unwrap_or(false) { -total } else { total };
      let secs = total.div_euclid(1_000_000_000) as i64;
      let nanos = total.rem_euclid(1_000_000_000) as i64;
      Value::DaysAndTimeDuration(FeelDaysAndTimeDuration::default().second(secs).nano(nanos).build())
    }
    "ymd" => {
      let m = u128_of_digits(&j["mo"]) as i64;
      Value::YearsAndMonthsDuration(FeelYearsAndMonthsDuration::new_m(if j["neg"].as_bool().unwrap_or(false) { -m } else { m }))
    }
    "range" => Value::Range(Box::new(dec_value(&j["lo"])), j["lc"].as_bool().unwrap_or(true), Box::new(dec_value(&j["hi"])), j["hc"].as_bool().unwrap_or(true)),
    _ => Value::Null(None),
  }
}

pub fn dec_context(j: &J) -> FeelContext {
  let mut ctx = FeelContext::default();
  for e in j["ents"].as_array().cloned().unwrap_or_default() {
    let name = if let Some(n) = e["n"].as_str() { n.to_string() } else { from_cps(&e["nc"]) };
    ctx.set_entry(&Name::from(name), dec_value(&e["v"]));
  }
  ctx
}

/// FEEL literal text of a value of the JSON-able kinds (used where an input has to travel as text).
pub fn feel_literal(j: &J) -> String {
  match j["k"].as_str().unwrap_or("null") {
    "null" => "null".to_string(),
    "bool" => j["b"].as_bool().unwrap_or(false).to_string(),
    "num" => plain_decimal(j),
    "str" => {
      let mut s = String::from("\"");
      for c in from_cps(&j["cp"]).chars() {
        match c {
          '"' => s.push_str("\\\""),
          '\\' => s.push_str("\\\\"),
          c => s.push(c),
        }
      }
      s.push('"');
      s
    }
    "list" => format!("[{}]", j["items"].as_array().map(|a| a.iter().map(feel_literal).collect::<Vec<_>>().join(", ")).unwrap_or_default()),
    "ctx" => format!(
      "{{{}}}",
      j["ents"].as_array().map(|a| a.iter().map(|e| format!("{}: {}", feel_literal(&json!({"k": "str", "cp": e["nc"]})), feel_literal(&e["v"]))).collect::<Vec<_>>().join(", ")).unwrap_or_default()
    ),
    _ => "null".to_string(),
  }
}

/// Plain decimal text of a canonical number (trusted writer, independent of the code under test).
pub fn plain_decimal(j: &J) -> String {
  let digits: Vec<u8> = j["c"].as_array().map(|a| a.iter().map(|d| d.as_u64().unwrap_or(0) as u8).collect()).unwrap_or_default();
  let e = j["e"].as_i64().unwrap_or(0);
  if digits.is_empty() {
    return "0".to_string();
  }
  let ds: String = digits.iter().map(|d| (b'0' + d) as char).collect();
  let body = if e >= 0 {
    format!("{}{}", ds, "0".repeat(e as usize))
  } else {
    let k = (-e) as usize;
    if k < ds.len() {
      format!("{}.{}", &ds[..ds.len() - k], &ds[ds.len() - k..])
    } else {
      format!("0.{}{}", "0".repeat(k - ds.len()), ds)
    }
  };
  if j["s"].as_i64().unwrap_or(0) == 1 {
    format!("-{}", body)
  } else {
    body
  }
}

/// Short human-readable rendering of a spec-encoded number (or other value) for messages.
pub fn plain_or_sci(j: &J) -> String {
  if j.is_null() {
    return "-".to_string();
  }
  match j["k"].as_str() {
    Some("null") => "null".to_string(),
    Some("num") if j["fin"] == false => "non-finite".to_string(),
    Some("panic") => "PANIC".to_string(),
    Some(k) if k != "num" => format!("<{}>", k),
    _ => {
      let digits: String = j["c"].as_array().map(|a| a.iter().map(|d| d.as_u64().unwrap_or(0).to_string()).collect()).unwrap_or_default();
      if digits.is_empty() {
        "0".to_string()
      } else {
        format!("{}{}E{}", if j["s"] == 1 { "-" } else { "" }, digits, j["e"])
      }
    }
  }
}
