mod drive;
mod tlc;
mod util;
mod xml;

use util::{tool_error, Ctx};

fn main() {
  let args: Vec<String> = std::env::args().collect();
  if args.len() < 4 || args[1] != "check" {
    eprintln!("usage: dmntk-verif check <ID> quick|thorough | check <ID> --replay <path>");
    std::process::exit(2);
  }
  // a panic of the harness itself is a tool error, never a violation
  std::panic::set_hook(Box::new(|info| {
    if std::env::var("VERIF_QUIET_PANICS").is_ok() || crate::util::QUIET.with(|q| q.get()) {
      return;
    }
    eprintln!("harness panic: {}", info);
  }));
  let id = args[2].as_str();
  let (tier, replay) = if args[3] == "--replay" {
    let p = args.get(4).unwrap_or_else(|| tool_error("missing replay path"));
    let text = std::fs::read_to_string(p).unwrap_or_else(|e| tool_error(&format!("cannot read replay file: {}", e)));
    let v: serde_json::Value = serde_json::from_str(&text).unwrap_or_else(|e| tool_error(&format!("bad replay file: {}", e)));
    (v["tier"].as_str().unwrap_or("quick").to_string(), Some(v))
  } else {
    (args[3].clone(), None)
  };
  match id {
    "C17" => drive::c17::check(Ctx::new(id, &tier, "model_checking"), replay),
    _ => tool_error(&format!("no check for {}", id)),
  }
}
