mod ast;
mod child;
mod codec;
mod draw;
mod drive;
mod http;
mod tlc;
mod util;
mod xml;

use util::{tool_error, Ctx};

fn main() {
  let args: Vec<String> = std::env::args().collect();
  if args.len() >= 3 && args[1] == "probe" {
    probe(&args[2..]);
    return;
  }
  if args.len() >= 6 && args[1] == "child" {
    match args[2].as_str() {
      "c05" => child::child_main(&args[3..], drive::c05::child_case),
      "c07" => child::child_main(&args[3..], drive::c07::child_case),
      "c12" => child::child_main(&args[3..], drive::c12::child_case),
      "c19" => child::child_main(&args[3..], drive::c19::child_case),
      "c20" => child::child_main(&args[3..], drive::c20::child_case),
      _ => std::process::exit(2),
    }
  }
  if args.len() < 4 || args[1] != "check" {
    eprintln!("usage: dmntk-verif check <ID> quick|thorough | check <ID> --replay <path>");
    std::process::exit(2);
  }
  // a panic of the harness itself is a tool error, never a violation
  std::panic::set_hook(Box::new(|info| {
    if std::env::var("VERIF_QUIET_PANICS").is_ok() || crate::util::QUIET.with(|q| q.get()) {
      return;
    }
    // a panic raised inside the code under test on a thread the harness does not control (the in-process
    // HTTP server's workers) is data: it is recorded and its consequences are observed by the check
    let file = info.location().map(|l| l.file().to_string()).unwrap_or_default();
    let in_harness = file.starts_with("src/") || file.contains("/verif/harness/");
    if !in_harness && std::thread::current().name().map_or(true, |n| n != "main") {
      if let Ok(mut g) = crate::util::UNDER_TEST_PANICS.lock() {
        g.push(format!("{}", info));
      }
      return;
    }
    eprintln!("harness panic: {}", info);
    println!("TOOL-ERROR: harness panic: {}", info);
    std::process::exit(2);
  }));
  let id = args[2].as_str();
  let (tier, replay) = if args[3] == "--replay" {
    let p = args.get(4).unwrap_or_else(|| tool_error("missing replay path"));
    let text = std::fs::read_to_string(p).unwrap_or_else(|e| tool_error(&format!("cannot read replay file: {}", e)));
    let v: serde_json::Value = serde_json::from_str(&text).unwrap_or_else(|e| tool_error(&format!("bad replay file: {}", e)));
    (v["tier"].as_str().unwrap_or("quick").to_string(), Some(v))
  } else {
    (args[3].clone(), None)
  };
  match id {
    "C01" => drive::c01::check(Ctx::new(id, &tier, "exploration"), replay),
    "C02" => drive::c02::check(Ctx::new(id, &tier, "exploration"), replay),
    "C03" => drive::c03::check(Ctx::new(id, &tier, "exploration"), replay),
    "C04" => drive::c04::check(Ctx::new(id, &tier, "exploration"), replay),
    "C05" => drive::c05::check(Ctx::new(id, &tier, "exploration"), replay),
    "C06" => drive::c06::check(Ctx::new(id, &tier, "exploration"), replay),
    "C07" => drive::c07::check(Ctx::new(id, &tier, "exploration"), replay),
    "C08" => drive::c08::check(Ctx::new(id, &tier, "exploration"), replay),
    "C09" => drive::c09::check(Ctx::new(id, &tier, "model_checking"), replay),
    "C10" => drive::c10::check(Ctx::new(id, &tier, "exploration"), replay),
    "C11" => drive::c11::check(Ctx::new(id, &tier, "exploration"), replay),
    "C12" => drive::c12::check(Ctx::new(id, &tier, "fault_enumeration"), replay),
    "C13" => {
      // (a thread with a large stack: two of the prepared expressions recurse a thousand levels deep)
      let (id, tier) = (id.to_string(), tier.to_string());
      let h = std::thread::Builder::new().stack_size(2 << 30).spawn(move || drive::c13::check(Ctx::new(&id, &tier, "model_checking"), replay)).expect("thread");
      let _ = h.join();
      util::tool_error("the C13 driver ended without a verdict")
    }
    "C14" => drive::c14::check(Ctx::new(id, &tier, "exploration"), replay),
    "C15" => drive::c15::check(Ctx::new(id, &tier, "exploration"), replay),
    "C16" => drive::c16::check(Ctx::new(id, &tier, "model_checking"), replay),
    "C17" => drive::c17::check(Ctx::new(id, &tier, "model_checking"), replay),
    "C18" => drive::c18::check(Ctx::new(id, &tier, "model_checking"), replay),
    "C19" => drive::c19::check(Ctx::new(id, &tier, "exploration"), replay),
    "C20" => drive::c20::check(Ctx::new(id, &tier, "model_checking"), replay),
    _ => tool_error(&format!("no check for {}", id)),
  }
}

/// Development aid: `probe feel '<ctx>' '<expr>'` or `probe model <file.dmn> <invocable> '<ctx>'`.
fn probe(args: &[String]) {
  let scope = dmntk_feel::Scope::default();
  match args[0].as_str() {
    "feel" => {
      let ctx = dmntk_feel_evaluator::evaluate_context(&scope, &args[1]).expect("context");
      let sc: dmntk_feel::Scope = ctx.into();
      match dmntk_feel_parser::parse_expression(&sc, &args[2], false) {
        Ok(node) => {
          println!("AST {:?}", node);
          match dmntk_feel_evaluator::evaluate(&sc, &node) {
            Ok(v) => println!("VALUE {}  {}", v, codec::enc_value(&v)),
            Err(e) => println!("EVAL-ERR {}", e),
          }
        }
        Err(e) => println!("PARSE-ERR {}", e),
      }
    }
    "draw" => {
      let t: serde_json::Value = serde_json::from_str(&args[1]).expect("json");
      let text = draw::draw_table(&t);
      println!("{}", text);
      match dmntk_recognizer::build(&text) {
        Ok(t) => println!("{:?}", t),
        Err(e) => println!("RECOGNIZE-ERR {}", e),
      }
    }
    "table" => {
      let text = std::fs::read_to_string(&args[1]).expect("file");
      match dmntk_recognizer::build(&text) {
        Ok(t) => println!("{:#?}", t),
        Err(e) => println!("RECOGNIZE-ERR {}", e),
      }
    }
    "model" => {
      let xml = std::fs::read_to_string(&args[1]).expect("file");
      match dmntk_model::parse(&xml) {
        Err(e) => println!("PARSE-ERR {}", e),
        Ok(defs) => match dmntk_model_evaluator::ModelEvaluator::new(&defs) {
          Err(e) => println!("BUILD-ERR {}", e),
          Ok(me) => {
            let ctx = dmntk_feel_evaluator::evaluate_context(&scope, &args[3]).expect("context");
            let v = me.evaluate_invocable(&args[2], &ctx);
            println!("VALUE {}  {}", v, codec::enc_value(&v));
          }
        },
      }
    }
    _ => {}
  }
}
