//! Running cases in child processes, so that aborts, stack overflows and hangs of the code under
//! test are observed as process death / timeout instead of taking the harness down.
//!
//! Parent: `run_in_children(kind, cases, procs, limit)` splits the cases over `procs` workers; each
//! worker starts `dmntk-verif child <kind> <file> <from> <to>` and reads one line `R <index> <json>`
//! per case. When the child dies or stays silent longer than `limit`, the case after the last
//! reported one gets `{"death": "..."}` and a new child continues behind it.
//!
//! Child: all its cases run one after the other on ONE thread with an 8 MiB stack (per-thread state of the code
//! under test lives on from case to case); panics are caught per call (`guarded`), message and location recorded.

use serde_json::{json, Value as J};
use std::io::{BufRead, BufReader, Write};
use std::process::{Command, Stdio};
use std::sync::mpsc;
use std::sync::Mutex;
use std::time::Duration;

pub static LAST_PANIC: Mutex<String> = Mutex::new(String::new());

/// Runs `f`, turning a panic into `Err(message with location)`.
pub fn guarded<T>(f: impl FnOnce() -> T) -> Result<T, String> {
  match std::panic::catch_unwind(std::panic::AssertUnwindSafe(f)) {
    Ok(v) => Ok(v),
    Err(_) => Err(LAST_PANIC.lock().map(|s| s.clone()).unwrap_or_default()),
  }
}

pub fn install_panic_recorder() {
  std::panic::set_hook(Box::new(|info| {
    let loc = info.location().map(|l| format!("{}:{}", l.file(), l.line())).unwrap_or_default();
    let msg = if let Some(s) = info.payload().downcast_ref::<&str>() {
      s.to_string()
    } else if let Some(s) = info.payload().downcast_ref::<String>() {
      s.clone()
    } else {
      "panic".to_string()
    };
    if let Ok(mut g) = LAST_PANIC.lock() {
      *g = format!("{} at {}", msg, loc);
    }
  }));
}

/// Child side: `handler` maps a case to its result. Arguments: <file> <lines to skip> <index of the first line of the file>.
pub fn child_main(args: &[String], handler: fn(&J) -> J) -> ! {
  install_panic_recorder();
  let skip: usize = args[1].parse().unwrap_or(0);
  let base: usize = args[2].parse().unwrap_or(0);
  let file = match std::fs::File::open(&args[0]) {
    Ok(f) => f,
    Err(_) => std::process::exit(3),
  };
  // ONE thread (8 MiB stack, the default of a main thread) handles all the cases of this child, one after the other: what
  // the code under test keeps per thread (caches, counters, a decimal context) lives on from case to case, as it does on
  // the worker threads of a service. A panic outside the guarded calls ends the thread and with it the child; the parent
  // attributes the death to the case after the last reported one and starts a new child behind it.
  let worker = std::thread::Builder::new().stack_size(8 << 20).spawn(move || {
    let out = std::io::stdout();
    for (k, line) in BufReader::new(file).lines().map_while(Result::ok).enumerate() {
      if k < skip || line.trim().is_empty() {
        continue;
      }
      let c: J = serde_json::from_str(&line).unwrap_or(J::Null);
      let r = handler(&c);
      let mut o = out.lock();
      let _ = writeln!(o, "R {} {}", base + k, r);
      let _ = o.flush();
    }
  });
  match worker {
    Ok(h) => {
      if h.join().is_err() {
        std::process::exit(101);
      }
    }
    Err(_) => std::process::exit(3),
  }
  std::process::exit(0)
}

/// Deaths (crashes, timeouts) one call of `run_in_children_with` waits for before it gives the remaining cases up
/// as `{"skipped": true}`: a change that makes every other document hang would otherwise cost hours of timeouts,
/// and the violation is established long before that.
const DEATH_BUDGET: usize = 48;

fn worker(kind: &str, file: &std::path::Path, from: usize, to: usize, limit: Duration, results: &Mutex<Vec<J>>, deaths: &std::sync::atomic::AtomicUsize) {
  // VERIF_CHILD_EXE: run the cases in another build of this binary (the release build: no overflow checks)
  let exe = std::env::var("VERIF_CHILD_EXE").map(std::path::PathBuf::from).unwrap_or_else(|_| std::env::current_exe().expect("current exe"));
  let mut next = from;
  while next < to {
    if deaths.load(std::sync::atomic::Ordering::Relaxed) >= DEATH_BUDGET {
      if let Ok(mut g) = results.lock() {
        for i in next..to {
          g[i] = json!({"skipped": true});
        }
      }
      return;
    }
    // VERIF_CHILD_VMEM_KB: an address-space limit for the child (a runaway allocation of the code under test then
    // ends that child, not the machine's memory)
    let mut cmd = match std::env::var("VERIF_CHILD_VMEM_KB") {
      Ok(kb) => {
        let mut c = Command::new("sh");
        c.arg("-c").arg(format!("ulimit -v {}; exec \"$0\" \"$@\"", kb)).arg(&exe);
        c
      }
      Err(_) => Command::new(&exe),
    };
    let mut child = match cmd
      .args(["child", kind, &file.to_string_lossy(), &(next - from).to_string(), &from.to_string()])
      .stdout(Stdio::piped())
      .stderr(Stdio::null())
      .stdin(Stdio::null())
      .spawn()
    {
      Ok(c) => c,
      Err(e) => {
        crate::util::tool_error(&format!("cannot start child process: {}", e));
      }
    };
    let stdout = child.stdout.take().expect("stdout");
    let (tx, rx) = mpsc::channel::<String>();
    let reader = std::thread::spawn(move || {
      for line in BufReader::new(stdout).lines().map_while(Result::ok) {
        if tx.send(line).is_err() {
          break;
        }
      }
    });
    let mut death: Option<String> = None;
    loop {
      match rx.recv_timeout(limit) {
        Ok(line) => {
          if let Some(rest) = line.strip_prefix("R ") {
            if let Some((i, j)) = rest.split_once(' ') {
              if let (Ok(i), Ok(j)) = (i.parse::<usize>(), serde_json::from_str::<J>(j)) {
                if let Ok(mut g) = results.lock() {
                  g[i] = j;
                }
                next = i + 1;
              }
            }
          }
        }
        Err(mpsc::RecvTimeoutError::Timeout) => {
          let _ = child.kill();
          death = Some("timeout".to_string());
          break;
        }
        Err(mpsc::RecvTimeoutError::Disconnected) => break,
      }
    }
    let status = child.wait().ok();
    let _ = reader.join();
    if next < to {
      // the child ended before its range: the case it was working on killed it
      let how = death.unwrap_or_else(|| {
        use std::os::unix::process::ExitStatusExt;
        match status {
          Some(s) => match s.signal() {
            Some(sig) => format!("signal {}", sig),
            None => format!("exit {}", s.code().unwrap_or(-1)),
          },
          None => "unknown".to_string(),
        }
      });
      if let Ok(mut g) = results.lock() {
        g[next] = json!({"death": how});
      }
      deaths.fetch_add(1, std::sync::atomic::Ordering::Relaxed);
      next += 1;
    }
  }
}

/// Parent side. Returns one JSON per case (the child's answer, or {"death": how}).
pub fn run_in_children(kind: &str, work_dir: &std::path::Path, cases: &[J], procs: usize, limit: Duration) -> Vec<J> {
  run_in_children_with(kind, work_dir, cases.len(), procs, limit, &|i| cases[i].clone())
}

/// The same, with the cases produced on demand (each worker writes its own range to its own file,
/// so that neither the parent nor a child ever holds all case texts).
pub fn run_in_children_with(kind: &str, work_dir: &std::path::Path, n: usize, procs: usize, limit: Duration, make: &(dyn Fn(usize) -> J + Sync)) -> Vec<J> {
  let _ = std::fs::create_dir_all(work_dir);
  let results = Mutex::new(vec![J::Null; n]);
  let deaths = std::sync::atomic::AtomicUsize::new(0);
  let procs = procs.max(1).min(n.max(1));
  let per = (n + procs - 1) / procs;
  std::thread::scope(|s| {
    for w in 0..procs {
      let (from, to) = (w * per, ((w + 1) * per).min(n));
      if from >= to {
        continue;
      }
      let results = &results;
      let deaths = &deaths;
      let file = work_dir.join(format!("child_{}_{}_{}.ndjson", kind, std::process::id(), w));
      s.spawn(move || {
        {
          let mut f = std::io::BufWriter::new(std::fs::File::create(&file).unwrap_or_else(|e| crate::util::tool_error(&format!("cannot write cases: {}", e))));
          for i in from..to {
            let _ = writeln!(f, "{}", make(i));
          }
        }
        worker(kind, &file, from, to, limit, results, deaths);
        let _ = std::fs::remove_file(&file);
      });
    }
  });
  results.into_inner().unwrap_or_default()
}
