//! Trusted writers of DMN XML text.

pub const DMN_NS: &str = "https://www.omg.org/spec/DMN/20191111/MODEL/";

pub fn esc(s: &str) -> String {
  s.replace('&', "&amp;").replace('<', "&lt;").replace('>', "&gt;").replace('"', "&quot;")
}

/// A one-decision model for the workspace/server alphabets: decision `v` returns the
/// string `id`; knowledge model `echo` returns its (untyped) parameter `x`. With `builds == false` the model
/// parses but its evaluator cannot be built (input data without type reference).
pub fn alphabet_model(id: &str, ns: &str, name: &str, builds: bool) -> String {
  let type_ref = if builds { " typeRef=\"string\"" } else { "" };
  format!(
    r##"<?xml version="1.0" encoding="UTF-8"?>
<definitions xmlns="{dmn}" namespace="{ns}" name="{name}" id="{id}">
  <inputData name="x" id="i_x"><variable name="x"{type_ref}/></inputData>
  <decision name="v" id="d_v"><variable name="v"/>
    <literalExpression><text>"{id}"</text></literalExpression>
  </decision>
  <businessKnowledgeModel name="echo" id="b_echo"><variable name="echo"/>
    <encapsulatedLogic><formalParameter name="x"/><literalExpression><text>x</text></literalExpression></encapsulatedLogic>
  </businessKnowledgeModel>
</definitions>"##,
    dmn = DMN_NS,
    ns = esc(ns),
    name = esc(name),
    id = esc(id),
    type_ref = type_ref
  )
}

fn toks(j: &serde_json::Value) -> String {
  j.as_array().map(|a| a.iter().map(|t| t.as_str().unwrap_or("").trim_start_matches('~').to_string()).collect::<Vec<_>>().join(" ")).unwrap_or_default()
}

/// `<decisionTable>` element for a table in the Gen_C03 record format.
pub fn decision_table_xml(t: &serde_json::Value) -> String {
  let (hp, agg) = match t["hp"].as_str().unwrap_or("U") {
    "U" => ("UNIQUE", ""),
    "A" => ("ANY", ""),
    "P" => ("PRIORITY", ""),
    "F" => ("FIRST", ""),
    "R" => ("RULE ORDER", ""),
    "O" => ("OUTPUT ORDER", ""),
    "C" => ("COLLECT", ""),
    "C+" => ("COLLECT", "SUM"),
    "C<" => ("COLLECT", "MIN"),
    "C>" => ("COLLECT", "MAX"),
    _ => ("COLLECT", "COUNT"),
  };
  let mut s = format!("<decisionTable hitPolicy=\"{}\"{}>", hp, if agg.is_empty() { String::new() } else { format!(" aggregation=\"{}\"", agg) });
  for i in t["ins"].as_array().unwrap() {
    s.push_str(&format!("<input><inputExpression><text>{}</text></inputExpression>", esc(i["name"].as_str().unwrap())));
    if i["allowed"]["n"] != "none" {
      s.push_str(&format!("<inputValues><text>{}</text></inputValues>", esc(&toks(&i["allowedtext"]))));
    }
    s.push_str("</input>");
  }
  for o in t["outs"].as_array().unwrap() {
    let name = o["name"].as_str().unwrap_or("");
    s.push_str(&if name.is_empty() { "<output>".to_string() } else { format!("<output name=\"{}\">", esc(name)) });
    if !o["prio"].as_array().map(|a| a.is_empty()).unwrap_or(true) {
      s.push_str(&format!("<outputValues><text>{}</text></outputValues>", esc(&toks(&o["priotext"]))));
    }
    if o["def"]["k"] != "none" {
      s.push_str(&format!("<defaultOutputEntry><text>{}</text></defaultOutputEntry>", esc(&toks(&o["deftext"]))));
    }
    s.push_str("</output>");
  }
  for r in t["rules"].as_array().unwrap() {
    s.push_str("<rule>");
    for e in r["instext"].as_array().unwrap() {
      s.push_str(&format!("<inputEntry><text>{}</text></inputEntry>", esc(&toks(e))));
    }
    for e in r["outstext"].as_array().unwrap() {
      s.push_str(&format!("<outputEntry><text>{}</text></outputEntry>", esc(&toks(e))));
    }
    s.push_str("</rule>");
  }
  s.push_str("</decisionTable>");
  s
}

/// A model with one decision `d` holding the table; its inputs are input data elements of the declared types.
pub fn table_model_xml(t: &serde_json::Value) -> String {
  let mut s = format!("<?xml version=\"1.0\" encoding=\"UTF-8\"?>\n<definitions xmlns=\"{}\" namespace=\"ns\" name=\"m\" id=\"M\">", DMN_NS);
  let mut reqs = String::new();
  for (k, i) in t["ins"].as_array().unwrap().iter().enumerate() {
    let name = esc(i["name"].as_str().unwrap());
    s.push_str(&format!("<inputData name=\"{}\" id=\"i{}\"><variable name=\"{}\" typeRef=\"{}\"/></inputData>", name, k, name, i["ty"].as_str().unwrap_or("number")));
    reqs.push_str(&format!("<informationRequirement><requiredInput href=\"#i{}\"/></informationRequirement>", k));
  }
  s.push_str(&format!("<decision name=\"d\" id=\"d\"><variable name=\"d\"/>{}{}</decision></definitions>", reqs, decision_table_xml(t)));
  s
}
