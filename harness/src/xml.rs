//! Trusted writers of DMN XML text.

pub const DMN_NS: &str = "https://www.omg.org/spec/DMN/20191111/MODEL/";

pub fn esc(s: &str) -> String {
  s.replace('&', "&amp;").replace('<', "&lt;").replace('>', "&gt;").replace('"', "&quot;")
}

/// A one-decision model for the workspace/server alphabets: decision `v` returns the
/// string `id`; knowledge model `echo` returns its (untyped) parameter `x`. With `builds == false` the model
/// parses but its evaluator cannot be built (input data without type reference).
pub fn alphabet_model(id: &str, ns: &str, name: &str, builds: bool) -> String {
  let type_ref = if builds { " typeRef=\"string\"" } else { "" };
  // W10 is a model without any invocable (a library of input data): it builds, so it is deployed like the others, and
  // evaluating anything of it answers a value (null: no such invocable), not "not deployed"
  if id == "W10" {
    return format!(
      "<?xml version=\"1.0\" encoding=\"UTF-8\"?>\n<definitions xmlns=\"{}\" namespace=\"{}\" name=\"{}\" id=\"{}\">\n  <inputData name=\"x\" id=\"i_x\"><variable name=\"x\" typeRef=\"string\"/></inputData>\n</definitions>",
      DMN_NS,
      esc(ns),
      esc(name),
      esc(id)
    );
  }
  format!(
    r##"<?xml version="1.0" encoding="UTF-8"?>
<definitions xmlns="{dmn}" namespace="{ns}" name="{name}" id="{id}">
  <inputData name="x" id="i_x"><variable name="x"{type_ref}/></inputData>
  <decision name="v" id="d_v"><variable name="v"/>
    <literalExpression><text>"{id}"</text></literalExpression>
  </decision>
  <inputData name="n" id="i_n"><variable name="n" typeRef="number"/></inputData>
  <decision name="slow" id="d_slow"><variable name="slow"/><informationRequirement><requiredInput href="#i_n"/></informationRequirement>
    <literalExpression><text>count(for i in 1..n return i * i)</text></literalExpression>
  </decision>
  <businessKnowledgeModel name="echo" id="b_echo"><variable name="echo"/>
    <encapsulatedLogic><formalParameter name="x"/><literalExpression><text>x</text></literalExpression></encapsulatedLogic>
  </businessKnowledgeModel>
</definitions>"##,
    dmn = DMN_NS,
    ns = esc(ns),
    name = esc(name),
    id = esc(id),
    type_ref = type_ref
  )
}

fn toks(j: &serde_json::Value) -> String {
  j.as_array().map(|a| a.iter().map(|t| t.as_str().unwrap_or("").trim_start_matches('~').to_string()).collect::<Vec<_>>().join(" ")).unwrap_or_default()
}

/// `<decisionTable>` element for a table in the Gen_C03 record format.
pub fn decision_table_xml(t: &serde_json::Value) -> String {
  let (hp, agg) = match t["hp"].as_str().unwrap_or("U") {
    "U" => ("UNIQUE", ""),
    "A" => ("ANY", ""),
    "P" => ("PRIORITY", ""),
    "F" => ("FIRST", ""),
    "R" => ("RULE ORDER", ""),
    "O" => ("OUTPUT ORDER", ""),
    "C" => ("COLLECT", ""),
    "C+" => ("COLLECT", "SUM"),
    "C<" => ("COLLECT", "MIN"),
    "C>" => ("COLLECT", "MAX"),
    _ => ("COLLECT", "COUNT"),
  };
  let mut s = format!("<decisionTable hitPolicy=\"{}\"{}>", hp, if agg.is_empty() { String::new() } else { format!(" aggregation=\"{}\"", agg) });
  for i in t["ins"].as_array().unwrap() {
    s.push_str(&format!("<input><inputExpression><text>{}</text></inputExpression>", esc(i["name"].as_str().unwrap())));
    if i["allowed"]["n"] != "none" {
      s.push_str(&format!("<inputValues><text>{}</text></inputValues>", esc(&toks(&i["allowedtext"]))));
    }
    s.push_str("</input>");
  }
  for o in t["outs"].as_array().unwrap() {
    let name = o["name"].as_str().unwrap_or("");
    s.push_str(&if name.is_empty() { "<output>".to_string() } else { format!("<output name=\"{}\">", esc(name)) });
    if !o["prio"].as_array().map(|a| a.is_empty()).unwrap_or(true) {
      s.push_str(&format!("<outputValues><text>{}</text></outputValues>", esc(&toks(&o["priotext"]))));
    }
    if o["def"]["k"] != "none" {
      s.push_str(&format!("<defaultOutputEntry><text>{}</text></defaultOutputEntry>", esc(&toks(&o["deftext"]))));
    }
    s.push_str("</output>");
  }
  for r in t["rules"].as_array().unwrap() {
    s.push_str("<rule>");
    for e in r["instext"].as_array().unwrap() {
      s.push_str(&format!("<inputEntry><text>{}</text></inputEntry>", esc(&toks(e))));
    }
    for e in r["outstext"].as_array().unwrap() {
      s.push_str(&format!("<outputEntry><text>{}</text></outputEntry>", esc(&toks(e))));
    }
    s.push_str("</rule>");
  }
  s.push_str("</decisionTable>");
  s
}

/// A model with one decision `d` holding the table; its inputs are input data elements of the declared types.
pub fn table_model_xml(t: &serde_json::Value) -> String {
  let mut s = format!("<?xml version=\"1.0\" encoding=\"UTF-8\"?>\n<definitions xmlns=\"{}\" namespace=\"ns\" name=\"m\" id=\"M\">", DMN_NS);
  let mut reqs = String::new();
  for (k, i) in t["ins"].as_array().unwrap().iter().enumerate() {
    let name = esc(i["name"].as_str().unwrap());
    s.push_str(&format!("<inputData name=\"{}\" id=\"i{}\"><variable name=\"{}\" typeRef=\"{}\"/></inputData>", name, k, name, i["ty"].as_str().unwrap_or("number")));
    reqs.push_str(&format!("<informationRequirement><requiredInput href=\"#i{}\"/></informationRequirement>", k));
  }
  s.push_str(&format!("<decision name=\"d\" id=\"d\"><variable name=\"d\"/>{}{}</decision></definitions>", reqs, decision_table_xml(t)));
  s
}

/// Boxed expression XML for a `form` record emitted by Gen_C04 (see Drg.tla).
pub fn form_xml(f: &serde_json::Value) -> String {
  match f["f"].as_str().unwrap_or("") {
    "lit" => format!("<literalExpression><text>{}</text></literalExpression>", esc(&toks(&f["text"]))),
    "ctx" => {
      let mut s = String::from("<context>");
      for e in f["ents"].as_array().unwrap() {
        s.push_str(&format!("<contextEntry><variable name=\"{}\"/>{}</contextEntry>", esc(e["name"].as_str().unwrap()), form_xml(&e["form"])));
      }
      if f["res"]["f"] != "none" {
        s.push_str(&format!("<contextEntry>{}</contextEntry>", form_xml(&f["res"])));
      }
      s.push_str("</context>");
      s
    }
    "inv" => {
      let mut s = format!("<invocation><literalExpression><text>{}</text></literalExpression>", esc(f["callee"].as_str().unwrap()));
      for b in f["binds"].as_array().unwrap() {
        s.push_str(&format!("<binding><parameter name=\"{}\"/>{}</binding>", esc(b["p"].as_str().unwrap()), form_xml(&b["form"])));
      }
      s.push_str("</invocation>");
      s
    }
    "rel" => {
      let mut s = String::from("<relation>");
      for c in f["cols"].as_array().unwrap() {
        s.push_str(&format!("<column name=\"{}\"/>", esc(c.as_str().unwrap())));
      }
      for r in f["rows"].as_array().unwrap() {
        s.push_str("<row>");
        for cell in r.as_array().unwrap() {
          s.push_str(&form_xml(cell));
        }
        s.push_str("</row>");
      }
      s.push_str("</relation>");
      s
    }
    "fd" => {
      let mut s = String::from("<functionDefinition>");
      for p in f["ps"].as_array().unwrap() {
        s.push_str(&format!("<formalParameter name=\"{}\"/>", esc(p.as_str().unwrap())));
      }
      s.push_str(&form_xml(&f["body"]));
      s.push_str("</functionDefinition>");
      s
    }
    "list" => {
      let mut s = String::from("<list>");
      for i in f["items"].as_array().unwrap() {
        s.push_str(&form_xml(i));
      }
      s.push_str("</list>");
      s
    }
    "dt" => decision_table_xml(&f["table"]),
    other => panic!("unknown form {}", other),
  }
}

/// DMN XML of a model record emitted by Gen_C04.
pub fn drg_model_xml(m: &serde_json::Value) -> String {
  let mut s = format!("<?xml version=\"1.0\" encoding=\"UTF-8\"?>\n<definitions xmlns=\"{}\" namespace=\"ns\" name=\"m\" id=\"M\">", DMN_NS);
  for i in m["inputs"].as_array().unwrap() {
    let n = esc(i.as_str().unwrap());
    s.push_str(&format!("<inputData name=\"{n}\" id=\"i_{n}\"><variable name=\"{n}\" typeRef=\"number\"/></inputData>", n = n));
  }
  for b in m["bkms"].as_array().unwrap() {
    let n = esc(b["name"].as_str().unwrap());
    s.push_str(&format!("<businessKnowledgeModel name=\"{n}\" id=\"b_{n}\"><variable name=\"{n}\"/>", n = n));
    s.push_str("<encapsulatedLogic>");
    for p in b["ps"].as_array().unwrap() {
      s.push_str(&format!("<formalParameter name=\"{}\"/>", esc(p.as_str().unwrap())));
    }
    s.push_str(&form_xml(&b["form"]));
    s.push_str("</encapsulatedLogic>");
    for r in b["reqs"].as_array().unwrap() {
      s.push_str(&format!("<knowledgeRequirement><requiredKnowledge href=\"#b_{}\"/></knowledgeRequirement>", esc(r.as_str().unwrap())));
    }
    s.push_str("</businessKnowledgeModel>");
  }
  for d in m["decisions"].as_array().unwrap() {
    let n = esc(d["name"].as_str().unwrap());
    s.push_str(&format!("<decision name=\"{n}\" id=\"d_{n}\"><variable name=\"{n}\"/>", n = n));
    for r in d["reqIn"].as_array().unwrap() {
      s.push_str(&format!("<informationRequirement><requiredInput href=\"#i_{}\"/></informationRequirement>", esc(r.as_str().unwrap())));
    }
    for r in d["reqDec"].as_array().unwrap() {
      s.push_str(&format!("<informationRequirement><requiredDecision href=\"#d_{}\"/></informationRequirement>", esc(r.as_str().unwrap())));
    }
    for r in d["reqBkm"].as_array().unwrap() {
      s.push_str(&format!("<knowledgeRequirement><requiredKnowledge href=\"#b_{}\"/></knowledgeRequirement>", esc(r.as_str().unwrap())));
    }
    for r in d["reqSvc"].as_array().unwrap() {
      s.push_str(&format!("<knowledgeRequirement><requiredKnowledge href=\"#s_{}\"/></knowledgeRequirement>", esc(r.as_str().unwrap())));
    }
    s.push_str(&form_xml(&d["form"]));
    s.push_str("</decision>");
  }
  for sv in m["services"].as_array().unwrap() {
    let n = esc(sv["name"].as_str().unwrap());
    s.push_str(&format!("<decisionService name=\"{n}\" id=\"s_{n}\"><variable name=\"{n}\"/>", n = n));
    for r in sv["out"].as_array().unwrap() {
      s.push_str(&format!("<outputDecision href=\"#d_{}\"/>", esc(r.as_str().unwrap())));
    }
    for r in sv["enc"].as_array().unwrap() {
      s.push_str(&format!("<encapsulatedDecision href=\"#d_{}\"/>", esc(r.as_str().unwrap())));
    }
    for r in sv["inDec"].as_array().unwrap() {
      s.push_str(&format!("<inputDecision href=\"#d_{}\"/>", esc(r.as_str().unwrap())));
    }
    for r in sv["inData"].as_array().unwrap() {
      s.push_str(&format!("<inputData href=\"#i_{}\"/>", esc(r.as_str().unwrap())));
    }
    s.push_str("</decisionService>");
  }
  s.push_str("</definitions>");
  s
}

/// Item definitions for a type tree of ItemDef.tla; returns (xml of all definitions, name of the top one).
pub fn item_definitions_xml(t: &serde_json::Value) -> (String, String) {
  item_definitions_xml_in_order(t, false)
}

/// `forward`: the definitions are written top-down, so that every reference points to a definition that comes LATER in
/// the document (written bottom-up otherwise); the order of item definitions has no meaning.
pub fn item_definitions_xml_in_order(t: &serde_json::Value, forward: bool) -> (String, String) {
  item_definitions_xml_named(t, forward, false)
}

/// `type_like_names`: the definitions are named like built-in types written with other capitals (`Date`, `String`, ..):
/// names are case-sensitive, so these are ordinary names of item definitions.
pub fn item_definitions_xml_named(t: &serde_json::Value, forward: bool, type_like_names: bool) -> (String, String) {
  struct Gen {
    out: Vec<String>,
    n: usize,
    type_like_names: bool,
  }
  impl Gen {
    fn fresh(&mut self) -> String {
      self.n += 1;
      const LIKE: [&str; 8] = ["Date", "String", "Number", "Boolean", "Time", "DateTime", "ANY", "Null"];
      if self.type_like_names && self.n <= LIKE.len() {
        return LIKE[self.n - 1].to_string();
      }
      format!("t{}", self.n)
    }
    fn av(&self, av: &str) -> String {
      match av {
        "num12" => "<allowedValues><text>1, 2</text></allowedValues>".to_string(),
        "strab" => "<allowedValues><text>\"a\", \"b\"</text></allowedValues>".to_string(),
        _ => String::new(),
      }
    }
    /// attributes + children describing type `t` inside an itemDefinition / itemComponent element
    fn content(&mut self, t: &serde_json::Value) -> (String, String) {
      match t["d"].as_str().unwrap() {
        "simple" => (String::new(), format!("<typeRef>{}</typeRef>{}", t["ty"].as_str().unwrap(), self.av(t["av"].as_str().unwrap()))),
        "ref" => {
          let name = self.define(&t["to"]);
          (String::new(), format!("<typeRef>{}</typeRef>", name))
        }
        "comp" => {
          let mut s = String::new();
          for c in t["cs"].as_array().unwrap() {
            let (attrs, body) = self.content(&c["ty"]);
            s.push_str(&format!("<itemComponent name=\"{}\"{}>{}</itemComponent>", c["name"].as_str().unwrap(), attrs, body));
          }
          (String::new(), s)
        }
        _ => {
          let (_, body) = self.content(&t["of"]);
          (" isCollection=\"true\"".to_string(), body)
        }
      }
    }
    fn define(&mut self, t: &serde_json::Value) -> String {
      let name = self.fresh();
      let (attrs, body) = self.content(t);
      self.out.push(format!("<itemDefinition name=\"{}\"{}>{}</itemDefinition>", name, attrs, body));
      name
    }
  }
  let mut g = Gen { out: vec![], n: 0, type_like_names };
  let top = g.define(t);
  if forward {
    g.out.reverse();
  }
  (g.out.join(""), top)
}
