//! Trusted writers of DMN XML text.

pub const DMN_NS: &str = "https://www.omg.org/spec/DMN/20191111/MODEL/";

pub fn esc(s: &str) -> String {
  s.replace('&', "&amp;").replace('<', "&lt;").replace('>', "&gt;").replace('"', "&quot;")
}

/// A one-decision model for the workspace/server alphabets: decision `v` returns the
/// string `id`; knowledge model `echo` returns its (untyped) parameter `x`. With `builds == false` the model
/// parses but its evaluator cannot be built (input data without type reference).
pub fn alphabet_model(id: &str, ns: &str, name: &str, builds: bool) -> String {
  let type_ref = if builds { " typeRef=\"string\"" } else { "" };
  format!(
    r##"<?xml version="1.0" encoding="UTF-8"?>
<definitions xmlns="{dmn}" namespace="{ns}" name="{name}" id="{id}">
  <inputData name="x" id="i_x"><variable name="x"{type_ref}/></inputData>
  <decision name="v" id="d_v"><variable name="v"/>
    <literalExpression><text>"{id}"</text></literalExpression>
  </decision>
  <businessKnowledgeModel name="echo" id="b_echo"><variable name="echo"/>
    <encapsulatedLogic><formalParameter name="x"/><literalExpression><text>x</text></literalExpression></encapsulatedLogic>
  </businessKnowledgeModel>
</definitions>"##,
    dmn = DMN_NS,
    ns = esc(ns),
    name = esc(name),
    id = esc(id),
    type_ref = type_ref
  )
}
