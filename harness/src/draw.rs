//! Drawing decision tables as Unicode box-drawing text (the trusted writer of C19), modelled on
//! the gallery in /repo/examples/src/examples/valid.rs.
//!
//! A drawing is a base grid of rows x columns, cells covering rectangles of it, and the grid lines
//! that are double. Segments exist where two different cells meet; junction characters follow from
//! the four arms.

use serde_json::Value as J;

#[derive(Clone, Debug)]
pub struct Cell {
  pub r0: usize,
  pub c0: usize,
  pub r1: usize,
  pub c1: usize,
  pub lines: Vec<String>,
}

pub struct Drawing {
  pub rows: usize,
  pub cols: usize,
  pub cells: Vec<Cell>,
  pub hdouble: Vec<usize>,
  pub vdouble: Vec<usize>,
}

fn junction(up: u8, down: u8, left: u8, right: u8) -> char {
  match (up, down, left, right) {
    (0, 0, 0, 0) => ' ',
    (0, 1, 0, 1) => '┌',
    (0, 1, 1, 0) => '┐',
    (1, 0, 0, 1) => '└',
    (1, 0, 1, 0) => '┘',
    (1, 1, 0, 1) => '├',
    (1, 1, 1, 0) => '┤',
    (0, 1, 1, 1) => '┬',
    (1, 0, 1, 1) => '┴',
    (1, 1, 1, 1) => '┼',
    (0, 0, 1, 1) | (0, 0, 1, 0) | (0, 0, 0, 1) => '─',
    (1, 1, 0, 0) | (1, 0, 0, 0) | (0, 1, 0, 0) => '│',
    (1, 1, 0, 2) => '╞',
    (1, 1, 2, 0) => '╡',
    (1, 1, 2, 2) => '╪',
    (0, 1, 2, 2) => '╤',
    (1, 0, 2, 2) => '╧',
    (0, 0, 2, 2) | (0, 0, 2, 0) | (0, 0, 0, 2) => '═',
    (0, 1, 0, 2) => '╒',
    (0, 1, 2, 0) => '╕',
    (1, 0, 0, 2) => '╘',
    (1, 0, 2, 0) => '╛',
    (0, 2, 1, 1) => '╥',
    (2, 0, 1, 1) => '╨',
    (2, 2, 1, 1) => '╫',
    (2, 2, 0, 1) => '╟',
    (2, 2, 1, 0) => '╢',
    (2, 2, 0, 0) | (2, 0, 0, 0) | (0, 2, 0, 0) => '║',
    (0, 2, 0, 1) => '╓',
    (0, 2, 1, 0) => '╖',
    (2, 0, 0, 1) => '╙',
    (2, 0, 1, 0) => '╜',
    (2, 2, 2, 2) => '╬',
    (0, 2, 2, 2) => '╦',
    (2, 0, 2, 2) => '╩',
    (2, 2, 0, 2) => '╠',
    (2, 2, 2, 0) => '╣',
    (0, 2, 0, 2) => '╔',
    (0, 2, 2, 0) => '╗',
    (2, 0, 0, 2) => '╚',
    (2, 0, 2, 0) => '╝',
    _ => '?',
  }
}

impl Drawing {
  fn owner(&self, r: usize, c: usize) -> usize {
    self.cells.iter().position(|k| k.r0 <= r && r <= k.r1 && k.c0 <= c && c <= k.c1).unwrap_or(usize::MAX)
  }

  /// Renders the drawing; `pad` blanks on each side of the longest line of a cell, texts centred when `centre`.
  pub fn render(&self, pad: usize, centre: bool) -> Vec<String> {
    let (rows, cols) = (self.rows, self.cols);
    let width_of = |s: &str| s.chars().count();
    // column widths and row heights from the cells that occupy one column / one row, then widened for spanning cells
    let mut w = vec![1usize; cols];
    let mut h = vec![1usize; rows];
    for k in &self.cells {
      let need_w = k.lines.iter().map(|l| width_of(l)).max().unwrap_or(0) + 2 * pad;
      if k.c0 == k.c1 {
        w[k.c0] = w[k.c0].max(need_w.max(1));
      }
      if k.r0 == k.r1 {
        h[k.r0] = h[k.r0].max(k.lines.len().max(1));
      }
    }
    for k in &self.cells {
      let need_w = k.lines.iter().map(|l| width_of(l)).max().unwrap_or(0) + 2 * pad;
      let have: usize = (k.c0..=k.c1).map(|c| w[c]).sum::<usize>() + (k.c1 - k.c0);
      if have < need_w {
        w[k.c1] += need_w - have;
      }
      let have_h: usize = (k.r0..=k.r1).map(|r| h[r]).sum::<usize>() + (k.r1 - k.r0);
      if have_h < k.lines.len() {
        h[k.r1] += k.lines.len() - have_h;
      }
    }
    let mut xpos = vec![0usize; cols + 1];
    for c in 0..cols {
      xpos[c + 1] = xpos[c] + w[c] + 1;
    }
    let mut ypos = vec![0usize; rows + 1];
    for r in 0..rows {
      ypos[r + 1] = ypos[r] + h[r] + 1;
    }
    let (width, height) = (xpos[cols] + 1, ypos[rows] + 1);
    let mut m = vec![vec![' '; width]; height];
    let hseg = |y: usize, c: usize| -> u8 {
      let exists = y == 0 || y == rows || self.owner(y - 1, c) != self.owner(y, c);
      if !exists {
        0
      } else if self.hdouble.contains(&y) {
        2
      } else {
        1
      }
    };
    let vseg = |x: usize, r: usize| -> u8 {
      let exists = x == 0 || x == cols || self.owner(r, x - 1) != self.owner(r, x);
      if !exists {
        0
      } else if self.vdouble.contains(&x) {
        2
      } else {
        1
      }
    };
    for y in 0..=rows {
      for c in 0..cols {
        let s = hseg(y, c);
        if s > 0 {
          for x in (xpos[c] + 1)..xpos[c + 1] {
            m[ypos[y]][x] = if s == 2 { '═' } else { '─' };
          }
        }
      }
    }
    for x in 0..=cols {
      for r in 0..rows {
        let s = vseg(x, r);
        if s > 0 {
          for y in (ypos[r] + 1)..ypos[r + 1] {
            m[y][xpos[x]] = if s == 2 { '║' } else { '│' };
          }
        }
      }
    }
    for y in 0..=rows {
      for x in 0..=cols {
        let up = if y > 0 { vseg(x, y - 1) } else { 0 };
        let down = if y < rows { vseg(x, y) } else { 0 };
        let left = if x > 0 { hseg(y, x - 1) } else { 0 };
        let right = if x < cols { hseg(y, x) } else { 0 };
        let ch = junction(up, down, left, right);
        if ch != ' ' {
          m[ypos[y]][xpos[x]] = ch;
        }
      }
    }
    for k in &self.cells {
      let (x0, x1) = (xpos[k.c0] + 1, xpos[k.c1 + 1]); // interior columns x0..x1
      let y0 = ypos[k.r0] + 1;
      let inner_w = x1 - x0;
      for (i, line) in k.lines.iter().enumerate() {
        let lw = width_of(line);
        let off = if centre { (inner_w - lw) / 2 } else { pad.min(inner_w - lw) };
        // a merged cell may be crossed by the positions of inner grid lines: lines of text go to text rows only;
        // with `centre`, the text of a cell that occupies one row of the grid is centred vertically as well
        let inner_h = ypos[k.r1 + 1] - y0;
        let voff = if centre && k.r0 == k.r1 && inner_h > k.lines.len() { (inner_h - k.lines.len()) / 2 } else { 0 };
        let y = y0 + voff + i;
        for (j, ch) in line.chars().enumerate() {
          m[y][x0 + off + j] = ch;
        }
      }
    }
    m.into_iter().map(|row| row.into_iter().collect::<String>()).collect()
  }
}

fn split_lines(text: &str, multi: bool) -> Vec<String> {
  if multi && text.contains(' ') && !text.contains('"') {
    text.split(' ').map(|s| s.to_string()).collect()
  } else if multi && text.contains(", ") {
    let parts: Vec<&str> = text.split(", ").collect();
    parts.iter().enumerate().map(|(i, p)| if i + 1 < parts.len() { format!("{},", p) } else { p.to_string() }).collect()
  } else {
    vec![text.to_string()]
  }
}

/// Style "merged": neighbouring rules whose entries in one input or output clause read the same are drawn with ONE cell
/// spanning them (the gallery draws such tables: `vertical` = the rules follow each other downwards).
fn merge_equal_neighbours(cells: &mut Vec<Cell>, is_entry: &dyn Fn(&Cell) -> bool, vertical: bool) {
  loop {
    let mut found = None;
    'search: for a in 0..cells.len() {
      if !is_entry(&cells[a]) {
        continue;
      }
      for b in 0..cells.len() {
        if a == b || !is_entry(&cells[b]) || cells[a].lines != cells[b].lines {
          continue;
        }
        let adjacent = if vertical { cells[a].c0 == cells[b].c0 && cells[a].c1 == cells[b].c1 && cells[a].r1 + 1 == cells[b].r0 } else { cells[a].r0 == cells[b].r0 && cells[a].r1 == cells[b].r1 && cells[a].c1 + 1 == cells[b].c0 };
        if adjacent {
          found = Some((a, b));
          break 'search;
        }
      }
    }
    match found {
      Some((a, b)) => {
        if vertical {
          cells[a].r1 = cells[b].r1;
        } else {
          cells[a].c1 = cells[b].c1;
        }
        cells.remove(b);
      }
      None => break,
    }
  }
}

/// The text of a drawing for a table description `t`:
/// {orient: "rows"|"cols", info: ""|name, infow: "narrow"|"equal", hp: marker, ins: [{expr, vals}], outs: [{name, vals}],
///  label: text|null, anns: [name], rules: [{ins: [..], outs: [..], anns: [..]}], style: "tight"|"wide"|"multi"|"multitight", vals: bool}
pub fn draw_table(t: &J) -> String {
  let s = |v: &J| v.as_str().unwrap_or("").to_string();
  let style = s(&t["style"]);
  let multi = style == "multi" || style == "multitight" || style == "multicentre";
  let (pad, centre) = match style.as_str() {
    "tight" | "multitight" => (0, false),
    "merged" => (1, false),
    "wide" => (2, true),
    "multicentre" => (1, true),
    _ => (1, false),
  };
  let ins: Vec<&J> = t["ins"].as_array().map(|a| a.iter().collect()).unwrap_or_default();
  let outs: Vec<&J> = t["outs"].as_array().map(|a| a.iter().collect()).unwrap_or_default();
  let anns: Vec<String> = t["anns"].as_array().map(|a| a.iter().map(s).collect()).unwrap_or_default();
  let rules: Vec<&J> = t["rules"].as_array().map(|a| a.iter().collect()).unwrap_or_default();
  let vals = t["vals"].as_bool().unwrap_or(false);
  let label: Option<String> = t["label"].as_str().map(|x| x.to_string());
  let (nin, nout, nann, nr) = (ins.len(), outs.len(), anns.len(), rules.len());
  let label_row = label.is_some() && nout > 1;
  let mut cells: Vec<Cell> = vec![];
  let cell = |r0: usize, c0: usize, r1: usize, c1: usize, text: &str, multi: bool| Cell { r0, c0, r1, c1, lines: split_lines(text, multi) };
  let single_out_header = |label: &Option<String>| label.clone().unwrap_or_default();
  let d = if s(&t["orient"]) == "rows" {
    let nhdr = 1 + usize::from(label_row) + usize::from(vals);
    let names_row = usize::from(label_row);
    let vals_row = names_row + 1;
    let cols = 1 + nin + nout + nann;
    cells.push(cell(0, 0, nhdr - 1, 0, &s(&t["hp"]), false));
    for (i, inp) in ins.iter().enumerate() {
      cells.push(cell(0, 1 + i, names_row, 1 + i, &s(&inp["expr"]), multi));
      if vals {
        cells.push(cell(vals_row, 1 + i, vals_row, 1 + i, &s(&inp["vals"]), multi));
      }
    }
    if label_row {
      cells.push(cell(0, 1 + nin, 0, nin + nout, &label.clone().unwrap_or_default(), false));
    }
    for (j, out) in outs.iter().enumerate() {
      let text = if nout > 1 { s(&out["name"]) } else { single_out_header(&label) };
      cells.push(cell(names_row, 1 + nin + j, names_row, 1 + nin + j, &text, multi && nout > 1));
      if vals {
        cells.push(cell(vals_row, 1 + nin + j, vals_row, 1 + nin + j, &s(&out["vals"]), multi));
      }
    }
    for (k, a) in anns.iter().enumerate() {
      cells.push(cell(0, 1 + nin + nout + k, names_row, 1 + nin + nout + k, a, multi));
      if vals {
        cells.push(cell(vals_row, 1 + nin + nout + k, vals_row, 1 + nin + nout + k, "", false));
      }
    }
    for (r, rule) in rules.iter().enumerate() {
      let row = nhdr + r;
      cells.push(cell(row, 0, row, 0, &(r + 1).to_string(), false));
      for i in 0..nin {
        cells.push(cell(row, 1 + i, row, 1 + i, &s(&rule["ins"][i]), false));
      }
      for j in 0..nout {
        cells.push(cell(row, 1 + nin + j, row, 1 + nin + j, &s(&rule["outs"][j]), false));
      }
      for k in 0..nann {
        cells.push(cell(row, 1 + nin + nout + k, row, 1 + nin + nout + k, &s(&rule["anns"][k]), multi));
      }
    }
    if style == "merged" {
      merge_equal_neighbours(&mut cells, &|k: &Cell| k.r0 >= nhdr && k.c0 >= 1 && k.c1 <= nin + nout, true);
    }
    let mut vdouble = vec![1 + nin];
    if nann > 0 {
      vdouble.push(1 + nin + nout);
    }
    Drawing { rows: nhdr + nr, cols, cells, hdouble: vec![nhdr], vdouble }
  } else {
    let label_col = usize::from(label_row);
    let name_col = label_col;
    let vals_col = name_col + 1;
    let nhead = 1 + label_col + usize::from(vals);
    let rows = nin + nout + nann + 1;
    for (i, inp) in ins.iter().enumerate() {
      cells.push(cell(i, 0, i, name_col, &s(&inp["expr"]), false));
      if vals {
        cells.push(cell(i, vals_col, i, vals_col, &s(&inp["vals"]), false));
      }
    }
    if label_row {
      cells.push(cell(nin, 0, nin + nout - 1, 0, &label.clone().unwrap_or_default(), true));
    }
    for (j, out) in outs.iter().enumerate() {
      let text = if nout > 1 { s(&out["name"]) } else { single_out_header(&label) };
      cells.push(cell(nin + j, name_col, nin + j, name_col, &text, false));
      if vals {
        cells.push(cell(nin + j, vals_col, nin + j, vals_col, &s(&out["vals"]), false));
      }
    }
    for (k, a) in anns.iter().enumerate() {
      cells.push(cell(nin + nout + k, 0, nin + nout + k, name_col, a, false));
      if vals {
        cells.push(cell(nin + nout + k, vals_col, nin + nout + k, vals_col, "", false));
      }
    }
    let last = rows - 1;
    cells.push(cell(last, 0, last, name_col, &s(&t["hp"]), false));
    if vals {
      cells.push(cell(last, vals_col, last, vals_col, "", false));
    }
    for (r, rule) in rules.iter().enumerate() {
      let col = nhead + r;
      for i in 0..nin {
        cells.push(cell(i, col, i, col, &s(&rule["ins"][i]), false));
      }
      for j in 0..nout {
        cells.push(cell(nin + j, col, nin + j, col, &s(&rule["outs"][j]), false));
      }
      for k in 0..nann {
        cells.push(cell(nin + nout + k, col, nin + nout + k, col, &s(&rule["anns"][k]), multi));
      }
      cells.push(cell(last, col, last, col, &(r + 1).to_string(), false));
    }
    if style == "merged" {
      merge_equal_neighbours(&mut cells, &|k: &Cell| k.c0 >= nhead && k.r1 < nin + nout, false);
    }
    let mut hdouble = vec![nin];
    if nann > 0 {
      hdouble.push(nin + nout);
    }
    Drawing { rows, cols: nhead + nr, cells, hdouble, vdouble: vec![nhead] }
  };
  let mut lines = d.render(pad, centre);
  // the information item name: a box on top whose bottom edge is the table's top edge
  let info = s(&t["info"]);
  if !info.is_empty() {
    let top: Vec<char> = lines[0].chars().collect();
    let table_w = top.len();
    let want = info.chars().count() + 4;
    let mut end = if s(&t["infow"]) == "equal" { table_w - 1 } else { want.max(3).min(table_w - 1) };
    if end != table_w - 1 {
      // do not end on a double vertical line
      while end < table_w - 1 && top[end] == '╥' {
        end += 1;
      }
    }
    let mut patched = top.clone();
    patched[0] = '├';
    patched[end] = match top[end] {
      '─' => '┴',
      '┬' => '┼',
      '┐' => '┤',
      other => other,
    };
    let inner = end - 1;
    let mut text = format!(" {}", info);
    while text.chars().count() < inner {
      text.push(' ');
    }
    let text: String = text.chars().take(inner).collect();
    lines[0] = patched.into_iter().collect();
    lines.insert(0, format!("│{}│", text));
    lines.insert(0, format!("┌{}┐", "─".repeat(inner)));
  }
  let mut out = String::from("\n");
  for l in lines {
    out.push_str("  ");
    out.push_str(l.trim_end());
    out.push('\n');
  }
  out
}
