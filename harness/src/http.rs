//! In-process dmntk HTTP service + a minimal raw HTTP/1.1 client (keep-alive).

use std::io::{Read, Write};
use std::net::TcpStream;
use std::time::Duration;

pub struct Server {
  pub port: u16,
}

pub fn start_server() -> Server {
  start_server_on(None)
}

/// The service started on a directory of model files (`dmntk srv -D dir`): it loads and deploys them before it listens.
pub fn start_server_on(dir: Option<String>) -> Server {
  // pick a free loopback port
  let port = {
    let l = std::net::TcpListener::bind("127.0.0.1:0").expect("bind");
    l.local_addr().unwrap().port()
  };
  let p = port;
  std::thread::spawn(move || {
    let _ = actix_web::rt::System::new("dmntk-verif").block_on(dmntk_server::start_server(Some("127.0.0.1".to_string()), Some(p.to_string()), dir));
  });
  // wait until it accepts connections
  for _ in 0..200 {
    if TcpStream::connect(("127.0.0.1", port)).is_ok() {
      return Server { port };
    }
    std::thread::sleep(Duration::from_millis(25));
  }
  crate::util::tool_error("in-process server did not start");
}

/// The client keeps a small pool of connections and uses them in turn, so that consecutive requests are
/// served by different workers of the service.
pub struct Client {
  port: u16,
  stream: Option<TcpStream>,
  parked: Vec<Option<TcpStream>>,
  turn: usize,
}

const CONNECTIONS: usize = 4;

pub struct Response {
  pub status: u16,
  pub body: Vec<u8>,
}

impl Client {
  pub fn new(port: u16) -> Self {
    Client { port, stream: None, parked: (0..CONNECTIONS).map(|_| None).collect(), turn: 0 }
  }
  fn connect(&mut self) -> Option<&mut TcpStream> {
    if self.stream.is_none() {
      let s = TcpStream::connect(("127.0.0.1", self.port)).ok()?;
      let _ = s.set_read_timeout(Some(Duration::from_secs(10)));
      let _ = s.set_write_timeout(Some(Duration::from_secs(10)));
      let _ = s.set_nodelay(true);
      self.stream = Some(s);
    }
    self.stream.as_mut()
  }
  /// Sends one request; `None` when the service gave no (complete) HTTP response.
  pub fn request(&mut self, method: &str, path: &str, content_type: &str, body: &[u8]) -> Option<Response> {
    // take the next connection of the pool
    self.turn = (self.turn + 1) % CONNECTIONS;
    self.stream = self.parked[self.turn].take();
    let r = self.request_on_current(method, path, content_type, body);
    self.parked[self.turn] = self.stream.take();
    r
  }
  fn request_on_current(&mut self, method: &str, path: &str, content_type: &str, body: &[u8]) -> Option<Response> {
    for attempt in 0..2 {
      let r = self.try_request(method, path, content_type, body);
      if r.is_some() {
        return r;
      }
      self.stream = None;
      if attempt == 0 {
        continue;
      }
    }
    None
  }
  fn try_request(&mut self, method: &str, path: &str, content_type: &str, body: &[u8]) -> Option<Response> {
    let s = self.connect()?;
    let mut req = format!("{} {} HTTP/1.1\r\nHost: localhost\r\nConnection: keep-alive\r\nContent-Length: {}\r\n", method, path, body.len()).into_bytes();
    if !content_type.is_empty() {
      req.extend_from_slice(format!("Content-Type: {}\r\n", content_type).as_bytes());
    }
    req.extend_from_slice(b"\r\n");
    req.extend_from_slice(body);
    s.write_all(&req).ok()?;
    // read headers
    let mut buf: Vec<u8> = vec![];
    let mut tmp = [0u8; 8192];
    let header_end;
    loop {
      if let Some(pos) = find(&buf, b"\r\n\r\n") {
        header_end = pos + 4;
        break;
      }
      let n = s.read(&mut tmp).ok()?;
      if n == 0 {
        return None;
      }
      buf.extend_from_slice(&tmp[..n]);
    }
    let head = String::from_utf8_lossy(&buf[..header_end]).to_string();
    let status: u16 = head.split_whitespace().nth(1)?.parse().ok()?;
    let mut content_length: Option<usize> = None;
    let mut chunked = false;
    let mut close = false;
    for line in head.lines().skip(1) {
      let lower = line.to_ascii_lowercase();
      if let Some(v) = lower.strip_prefix("content-length:") {
        content_length = v.trim().parse().ok();
      }
      if lower.starts_with("transfer-encoding:") && lower.contains("chunked") {
        chunked = true;
      }
      if lower.starts_with("connection:") && lower.contains("close") {
        close = true;
      }
    }
    let mut body_bytes = buf[header_end..].to_vec();
    if chunked {
      // read until terminating chunk
      loop {
        if let Some(out) = dechunk(&body_bytes) {
          body_bytes = out;
          break;
        }
        let n = s.read(&mut tmp).ok()?;
        if n == 0 {
          return None;
        }
        body_bytes.extend_from_slice(&tmp[..n]);
      }
    } else {
      let want = content_length.unwrap_or(0);
      while body_bytes.len() < want {
        let n = s.read(&mut tmp).ok()?;
        if n == 0 {
          return None;
        }
        body_bytes.extend_from_slice(&tmp[..n]);
      }
      body_bytes.truncate(want);
    }
    if close {
      self.stream = None;
    }
    Some(Response { status, body: body_bytes })
  }
}

fn find(h: &[u8], n: &[u8]) -> Option<usize> {
  h.windows(n.len()).position(|w| w == n)
}

fn dechunk(b: &[u8]) -> Option<Vec<u8>> {
  let mut out = vec![];
  let mut i = 0;
  loop {
    let nl = find(&b[i..], b"\r\n")? + i;
    let size = usize::from_str_radix(std::str::from_utf8(&b[i..nl]).ok()?.trim(), 16).ok()?;
    i = nl + 2;
    if size == 0 {
      return Some(out);
    }
    if b.len() < i + size + 2 {
      return None;
    }
    out.extend_from_slice(&b[i..i + size]);
    i += size + 2;
  }
}
