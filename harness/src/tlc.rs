//! Running TLC and exchanging data with it.
//!
//! TLC is the judge of every check: this module only starts it (always under a
//! wall-clock limit), feeds it ndjson files through environment variables read
//! by `IOEnv`, and parses what it prints:
//!   `<<"TAG", "json text">>`   lines printed by `PrintT(<<"TAG", ToJson(x)>>)`
//!   `<<"REJECT", i, "why">>`   one line per record the specification rejects
//!   TLC's own summary lines (states generated / distinct, depth, errors).

use serde_json::Value as J;
use std::io::Write;
use std::path::{Path, PathBuf};
use std::process::{Command, Stdio};
use std::time::{Duration, Instant};

pub const JAR: &str = "/opt/veriftools/tla/tla2tools.jar";
pub const COMMUNITY: &str = "/opt/veriftools/tla/CommunityModules-deps.jar";

#[derive(Debug, Default, Clone)]
pub struct TlcOut {
  pub lines: Vec<String>,
  pub ok: bool,
  pub timed_out: bool,
  pub generated: u64,
  pub distinct: u64,
  pub depth: u64,
  pub wall_s: f64,
  pub error_text: String,
}

/// Outcome of an Apalache run (symbolic check of an inductive invariant): `Some(true)` = no error found,
/// `Some(false)` = a counterexample, `None` = the tool could not be run to the end (not installed, time limit).
pub fn apalache(spec_dir: &std::path::Path, out_dir: &std::path::Path, module: &str, args: &[&str], timeout_s: u64) -> (Option<bool>, String) {
  let _ = std::fs::remove_dir_all(out_dir);
  let mut cmd = Command::new("timeout");
  cmd.current_dir(spec_dir).arg(timeout_s.to_string()).arg("apalache-mc").arg("check").arg(format!("--out-dir={}", out_dir.display())).args(args).arg(format!("{}.tla", module)).stdout(Stdio::piped()).stderr(Stdio::piped());
  match cmd.output() {
    Err(e) => (None, format!("cannot start apalache-mc: {}", e)),
    Ok(o) => {
      let text = String::from_utf8_lossy(&o.stdout).to_string();
      let _ = std::fs::remove_dir_all(out_dir);
      if text.contains("EXITCODE: OK") && text.contains("The outcome is: NoError") {
        (Some(true), text)
      } else if text.contains("The outcome is: Error") || text.contains("EXITCODE: ERROR (12)") {
        (Some(false), text)
      } else {
        (None, text.lines().rev().take(6).collect::<Vec<_>>().join(" | "))
      }
    }
  }
}

impl TlcOut {
  /// Payloads of lines `<<"TAG", "json">>`.
  pub fn tagged(&self, tag: &str) -> Vec<J> {
    let prefix = format!("<<\"{}\", \"", tag);
    let mut out = vec![];
    for l in &self.lines {
      if let Some(rest) = l.strip_prefix(&prefix) {
        if let Some(body) = rest.strip_suffix("\">>") {
          let text = unescape_tla(body);
          match serde_json::from_str::<J>(&text) {
            Ok(v) => out.push(v),
            Err(e) => panic!("TOOL-ERROR: cannot parse TLC payload: {} in {}", e, text),
          }
        }
      }
    }
    out
  }
  /// Lines `<<"REJECT", i, "message">>` → (i, message); i is 1-based.
  pub fn rejects(&self) -> Vec<(usize, String)> {
    let mut out = vec![];
    for l in &self.lines {
      if let Some(rest) = l.strip_prefix("<<\"REJECT\", ") {
        let rest = rest.trim_end_matches(">>");
        let mut it = rest.splitn(2, ", ");
        let i: usize = it.next().unwrap_or("0").trim().parse().unwrap_or(0);
        let msg = it.next().unwrap_or("").trim().trim_matches('"').to_string();
        out.push((i, unescape_tla(&msg)));
      }
    }
    out
  }
  /// Integer payloads of lines `<<"TAG", n>>`.
  pub fn counters(&self, tag: &str) -> Vec<i64> {
    let prefix = format!("<<\"{}\", ", tag);
    self
      .lines
      .iter()
      .filter_map(|l| l.strip_prefix(&prefix).and_then(|r| r.trim_end_matches(">>").trim().parse::<i64>().ok()))
      .collect()
  }
}

/// TLC pretty-prints tuples wider than its line width over several lines
/// (`<< "TAG",\n   1,\n   "text" >>`). This joins such prints back into the
/// single-line form `<<"TAG", 1, "text">>` the parsers below expect.
pub fn normalise_tuples(stdout: &str) -> Vec<String> {
  let mut out = vec![];
  let mut pending: Option<String> = None;
  for line in stdout.lines() {
    if let Some(p) = pending.as_mut() {
      p.push(' ');
      p.push_str(line.trim());
      if line.trim_end().ends_with(">>") {
        out.push(compact_tuple(&pending.take().unwrap()));
      }
      continue;
    }
    if line.starts_with("<< ") {
      if line.trim_end().ends_with(">>") {
        out.push(compact_tuple(line));
      } else {
        pending = Some(line.trim_end().to_string());
      }
    } else {
      out.push(line.to_string());
    }
  }
  if let Some(p) = pending {
    out.push(p);
  }
  out
}

/// `<< "A", 1, "b c" >>` -> `<<"A", 1, "b c">>` (whitespace outside string literals normalised).
fn compact_tuple(t: &str) -> String {
  let inner = t.trim().trim_start_matches("<<").trim_end_matches(">>").trim();
  let mut parts: Vec<String> = vec![];
  let mut cur = String::new();
  let mut in_str = false;
  let mut esc = false;
  for c in inner.chars() {
    if in_str {
      cur.push(c);
      if esc {
        esc = false;
      } else if c == '\\' {
        esc = true;
      } else if c == '"' {
        in_str = false;
      }
    } else if c == '"' {
      in_str = true;
      cur.push(c);
    } else if c == ',' {
      parts.push(cur.trim().to_string());
      cur.clear();
    } else {
      cur.push(c);
    }
  }
  if !cur.trim().is_empty() {
    parts.push(cur.trim().to_string());
  }
  format!("<<{}>>", parts.join(", "))
}

pub fn unescape_tla(s: &str) -> String {
  let mut out = String::with_capacity(s.len());
  let mut it = s.chars();
  while let Some(c) = it.next() {
    if c == '\\' {
      match it.next() {
        Some('"') => out.push('"'),
        Some('\\') => out.push('\\'),
        Some('n') => out.push('\n'),
        Some('t') => out.push('\t'),
        Some(o) => {
          out.push('\\');
          out.push(o)
        }
        None => out.push('\\'),
      }
    } else {
      out.push(c)
    }
  }
  out
}

pub struct Tlc {
  pub spec_dir: PathBuf,
  pub work_dir: PathBuf,
}

pub struct Run<'a> {
  pub module: &'a str,
  pub cfg: &'a str,
  pub env: Vec<(String, String)>,
  pub workers: usize,
  pub timeout_s: u64,
  pub deque: bool,
  pub xmx: &'a str,
  pub extra: Vec<String>,
  pub tag: String,
}

impl<'a> Run<'a> {
  pub fn new(module: &'a str, cfg: &'a str) -> Self {
    Run {
      module,
      cfg,
      env: vec![],
      workers: 1,
      timeout_s: 600,
      deque: false,
      xmx: "4g",
      extra: vec![],
      tag: String::new(),
    }
  }
  pub fn env(mut self, k: &str, v: &str) -> Self {
    self.env.push((k.to_string(), v.to_string()));
    self
  }
  pub fn workers(mut self, n: usize) -> Self {
    self.workers = n;
    self
  }
  pub fn timeout(mut self, s: u64) -> Self {
    self.timeout_s = s;
    self
  }
  pub fn deque(mut self) -> Self {
    self.deque = true;
    self
  }
  pub fn extra(mut self, a: &[&str]) -> Self {
    self.extra.extend(a.iter().map(|s| s.to_string()));
    self
  }
  pub fn tag(mut self, t: &str) -> Self {
    self.tag = t.to_string();
    self
  }
}

impl Tlc {
  pub fn new(verif: &Path, id: &str) -> Self {
    let work_dir = verif.join("work").join(id);
    let _ = std::fs::create_dir_all(&work_dir);
    Tlc {
      spec_dir: verif.join("spec"),
      work_dir,
    }
  }

  pub fn path(&self, name: &str) -> PathBuf {
    self.work_dir.join(name)
  }

  pub fn write_ndjson(&self, name: &str, recs: &[J]) -> PathBuf {
    let p = self.path(name);
    let mut f = std::io::BufWriter::new(std::fs::File::create(&p).expect("create ndjson"));
    for r in recs {
      serde_json::to_writer(&mut f, r).unwrap();
      f.write_all(b"\n").unwrap();
    }
    f.flush().unwrap();
    p
  }

  pub fn run(&self, r: Run) -> TlcOut {
    let start = Instant::now();
    let meta = self.work_dir.join(format!("meta_{}_{}{}", r.module, r.cfg.replace(['/', '.'], "_"), r.tag));
    let _ = std::fs::remove_dir_all(&meta);
    let mut java_opts = String::from("-Xss1g");
    if r.deque {
      java_opts.push_str(" -Dtlc2.tool.queue.IStateQueue=StateDeque");
    }
    let mut cmd = Command::new("java");
    cmd
      .current_dir(&self.spec_dir)
      .env("JAVA_TOOL_OPTIONS", java_opts)
      .arg("-Xss1g") // on the command line too: the launcher sizes the main thread (initial states) from it
      .arg(format!("-Xmx{}", r.xmx))
      .arg("-XX:+UseParallelGC")
      .arg("-cp")
      .arg(format!("{}:{}", JAR, COMMUNITY))
      .arg("tlc2.TLC")
      .arg("-workers")
      .arg(r.workers.to_string())
      .arg("-metadir")
      .arg(&meta)
      .arg("-cleanup")
      .arg("-noGenerateSpecTE")
      .args(&r.extra)
      .arg("-config")
      .arg(r.cfg)
      .arg(format!("{}.tla", r.module))
      .stdout(Stdio::piped())
      .stderr(Stdio::piped());
    for (k, v) in &r.env {
      cmd.env(k, v);
    }
    let mut child = cmd.spawn().expect("TOOL-ERROR: cannot start java");
    let mut so = child.stdout.take().unwrap();
    let mut se = child.stderr.take().unwrap();
    let t_out = std::thread::spawn(move || {
      let mut s = String::new();
      let _ = std::io::Read::read_to_string(&mut so, &mut s);
      s
    });
    let t_err = std::thread::spawn(move || {
      let mut s = String::new();
      let _ = std::io::Read::read_to_string(&mut se, &mut s);
      s
    });
    let mut timed_out = false;
    let status = loop {
      match child.try_wait().expect("wait") {
        Some(st) => break Some(st),
        None => {
          if start.elapsed() > Duration::from_secs(r.timeout_s) {
            let _ = child.kill();
            let _ = child.wait();
            timed_out = true;
            break None;
          }
          std::thread::sleep(Duration::from_millis(50));
        }
      }
    };
    let stdout = t_out.join().unwrap_or_default();
    if std::env::var("VERIF_KEEP_TLC").is_ok() {
      let _ = std::fs::write(self.work_dir.join(format!("tlc_{}{}.out", r.module, r.tag)), &stdout);
    }
    let stderr = t_err.join().unwrap_or_default();
    let _ = std::fs::remove_dir_all(&meta);
    let mut out = TlcOut {
      timed_out,
      wall_s: start.elapsed().as_secs_f64(),
      ..Default::default()
    };
    out.lines = normalise_tuples(&stdout);
    let mut success_line = false;
    for l in &out.lines {
      if l.contains("states generated") && l.contains("distinct states found") {
        let nums: Vec<u64> = l
          .split(|c: char| !c.is_ascii_digit())
          .filter(|t| !t.is_empty())
          .filter_map(|t| t.parse().ok())
          .collect();
        if nums.len() >= 2 {
          out.generated = nums[0];
          out.distinct = nums[1];
        }
      }
      if let Some(rest) = l.strip_prefix("The depth of the complete state graph search is ") {
        out.depth = rest.trim_end_matches('.').trim().parse().unwrap_or(0);
      }
      if l.starts_with("Model checking completed. No error has been found.") {
        success_line = true;
      }
      if l.starts_with("Error:") || l.contains("Exception") || l.contains("is violated") || l.contains("Deadlock reached") {
        if out.error_text.len() < 4000 {
          out.error_text.push_str(l);
          out.error_text.push('\n');
        }
      }
    }
    out.ok = !timed_out && success_line && status.map(|s| s.success()).unwrap_or(false);
    if !out.ok && out.error_text.is_empty() {
      let tail: Vec<&str> = stdout.lines().rev().take(30).collect();
      out.error_text = format!(
        "exit={:?} timed_out={} stdout-tail={:?} stderr={}",
        status,
        timed_out,
        tail.iter().rev().collect::<Vec<_>>(),
        &stderr.chars().take(2000).collect::<String>()
      );
    }
    out
  }

  /// Judges independent records: shards `recs` over `shards` TLC processes (one worker each),
  /// each running `module`/`cfg` with env TRACE pointing at its shard. Returns the merged
  /// rejections with global 0-based indices, the merged tagged lines, and summed state counts.
  pub fn judge(&self, module: &str, cfg: &str, recs: &[J], shards: usize, timeout_s: u64, env: &[(&str, &str)]) -> JudgeOut {
    let n = recs.len();
    let shards = shards.max(1).min(n.max(1));
    let per = (n + shards - 1) / shards.max(1);
    std::thread::scope(|sc| {
      let mut handles = vec![];
      for k in 0..shards {
        let lo = k * per;
        let hi = ((k + 1) * per).min(n);
        if lo >= hi {
          continue;
        }
        let name = format!("{}_shard{}.ndjson", module, k);
        let p = self.write_ndjson(&name, &recs[lo..hi]);
        let env: Vec<(String, String)> = env.iter().map(|(a, b)| (a.to_string(), b.to_string())).collect();
        handles.push((
          lo,
          sc.spawn(move || {
            let mut run = Run::new(module, cfg).timeout(timeout_s).deque().tag(&format!("_s{}", k));
            run.env = env;
            run.env.push(("TRACE".to_string(), p.to_string_lossy().to_string()));
            run.xmx = "3g";
            self.run(run)
          }),
        ));
      }
      let mut jo = JudgeOut::default();
      jo.ok = true;
      for (lo, h) in handles.drain(..) {
        let out = h.join().expect("judge thread");
        if !out.ok {
          jo.ok = false;
          jo.error_text.push_str(&out.error_text);
        }
        for (i, m) in out.rejects() {
          jo.rejects.push((lo + i - 1, m));
        }
        jo.generated += out.generated;
        jo.distinct += out.distinct;
        jo.wall_s = jo.wall_s.max(out.wall_s);
        // record numbers in the tagged lines of a shard are made global (first number after the tag)
        jo.lines.extend(out.lines.into_iter().filter(|l| l.starts_with("<<\"")).map(|l| {
          if let Some(rest) = l.strip_prefix("<<\"UNSPEC\", ") {
            if let Some(n) = rest.trim_end_matches(">>").trim().parse::<usize>().ok() {
              return format!("<<\"UNSPEC\", {}>>", lo + n);
            }
          }
          l
        }));
      }
      jo.rejects.sort();
      jo
    })
  }
}

#[derive(Debug, Default)]
pub struct JudgeOut {
  pub ok: bool,
  pub rejects: Vec<(usize, String)>,
  pub lines: Vec<String>,
  pub generated: u64,
  pub distinct: u64,
  pub wall_s: f64,
  pub error_text: String,
}

impl JudgeOut {
  pub fn counters(&self, tag: &str) -> Vec<i64> {
    let prefix = format!("<<\"{}\", ", tag);
    self
      .lines
      .iter()
      .filter_map(|l| l.strip_prefix(&prefix).and_then(|r| r.trim_end_matches(">>").trim().parse::<i64>().ok()))
      .collect()
  }
}
