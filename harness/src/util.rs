//! Shared plumbing: run context, evidence, replay files, known findings, exit codes.

use serde_json::{json, Value as J};
use std::path::PathBuf;
use std::time::Instant;

/// Panics of the code under test that happened on threads the harness does not run itself.
pub static UNDER_TEST_PANICS: std::sync::Mutex<Vec<String>> = std::sync::Mutex::new(Vec::new());
thread_local! { pub static QUIET: std::cell::Cell<bool> = const { std::cell::Cell::new(false) }; }

pub struct Ctx {
  pub id: String,
  pub tier: String,
  pub seed: u64,
  pub verif: PathBuf,
  pub start: Instant,
  pub level: String,
  pub violations: Vec<(String, PathBuf)>,
  pub known_hits: Vec<String>,
  pub assumptions: Vec<String>,
  pub coverage: serde_json::Map<String, J>,
  pub findings: Vec<Finding>,
  pub sig_counts: std::collections::BTreeMap<String, u64>,
}

#[derive(Debug, Clone)]
pub struct Finding {
  pub property: String,
  pub status: String,
  pub signature: String,
  pub what: String,
}

pub fn tool_error(msg: &str) -> ! {
  println!("TOOL-ERROR: {}", msg);
  eprintln!("TOOL-ERROR: {}", msg);
  std::process::exit(2)
}

impl Ctx {
  pub fn new(id: &str, tier: &str, level: &str) -> Self {
    let verif = std::env::var("VERIF_DIR").map(PathBuf::from).unwrap_or_else(|_| PathBuf::from("/verif"));
    let seed = std::env::var("VERIF_SEED").ok().and_then(|s| s.trim().parse::<u64>().ok()).unwrap_or(20260924);
    let findings = load_findings(&verif);
    let _ = std::fs::create_dir_all(verif.join("evidence"));
    let _ = std::fs::create_dir_all(verif.join("replays"));
    if std::env::args().nth(3).as_deref() != Some("--replay") {
      if let Ok(rd) = std::fs::read_dir(verif.join("replays")) {
        for e in rd.flatten() {
          if e.file_name().to_string_lossy().starts_with(&format!("{}-", id)) {
            let _ = std::fs::remove_file(e.path());
          }
        }
      }
    }
    Ctx {
      id: id.to_string(),
      tier: tier.to_string(),
      seed,
      verif,
      start: Instant::now(),
      level: level.to_string(),
      violations: vec![],
      known_hits: vec![],
      assumptions: vec![],
      coverage: serde_json::Map::new(),
      findings,
      sig_counts: Default::default(),
    }
  }
  pub fn quick(&self) -> bool {
    self.tier != "thorough"
  }
  pub fn cov(&mut self, k: &str, v: J) {
    self.coverage.insert(k.to_string(), v);
  }
  pub fn cov_add(&mut self, k: &str, n: u64) {
    let cur = self.coverage.get(k).and_then(|v| v.as_u64()).unwrap_or(0);
    self.coverage.insert(k.to_string(), json!(cur + n));
  }
  pub fn sample(&mut self, v: J) {
    let e = self.coverage.entry("samples".to_string()).or_insert_with(|| json!([]));
    if let Some(a) = e.as_array_mut() {
      if a.len() < 8 {
        a.push(v);
      }
    }
  }
  pub fn assume(&mut self, s: &str) {
    self.assumptions.push(s.to_string());
  }

  /// Reports one rejected case. `signatures` are the narrow classification labels the
  /// check computed for it; when one of them is listed as an open known finding the
  /// case is printed as KNOWN-FINDING, otherwise it is a violation with a replay file.
  pub fn reject(&mut self, signatures: &[String], replay: J, message: &str) {
    for f in &self.findings {
      if f.property == self.id && f.status == "open" && signatures.iter().any(|s| *s == f.signature) {
        let line = format!("KNOWN-FINDING: property={} {} [{}]", self.id, f.what, f.signature);
        if !self.known_hits.contains(&line) {
          self.known_hits.push(line);
        }
        return;
      }
    }
    if let Ok(path) = std::env::var("VERIF_DUMP") {
      use std::io::Write;
      if let Ok(mut f) = std::fs::OpenOptions::new().create(true).append(true).open(path) {
        let _ = writeln!(f, "{}\t{}", signatures.join("|"), message);
      }
    }
    let cnt = self.sig_counts.entry(signatures.join("|")).or_insert(0);
    *cnt += 1;
    let written = self.violations.iter().filter(|(_, p)| !p.as_os_str().is_empty()).count();
    if *cnt > 3 || written >= 90 {
      self.violations.push((message.to_string(), PathBuf::new()));
      return;
    }
    let text = serde_json::to_string_pretty(&json!({
      "property": self.id, "tier": self.tier, "seed": self.seed,
      "message": message, "signatures": signatures, "case": replay
    }))
    .unwrap();
    let mut h: u64 = 1469598103934665603;
    for b in text.bytes() {
      h ^= b as u64;
      h = h.wrapping_mul(1099511628211);
    }
    let path = self.verif.join("replays").join(format!("{}-{:016x}.json", self.id, h));
    let _ = std::fs::write(&path, text);
    self.violations.push((message.to_string(), path));
  }

  /// Writes the evidence file, prints KNOWN-FINDING / VIOLATION lines, exits.
  pub fn finish(mut self) -> ! {
    // panics of the code under test on threads of its own (service workers): each is a violation
    let panics: Vec<String> = UNDER_TEST_PANICS.lock().map(|mut g| std::mem::take(&mut *g)).unwrap_or_default();
    for p in panics {
      let where_ = p.split(" at ").nth(1).or_else(|| p.split("panicked at ").nth(1)).unwrap_or("").split(':').next().unwrap_or("").trim_start_matches("/repo/").to_string();
      self.reject(&[format!("panic-on-service-thread:{}", where_)], json!({"record": {"panic": p}}), &format!("the code under test panicked on a thread of its own: {}", p.replace('\n', " ")));
    }
    let wall = self.start.elapsed().as_secs_f64();
    if !self.coverage.contains_key("samples") {
      self.coverage.insert("samples".into(), json!([]));
    }
    let ev = json!({
      "property_id": self.id,
      "tier": if self.tier == "thorough" { "thorough" } else { "quick" },
      "seed": self.seed,
      "level": self.level,
      "coverage": J::Object(self.coverage.clone()),
      "assumptions": self.assumptions,
      "wall_s": wall,
      "violations": self.violations.len(),
      "known_findings_hit": self.known_hits,
    });
    let p = self.verif.join("evidence").join(format!("{}.json", self.id));
    std::fs::write(&p, serde_json::to_string_pretty(&ev).unwrap()).unwrap_or_else(|e| tool_error(&format!("cannot write evidence: {}", e)));
    for l in &self.known_hits {
      println!("{}", l);
    }
    if self.violations.is_empty() {
      println!("OK property={} tier={} wall_s={:.1}", self.id, self.tier, wall);
      std::process::exit(0)
    }
    let mut extra = 0;
    for (m, p) in &self.violations {
      if p.as_os_str().is_empty() {
        extra += 1;
        continue;
      }
      println!("VIOLATION property={} replay={}", self.id, p.display());
      println!("  {}", m.chars().take(300).collect::<String>());
    }
    if extra > 0 {
      println!("  (+{} further violations not written out)", extra);
    }
    for (s, n) in &self.sig_counts {
      println!("  signature {} x{}", s, n);
    }
    std::process::exit(1)
  }
}

fn load_findings(verif: &std::path::Path) -> Vec<Finding> {
  let p = verif.join("known_findings.json");
  let Ok(text) = std::fs::read_to_string(&p) else { return vec![] };
  let Ok(v) = serde_json::from_str::<J>(&text) else { tool_error("known_findings.json does not parse") };
  let mut out = vec![];
  for e in v.as_array().cloned().unwrap_or_default() {
    out.push(Finding {
      property: e["property"].as_str().unwrap_or("").to_string(),
      status: e["status"].as_str().unwrap_or("").to_string(),
      signature: e["signature"].as_str().unwrap_or("").to_string(),
      what: e["what"].as_str().unwrap_or("").to_string(),
    });
  }
  out
}

/// Small deterministic RNG (xorshift*), so runs depend only on VERIF_SEED.
pub struct Rng(pub u64);
impl Rng {
  pub fn new(seed: u64) -> Self {
    Rng(seed.wrapping_mul(0x9E3779B97F4A7C15) | 1)
  }
  pub fn next(&mut self) -> u64 {
    let mut x = self.0;
    x ^= x >> 12;
    x ^= x << 25;
    x ^= x >> 27;
    self.0 = x;
    x.wrapping_mul(0x2545F4914F6CDD1D)
  }
  pub fn below(&mut self, n: u64) -> u64 {
    if n == 0 {
      0
    } else {
      self.next() % n
    }
  }
  pub fn pick<'a, T>(&mut self, xs: &'a [T]) -> &'a T {
    &xs[self.below(xs.len() as u64) as usize]
  }
  pub fn chance(&mut self, num: u64, den: u64) -> bool {
    self.below(den) < num
  }
}

/// Runs `f` with the process's standard output and standard error pointing at /dev/null: some calls of the code under
/// test report on the console (Workspace::new on a directory prints every file it skips). Only for single-threaded
/// phases of a check.
pub fn silenced<T>(f: impl FnOnce() -> T) -> T {
  use std::io::Write;
  let _ = std::io::stdout().flush();
  let _ = std::io::stderr().flush();
  unsafe {
    let devnull = libc::open(b"/dev/null\0".as_ptr() as *const libc::c_char, libc::O_WRONLY);
    let (o1, o2) = (libc::dup(1), libc::dup(2));
    if devnull >= 0 && o1 >= 0 && o2 >= 0 {
      libc::dup2(devnull, 1);
      libc::dup2(devnull, 2);
    }
    let r = f();
    let _ = std::io::stdout().flush();
    let _ = std::io::stderr().flush();
    if devnull >= 0 && o1 >= 0 && o2 >= 0 {
      libc::dup2(o1, 1);
      libc::dup2(o2, 2);
    }
    for fd in [devnull, o1, o2] {
      if fd >= 0 {
        libc::close(fd);
      }
    }
    r
  }
}
