//! C15 — dates, date-times and durations follow the calendar and the UTC time line.
//!
//! Gen_C15.tla enumerates the cases (abstract data); this driver binds the values in a scope
//! (built directly, not through the lexer), evaluates a fixed set of FEEL expressions per case with
//! the real parser and evaluator and records the answers; Trace_C15.tla (Calendar.tla) judges them.

use crate::codec::{dec_value, enc_value};
use crate::tlc::{Run, Tlc};
use crate::util::{tool_error, Ctx};
use dmntk_feel::values::Value;
use dmntk_feel::{Name, Scope};
use serde_json::{json, Value as J};

fn eval_value(scope: &Scope, text: &str) -> Option<Value> {
  crate::util::QUIET.with(|q| q.set(true));
  let r = std::panic::catch_unwind(std::panic::AssertUnwindSafe(|| match dmntk_feel_parser::parse_expression(scope, text, false) {
    Ok(node) => dmntk_feel_evaluator::evaluate(scope, &node).unwrap_or(Value::Null(None)),
    Err(_) => Value::Null(Some("parse".into())),
  }));
  crate::util::QUIET.with(|q| q.set(false));
  r.ok()
}

fn eval(scope: &Scope, text: &str) -> J {
  match eval_value(scope, text) {
    Some(v) => enc_value(&v),
    None => json!({"k": "panic"}),
  }
}

/// "T" / "F" / "N" (null) / "O" (another value) / "P" (panic)
fn truth(scope: &Scope, text: &str) -> &'static str {
  match eval_value(scope, text) {
    Some(Value::Boolean(true)) => "T",
    Some(Value::Boolean(false)) => "F",
    Some(Value::Null(_)) => "N",
    Some(_) => "O",
    None => "P",
  }
}

fn order_forms(scope: &Scope) -> J {
  json!({
    "eq": truth(scope, "a = b"), "ne": truth(scope, "a != b"),
    "lt": truth(scope, "a < b"), "le": truth(scope, "a <= b"), "gt": truth(scope, "a > b"), "ge": truth(scope, "a >= b"),
    "ult": truth(scope, "a in (< b)"), "ule": truth(scope, "a in (<= b)"), "ugt": truth(scope, "a in (> b)"), "uge": truth(scope, "a in (>= b)"),
    "btw": truth(scope, "a between b and b"), "rng": truth(scope, "a in [b..b]"),
  })
}

fn small_int(v: &Option<Value>) -> Option<i64> {
  match v {
    Some(Value::Number(n)) => {
      let j = crate::codec::enc_number(n);
      let e = j["e"].as_i64().unwrap_or(-1);
      if j["fin"] == true && j["sm"].as_bool().unwrap_or(false) && (0..=9).contains(&e) {
        j["m"].as_i64().map(|m| m * 10_i64.pow(e as u32))
      } else {
        None
      }
    }
    _ => None,
  }
}

/// [year, month, day, weekday (0 when null)] of the value bound to `x`, or [] when it is null
fn date_parts(scope: &Scope) -> J {
  match eval_value(scope, "x") {
    Some(Value::Date(_)) => {
      let p = |e: &str| small_int(&eval_value(scope, e)).unwrap_or(0);
      json!([p("x.year"), p("x.month"), p("x.day"), p("x.weekday")])
    }
    Some(Value::Null(_)) => json!([]),
    Some(_) => json!([0, 0, 0, 0]),
    None => json!([-1, -1, -1, -1]),
  }
}

fn comp_text(c: &J) -> String {
  if c["c"] == "int" {
    c["v"].as_i64().unwrap_or(0).to_string()
  } else {
    c["t"].as_str().unwrap_or("0").to_string()
  }
}

pub fn run_case(c: &J) -> J {
  let mut r = c.clone();
  let scope = Scope::default();
  let bind = |n: &str, j: &J| scope.set_entry(&Name::from(n), dec_value(j));
  match c["kind"].as_str().unwrap_or("") {
    "month" => {
      let (y, m) = (c["y"].as_i64().unwrap_or(1), c["m"].as_i64().unwrap_or(1));
      let mut num = vec![];
      let mut lit = vec![];
      for d in 0..=32 {
        let v = eval_value(&scope, &format!("date({}, {}, {})", y, m, d)).unwrap_or(Value::Irrelevant);
        scope.set_entry(&Name::from("x"), v);
        num.push(date_parts(&scope));
        let text = if y < 0 { format!("-{:04}-{:02}-{:02}", -y, m, d) } else { format!("{:04}-{:02}-{:02}", y, m, d) };
        let v = eval_value(&scope, &format!("date(\"{}\")", text)).unwrap_or(Value::Irrelevant);
        scope.set_entry(&Name::from("x"), v);
        lit.push(date_parts(&scope));
      }
      r["num"] = json!(num);
      r["lit"] = json!(lit);
    }
    "ctor" => {
      let text = format!("date({}, {}, {})", comp_text(&c["cy"]), comp_text(&c["cm"]), comp_text(&c["cd"]));
      r["v"] = eval(&scope, &text);
      r["text"] = json!(text);
    }
    "dpair" => {
      bind("a", &c["a"]);
      bind("b", &c["b"]);
      r["o"] = order_forms(&scope);
    }
    "dtpair" => {
      bind("a", &c["a"]);
      bind("b", &c["b"]);
      r["o"] = order_forms(&scope);
      r["sub"] = eval(&scope, "a - b");
    }
    "dtprops" => {
      bind("a", &c["a"]);
      let tz = match eval_value(&scope, "a.timezone") {
        Some(Value::String(s)) => json!({"k": "zone", "zn": s}),
        Some(Value::Null(_)) => json!({"k": "null"}),
        Some(_) => json!({"k": "other"}),
        None => json!({"k": "panic"}),
      };
      r["p"] = json!({
        "year": eval(&scope, "a.year"), "month": eval(&scope, "a.month"), "day": eval(&scope, "a.day"),
        "hour": eval(&scope, "a.hour"), "minute": eval(&scope, "a.minute"), "second": eval(&scope, "a.second"),
        "weekday": eval(&scope, "a.weekday"), "offset": eval(&scope, "a.time offset"), "timezone": tz,
      });
    }
    "ymb" => {
      bind("a", &c["a"]);
      bind("b", &c["b"]);
      r["v"] = eval(&scope, "years and months duration(a, b)");
    }
    "durpair" => {
      bind("a", &c["a"]);
      bind("b", &c["b"]);
      r["o"] = order_forms(&scope);
      r["add"] = eval(&scope, "a + b");
      r["neg"] = eval(&scope, "-a");
      r["c"] = if c["a"]["k"] == "dtd" {
        json!({"days": eval(&scope, "a.days"), "hours": eval(&scope, "a.hours"), "minutes": eval(&scope, "a.minutes"), "seconds": eval(&scope, "a.seconds")})
      } else {
        json!({"years": eval(&scope, "a.years"), "months": eval(&scope, "a.months")})
      };
    }
    _ => {}
  }
  r
}

fn describe(r: &J) -> String {
  let lit = |j: &J| dec_value(j).to_string();
  match r["kind"].as_str().unwrap_or("") {
    "month" => format!("year {} month {}: num {} lit {}", r["y"], r["m"], r["num"], r["lit"]),
    "ctor" => format!("{} -> {}", r["text"].as_str().unwrap_or(""), lit(&r["v"])),
    "dpair" => format!("a = {}, b = {}: {}", lit(&r["a"]), lit(&r["b"]), r["o"]),
    "dtpair" => format!("a = {}, b = {}: {} a - b = {}", lit(&r["a"]), lit(&r["b"]), r["o"], lit(&r["sub"])),
    "dtprops" => format!("a = {}: {}", lit(&r["a"]), r["p"].as_object().map(|o| o.iter().map(|(k, v)| format!("{}={}", k, if k == "timezone" { v.to_string() } else { lit(v) })).collect::<Vec<_>>().join(" ")).unwrap_or_default()),
    "ymb" => format!("years and months duration({}, {}) -> {}", lit(&r["a"]), lit(&r["b"]), lit(&r["v"])),
    "durpair" => format!(
      "a = {}, b = {}: {} a + b = {} -a = {} components {}",
      lit(&r["a"]),
      lit(&r["b"]),
      r["o"],
      lit(&r["add"]),
      lit(&r["neg"]),
      r["c"].as_object().map(|o| o.iter().map(|(k, v)| format!("{}={}", k, lit(v))).collect::<Vec<_>>().join(" ")).unwrap_or_default()
    ),
    _ => String::new(),
  }
}

pub fn check(mut ctx: Ctx, replay: Option<J>) -> ! {
  std::env::set_var("TZ", "UTC");
  let tlc = Tlc::new(&ctx.verif, "C15");
  let quick = ctx.quick();
  // the calendar formulas of the specification against a day-by-day walk (TLC model check)
  if replay.is_none() {
    let mc = tlc.run(Run::new("MC_Calendar", "MC_Calendar.cfg").timeout(1200).workers(4));
    if !mc.ok {
      tool_error(&format!("MC_Calendar failed: {}", mc.error_text));
    }
    ctx.cov("calendar_walk_states", json!(mc.distinct));
  }
  let mut recs = vec![];
  if let Some(r) = &replay {
    recs.push(run_case(&r["case"]["record"]));
  } else {
    let gen = tlc.run(Run::new("Gen_C15", if quick { "Gen_C15.cfg" } else { "Gen_C15_thorough.cfg" }).timeout(1800));
    if !gen.ok {
      tool_error(&format!("Gen_C15 failed: {}", gen.error_text));
    }
    let cases = gen.tagged("CASE");
    if cases.len() < 10000 {
      tool_error("too few calendar cases");
    }
    let n = cases.len();
    let chunks: Vec<&[J]> = cases.chunks((n + 11) / 12).collect();
    let parts: Vec<Vec<J>> = std::thread::scope(|s| {
      let hs: Vec<_> = chunks.iter().map(|ch| s.spawn(move || ch.iter().map(run_case).collect::<Vec<J>>())).collect();
      hs.into_iter().map(|h| h.join().unwrap_or_default()).collect()
    });
    for p in parts {
      recs.extend(p);
    }
    // self-test: a wrong weekday and a wrong difference must be rejected
    let mut bad = vec![];
    if let Some(m) = recs.iter().find(|r| r["kind"] == "month" && r["y"] == 2021 && r["m"] == 3) {
      let mut m = m.clone();
      m["num"][10][3] = json!(((m["num"][10][3].as_i64().unwrap_or(1)) % 7) + 1);
      bad.push(m);
    }
    if let Some(p) = recs.iter().find(|r| r["kind"] == "dtpair" && r["sub"]["k"] == "dtd" && r["a"]["time"]["zk"] == "zone" && r["a"]["time"]["zn"] == "Europe/Paris" && r["a"]["time"]["h"] == 4) {
      let mut p = p.clone();
      p["sub"]["ns"] = json!(1);
      bad.push(p);
    }
    let out = tlc.judge("Trace_C15", "Trace_C15.cfg", &bad, 1, 300, &[]);
    if !out.ok || out.rejects.len() != 2 {
      tool_error(&format!("self-test failed: corrupted records were accepted ({} of 2 rejected) {}", out.rejects.len(), out.error_text));
    }
  }
  let out = tlc.judge("Trace_C15", "Trace_C15.cfg", &recs, 12, 3000, &[]);
  if !out.ok {
    tool_error(&format!("Trace_C15 failed: {}", out.error_text));
  }
  let unspec = out.counters("UNSPEC").len() as u64;
  for (i, why) in &out.rejects {
    let r = &recs[*i];
    let sig = format!("{}:{}", r["kind"].as_str().unwrap_or(""), why.split_whitespace().collect::<Vec<_>>().join("-"));
    ctx.reject(&[sig], json!({"record": r}), &format!("{} : {}", why, describe(r)));
  }
  let n = recs.len() as u64;
  for k in ["month", "ctor", "dpair", "dtpair", "dtprops", "ymb", "durpair"] {
    ctx.cov(&format!("cases_{}", k), json!(recs.iter().filter(|r| r["kind"] == k).count()));
  }
  ctx.cov("evaluations", json!(n));
  ctx.cov("distinct_nontrivial", json!(n - unspec));
  ctx.cov("unspecified_cases_accepted", json!(unspec));
  ctx.cov("rule", json!("one case = one TLC-enumerated datum of Gen_C15 (a year-month with all days 0..32; a numeric date construction; a pair of dates, date-and-times or durations; a date-and-time for its properties; a date pair for whole months) evaluated by the real evaluator over values bound in the scope; month cases count 33 x 2 constructions each"));
  ctx.sample(json!({"kind": recs[recs.len() / 2]["kind"], "a": recs[recs.len() / 2]["a"]}));
  ctx.assume("zone rules of Calendar.tla (EU / US / southern Australia, fixed zones) hold for 2008..2037 in the zone database linked into the implementation");
  ctx.assume("values are bound in the scope through codec::dec_value (FeelDate::new, FeelTime::offset, ...), not parsed from text");
  ctx.finish()
}
