//! C13 — evaluation is pure: the caller's context is untouched and results are repeatable.

use crate::drive::c01::text_of;
use crate::tlc::{Run, Tlc};
use crate::util::{tool_error, Ctx};
use dmntk_feel::context::FeelContext;
use dmntk_feel::values::Value;
use dmntk_feel::{scope_verif, Evaluator, Scope};
use serde_json::{json, Value as J};

const PREPARED: &[&str] = &[
  "{a: x, b: a + 1, c: [a, b]}",
  "xs[item > x]",
  "for i in xs, j in [1, 2] return i * j + x",
  "some i in xs satisfies i = x",
  "{f: function(u) u + x, r: f(2)}.r",
  "every i in xs satisfies ({k: i}.k) >= 1",
  "[{item: 1, qty: 5}, {item: 3, qty: 1}, {qty: 2}][item >= x]",
  "{g: function() x + 1, r: g()}.r",
  // deep recursion (a guard against runaway recursion, a depth counter, a cache of frames must leave nothing behind)
  "{d: function(n) if n <= 0 then x else d(n - 1), r: d(300)}.r",
  "{d: function(n) if n <= 0 then x else d(n - 1), r: d(1100)}.r",
];

const MODEL: &str = include_str!("../../data/c13_model.dmn");
const INVOCABLES: &[&str] = &["boxed", "table", "top", "inc", "lim", "fallback"];
const INPUTS: &[&str] = &[r#"{n: 2, s: "a", v: 5}"#, r#"{n: 0, s: "z", v: 1}"#, r#"{n: null, s: "b"}"#];

fn mk_scope(text_bottom: &str, text_top: &str) -> Scope {
  let e = Scope::default();
  let bottom = dmntk_feel_evaluator::evaluate_context(&e, text_bottom).unwrap_or_else(|e| tool_error(&format!("{}", e)));
  let top = dmntk_feel_evaluator::evaluate_context(&e, text_top).unwrap_or_else(|e| tool_error(&format!("{}", e)));
  let s: Scope = bottom.into();
  s.push(top);
  s
}

struct Stack {
  pushes: usize,
  pops: usize,
  popempty: usize,
}

fn with_events<T>(f: impl FnOnce() -> T) -> (T, Stack) {
  scope_verif::start();
  crate::util::QUIET.with(|q| q.set(true));
  let r = std::panic::catch_unwind(std::panic::AssertUnwindSafe(f));
  crate::util::QUIET.with(|q| q.set(false));
  let ev = scope_verif::take();
  let st = Stack { pushes: ev.iter().filter(|e| e.0 == "push").count(), pops: ev.iter().filter(|e| e.0 == "pop").count(), popempty: ev.iter().filter(|e| e.0 == "pop-empty").count() };
  match r {
    Ok(v) => (v, st),
    Err(_) => tool_error("panic inside an evaluation of the C13 driver (C05 owns panics; fix the driver input)"),
  }
}

fn depth(scope: &Scope) -> usize {
  scope.to_string().matches('{').count() // coarse; only compared before/after
}

pub fn check(mut ctx: Ctx, _replay: Option<J>) -> ! {
  let tlc = Tlc::new(&ctx.verif, "C13");
  let quick = ctx.quick();
  let mut recs: Vec<J> = vec![];
  // ---- FEEL: prepared evaluators x caller scopes, every history
  let scopes = [mk_scope("{base: 10}", "{x: 1, xs: [1, 2, 3]}"), mk_scope("{base: 20, item: 7}", "{x: 2, xs: [2, 0]}")];
  let prepared: Vec<Evaluator> = PREPARED
    .iter()
    .map(|t| {
      let before = scopes[0].to_string();
      let node = dmntk_feel_parser::parse_expression(&scopes[0], t, false).unwrap_or_else(|e| tool_error(&format!("cannot parse {}: {}", t, e)));
      recs.push(json!({"ev": "parse", "text": t, "same": before == scopes[0].to_string()}));
      dmntk_feel_evaluator::prepare(&node).unwrap_or_else(|e| tool_error(&format!("{}", e)))
    })
    .collect();
  let gen = tlc.run(Run::new("Purity", if quick { "Gen_C13.cfg" } else { "Gen_C13Deep.cfg" }).timeout(1200));
  if !gen.ok {
    tool_error(&format!("Purity generation failed: {}", gen.error_text));
  }
  let histories = gen.tagged("HISTORY");
  if histories.len() < 1000 {
    tool_error("too few histories");
  }
  recs.push(json!({"ev": "init", "scopes": scopes.iter().map(|s| s.to_string()).collect::<Vec<_>>()}));
  // every (expression, scope) evaluated alone: parsed and prepared afresh, on a fresh copy of the scope
  let fresh_scopes = || [mk_scope("{base: 10}", "{x: 1, xs: [1, 2, 3]}"), mk_scope("{base: 20, item: 7}", "{x: 2, xs: [2, 0]}")];
  for (e, t) in PREPARED.iter().enumerate() {
    for s in 0..scopes.len() {
      let fs = fresh_scopes();
      let node = dmntk_feel_parser::parse_expression(&fs[0], t, false).unwrap_or_else(|e| tool_error(&format!("cannot parse {}: {}", t, e)));
      let ev = dmntk_feel_evaluator::prepare(&node).unwrap_or_else(|e| tool_error(&format!("{}", e)));
      let (v, _) = with_events(|| ev(&fs[s]));
      recs.push(json!({"ev": "ref", "e": e + 1, "s": s + 1, "res": v.to_string()}));
    }
  }
  let mut evals = 0u64;
  for h in &histories {
    for step in h.as_array().cloned().unwrap_or_default() {
      let (e, s) = (step[0].as_u64().unwrap() as usize, step[1].as_u64().unwrap() as usize);
      let d0 = depth(&scopes[s - 1]);
      let (v, st) = with_events(|| prepared[e - 1](&scopes[s - 1]));
      evals += 1;
      recs.push(json!({"ev": "eval", "e": e, "s": s, "res": v.to_string(), "scopes": scopes.iter().map(|s| s.to_string()).collect::<Vec<_>>(),
        "pushes": st.pushes, "pops": st.pops, "popempty": st.popempty, "depth0": d0, "depth1": depth(&scopes[s - 1])}));
    }
  }
  ctx.cov("feel_histories", json!(histories.len()));
  // ---- a model: invocables x input contexts, every history
  let defs = dmntk_model::parse(MODEL).unwrap_or_else(|e| tool_error(&format!("model: {}", e)));
  let me = dmntk_model_evaluator::ModelEvaluator::new(&defs).unwrap_or_else(|e| tool_error(&format!("model evaluator: {}", e)));
  let inputs: Vec<FeelContext> = INPUTS.iter().map(|t| dmntk_feel_evaluator::evaluate_context(&Scope::default(), t).unwrap_or_else(|e| tool_error(&format!("{}", e)))).collect();
  let genm = tlc.run(Run::new("Purity", "Gen_C13m.cfg").timeout(1200).tag("_m"));
  if !genm.ok {
    tool_error(&format!("Purity generation (model) failed: {}", genm.error_text));
  }
  let mh = genm.tagged("HISTORY");
  recs.push(json!({"ev": "init", "scopes": inputs.iter().map(|c| c.to_string()).collect::<Vec<_>>()}));
  // every (invocable, input) evaluated alone, by a model evaluator built for this one call
  for e in 0..INVOCABLES.len() {
    for s in 0..INPUTS.len() {
      let fresh = dmntk_model_evaluator::ModelEvaluator::new(&defs).unwrap_or_else(|e| tool_error(&format!("model evaluator: {}", e)));
      let input = dmntk_feel_evaluator::evaluate_context(&Scope::default(), INPUTS[s]).unwrap_or_else(|e| tool_error(&format!("{}", e)));
      let (v, _) = with_events(|| fresh.evaluate_invocable(INVOCABLES[e], &input));
      recs.push(json!({"ev": "ref", "e": e + 101, "s": s + 101, "res": v.to_string()}));
    }
  }
  for h in &mh {
    for step in h.as_array().cloned().unwrap_or_default() {
      let (e, s) = (step[0].as_u64().unwrap() as usize, step[1].as_u64().unwrap() as usize);
      let (v, st) = with_events(|| me.evaluate_invocable(INVOCABLES[e - 1], &inputs[s - 1]));
      evals += 1;
      // offsets keep the model's (e, s) keys apart from the FEEL ones
      recs.push(json!({"ev": "eval", "e": e + 100, "s": s + 100, "res": v.to_string(), "scopes": inputs.iter().map(|c| c.to_string()).collect::<Vec<_>>(),
        "pushes": st.pushes, "pops": st.pops, "popempty": st.popempty, "depth0": 0, "depth1": 0}));
    }
  }
  ctx.cov("model_histories", json!(mh.len()));
  // ---- every expression of the C01 fragment once (twice, for repeatability) in a two-context scope
  let g1 = tlc.run(Run::new("Gen_C01", if quick { "Gen_C01.cfg" } else { "Gen_C01Deep.cfg" }).timeout(3000).tag("_c13"));
  if !g1.ok {
    tool_error(&format!("Gen_C01 failed: {}", g1.error_text));
  }
  let exprs = g1.tagged("EXPR");
  let sc = g1.tagged("SCOPES").pop().and_then(|s| s.as_array().cloned()).unwrap_or_default();
  let mut singles = 0u64;
  for (k, e) in exprs.iter().enumerate() {
    let scope_j = &sc[k % sc.len()];
    let cx = crate::codec::dec_context(scope_j);
    let scope = mk_scope("{base: 1}", "{}");
    scope.push(cx);
    let text = text_of(&e["full"]);
    let before = scope.to_string();
    let parsed = dmntk_feel_parser::parse_expression(&scope, &text, false);
    let after_parse = scope.to_string();
    let Ok(node) = parsed else { continue };
    recs.push(json!({"ev": "parse", "text": text, "same": before == after_parse}));
    let Ok(ev) = dmntk_feel_evaluator::prepare(&node) else { continue };
    let (r1, st) = with_events(|| ev(&scope));
    let mid = scope.to_string();
    let (r2, _) = with_events(|| ev(&scope));
    singles += 1;
    recs.push(json!({"ev": "single", "text": text, "before": before, "after": if mid == scope.to_string() { mid } else { "changed on the second evaluation".to_string() },
      "res": r1.to_string(), "res2": r2.to_string(), "pushes": st.pushes, "pops": st.pops, "popempty": st.popempty}));
    let _ = Value::Null(None);
  }
  ctx.cov("single_expressions", json!(singles));
  // ---- anti-vacuity: an event whose scope rendering differs must be rejected
  {
    let mut bad = vec![recs.iter().find(|r| r["ev"] == "init").unwrap().clone()];
    let mut e = recs.iter().find(|r| r["ev"] == "eval").unwrap().clone();
    e["scopes"][0] = json!("[{base: 10}, {x: 1, xs: [1, 2, 3], leaked: 1}]");
    bad.push(e);
    let f = tlc.write_ndjson("trace_corrupt.ndjson", &bad);
    let out = tlc.run(Run::new("Trace_C13", "Trace_C13.cfg").env("TRACE", &f.to_string_lossy()).deque().timeout(300).tag("_corrupt"));
    if !out.ok || out.rejects().is_empty() {
      tool_error("self-test failed: a trace with a modified caller scope was accepted");
    }
  }
  let f = tlc.write_ndjson("trace.ndjson", &recs);
  let out = tlc.run(Run::new("Trace_C13", "Trace_C13.cfg").env("TRACE", &f.to_string_lossy()).deque().timeout(3000));
  if !out.ok || out.counters("CONSUMED").first().copied() != Some(recs.len() as i64) {
    tool_error(&format!("Trace_C13 failed: {}", out.error_text));
  }
  for (l, why) in out.rejects() {
    let r = &recs[l - 1];
    let what = match r["ev"].as_str().unwrap_or("") {
      "eval" => {
        let e = r["e"].as_u64().unwrap() as usize;
        if e > 100 { format!("invocable {} on input {}", INVOCABLES[e - 101], INPUTS[r["s"].as_u64().unwrap() as usize - 101]) } else { format!("prepared `{}` on scope {}", PREPARED[e - 1], r["s"]) }
      }
      _ => r["text"].as_str().unwrap_or("").to_string(),
    };
    ctx.reject(&[format!("{}:{}", r["ev"].as_str().unwrap_or(""), what.chars().take(40).collect::<String>())], json!({"event": r}), &format!("{} — {}", why, what));
  }
  ctx.cov("states", json!(gen.distinct + genm.distinct));
  ctx.cov("transitions", json!(evals));
  ctx.cov("traces_validated_against_impl", json!(histories.len() + mh.len()));
  ctx.cov("events_validated", json!(recs.len()));
  ctx.cov("exhaustive", json!(true));
  ctx.cov("rule", json!("every history (order, repetition, interleaving) up to the length bound of 6 prepared expressions x 2 two-level scopes and of 6 invocables x 3 input contexts of a shared model evaluator (a decision table with an input-dependent default entry and a parameterless knowledge model with a boxed context among them), every result compared with that of the same call made alone on a freshly built evaluator; plus every expression of the C01 fragment evaluated twice; after every step the rendering of every caller scope, the result and the H3 push/pop counts are validated by Trace_C13"));
  ctx.sample(json!({"history": histories[histories.len() / 2], "prepared": PREPARED}));
  ctx.assume("the textual rendering of a scope shows every context and entry it holds");
  ctx.finish()
}
