//! C19 — a decision table drawn as text is recognised exactly as drawn.
//!
//! Gen_C19.tla enumerates drawing configurations; draw.rs draws each; dmntk_recognizer::build reads
//! it back; the result is projected on Recognizer.tla's shape and Trace_C19.tla compares it with
//! what the configuration denotes. The recognised table and the equivalent DMN XML table are both
//! evaluated on a few input tuples. Every single-character corruption (over a box-drawing alphabet)
//! of a subset of the drawings is recognised in a child process: table or error, never a crash.

use crate::child::{guarded, run_in_children_with};
use crate::draw::draw_table;
use crate::tlc::{Run, Tlc};
use crate::util::{tool_error, Ctx};
use crate::xml::esc;
use dmntk_feel::context::FeelContext;
use dmntk_feel::values::Value;
use dmntk_feel::{FeelNumber, Name, Scope};
use dmntk_model::model::{BuiltinAggregator, DecisionTable, DecisionTableOrientation, HitPolicy};
use serde_json::{json, Value as J};
use std::time::Duration;

const ALPHABET: [char; 27] = [' ', '│', '─', '┼', '║', '═', '╬', '╪', '╫', '┴', '├', '╟', 'x', '"', '┌', '┐', '└', '┘', '┤', '┬', '╞', '╡', '╢', '╥', '╨', '╤', '╧'];

fn norm(s: &str) -> String {
  s.split_whitespace().collect::<Vec<_>>().join(" ")
}

fn opt(s: &Option<String>) -> J {
  match s {
    Some(t) => json!({"some": true, "text": norm(t)}),
    None => json!({"some": false, "text": ""}),
  }
}

fn marker(hp: &HitPolicy) -> &'static str {
  match hp {
    HitPolicy::Unique => "U",
    HitPolicy::Any => "A",
    HitPolicy::Priority => "P",
    HitPolicy::First => "F",
    HitPolicy::RuleOrder => "R",
    HitPolicy::OutputOrder => "O",
    HitPolicy::Collect(BuiltinAggregator::List) => "C",
    HitPolicy::Collect(BuiltinAggregator::Sum) => "C+",
    HitPolicy::Collect(BuiltinAggregator::Min) => "C<",
    HitPolicy::Collect(BuiltinAggregator::Max) => "C>",
    HitPolicy::Collect(BuiltinAggregator::Count) => "C#",
  }
}

fn project(t: &DecisionTable) -> J {
  json!({
    "st": "table",
    "orient": match t.preferred_orientation { DecisionTableOrientation::RuleAsRow => "rows", DecisionTableOrientation::RuleAsColumn => "cols", _ => "cross" },
    "info": opt(&t.information_item_name),
    "hp": marker(&t.hit_policy),
    "ins": t.input_clauses.iter().map(|c| json!({"expr": norm(&c.input_expression), "vals": opt(&c.input_values)})).collect::<Vec<_>>(),
    "outs": t.output_clauses.iter().map(|c| json!({"name": opt(&c.name), "vals": opt(&c.output_values)})).collect::<Vec<_>>(),
    "label": opt(&t.output_label),
    "anns": t.annotations.iter().map(|a| norm(&a.name)).collect::<Vec<_>>(),
    "rules": t.rules.iter().map(|r| json!({
      "ins": r.input_entries.iter().map(|e| norm(&e.text)).collect::<Vec<_>>(),
      "outs": r.output_entries.iter().map(|e| norm(&e.text)).collect::<Vec<_>>(),
      "anns": r.annotation_entries.iter().map(|e| norm(&e.text)).collect::<Vec<_>>(),
    })).collect::<Vec<_>>(),
  })
}

/// The configuration in the drawer's shape (label as text or null).
fn drawer_input(t: &J) -> J {
  let mut d = t.clone();
  d["label"] = if t["label"]["some"] == true { t["label"]["text"].clone() } else { J::Null };
  d
}

/// The equivalent DMN XML model: one decision `d` holding the table, all inputs numbers.
fn xml_model(t: &J) -> String {
  let (hp, agg) = match t["hp"].as_str().unwrap_or("U") {
    "U" => ("UNIQUE", ""),
    "A" => ("ANY", ""),
    "P" => ("PRIORITY", ""),
    "F" => ("FIRST", ""),
    "R" => ("RULE ORDER", ""),
    "O" => ("OUTPUT ORDER", ""),
    "C" => ("COLLECT", ""),
    "C+" => ("COLLECT", "SUM"),
    "C<" => ("COLLECT", "MIN"),
    "C>" => ("COLLECT", "MAX"),
    _ => ("COLLECT", "COUNT"),
  };
  let vals = t["vals"] == true;
  let mut s = String::from("<?xml version=\"1.0\" encoding=\"UTF-8\"?>\n<definitions xmlns=\"https://www.omg.org/spec/DMN/20191111/MODEL/\" namespace=\"ns\" name=\"m\" id=\"M\">");
  let mut reqs = String::new();
  let ins = t["ins"].as_array().cloned().unwrap_or_default();
  let outs = t["outs"].as_array().cloned().unwrap_or_default();
  for (k, i) in ins.iter().enumerate() {
    let name = esc(i["expr"].as_str().unwrap_or(""));
    s.push_str(&format!("<inputData name=\"{}\" id=\"i{}\"><variable name=\"{}\" typeRef=\"number\"/></inputData>", name, k, name));
    reqs.push_str(&format!("<informationRequirement><requiredInput href=\"#i{}\"/></informationRequirement>", k));
  }
  s.push_str(&format!("<decision name=\"d\" id=\"d\"><variable name=\"d\"/>{}<decisionTable hitPolicy=\"{}\"{}>", reqs, hp, if agg.is_empty() { String::new() } else { format!(" aggregation=\"{}\"", agg) }));
  for i in &ins {
    s.push_str(&format!("<input><inputExpression><text>{}</text></inputExpression>", esc(i["expr"].as_str().unwrap_or(""))));
    if vals {
      s.push_str(&format!("<inputValues><text>{}</text></inputValues>", esc(i["vals"].as_str().unwrap_or(""))));
    }
    s.push_str("</input>");
  }
  for o in &outs {
    s.push_str(&if outs.len() > 1 { format!("<output name=\"{}\">", esc(o["name"].as_str().unwrap_or(""))) } else { "<output>".to_string() });
    if vals {
      s.push_str(&format!("<outputValues><text>{}</text></outputValues>", esc(o["vals"].as_str().unwrap_or(""))));
    }
    s.push_str("</output>");
  }
  for r in t["rules"].as_array().cloned().unwrap_or_default() {
    s.push_str("<rule>");
    for e in r["ins"].as_array().cloned().unwrap_or_default() {
      s.push_str(&format!("<inputEntry><text>{}</text></inputEntry>", esc(e.as_str().unwrap_or(""))));
    }
    for e in r["outs"].as_array().cloned().unwrap_or_default() {
      s.push_str(&format!("<outputEntry><text>{}</text></outputEntry>", esc(e.as_str().unwrap_or(""))));
    }
    s.push_str("</rule>");
  }
  s.push_str("</decisionTable></decision></definitions>");
  s
}

const TUPLES: [[i64; 5]; 5] = [[3, 3, 3, 3, 3], [7, 7, 7, 7, 7], [12, 12, 12, 12, 12], [3, 12, 7, 60, 9], [60, 5, 11, 7, 14]];

pub fn run_case(t: &J) -> J {
  let text = draw_table(&drawer_input(t));
  let built = guarded(|| dmntk_recognizer::build(&text));
  let (got, table) = match built {
    Err(msg) => (json!({"st": "panic", "msg": msg}), None),
    Ok(Err(e)) => (json!({"st": "error", "msg": e.to_string()}), None),
    Ok(Ok(dt)) => (project(&dt), Some(dt)),
  };
  let mut evals = vec![];
  if let Some(dt) = table {
    let names: Vec<String> = t["ins"].as_array().map(|a| a.iter().map(|i| i["expr"].as_str().unwrap_or("").to_string()).collect()).unwrap_or_default();
    let me = dmntk_model::parse(&xml_model(t)).ok().and_then(|d| dmntk_model_evaluator::ModelEvaluator::new(&d).ok());
    for tuple in TUPLES {
      let mut ctx = FeelContext::default();
      for (k, n) in names.iter().enumerate() {
        ctx.set_entry(&Name::from(n.split(' ').map(|s| s.to_string()).collect::<Vec<_>>()), Value::Number(FeelNumber::from(tuple[k])));
      }
      let scope: Scope = ctx.clone().into();
      let drawn = guarded(|| match dmntk_model_evaluator::build_decision_table_evaluator(&scope, &dt) {
        Ok(ev) => ev(&scope).to_string(),
        Err(e) => format!("build error: {}", e),
      })
      .unwrap_or_else(|m| format!("panic: {}", m));
      let xml = match &me {
        Some(me) => guarded(|| me.evaluate_invocable("d", &ctx).to_string()).unwrap_or_else(|m| format!("panic: {}", m)),
        None => "the XML model did not build".to_string(),
      };
      // null values carry an explanatory text that differs between the two paths: compare them as null
      let blur = |s: String| if s.starts_with("null") { "null".to_string() } else { s };
      evals.push(json!({"drawn": blur(drawn), "xml": blur(xml)}));
    }
  }
  json!({"kind": "layout", "t": t, "got": got, "evals": evals, "text": text})
}

/// Child side: recognise one corrupted drawing.
pub fn child_case(c: &J) -> J {
  let text = c["text"].as_str().unwrap_or("");
  match guarded(|| dmntk_recognizer::build(text)) {
    Ok(Ok(_)) => json!({"outcome": "table"}),
    Ok(Err(_)) => json!({"outcome": "error"}),
    Err(msg) => json!({"outcome": "panic", "msg": msg}),
  }
}

fn corrupt(text: &str, i: usize, a: char) -> String {
  text.chars().enumerate().map(|(k, c)| if k + 1 == i { a } else { c }).collect()
}

pub fn check(mut ctx: Ctx, replay: Option<J>) -> ! {
  let tlc = Tlc::new(&ctx.verif, "C19");
  let quick = ctx.quick();
  let mut recs: Vec<J> = vec![];
  if let Some(r) = &replay {
    let c = &r["case"]["record"];
    if c["kind"] == "corrupt" {
      let text = corrupt(c["base"].as_str().unwrap_or(""), c["op"]["i"].as_u64().unwrap_or(1) as usize, c["op"]["a"].as_str().and_then(|s| s.chars().next()).unwrap_or(' '));
      let res = crate::child::run_in_children("c19", &tlc.work_dir, &[json!({"text": text})], 1, Duration::from_secs(30));
      let mut rec = c.clone();
      rec["death"] = json!(res[0]["death"].as_str().unwrap_or(""));
      rec["outcome"] = json!(res[0]["outcome"].as_str().unwrap_or("error"));
      recs.push(rec);
    } else {
      recs.push(run_case(&c["t"]));
    }
  } else {
    let gen = tlc.run(Run::new("Gen_C19", if quick { "Gen_C19.cfg" } else { "Gen_C19_deep.cfg" }).timeout(1800));
    if !gen.ok {
      tool_error(&format!("Gen_C19 failed: {}", gen.error_text));
    }
    let cases = gen.tagged("CASE");
    if cases.len() < 1500 {
      tool_error("too few drawing configurations");
    }
    let chunks: Vec<&[J]> = cases.chunks((cases.len() + 11) / 12).collect();
    let parts: Vec<Vec<J>> = std::thread::scope(|s| {
      let hs: Vec<_> = chunks.iter().map(|ch| s.spawn(move || ch.iter().map(run_case).collect::<Vec<J>>())).collect();
      hs.into_iter().map(|h| h.join().unwrap_or_default()).collect()
    });
    for p in parts {
      recs.extend(p);
    }
    ctx.cov("drawings", json!(recs.len()));
    // single-character corruptions of a spread of the drawings
    let n_base = if quick { 12 } else { 60 };
    let step = (recs.len() / n_base).max(1);
    let bases: Vec<String> = recs.iter().step_by(step).take(n_base).map(|r| r["text"].as_str().unwrap_or("").to_string()).collect();
    let mut corr: Vec<(usize, usize, char)> = vec![];
    for (b, text) in bases.iter().enumerate() {
      for (k, ch) in text.chars().enumerate() {
        if ch == '\n' {
          continue;
        }
        for a in ALPHABET {
          if a != ch {
            corr.push((b, k + 1, a));
          }
        }
      }
    }
    let results = {
      let (corr, bases) = (&corr, &bases);
      run_in_children_with("c19", &tlc.work_dir, corr.len(), 14, Duration::from_secs(90), &|i| {
        let (b, k, a) = corr[i];
        json!({"text": corrupt(&bases[b], k, a)})
      })
    };
    for ((b, k, a), res) in corr.iter().zip(results.iter()) {
      recs.push(json!({"kind": "corrupt", "b": b, "len": bases[*b].chars().count(), "op": {"f": "rep", "i": k, "a": a.to_string()},
        "death": res["death"].as_str().unwrap_or(""), "outcome": res["outcome"].as_str().unwrap_or("error"), "msg": res["msg"]}));
    }
    ctx.cov("corruptions", json!(corr.len()));
    ctx.cov("corrupted_drawings", json!(bases.len()));
    // self-test: a swapped entry and a crashed corruption must be rejected
    let mut a = recs[0].clone();
    if a["got"]["rules"][0]["ins"][0].is_string() {
      a["got"]["rules"][0]["ins"][0] = json!("changed");
    } else {
      a["got"]["st"] = json!("error");
    }
    let mut b = recs[recs.len() - 1].clone();
    b["outcome"] = json!("panic");
    let slim = |r: &J| {
      let mut o = r.clone();
      if let Some(m) = o.as_object_mut() {
        m.remove("text");
        m.remove("msg");
      }
      o
    };
    let out = tlc.judge("Trace_C19", "Trace_C19.cfg", &[slim(&a), slim(&b)], 1, 300, &[]);
    if !out.ok || out.rejects.len() != 2 {
      tool_error(&format!("self-test failed: {} of 2 corrupted records rejected {}", out.rejects.len(), out.error_text));
    }
    // keep the base texts for replay files
    for r in recs.iter_mut() {
      if r["kind"] == "corrupt" {
        let b = r["b"].as_u64().unwrap_or(0) as usize;
        r["base"] = json!(bases[b]);
      }
    }
  }
  let slim: Vec<J> = recs
    .iter()
    .map(|r| {
      let mut o = r.clone();
      if let Some(m) = o.as_object_mut() {
        m.remove("text");
        m.remove("base");
        m.remove("msg");
      }
      o
    })
    .collect();
  let out = tlc.judge("Trace_C19", "Trace_C19.cfg", &slim, 14, 3000, &[]);
  if !out.ok {
    tool_error(&format!("Trace_C19 failed: {}", out.error_text));
  }
  for (i, why) in &out.rejects {
    if why.starts_with("HARNESS") {
      tool_error(why);
    }
    let r = &recs[*i];
    if r["kind"] == "corrupt" {
      let msg = r["msg"].as_str().unwrap_or("");
      let loc = msg.rsplit_once(" at ").map(|(_, l)| l.trim_start_matches("/repo/").rsplit_once(':').map(|(f, _)| f.to_string()).unwrap_or_default()).unwrap_or_default();
      let sig = format!("corrupt:{}:{}", if r["death"] != "" { r["death"].as_str().unwrap_or("") } else { "panic" }, loc);
      ctx.reject(&[sig], json!({"record": r}), &format!("{} : character {} of drawing {} replaced by `{}` : {}", why, r["op"]["i"], r["b"], r["op"]["a"].as_str().unwrap_or(""), msg));
    } else {
      let t = &r["t"];
      let shape = format!(
        "{}:info-{}:vals-{}:label-{}:outs-{}:anns-{}",
        t["orient"].as_str().unwrap_or(""),
        if t["info"] == "" { "no".to_string() } else { t["infow"].as_str().unwrap_or("").to_string() },
        t["vals"],
        t["label"]["some"],
        t["outs"].as_array().map_or(0, |a| a.len()).min(2),
        t["anns"].as_array().map_or(0, |a| a.len()).min(1)
      );
      let sig = format!("layout:{}:{}", why.split_whitespace().collect::<Vec<_>>().join("-"), shape);
      ctx.reject(&[sig], json!({"record": {"kind": "layout", "t": t}}), &format!("{} [{}] hp {} style {} : {}\n{}", why, shape, t["hp"], t["style"], r["got"]["msg"].as_str().unwrap_or(""), r["text"].as_str().unwrap_or("")));
    }
  }
  let n = recs.len() as u64;
  ctx.cov("evaluations", json!(n));
  ctx.cov("distinct_nontrivial", json!(n));
  ctx.cov("rule", json!("one case = one drawing configuration enumerated by TLC (orientation x name box x allowed values x output label x 1..3 outputs x 0..2 annotations x cell style x sizes up to 5 inputs and 8 rules, and all 11 hit policy markers), drawn, recognised and compared field by field, then evaluated on 5 input tuples against the equivalent XML table; or one single-character corruption (27-character alphabet, every position) of a spread of the drawings"));
  ctx.sample(json!({"t": recs[0]["t"]}));
  ctx.assume("the drawer (harness/src/draw.rs) draws what the configuration says; it is modelled on the repository's gallery and its output is checked only through the recogniser");
  ctx.assume("texts are compared after white-space normalisation (cells are padded and may be wrapped)");
  ctx.finish()
}
