//! C05 — FEEL parsing and evaluation are total: a result or an error, never a crash.
//!
//! Documents come from three sources:
//!   tlc   Gen_C05.tla: renderings of the tree pool, every single fault of the seed documents
//!         (Faults.tla), string-escape combinations, built-in calls over extreme arguments,
//!         hand-picked extremes, nesting up to 200;
//!   mut   every string literal found in the repository's own test sources, mutated here by a
//!         seeded random fault script of the same fault model (logged, re-derived by TLC);
//!   rand  arbitrary Unicode.
//! Every document goes through all eight parser entry points under three parsing scopes and,
//! where a tree comes back, through the evaluator — in child processes (8 MiB stacks, wall-clock
//! limit), so that aborts and stack overflows are seen. Trace_C05.tla judges the outcome classes.

use crate::child::{guarded, run_in_children};
use crate::codec::cps;
use crate::tlc::{Run, Tlc};
use crate::util::{tool_error, Ctx, Rng};
use dmntk_feel::values::{Value, Values};
use dmntk_feel::{FeelNumber, Name, Scope};
use serde_json::{json, Value as J};
use std::time::Duration;

const ENTRIES: [&str; 8] = ["expr", "texpr", "texprs", "utests", "name", "lname", "boxed", "ctx"];

fn num(n: i64) -> Value {
  Value::Number(FeelNumber::from(n))
}

fn scopes() -> Vec<Scope> {
  let s0 = Scope::default();
  let s1 = Scope::default();
  s1.set_entry(&Name::from("a"), num(1));
  s1.set_entry(&Name::from("b"), num(2));
  s1.set_entry(&Name::from("c"), num(3));
  s1.set_entry(&Name::from("q"), num(4));
  s1.set_entry(&Name::from("x"), Value::List(Values::new(vec![num(1), num(2), num(3)])));
  s1.set_entry(&Name::from("f"), Value::Null(None));
  s1.set_entry(&Name::from("biglist"), Value::List(Values::new((0..3000).map(|i| num(i % 7)).collect())));
  s1.set_entry(&Name::from("bigtext"), Value::String("ab\u{1F600}".repeat(3000)));
  let s2 = Scope::default();
  let ctx = |k: &str, v: Value| {
    let mut c = dmntk_feel::context::FeelContext::default();
    c.set_entry(&Name::from(k), v);
    Value::Context(c)
  };
  s2.set_entry(&Name::from("a"), Value::String("s".into()));
  s2.set_entry(&Name::from("b"), Value::Null(None));
  s2.set_entry(&Name::from("c"), Value::List(Values::new(vec![ctx("q", num(1)), ctx("q", Value::Null(None))])));
  s2.set_entry(&Name::from("x"), ctx("q", ctx("q", ctx("q", num(1)))));
  s2.set_entry(&Name::from(vec!["a".to_string(), "b".to_string()]), num(1));
  s2.set_entry(&Name::from("a+b"), num(2));
  s2.set_entry(&Name::from("biglist"), Value::List(Values::new(vec![])));
  s2.set_entry(&Name::from("bigtext"), Value::String(String::new()));
  vec![s0, s1, s2]
}

/// Child side: all calls on one document.
pub fn child_case(c: &J) -> J {
  let text = c["text"].as_str().unwrap_or("").to_string();
  let mut p = vec![];
  let mut ev = vec![];
  let mut panics = vec![];
  for (si, scope) in scopes().iter().enumerate() {
    for entry in ENTRIES {
      let parsed = guarded(|| match entry {
        "expr" => dmntk_feel_parser::parse_expression(scope, &text, false).map(Some),
        "texpr" => dmntk_feel_parser::parse_textual_expression(scope, &text, false).map(Some),
        "texprs" => dmntk_feel_parser::parse_textual_expressions(scope, &text, false).map(Some),
        "utests" => dmntk_feel_parser::parse_unary_tests(scope, &text, false).map(Some),
        "name" => dmntk_feel_parser::parse_name(scope, &text, false).map(|_| None),
        "lname" => dmntk_feel_parser::parse_longest_name(&text).map(|_| None),
        "boxed" => dmntk_feel_parser::parse_boxed_expression(scope, &text, false).map(Some),
        _ => dmntk_feel_parser::parse_context(scope, &text, false).map(Some),
      });
      match parsed {
        Err(msg) => {
          p.push("panic");
          panics.push(json!({"stage": "parse", "entry": entry, "scope": si, "msg": msg}));
          ev.push("none");
        }
        Ok(Err(_)) => {
          p.push("error");
          ev.push("none");
        }
        Ok(Ok(None)) => {
          p.push("tree");
          ev.push("none");
        }
        Ok(Ok(Some(node))) => {
          p.push("tree");
          if entry == "utests" {
            ev.push("none");
          } else {
            match guarded(|| dmntk_feel_evaluator::evaluate(scope, &node)) {
              Ok(_) => ev.push("value"),
              Err(msg) => {
                ev.push("panic");
                panics.push(json!({"stage": "eval", "entry": entry, "scope": si, "msg": msg}));
              }
            }
          }
        }
      }
    }
  }
  json!({"p": p, "ev": ev, "panics": panics})
}

/// Joins tokens of a TLC document into text (the soft-token mark "~" is dropped).
/// The text of one token: the soft mark "~" is dropped, "<U+XXXX>" stands for that character.
fn tok_text(t: &J) -> String {
  let t = t.as_str().unwrap_or("").trim_start_matches('~');
  if let Some(hex) = t.strip_prefix("<U+").and_then(|r| r.strip_suffix('>')) {
    if let Some(c) = u32::from_str_radix(hex, 16).ok().and_then(char::from_u32) {
      return c.to_string();
    }
  }
  t.to_string()
}

fn join(toks: &J) -> String {
  toks.as_array().map(|a| a.iter().map(tok_text).collect::<Vec<_>>().join(" ")).unwrap_or_default()
}

/// String literals of the repository's test sources (plain and raw), unescaped approximately.
fn corpus() -> Vec<String> {
  fn walk(dir: &std::path::Path, out: &mut Vec<std::path::PathBuf>) {
    if let Ok(rd) = std::fs::read_dir(dir) {
      for e in rd.flatten() {
        let p = e.path();
        let name = p.file_name().map(|n| n.to_string_lossy().to_string()).unwrap_or_default();
        if p.is_dir() {
          if name != "target" && !name.starts_with('.') {
            walk(&p, out);
          }
        } else if name.ends_with(".rs") && p.to_string_lossy().contains("test") {
          out.push(p);
        }
      }
    }
  }
  let mut files = vec![];
  walk(std::path::Path::new("/repo"), &mut files);
  files.sort();
  let mut set = std::collections::BTreeSet::new();
  for f in files {
    let src = std::fs::read_to_string(&f).unwrap_or_default();
    let ch: Vec<char> = src.chars().collect();
    let mut i = 0;
    while i < ch.len() {
      if ch[i] == 'r' && i + 1 < ch.len() && (ch[i + 1] == '#' || ch[i + 1] == '"') {
        let mut j = i + 1;
        let mut hashes = 0;
        while j < ch.len() && ch[j] == '#' {
          hashes += 1;
          j += 1;
        }
        if j < ch.len() && ch[j] == '"' {
          let close: String = std::iter::once('"').chain(std::iter::repeat('#').take(hashes)).collect();
          let rest: String = ch[j + 1..].iter().collect();
          if let Some(end) = rest.find(&close) {
            set.insert(rest[..end].to_string());
            i = j + 1 + rest[..end].chars().count() + close.len();
            continue;
          }
        }
        i += 1;
      } else if ch[i] == '"' {
        let mut j = i + 1;
        let mut s = String::new();
        while j < ch.len() && ch[j] != '"' {
          if ch[j] == '\\' && j + 1 < ch.len() {
            match ch[j + 1] {
              'n' => s.push('\n'),
              't' => s.push('\t'),
              '"' => s.push('"'),
              '\\' => s.push('\\'),
              other => {
                s.push('\\');
                s.push(other);
              }
            }
            j += 2;
          } else {
            s.push(ch[j]);
            j += 1;
          }
        }
        set.insert(s);
        i = j + 1;
      } else if ch[i] == '\'' && i + 2 < ch.len() && ch[i + 2] == '\'' {
        i += 3; // a char literal such as '"'
      } else {
        i += 1;
      }
    }
  }
  set.into_iter().filter(|s| !s.is_empty() && s.chars().count() <= 240).collect()
}

const SNIPPETS: [&str; 40] = [
  "(", ")", "[", "]", "{", "}", ",", ":", ".", "..", "-", "+", "*", "**", "/", "=", "<", " in ", " and ", " or ", " not(", " if ", " then ", " else ", " for ", " return ", " some ", " satisfies ",
  " function(", " between ", " instance of ", " null ", "\"", "@\"", "\\", "\\u", "\\uD83D", "\\uDC00", "999999999999999999999999999999999999999", "\u{1F600}",
];

fn op_json(f: &str, i: usize, a: &[u32]) -> J {
  json!({"f": f, "i": i, "a": a, "n": 0, "o": [], "c": []})
}

/// One random fault of Faults.tla on a code-point document (positions are 1-based).
fn random_fault(doc: &mut Vec<u32>, rng: &mut Rng) -> Option<J> {
  let n = doc.len();
  let snippet = |rng: &mut Rng| -> Vec<u32> {
    if rng.chance(1, 5) {
      let c = match rng.below(6) {
        0 => rng.below(0x80) as u32,
        1 => 0x80 + rng.below(0x780) as u32,
        2 => 0x800 + rng.below(0xD000) as u32,
        3 => 0xE000 + rng.below(0x2000) as u32,
        4 => 0x10000 + rng.below(0x100000) as u32,
        _ => *rng.pick(&[0u32, 0x9, 0xA, 0xD, 0xA0, 0x2028, 0xFEFF, 0x202E, 0x10FFFF]),
      };
      vec![c]
    } else {
      cps(rng.pick::<&str>(&SNIPPETS[..]))
    }
  };
  match rng.below(6) {
    0 if n >= 1 => {
      let i = 1 + rng.below(n as u64) as usize;
      doc.remove(i - 1);
      Some(op_json("del", i, &[]))
    }
    1 if n >= 1 => {
      let i = 1 + rng.below(n as u64) as usize;
      let c = doc[i - 1];
      doc.insert(i - 1, c);
      Some(op_json("dup", i, &[]))
    }
    2 if n >= 2 => {
      let i = 1 + rng.below(n as u64 - 1) as usize;
      doc.swap(i - 1, i);
      Some(op_json("swap", i, &[]))
    }
    3 if n >= 1 => {
      let i = 1 + rng.below(n as u64) as usize;
      let a = snippet(rng);
      doc.splice(i - 1..i, a.iter().cloned());
      Some(op_json("rep", i, &a))
    }
    4 => {
      let i = 1 + rng.below(n as u64 + 1) as usize;
      let a = snippet(rng);
      doc.splice(i - 1..i - 1, a.iter().cloned());
      Some(op_json("ins", i, &a))
    }
    5 if n >= 2 => {
      let i = 2 + rng.below(n as u64 - 1) as usize;
      doc.truncate(i - 1);
      Some(op_json("cut", i, &[]))
    }
    _ => None,
  }
}

fn is_iter(text: &str) -> bool {
  ["for", "some", "every", "..", "**", "biglist", "bigtext", "sort", "replace", "matches", "split", "exp", "log", "sqrt"].iter().any(|k| text.contains(k))
}

fn normalise_panic(msg: &str) -> String {
  // "message at /repo/feel/src/x.rs:123" -> "feel/src/x.rs:message" with digits blurred
  let (m, loc) = msg.rsplit_once(" at ").unwrap_or((msg, ""));
  let file = loc.rsplit_once(':').map(|(f, _)| f).unwrap_or(loc);
  let file = file.trim_start_matches("/repo/");
  let file = if let Some(p) = file.find("/registry/src/") { file[p + 14..].splitn(2, '/').nth(1).unwrap_or(file) } else { file };
  let mut text: String = m.chars().map(|c| if c.is_ascii_digit() { '#' } else { c }).collect();
  while text.contains("##") {
    text = text.replace("##", "#");
  }
  let text: String = text.split_whitespace().take(8).collect::<Vec<_>>().join("-");
  format!("panic:{}:{}", file, text)
}

pub fn check(mut ctx: Ctx, replay: Option<J>) -> ! {
  let tlc = Tlc::new(&ctx.verif, "C05");
  let quick = ctx.quick();
  let mut recs: Vec<J> = vec![];
  if let Some(r) = &replay {
    recs.push(r["case"]["record"].clone());
  } else {
    let gen = tlc.run(Run::new("Gen_C05", if quick { "Gen_C05.cfg" } else { "Gen_C05_deep.cfg" }).timeout(3000));
    if !gen.ok {
      tool_error(&format!("Gen_C05 failed: {}", gen.error_text));
    }
    let cases = gen.tagged("CASE");
    if cases.len() < 30000 {
      tool_error("too few documents");
    }
    for c in &cases {
      let text = join(&c["toks"]);
      recs.push(json!({"src": "tlc", "fam": c["fam"], "text": text}));
      // the same tokens glued together (no separating blanks) for the operator-heavy families
      let special_space = c["toks"].as_array().map_or(false, |a| a.iter().any(|t| t.as_str().map_or(false, |t| t.starts_with("<U+"))));
      if c["fam"] == "fault" && (recs.len() % 4 == 0 || special_space) {
        let glued: String = c["toks"].as_array().map(|a| a.iter().map(tok_text).collect::<Vec<_>>().join("")).unwrap_or_default();
        recs.push(json!({"src": "tlc", "fam": "glued", "text": glued}));
      }
    }
    ctx.cov("tlc_documents", json!(recs.len()));
    // the repository's own test strings, mutated by seeded fault scripts
    let seeds = corpus();
    if seeds.len() < 500 {
      tool_error("the test-source corpus is unexpectedly small");
    }
    ctx.cov("corpus_strings", json!(seeds.len()));
    let mut rng = Rng::new(ctx.seed);
    for s in &seeds {
      recs.push(json!({"src": "corpus", "fam": "corpus", "text": s}));
    }
    let n_mut = if quick { 20000 } else { 300000 };
    for _ in 0..n_mut {
      let seed = rng.pick(&seeds).clone();
      let seed_cps = cps(&seed);
      let mut doc = seed_cps.clone();
      let mut ops = vec![];
      for _ in 0..(1 + rng.below(3)) {
        if let Some(op) = random_fault(&mut doc, &mut rng) {
          ops.push(op);
        }
      }
      let text: String = doc.iter().filter_map(|c| char::from_u32(*c)).collect();
      recs.push(json!({"src": "mut", "fam": "mut", "text": text, "seed": seed_cps, "ops": ops, "doc": doc}));
    }
    // arbitrary Unicode
    for _ in 0..(if quick { 3000 } else { 50000 }) {
      let len = rng.below(40) as usize;
      let text: String = (0..len)
        .filter_map(|_| {
          char::from_u32(match rng.below(5) {
            0 => 0x20 + rng.below(0x5F) as u32,
            1 => rng.below(0x20) as u32,
            2 => 0x80 + rng.below(0xD780) as u32,
            3 => 0xE000 + rng.below(0x2000) as u32,
            _ => 0x10000 + rng.below(0x100000) as u32,
          })
        })
        .collect();
      recs.push(json!({"src": "rand", "fam": "rand", "text": text}));
    }
  }
  // run everything in child processes
  // (the documents are dealt to the workers in a seeded shuffled order - the costly families stand together in the list,
  // and a worker that got all of them would keep the others waiting - and the results put back in the order of `recs`)
  let mut perm: Vec<usize> = (0..recs.len()).collect();
  {
    let mut prng = Rng::new(ctx.seed ^ 0x5EED);
    for i in (1..perm.len()).rev() {
      perm.swap(i, prng.below(i as u64 + 1) as usize);
    }
  }
  let inputs: Vec<J> = perm.iter().map(|i| json!({"text": recs[*i]["text"]})).collect();
  let shuffled = run_in_children("c05", &tlc.work_dir, &inputs, 14, Duration::from_secs(90));
  let mut results: Vec<J> = vec![J::Null; recs.len()];
  for (k, i) in perm.iter().enumerate() {
    results[*i] = shuffled[k].clone();
  }
  let mut calls = 0u64;
  // documents given up after the death budget of the child runner was spent are not judged
  let skipped: Vec<bool> = results.iter().map(|r| r["skipped"] == true).collect();
  if skipped.iter().any(|s| *s) {
    ctx.cov("documents_not_run_after_too_many_deaths", json!(skipped.iter().filter(|s| **s).count()));
    let mut k = 0;
    recs.retain(|_| {
      k += 1;
      !skipped[k - 1]
    });
  }
  let results: Vec<J> = results.into_iter().filter(|r| r["skipped"] != true).collect();
  for (r, res) in recs.iter_mut().zip(results.iter()) {
    let text = r["text"].as_str().unwrap_or("").to_string();
    r["iter"] = json!(is_iter(&text));
    if let Some(d) = res["death"].as_str() {
      r["death"] = json!(d);
      r["p"] = json!([]);
      r["ev"] = json!([]);
      r["panics"] = json!([]);
    } else {
      r["death"] = json!("");
      r["p"] = res["p"].clone();
      r["ev"] = res["ev"].clone();
      r["panics"] = res["panics"].clone();
      calls += res["p"].as_array().map(|a| a.len()).unwrap_or(0) as u64 + res["ev"].as_array().map(|a| a.iter().filter(|e| *e != "none").count()).unwrap_or(0) as u64;
    }
  }
  // the same documents against a build WITHOUT arithmetic overflow checks (thorough tier): the property holds
  // "whether or not the build checks arithmetic overflow"
  let mut release_recs: Vec<J> = vec![];
  if replay.is_none() && !quick {
    let harness_dir = ctx.verif.join("harness");
    let st = std::process::Command::new("cargo").args(["build", "--release", "--offline"]).current_dir(&harness_dir).stdout(std::process::Stdio::null()).stderr(std::process::Stdio::null()).status();
    let exe = harness_dir.join("target/release/dmntk-verif");
    if !st.map(|s| s.success()).unwrap_or(false) || !exe.exists() {
      tool_error("the release build of the harness failed");
    }
    std::env::set_var("VERIF_CHILD_EXE", &exe);
    // every TLC document, the corpus, and a fifth of the mutated ones
    let subset: Vec<usize> = (0..recs.len()).filter(|i| recs[*i]["src"] != "mut" || i % 5 == 0).collect();
    let rin: Vec<J> = subset.iter().map(|i| json!({"text": recs[*i]["text"]})).collect();
    let rres = run_in_children("c05", &tlc.work_dir, &rin, 14, Duration::from_secs(90));
    std::env::remove_var("VERIF_CHILD_EXE");
    for (k, i) in subset.iter().enumerate() {
      let res = &rres[k];
      let mut r = json!({"src": "release", "fam": recs[*i]["fam"], "text": recs[*i]["text"], "iter": recs[*i]["iter"]});
      if let Some(d) = res["death"].as_str() {
        r["death"] = json!(d);
        r["p"] = json!([]);
        r["ev"] = json!([]);
        r["panics"] = json!([]);
      } else {
        r["death"] = json!("");
        r["p"] = res["p"].clone();
        r["ev"] = res["ev"].clone();
        r["panics"] = res["panics"].clone();
      }
      release_recs.push(r);
    }
    ctx.cov("documents_release_build", json!(release_recs.len()));
  }
  let n_debug = recs.len();
  recs.extend(release_recs);
  let _ = n_debug;
  if replay.is_none() {
    // self-test: a panic, a death and a wrong fault script must be rejected
    let mut a = recs[0].clone();
    a["p"][0] = json!("panic");
    let mut b = recs[0].clone();
    b["death"] = json!("signal 11");
    let mut bad = vec![a, b];
    if let Some(m) = recs.iter().find(|r| r["src"] == "mut" && r["doc"].as_array().map_or(false, |d| !d.is_empty())) {
      let mut m = m.clone();
      let first = m["doc"][0].as_u64().unwrap_or(0);
      m["doc"][0] = json!(first + 1);
      bad.push(m);
    }
    let out = tlc.judge("Trace_C05", "Trace_C05.cfg", &bad, 1, 300, &[]);
    if !out.ok || out.rejects.len() != bad.len() {
      tool_error(&format!("self-test failed: {} of {} corrupted records rejected {}", out.rejects.len(), bad.len(), out.error_text));
    }
  }
  // TLC needs only the classes (and the fault scripts); texts stay here
  let slim: Vec<J> = recs
    .iter()
    .map(|r| {
      let mut o = json!({"src": r["src"], "death": r["death"], "iter": r["iter"], "p": r["p"], "ev": r["ev"]});
      if r["src"] == "mut" {
        o["seed"] = r["seed"].clone();
        o["ops"] = r["ops"].clone();
        o["doc"] = r["doc"].clone();
      }
      o
    })
    .collect();
  let out = tlc.judge("Trace_C05", "Trace_C05.cfg", &slim, 14, 3000, &[]);
  if !out.ok {
    tool_error(&format!("Trace_C05 failed: {}", out.error_text));
  }
  let unspec = out.counters("UNSPEC").len() as u64;
  for (i, why) in &out.rejects {
    let r = &recs[*i];
    if why.starts_with("HARNESS") {
      tool_error(&format!("{}: {}", why, r["text"]));
    }
    let text = r["text"].as_str().unwrap_or("");
    let shown: String = text.chars().take(160).collect();
    let mut sigs: Vec<String> = r["panics"].as_array().map(|a| a.iter().map(|p| normalise_panic(p["msg"].as_str().unwrap_or(""))).collect()).unwrap_or_default();
    sigs.sort();
    sigs.dedup();
    if r["src"] == "release" {
      sigs = sigs.into_iter().map(|x| format!("release-build:{}", x)).collect();
    }
    if sigs.is_empty() {
      // the shape of the document: its first tokens, digits blurred
      let shape: String = text.split_whitespace().take(7).collect::<Vec<_>>().join("").chars().take(24).map(|c| if c.is_ascii_digit() { '#' } else { c }).collect();
      sigs.push(format!("death:{}:{}", r["death"].as_str().unwrap_or(""), shape));
    }
    let first = r["panics"].get(0).map(|p| format!("{} {} scope {}: {}", p["stage"].as_str().unwrap_or(""), p["entry"].as_str().unwrap_or(""), p["scope"], p["msg"].as_str().unwrap_or(""))).unwrap_or_else(|| r["death"].as_str().unwrap_or("").to_string());
    let mut keep = r.clone();
    if let Some(o) = keep.as_object_mut() {
      o.remove("seed");
      o.remove("ops");
      o.remove("doc");
    }
    keep["src"] = json!("replay");
    // every signature of the case must be a known finding for the case to be one
    let all_known = sigs.clone();
    let _ = all_known;
    ctx.reject(&sigs[..1], json!({"record": keep}), &format!("{} : {} : `{}`", why, first, shown));
  }
  let n = recs.len() as u64;
  ctx.cov("documents", json!(n));
  ctx.cov("evaluations", json!(calls));
  ctx.cov("distinct_nontrivial", json!(n - unspec));
  ctx.cov("timeouts_on_iteration_documents_accepted", json!(unspec));
  for fam in ["tree", "fault", "glued", "fault2", "escape", "bif", "special", "nest", "corpus", "mut", "rand"] {
    let k = recs.iter().filter(|r| r["fam"] == fam).count();
    if k > 0 {
      ctx.cov(&format!("documents_{}", fam), json!(k));
    }
  }
  ctx.cov("rule", json!("one document = one text; every document goes through 8 parser entry points x 3 parsing scopes and the evaluator for every tree (evaluations = calls made); documents: TLC-enumerated (tree pool, every single fault at every position over a 53-token alphabet, escape sequences, 73 built-ins x extreme argument tuples, nesting to 200), the repository's test strings and seeded fault scripts on them (re-derived by TLC from Faults.tla), arbitrary Unicode"));
  ctx.sample(json!({"text": recs[recs.len() / 3]["text"], "fam": recs[recs.len() / 3]["fam"]}));
  ctx.assume("the harness build has overflow checks and debug assertions on (profile dev); the thorough tier runs the TLC documents, the corpus and a fifth of the mutated documents also in a release build of the child (no overflow checks)");
  ctx.assume("a timeout on a document containing iteration, ranges, powers, regex functions or the big operands is accepted as legitimate long-running work");
  ctx.finish()
}
