//! C06 — the parser builds the tree dictated by FEEL precedence and associativity.

use crate::ast::ast_json;
use crate::tlc::{Run, Tlc};
use crate::util::{tool_error, Ctx, Rng};
use dmntk_feel::values::Value;
use dmntk_feel::{Name, Scope};
use serde_json::{json, Value as J};

const BOUND: &[&str] = &["a", "b", "c", "x", "y", "f", "xs", "p", "q", "k1", "k2"];

pub fn parsing_scope() -> Scope {
  let scope = Scope::default();
  for n in BOUND {
    scope.set_entry(&Name::from(*n), Value::Null(None));
  }
  scope
}

thread_local! {
  static WS: std::cell::RefCell<Vec<char>> = std::cell::RefCell::new(vec![]);
  static WS_NEXT: std::cell::Cell<usize> = std::cell::Cell::new(0);
}

/// Token-preserving layouts. Tokens marked "~" (declared names, type tokens) are "soft": kinds 0-2 never put a
/// comment directly after them, kind 3 puts comments only there.
pub fn layout(tokens: &[String], kind: usize, rng: &mut Rng) -> String {
  const COMMENTS: [&str; 7] = [" /* c */ ", " /** x **/ ", " /***/ ", " // c\n", " /* a ** b */ ", "\n/* multi\n line */\n", " /**/ "];
  let mut s = String::new();
  let mut prev_soft = false;
  for (i, t) in tokens.iter().enumerate() {
    if i > 0 {
      match kind {
        0 => s.push(' '),
        1 => s.push_str(["  ", "\t", "\n", " \n\t ", "   "][rng.below(5) as usize]),
        2 => s.push_str(if prev_soft { " " } else { COMMENTS[rng.below(7) as usize] }),
        4 => {
          // every white space character of the grammar (FeelSyntax!WhiteSpace, set by the check), one after the other
          let ws = WS.with(|w| w.borrow().clone());
          let k = WS_NEXT.with(|c| {
            let k = c.get();
            c.set(k + 1);
            k
          });
          s.push(if ws.is_empty() { ' ' } else { ws[k % ws.len()] });
        }
        _ => s.push_str(if prev_soft { COMMENTS[rng.below(7) as usize] } else { " " }),
      }
    }
    prev_soft = t.starts_with('~');
    s.push_str(t.trim_start_matches('~'));
  }
  if kind == 1 {
    s = format!(" \n{}\t ", s);
  }
  s
}

fn parse(_shared: &Scope, text: &str) -> J {
  // every parse gets a parsing scope of its own: a parse that FAILS may leave contexts it pushed behind (only a
  // successful parse restores the scope - that is C13's matter), and such leftovers must not reach the next case
  let scope = parsing_scope();
  let scope = &scope;
  crate::util::QUIET.with(|q| q.set(true));
  let r = std::panic::catch_unwind(std::panic::AssertUnwindSafe(|| dmntk_feel_parser::parse_expression(scope, text, false)));
  crate::util::QUIET.with(|q| q.set(false));
  match r {
    Ok(Ok(node)) => ast_json(&node),
    Ok(Err(_)) => json!({"n": "error"}),
    Err(_) => json!({"n": "panic"}),
  }
}

fn toks(j: &J) -> Vec<String> {
  j.as_array().map(|a| a.iter().map(|t| t.as_str().unwrap_or("").to_string()).collect()).unwrap_or_default()
}

pub fn run_case(scope: &Scope, case: &J, rng: &mut Rng) -> J {
  let mut rec = json!({"tree": case["tree"]});
  let mut texts = vec![];
  for (key, out) in [("full", "pfull"), ("min", "pmin"), ("wrapmin", "pwrapmin"), ("nopar", "pnopar")] {
    if case.get(key).is_none() {
      continue;
    }
    let t = toks(&case[key]);
    let mut parsed = vec![];
    for kind in [0usize, 1, 2, 4] {
      let text = layout(&t, kind, rng);
      parsed.push(parse(scope, &text));
      if kind == 0 {
        texts.push(text);
      }
    }
    rec[out] = json!(parsed);
    if key != "nopar" && t.iter().any(|x| x.starts_with('~')) {
      let text = layout(&t, 3, rng);
      let mut soft = rec.get("psoft").and_then(|v| v.as_array().cloned()).unwrap_or_default();
      soft.push(parse(scope, &text));
      rec["psoft"] = json!(soft);
    }
  }
  rec["texts"] = json!(texts);
  rec
}

/// Replaces the content of every string node by "S" and collects the contents (as code points) in source order.
fn strip_strings(t: &mut J, out: &mut Vec<J>) {
  if t.get("n").and_then(|n| n.as_str()) == Some("str") {
    let cps: Vec<u32> = t["s"].as_str().unwrap_or("").chars().map(|c| c as u32).collect();
    out.push(json!(cps));
    t["s"] = json!("S");
    return;
  }
  match t {
    J::Object(m) => {
      // children in the order they are written: a / b, items
      for k in ["a", "b", "items"] {
        if let Some(v) = m.get_mut(k) {
          strip_strings(v, out);
        }
      }
    }
    J::Array(a) => a.iter_mut().for_each(|v| strip_strings(v, out)),
    _ => {}
  }
}

/// One string-literal case of Gen_C06 (STRLIT): the literal written alone and inside the contexts StringLiteral.tla names.
pub fn run_strlit(case: &J) -> J {
  let lit: String = crate::codec::from_cps(&case["lit"]);
  let other = "\"x//y/*z\"";
  let mut obs = vec![];
  let mut texts = vec![];
  for c in case["ctxs"].as_array().cloned().unwrap_or_default() {
    let text = match c["key"].as_str().unwrap_or("") {
      "alone" => lit.clone(),
      "list" => format!("[ {} , b ]", lit),
      "sum" => format!("{} + a", lit),
      "commented" => format!("{} /* c */ + a // t", lit),
      "two" => format!("[ {} , {} , b ]", lit, other),
      "after" => format!("[ {} , {} , b ]", other, lit),
      k => tool_error(&format!("unknown string literal context {}", k)),
    };
    let mut tree = parse(&Scope::default(), &text);
    let mut strs = vec![];
    strip_strings(&mut tree, &mut strs);
    obs.push(json!({"key": c["key"], "shape": tree, "strs": strs, "wantshape": c["shape"], "wantstrs": c["strs"]}));
    texts.push(text);
  }
  json!({"strlit": case["lit"], "obs": obs, "texts": texts})
}

fn escape_records(quick: bool, rng: &mut Rng) -> Vec<J> {
  let scope = Scope::default();
  let mut cps: Vec<u32> = vec![];
  if quick {
    for c in [0x20u32, 0x21, 0x41, 0x7E, 0x7F, 0x80, 0xFF, 0x100, 0x7FF, 0x800, 0xFFF, 0x1000, 0xD7FF, 0xE000, 0xFFFD, 0xFFFF, 0x10000, 0x10001, 0x1003F, 0x10040, 0x1D11E, 0x1F600, 0xFFFFF, 0x100000, 0x10FFFF] {
      cps.push(c);
    }
    for _ in 0..6000 {
      let c = rng.below(0x110000) as u32;
      cps.push(c);
    }
  } else {
    cps.extend(0x20..0x110000u32);
  }
  let mut out = vec![];
  let bs = '\\';
  for c in cps {
    if (0xD800..=0xDFFF).contains(&c) || c == 0x22 || c == 0x5C {
      continue;
    }
    let mut forms = vec![format!("{}U{:06X}", bs, c)];
    if c <= 0xFFFF {
      forms.push(format!("{}u{:04X}", bs, c));
      forms.push(format!("{}u{:04x}", bs, c));
    } else {
      let v = c - 0x10000;
      forms.push(format!("{}u{:04X}{}u{:04X}", bs, 0xD800 + (v >> 10), bs, 0xDC00 + (v & 0x3FF)));
    }
    for f in forms {
      let lit = format!("\"a{}z\"", f);
      let decoded = match dmntk_feel_parser::parse_expression(&scope, &lit, false) {
        Ok(dmntk_feel::AstNode::String(s)) => json!(s.chars().map(|ch| ch as u32).collect::<Vec<_>>()),
        Ok(_) => json!([0]),
        Err(_) => json!([]),
      };
      out.push(json!({"esc": lit, "decoded": decoded, "want": [97, c, 122]}));
    }
  }
  out
}

pub fn check(mut ctx: Ctx, replay: Option<J>) -> ! {
  let tlc = Tlc::new(&ctx.verif, "C06");
  let quick = ctx.quick();
  let scope = parsing_scope();
  let mut rng = Rng::new(ctx.seed);
  let mut recs = vec![];
  let mut cases = vec![];
  if let Some(r) = &replay {
    let c = r["case"]["case"].clone();
    if c.get("esc").is_some() {
      recs.push(c.clone());
    } else if c.get("ctxs").is_some() {
      recs.push(run_strlit(&c));
    } else {
      recs.push(run_case(&scope, &c, &mut rng));
    }
    cases.push(c);
  } else {
    let gen = tlc.run(Run::new("Gen_C06", if quick { "Gen_C06_ladder.cfg" } else { "Gen_C06_all.cfg" }).timeout(3000));
    if !gen.ok {
      tool_error(&format!("Gen_C06 failed: {}", gen.error_text));
    }
    cases = gen.tagged("CASE");
    let ws: Vec<char> = gen.tagged("WS").pop().and_then(|w| w.as_array().map(|a| a.iter().filter_map(|c| c.as_u64().and_then(|c| char::from_u32(c as u32))).collect())).unwrap_or_default();
    if ws.len() < 22 {
      tool_error("the white space set of FeelSyntax was not printed");
    }
    ctx.cov("white_space_characters", json!(ws.len()));
    WS.with(|w| *w.borrow_mut() = ws);
    if cases.len() < 1500 {
      tool_error("too few syntax trees generated");
    }
    for c in &cases {
      recs.push(run_case(&scope, c, &mut rng));
    }
    ctx.cov("trees", json!(cases.len()));
    ctx.cov("trees_with_a_needed_pair_removed", json!(cases.iter().filter(|c| c.get("nopar").is_some()).count()));
    let strlits = gen.tagged("STRLIT");
    if strlits.len() < 1000 {
      tool_error("too few string literals generated");
    }
    for c in &strlits {
      cases.push(c.clone());
      recs.push(run_strlit(c));
    }
    ctx.cov("string_literals_in_six_contexts", json!(strlits.len()));
    let esc = escape_records(quick, &mut rng);
    ctx.cov("escape_literals", json!(esc.len()));
    for e in esc {
      cases.push(e.clone());
      recs.push(e);
    }
    // anti-vacuity: a wrong tree must be rejected
    let mut bad = recs[0].clone();
    bad["pmin"][0] = json!({"n": "name", "id": "zz"});
    let out = tlc.judge("Trace_C06", "Trace_C06.cfg", &[bad], 1, 300, &[]);
    if !out.ok || out.rejects.is_empty() {
      tool_error("self-test failed: a wrong tree was accepted");
    }
  }
  let out = tlc.judge("Trace_C06", "Trace_C06.cfg", &recs, 8, 3000, &[]);
  if !out.ok {
    tool_error(&format!("Trace_C06 failed: {}", out.error_text));
  }
  for (i, why) in &out.rejects {
    let r = &recs[*i];
    let (sig, text) = if r.get("esc").is_some() {
      let c = r["want"][1].as_u64().unwrap_or(0);
      let form = if r["esc"].as_str().unwrap_or("").matches("\\u").count() == 2 { "surrogate-pair" } else if r["esc"].as_str().unwrap_or("").contains("\\U") { "U6" } else { "u4" };
      (format!("escape:{}:{}", form, if c > 0xFFFF { "supplementary" } else { "bmp" }), format!("{} -> {}", r["esc"], r["decoded"]))
    } else {
      let t = &r["tree"];
      let inner = ["a", "b", "lo", "hi", "f", "cond", "then", "else", "body"].iter().filter_map(|k| t.get(*k)).filter_map(|c| c["n"].as_str()).filter(|n| !["name", "num"].contains(n)).collect::<Vec<_>>().join("+");
      // a type token directly followed by an operator token in a rendering that was parsed
      let type_then_op = |key: &str| -> Option<String> {
        let tk = toks(&cases[*i][key]);
        tk.windows(2).find(|w| w[0].starts_with('~') && !w[1].starts_with('~') && ["or", "and", "in", "between", "+", "-", "*", "/", "**", ".", "[", "("].contains(&w[1].as_str()) && !["~function", "~:"].contains(&w[0].as_str()) && tk.iter().any(|x| x == "instance of")).map(|w| w[1].clone())
      };
      let key = if why.contains("redundant") { "wrapmin" } else if why.contains("minimally") { "min" } else if why.contains("removing") { "nopar" } else { "full" };
      let three_segment_path_after_bracket = {
        let tk = toks(&cases[*i][key]);
        tk.windows(6).any(|w| (w[0] == "(" || w[0] == "[") && w[2] == "." && w[4] == "." && ![")", "(", "["].contains(&w[1].as_str()))
      };
      let sig = if why.starts_with("a comment directly after") {
        "comment-directly-after-declared-name-type-token-or-function-keyword".to_string()
      } else if three_segment_path_after_bracket {
        "path-of-three-or-more-segments-directly-after-an-opening-bracket".to_string()
      } else if let Some(op) = type_then_op(key) {
        format!("instance-of-type-name-swallows-following-operator:{}", op)
      } else if between_with_and_in_lower_bound(t) {
        "between-lower-bound-containing-and-in-parentheses".to_string()
      } else {
        format!("{}:{}>{}", why.split_whitespace().nth(1).unwrap_or("?"), t["n"].as_str().unwrap_or("?"), inner)
      };
      (sig, format!("{}", r["texts"]))
    };
    ctx.reject(&[sig], json!({"case": cases[*i], "record": r}), &format!("{}: {}", why, text.chars().take(200).collect::<String>()));
  }
  let n = recs.len() as u64;
  ctx.cov("evaluations", json!(n));
  ctx.cov("distinct_nontrivial", json!(n));
  ctx.cov("rule", json!("one case = one syntax tree (every construct in every operand position of every other construct; three-level nests over the operator ladder) parsed from its full, minimal and one-pair-removed renderings under three layouts each (spaces; tabs/line breaks; block and line comments), or one string-literal escape (\\uXXXX, \\UXXXXXX, surrogate pair)"));
  ctx.sample(json!({"texts": recs[recs.len() / 3]["texts"]}));
  ctx.sample(json!({"texts": recs[7]["texts"]}));
  ctx.assume("names are single words bound in the parsing scope (C10 covers the rest); the operator table of FeelSyntax.tla is the DMN rule order");
  ctx.finish()
}

/// Does the tree contain, anywhere, a `between` whose lower bound contains (at any depth) an `and` or another
/// `between` (in text: `x between (c and b) and 2`, `x between [1, c and b] and 2`)? The known finding about the separator `and` applies to it
/// wherever it is nested.
fn between_with_and_in_lower_bound(t: &J) -> bool {
  match t {
    J::Object(o) => {
      if o.get("n").map_or(false, |n| n == "between") && contains_and_or_between(&t["lo"]) {
        return true;
      }
      o.values().any(between_with_and_in_lower_bound)
    }
    J::Array(a) => a.iter().any(between_with_and_in_lower_bound),
    _ => false,
  }
}

fn contains_and_or_between(t: &J) -> bool {
  match t {
    J::Object(o) => o.get("n").map_or(false, |n| n == "and" || n == "between") || o.values().any(contains_and_or_between),
    J::Array(a) => a.iter().any(contains_and_or_between),
    _ => false,
  }
}
