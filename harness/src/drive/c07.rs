//! C07 — numbers print as plain decimal text that denotes exactly their value.

use crate::codec::{enc_number, enc_value, number_from_parts, plain_decimal};
use crate::tlc::{Run, Tlc};
use crate::util::{tool_error, Ctx, Rng};
use dmntk_common::Jsonify;
use dmntk_feel::values::Value;
use dmntk_feel::{FeelNumber, Scope};
use serde_json::{json, Value as J};

/// Untrusted structural hints about a printed text: zeros before / after the coefficient digits, point position.
fn hints(text: &str, coef_len: usize) -> J {
  let body = text.strip_prefix('-').unwrap_or(text);
  let dot = body.find('.').map(|p| p + 1).unwrap_or(0);
  let digits: Vec<u8> = body.bytes().filter(|b| *b != b'.').collect();
  let lead = if coef_len == 0 { digits.len() } else { digits.iter().take_while(|b| **b == b'0').count() };
  let trail = digits.len().saturating_sub(lead + coef_len);
  json!({"lead": lead, "trail": trail, "dot": dot})
}

fn observe(x: &FeelNumber, with_literal: bool) -> J {
  let v = enc_number(x);
  let coef_len = v["c"].as_array().map(|a| a.len()).unwrap_or(0);
  let text = x.to_string();
  let js = x.jsonify();
  let back = match text.parse::<FeelNumber>() {
    Ok(n) => enc_number(&n),
    Err(_) => json!({"k": "err"}),
  };
  let mut rec = json!({"v": {"s": v["s"], "c": v["c"], "e": v["e"]}, "fin": v["fin"], "text": text, "json": js, "back": back, "hint": hints(&text, coef_len), "jhint": hints(&js, coef_len)});
  if with_literal && v["fin"] == true {
    let lit = plain_decimal(&v);
    let scope = Scope::default();
    rec["lit"] = match dmntk_feel_parser::parse_expression(&scope, &lit, false).and_then(|n| dmntk_feel_evaluator::evaluate(&scope, &n)) {
      Ok(val) => enc_value(&val),
      Err(_) => json!({"k": "err"}),
    };
    rec["xsd"] = match Value::try_from_xsd_decimal(&lit) {
      Ok(val) => enc_value(&val),
      Err(_) => json!({"k": "err"}),
    };
    rec["xsdd"] = match Value::try_from_xsd_double(&lit) {
      Ok(val) => enc_value(&val),
      Err(_) => json!({"k": "err"}),
    };
    if !lit.contains('.') {
      rec["xsdi"] = match Value::try_from_xsd_integer(&lit) {
        Ok(val) => enc_value(&val),
        Err(_) => json!({"k": "err"}),
      };
    }
  }
  rec
}

/// Child side of the concurrent rendering pass: four threads render all the numbers six times each, in different
/// orders; returns the (index, text, json) of renderings that differ from the ones made alone.
pub fn child_case(c: &J) -> J {
  let items = c["items"].as_array().cloned().unwrap_or_default();
  let numbers: Vec<Option<FeelNumber>> = items
    .iter()
    .map(|it| {
      let s = &it["stim"];
      let coef: Vec<u8> = s["coef"].as_array().map(|a| a.iter().map(|d| d.as_u64().unwrap_or(0) as u8).collect()).unwrap_or_default();
      build(s["neg"] == true, &coef, s["e"].as_i64().unwrap_or(0), s["scale"].as_i64().unwrap_or(0)).map(|x| match s["arith"].as_u64().unwrap_or(0) {
        1 => x / FeelNumber::from_i128(3),
        2 => x * FeelNumber::from_i128(7),
        _ => x,
      })
    })
    .collect();
  let found = std::sync::Mutex::new(Vec::<J>::new());
  std::thread::scope(|sc| {
    for t in 0..4usize {
      let (numbers, items, found) = (&numbers, &items, &found);
      sc.spawn(move || {
        for round in 0..6 {
          for k in 0..numbers.len() {
            let i = (k * (t + 1) + round) % numbers.len();
            if let Some(x) = &numbers[i] {
              // (a panic of the rendering code is data: an empty text, which denotes nothing)
              let (text, js) = crate::child::guarded(|| (x.to_string(), x.jsonify())).unwrap_or_default();
              if items[i]["text"] != text.as_str() || items[i]["json"] != js.as_str() {
                if let Ok(mut f) = found.lock() {
                  if f.len() < 20 {
                    f.push(json!([i, text.chars().take(300).collect::<String>(), js.chars().take(300).collect::<String>()]));
                  }
                }
              }
            }
          }
        }
      });
    }
  });
  json!({"found": found.into_inner().unwrap_or_default()})
}

fn build(neg: bool, coef: &[u8], e: i64, scale: i64) -> Option<FeelNumber> {
  let len = coef.len() as i64;
  if len + scale > 34 || e - scale < -6176 || e + len - 1 > 6144 {
    return None;
  }
  let mut digits = coef.to_vec();
  for _ in 0..scale {
    digits.push(0);
  }
  Some(number_from_parts(neg, &digits, e - scale))
}

fn describe(rec: &J) -> String {
  let cut = |s: &str| if s.len() > 60 { format!("{}…{} ({} chars)", &s[..30], &s[s.len() - 20..], s.len()) } else { s.to_string() };
  format!("value {} printed as `{}`, JSON `{}`", crate::codec::plain_or_sci(&json!({"k":"num","fin":true,"s":rec["v"]["s"],"c":rec["v"]["c"],"e":rec["v"]["e"]})), cut(rec["text"].as_str().unwrap_or("")), cut(rec["json"].as_str().unwrap_or("")))
}

pub fn check(mut ctx: Ctx, replay: Option<J>) -> ! {
  let tlc = Tlc::new(&ctx.verif, "C07");
  let quick = ctx.quick();
  let mut recs: Vec<J> = vec![];
  let mut stim: Vec<J> = vec![];
  let mut push = |neg: bool, coef: &[u8], e: i64, scale: i64, arith: u8, recs: &mut Vec<J>, stim: &mut Vec<J>| {
    if let Some(x) = build(neg, coef, e, scale) {
      let y = match arith {
        1 => x / FeelNumber::from_i128(3),
        2 => x * FeelNumber::from_i128(7),
        _ => x,
      };
      if arith != 0 && !y.verif_parts().0 {
        return; // overflowed: C02's business
      }
      crate::util::QUIET.with(|q| q.set(true));
      // before every fifth number the readers are offered malformed numerals: what a text denotes does not depend on what
      // was read before it (a reader that keeps an error state would misread the well-formed numerals that follow)
      if recs.len() % 5 == 2 {
        let _ = std::panic::catch_unwind(|| {
          let _ = "12x".parse::<FeelNumber>();
          let _ = "1.2.3".parse::<FeelNumber>();
          let _ = Value::try_from_xsd_decimal("4,5");
          let _ = Value::try_from_xsd_double("1e");
          let _ = Value::try_from_xsd_integer("7.5.");
          let scope = Scope::default();
          let _ = dmntk_feel_parser::parse_expression(&scope, "number(\"1.2.3\", \",\", \".\") + 1e", false).and_then(|n| dmntk_feel_evaluator::evaluate(&scope, &n));
          let _ = dmntk_feel_parser::parse_expression(&scope, "number(\"1.2.3\", \",\", \".\")", false).and_then(|n| dmntk_feel_evaluator::evaluate(&scope, &n));
        });
      }
      let observed = std::panic::catch_unwind(std::panic::AssertUnwindSafe(|| observe(&y, true)));
      crate::util::QUIET.with(|q| q.set(false));
      recs.push(observed.unwrap_or_else(|_| {
        let v = enc_number(&y);
        json!({"v": {"s": v["s"], "c": v["c"], "e": v["e"]}, "fin": v["fin"], "text": "", "json": "", "back": {"k": "err"}, "hint": {"lead": 0, "trail": 0, "dot": 0}, "jhint": {"lead": 0, "trail": 0, "dot": 0}, "panic": true})
      }));
      stim.push(json!({"neg": neg, "coef": coef, "e": e, "scale": scale, "arith": arith}));
    }
  };
  if let Some(r) = &replay {
    let s = &r["case"]["stimulus"];
    let coef: Vec<u8> = s["coef"].as_array().unwrap().iter().map(|d| d.as_u64().unwrap() as u8).collect();
    push(s["neg"].as_bool().unwrap(), &coef, s["e"].as_i64().unwrap(), s["scale"].as_i64().unwrap(), s["arith"].as_u64().unwrap() as u8, &mut recs, &mut stim);
  } else {
    let gen = tlc.run(Run::new("Gen_C07", if quick { "Gen_C07.cfg" } else { "Gen_C07Deep.cfg" }).timeout(300));
    if !gen.ok {
      tool_error(&format!("Gen_C07 failed: {}", gen.error_text));
    }
    let cl = gen.tagged("CLASSES").pop().unwrap_or_else(|| tool_error("no classes"));
    let coefs: Vec<Vec<u8>> = cl["coefs"].as_array().unwrap().iter().map(|c| c.as_array().unwrap().iter().map(|d| d.as_u64().unwrap() as u8).collect()).collect();
    let (emin, emax) = (cl["emin"].as_i64().unwrap(), cl["emax"].as_i64().unwrap());
    if coefs.len() < 6 || emax - emin < 12000 {
      tool_error("classes too small");
    }
    let mut k = 0usize;
    for e in emin..=emax {
      // (a number with exponent e prints as a text of about |e| characters: every combination only near 0 and at the edges)
      let near = if quick { e.abs() <= 60 || e <= emin + 40 || e >= emax - 40 } else { e.abs() <= 400 || e <= emin + 150 || e >= emax - 150 };
      if near {
        // every coefficient, sign and scale
        for coef in &coefs {
          for neg in [false, true] {
            for scale in 0..3 {
              push(neg, coef, e, scale, 0, &mut recs, &mut stim);
            }
          }
          push(false, coef, e, 0, 1, &mut recs, &mut stim);
          push(true, coef, e, 0, 2, &mut recs, &mut stim);
        }
      } else {
        // every exponent at least once: rotate coefficient, sign, scale, arithmetic
        for _ in 0..(if quick { 1 } else { 4 }) {
          let coef = &coefs[k % coefs.len()];
          push(k % 2 == 1, coef, e, (k % 3) as i64, (k % 5 == 0) as u8 * (1 + (k % 2) as u8), &mut recs, &mut stim);
          k += 1;
        }
      }
    }
    ctx.cov("exponents_covered", json!(emax - emin + 1));
    // seeded random numbers
    let mut rng = Rng::new(ctx.seed);
    for _ in 0..(if quick { 3000 } else { 20000 }) {
      let len = 1 + rng.below(34) as usize;
      let mut coef: Vec<u8> = (0..len).map(|_| rng.below(10) as u8).collect();
      coef[0] = 1 + rng.below(9) as u8;
      coef[len - 1] = 1 + rng.below(9) as u8;
      let e = rng.below((emax - emin + 1) as u64) as i64 + emin;
      push(rng.chance(1, 2), &coef, e, rng.below(3) as i64, rng.below(3) as u8, &mut recs, &mut stim);
    }
  }
  if recs.is_empty() {
    tool_error("no cases");
  }
  // the same numbers rendered by four threads at once (in a child process with an address-space limit: garbage
  // may ask for any amount of memory): a text that differs from the one rendered alone is judged by the
  // specification like every other text (it cannot denote the value if the first one did)
  if replay.is_none() || replay.as_ref().map_or(false, |r| r["case"]["stimulus"]["concurrent"] == true) {
    let short: Vec<usize> = (0..stim.len()).filter(|i| recs[*i]["text"].as_str().map_or(false, |t| !t.is_empty() && t.len() < 80)).take(3000).collect();
    let case = json!({"items": short.iter().map(|i| json!({"stim": stim[*i], "text": recs[*i]["text"], "json": recs[*i]["json"]})).collect::<Vec<_>>()});
    std::env::set_var("VERIF_CHILD_VMEM_KB", "6000000");
    let res = crate::child::run_in_children("c07", &tlc.work_dir, &[case], 1, std::time::Duration::from_secs(120));
    std::env::remove_var("VERIF_CHILD_VMEM_KB");
    let mut found: Vec<(usize, String, String)> = res[0]["found"].as_array().map(|a| a.iter().map(|f| (short[f[0].as_u64().unwrap_or(0) as usize], f[1].as_str().unwrap_or("").to_string(), f[2].as_str().unwrap_or("").to_string())).collect()).unwrap_or_default();
    if let Some(d) = res[0]["death"].as_str() {
      // the process rendering concurrently died (abort, runaway allocation, hang): no text at all
      ctx.cov("concurrent_rendering_process_died", json!(d));
      found.push((short[0], String::new(), String::new()));
    }
    ctx.cov("numbers_rendered_by_four_threads_at_once", json!(short.len()));
    for (i, text, js) in found {
      let coef_len = recs[i]["v"]["c"].as_array().map(|a| a.len()).unwrap_or(0);
      let mut r = recs[i].clone();
      r["hint"] = hints(&text, coef_len);
      r["jhint"] = hints(&js, coef_len);
      r["text"] = json!(text);
      r["json"] = json!(js);
      r["concurrent"] = json!(true);
      let mut st = stim[i].clone();
      st["concurrent"] = json!(true);
      recs.push(r);
      stim.push(st);
    }
  }
  // anti-vacuity: a text with the point one place off must be rejected
  if replay.is_none() {
    let x = number_from_parts(false, &[1, 5], -1);
    let mut bad = observe(&x, false);
    bad["text"] = json!("15.0");
    bad["hint"] = hints("15.0", 2);
    let out = tlc.judge("Trace_C07", "Trace_C07.cfg", &[bad], 1, 300, &[]);
    if !out.ok || out.rejects.is_empty() {
      tool_error("self-test failed: a text denoting another value was accepted");
    }
  }
  let out = tlc.judge("Trace_C07", "Trace_C07.cfg", &recs, 12, 3000, &[]);
  if !out.ok {
    tool_error(&format!("Trace_C07 failed: {}", out.error_text));
  }
  for (i, why) in &out.rejects {
    let r = &recs[*i];
    let e = r["v"]["e"].as_i64().unwrap_or(0);
    let region = if r["v"]["s"] == 1 && e + (r["v"]["c"].as_array().map(|a| a.len() as i64).unwrap_or(0)) - 1 < -6 { "negative-below-1E-6" } else { "general" };
    let sig = if r["concurrent"] == true { "rendered-while-other-threads-render:text-differs-from-the-one-rendered-alone".to_string() } else { format!("{}:{}", why.split(':').next().unwrap_or("?").trim(), region) };
    let mut small = r.clone();
    for k in ["text", "json"] {
      if let Some(t) = small[k].as_str() {
        if t.len() > 200 {
          small[k] = json!(format!("{}…({} chars)", &t[..120], t.len()));
        }
      }
    }
    ctx.reject(&[sig], json!({"stimulus": stim[*i], "record": small}), &format!("{}: {}", describe(r), why));
  }
  let n = recs.len() as u64;
  ctx.cov("evaluations", json!(n));
  ctx.cov("distinct_nontrivial", json!(n));
  ctx.cov("rule", json!("one case = one finite number (coefficient pattern x exponent x sign x trailing zeros, or an arithmetic result x/3, x*7), observed through to_string, jsonify, from_str, FEEL literal and xsd:decimal input (malformed numerals are offered to the same readers in between); every exponent -6176..6111 occurs; all cases are non-trivial (each demands an exact text/value relation)"));
  ctx.sample(json!({"stimulus": stim[stim.len() / 2]}));
  ctx.assume("hook H2 gives the exact value; the hints sent with each text are verified, not trusted, by Trace_C07");
  ctx.finish()
}
