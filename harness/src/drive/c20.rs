//! C20 — a deployed model may be evaluated from many threads with per-call results intact.
//!
//! Design (MC): Concurrent.tla, model-checked for the as-built lock pattern under both lock
//! semantics, and for two counter-designs (a write in the evaluation path, a shared scope).
//! Real schedules (P3): N in {2,4,8,16} threads share one ModelEvaluator and make seeded call
//! sequences (numeric, temporal, regex, decision-table, chained, decision-service invocables) after a
//! start barrier, with random yields; every call's value is logged; Trace_C20.tla checks it against
//! the value of the same call made alone, and that nothing hung, died or poisoned a lock. Each run is
//! a child process, so crashes and deadlocks are observed.
//! Schedules that did not occur (P4): hook H4 records the per-thread lock operations of a small run;
//! Predict_C20.tla replays them in every interleaving under both lock semantics.

use crate::child::run_in_children;
use crate::tlc::{Run, Tlc};
use crate::util::{tool_error, Ctx, Rng};
use dmntk_feel::context::FeelContext;
use dmntk_feel::values::Value;
use dmntk_feel::{FeelNumber, Name};
use dmntk_model_evaluator::ModelEvaluator;
use serde_json::{json, Value as J};
use std::sync::{Arc, Barrier};
use std::time::Duration;

const MODEL: &str = include_str!("../../data/c20_model.dmn");
const INVOCABLES: [&str; 10] = ["Num", "Temp", "Re", "ReHeavy", "Table", "Chain", "Svc", "Deep", "Zoned", "SvcCall"];
/// Invocable index v + VARIANT stands for the name of invocable v written with redundant blanks (a name no invocable
/// has: the call is made like any other and its value - null - compared like any other).
const VARIANT: usize = 100;
const INPUTS: usize = 64;

fn input(i: usize) -> FeelContext {
  let mut c = FeelContext::default();
  c.set_entry(&Name::from("x"), Value::Number(FeelNumber::from((7 * i + 3) as i64)));
  c.set_entry(&Name::from("s"), Value::String(format!("t-{}ab{}", i, "b".repeat(i % 4))));
  c.set_entry(&Name::from("d"), Value::String(format!("20{:02}-{:02}-{:02}T{:02}:20:30+0{}:00", 10 + i % 20, 1 + i % 12, 1 + i % 28, i % 24, i % 9)));
  c.set_entry(&Name::from("p"), Value::String(["(b+)", "(a|t)", "([0-9]+)", "(ab)+"][i % 4].to_string()));
  // named zones on and off the days their offset changes, at hours on both sides of the change
  let dates = ["2021-03-28", "2021-10-31", "2021-11-07", "2021-03-14", "2021-04-04", "2021-10-03", "2021-06-15"];
  let zones = ["Europe/Warsaw", "America/New_York", "Australia/Sydney", "Asia/Kolkata"];
  c.set_entry(&Name::from("z"), Value::String(format!("{}T{:02}:30:00@{}", dates[i % 7], (i * 5) % 24, zones[(i / 7) % 4])));
  c
}

/// The name a call uses: the invocable's name, or (v >= VARIANT) that name with redundant blanks, `pad` of them trailing.
fn spelled(v: usize, pad: usize) -> String {
  if v >= VARIANT {
    format!(" {} {}", INVOCABLES[v - VARIANT].replace(' ', "  "), " ".repeat(pad))
  } else {
    INVOCABLES[v].to_string()
  }
}

/// The value as compared: an error value counts as null whatever its message says (the message quotes the name).
fn shown(v: &Value) -> String {
  let s = v.to_string();
  if s.starts_with("null") {
    "null".to_string()
  } else {
    s
  }
}

fn evaluator() -> Arc<ModelEvaluator> {
  let defs = dmntk_model::parse(MODEL).unwrap_or_else(|e| tool_error(&format!("c20 model: {}", e)));
  ModelEvaluator::new(&defs).unwrap_or_else(|e| tool_error(&format!("c20 model evaluator: {}", e)))
}

/// The k-th call of thread t in the run with this seed: (invocable index, input index).
fn call_of(seed: u64, t: usize, k: usize) -> (usize, usize) {
  let mut r = Rng::new(seed ^ ((t as u64) << 32) ^ (k as u64).wrapping_mul(0x9E37_79B9_7F4A_7C15));
  let v = r.below(INVOCABLES.len() as u64) as usize;
  let i = r.below(INPUTS as u64) as usize;
  // one call in sixteen spells the name with redundant blanks
  (if r.below(16) == 0 { v + VARIANT } else { v }, i)
}

/// Child side.
pub fn child_case(c: &J) -> J {
  let me = evaluator();
  match c["mode"].as_str().unwrap_or("") {
    "seq" => {
      let mut rows = vec![];
      let all: Vec<usize> = (0..INVOCABLES.len()).chain((0..INVOCABLES.len()).map(|v| v + VARIANT)).collect();
      for v in all {
        for i in 0..INPUTS {
          let a = shown(&me.evaluate_invocable(&spelled(v, 0), &input(i)));
          let b = shown(&me.evaluate_invocable(&spelled(v, 0), &input(i)));
          rows.push(json!({"inv": v, "inp": i, "val": a, "same": a == b}));
        }
      }
      json!({"rows": rows})
    }
    "seqrev" => {
      // the same calls, one thread, in the opposite order (a fresh process): a value must not depend on the calls made before it
      let mut events = vec![];
      let mut k = 0;
      for v in (0..INVOCABLES.len()).rev() {
        for i in (0..INPUTS).rev() {
          k += 1;
          events.push(json!([1, k, v, i, shown(&me.evaluate_invocable(INVOCABLES[v], &input(i)))]));
        }
      }
      json!({"events": events, "poisoned": me.verif_poisoned(), "thread_panicked": false})
    }
    "locks" => {
      let n = c["n"].as_u64().unwrap_or(2) as usize;
      let seed = c["seed"].as_u64().unwrap_or(1);
      dmntk_model_evaluator::verif::lock_trace_start();
      let barrier = Arc::new(Barrier::new(n));
      let handles: Vec<_> = (0..n)
        .map(|t| {
          let (me, barrier) = (Arc::clone(&me), Arc::clone(&barrier));
          std::thread::spawn(move || {
            barrier.wait();
            // per thread: a chained call, a decision that invokes a decision service, a name spelled with
            // redundant blanks, and one other call
            let (v, i) = call_of(seed, t, 0);
            let _ = me.evaluate_invocable("Chain", &input(i));
            let _ = me.evaluate_invocable("SvcCall", &input(i));
            let _ = me.evaluate_invocable(&spelled(VARIANT, t), &input(i));
            let _ = me.evaluate_invocable(&spelled(v, t), &input(i));
            (v, i)
          })
        })
        .collect();
      let calls: Vec<(usize, usize)> = handles.into_iter().map(|h| h.join().unwrap_or((0, 0))).collect();
      let events = dmntk_model_evaluator::verif::lock_trace_take();
      // per-thread scripts in Concurrent.tla's step format
      let mut threads: Vec<u64> = events.iter().map(|e| e.0).collect();
      threads.sort();
      threads.dedup();
      let scripts: Vec<J> = threads
        .iter()
        .enumerate()
        .map(|(idx, th)| {
          let mut mine: Vec<&(u64, u64, &str, &str)> = events.iter().filter(|e| e.0 == *th).collect();
          mine.sort_by_key(|e| e.1);
          let mut steps = vec![json!({"op": "begin", "l": "", "inv": "call", "inp": idx})];
          for e in mine {
            match e.2 {
              "read" | "write" | "release" => steps.push(json!({"op": e.2, "l": e.3, "inv": "", "inp": 0})),
              _ => {}
            }
          }
          steps.push(json!({"op": "end", "l": "", "inv": "call", "inp": idx}));
          json!({"steps": steps})
        })
        .collect();
      json!({"scripts": scripts, "calls": calls.len()})
    }
    _ => {
      let n = c["n"].as_u64().unwrap_or(2) as usize;
      let calls = c["calls"].as_u64().unwrap_or(10) as usize;
      let seed = c["seed"].as_u64().unwrap_or(1);
      // `same`: in every round all threads make the SAME call (invocable and input) at the same moment - a barrier
      // before every round - so that identical calls overlap (results handed from one call to another, calls
      // coalesced, per-invocable scratch state)
      let same = c["same"] == true;
      let barrier = Arc::new(Barrier::new(n));
      let handles: Vec<_> = (0..n)
        .map(|t| {
          let (me, barrier) = (Arc::clone(&me), Arc::clone(&barrier));
          std::thread::spawn(move || {
            let mut rng = Rng::new(seed ^ 0xABCD ^ t as u64);
            let mut out = vec![];
            barrier.wait();
            for k in 0..calls {
              let (v, i) = if same { call_of(seed, 0, k) } else { call_of(seed, t, k) };
              if same {
                barrier.wait();
              }
              match rng.below(8) {
                0 => std::thread::yield_now(),
                1 => {
                  for _ in 0..rng.below(2000) {
                    std::hint::spin_loop();
                  }
                }
                _ => {}
              }
              let val = shown(&me.evaluate_invocable(&spelled(v, (t * calls + k) % 251), &input(i)));
              out.push(json!([t + 1, k + 1, v, i, val]));
            }
            out
          })
        })
        .collect();
      let mut events = vec![];
      let mut lost = false;
      for h in handles {
        match h.join() {
          Ok(v) => events.extend(v),
          Err(_) => lost = true,
        }
      }
      json!({"events": events, "poisoned": me.verif_poisoned(), "thread_panicked": lost})
    }
  }
}

pub fn check(mut ctx: Ctx, replay: Option<J>) -> ! {
  let tlc = Tlc::new(&ctx.verif, "C20");
  let quick = ctx.quick();
  // --- design: Concurrent.tla model-checked (as built: must hold; counter-designs: must fail)
  let mut states = 0u64;
  let mut transitions = 0u64;
  if replay.is_none() {
    let designs: Vec<(&str, bool)> = if quick {
      vec![("asbuilt_rp", true), ("asbuilt_wp", true), ("write_wp", false), ("shared_rp", false)]
    } else {
      vec![("asbuilt_rp", true), ("asbuilt_wp", true), ("asbuilt3_rp", true), ("asbuilt3_wp", true), ("write_wp", false), ("write_rp", true), ("shared_rp", false)]
    };
    for (d, holds) in designs {
      let cfg = format!("MC_Concurrent_{}.cfg", d);
      let out = tlc.run(Run::new("MC_Concurrent", &cfg).timeout(1800).workers(8).tag(&format!("_{}", d)));
      let violated = out.lines.iter().any(|l| l.contains("is violated"));
      if holds && (!out.ok || violated) {
        tool_error(&format!("the design model {} does not hold: {}", d, out.error_text));
      }
      if !holds && !violated {
        tool_error(&format!("the counter-design {} is not rejected by TLC (the invariants would be vacuous)", d));
      }
      states += out.distinct;
      transitions += out.generated;
    }
  }
  // --- sequential table
  let seq = run_in_children("c20", &tlc.work_dir, &[json!({"mode": "seq"})], 1, Duration::from_secs(300));
  let rows = seq[0]["rows"].as_array().cloned().unwrap_or_else(|| tool_error(&format!("the sequential run failed: {}", seq[0])));
  if rows.iter().any(|r| r["same"] != true) {
    tool_error("the workload is not deterministic when evaluated alone");
  }
  if rows.iter().filter(|r| r["inv"].as_u64().unwrap_or(0) < VARIANT as u64 && r["val"].as_str().map_or(true, |v| v.starts_with("null"))).count() > rows.len() / 20 {
    tool_error("the workload evaluates to null too often to be meaningful");
  }
  let seq_path = tlc.write_ndjson("c20_seq.ndjson", &rows.iter().map(|r| json!({"inv": r["inv"], "inp": r["inp"], "val": r["val"]})).collect::<Vec<_>>());
  let seq_env = seq_path.to_string_lossy().to_string();
  // --- real schedules
  let mut runs: Vec<J> = vec![];
  if let Some(r) = &replay {
    let c = &r["case"]["record"];
    runs.push(json!({"mode": if c["seed"] == 0 { "seqrev" } else { "run" }, "n": c["n"], "calls": c["calls"], "seed": c["seed"], "same": c["same"]}));
  } else {
    runs.push(json!({"mode": "seqrev", "n": 1, "calls": INVOCABLES.len() * INPUTS, "seed": 0}));
    let mut rng = Rng::new(ctx.seed);
    let reps = if quick { 3 } else { 25 };
    for n in [2u64, 4, 8, 16] {
      for _ in 0..reps {
        runs.push(json!({"mode": "run", "n": n, "calls": if quick { 1000 } else { 4000 }, "seed": rng.next()}));
      }
    }
    // all threads making the same call at the same moment, round after round
    for n in [3u64, 8, 16] {
      for _ in 0..(if quick { 1 } else { 6 }) {
        runs.push(json!({"mode": "run", "n": n, "calls": if quick { 300 } else { 1500 }, "seed": rng.next(), "same": true}));
      }
    }
  }
  // one run at a time (each uses up to 16 threads itself)
  let results = run_in_children("c20", &tlc.work_dir, &runs, 1, Duration::from_secs(120));
  let mut recs = vec![];
  let mut calls = 0u64;
  for (run, res) in runs.iter().zip(results.iter()) {
    let death = if res["thread_panicked"] == true { "a thread panicked".to_string() } else { res["death"].as_str().unwrap_or("").to_string() };
    let events = res["events"].as_array().cloned().unwrap_or_default();
    calls += events.len() as u64;
    recs.push(json!({"n": run["n"], "calls": run["calls"], "seed": run["seed"], "same": run["same"] == true, "death": death, "poisoned": res["poisoned"] == true, "events": events}));
  }
  if let (true, Some(healthy)) = (replay.is_none(), recs.iter().find(|r| r["death"] == "" && r["events"].as_array().map_or(0, |a| a.len()) > 4)) {
    // self-test: one changed value and one lost call must be rejected
    let mut a = healthy.clone();
    a["events"][3][4] = json!("changed");
    let mut b = healthy.clone();
    if let Some(ev) = b["events"].as_array_mut() {
      ev.pop();
    }
    let mut c = healthy.clone();
    c["death"] = json!("timeout");
    let out = tlc.judge("Trace_C20", "Trace_C20.cfg", &[a, b, c], 1, 300, &[("SEQ", &seq_env)]);
    if !out.ok || out.rejects.len() != 3 {
      tool_error(&format!("self-test failed: {} of 3 corrupted runs rejected {}", out.rejects.len(), out.error_text));
    }
  }
  let out = tlc.judge("Trace_C20", "Trace_C20.cfg", &recs, 8, 1800, &[("SEQ", &seq_env)]);
  if !out.ok {
    tool_error(&format!("Trace_C20 failed: {}", out.error_text));
  }
  for (i, why) in &out.rejects {
    if why.starts_with("HARNESS") {
      tool_error(why);
    }
    let r = &recs[*i];
    let wrong: Vec<String> = r["events"]
      .as_array()
      .map(|a| {
        a.iter()
          .filter(|e| rows.iter().any(|row| row["inv"] == e[2] && row["inp"] == e[3] && row["val"] != e[4]))
          .take(3)
          .map(|e| format!("thread {} call {}: {}(input {}) = {}", e[0], e[1], spelled(e[2].as_u64().unwrap_or(0) as usize, 0), e[3], e[4]))
          .collect()
      })
      .unwrap_or_default();
    let invs: std::collections::BTreeSet<String> = r["events"]
      .as_array()
      .map(|a| a.iter().filter(|e| rows.iter().any(|row| row["inv"] == e[2] && row["inp"] == e[3] && row["val"] != e[4])).map(|e| spelled(e[2].as_u64().unwrap_or(0) as usize, 0).trim().to_string()).collect())
      .unwrap_or_default();
    let sig = format!("run:{}:{}", why.split_whitespace().take(6).collect::<Vec<_>>().join("-"), invs.into_iter().collect::<Vec<_>>().join("+"));
    let mut keep = r.clone();
    keep["events"] = json!([]);
    ctx.reject(&[sig], json!({"record": keep}), &format!("{} : {} threads, seed {} {} {}", why, r["n"], r["seed"], r["death"].as_str().unwrap_or(""), wrong.join("; ")));
  }
  // --- schedules that did not occur: H4 lock scripts under all interleavings
  let mut predicted = 0u64;
  if replay.is_none() {
    let lock_runs: Vec<J> = (if quick { vec![2u64] } else { vec![2, 3] }).into_iter().map(|n| json!({"mode": "locks", "n": n, "seed": ctx.seed})).collect();
    let lr = run_in_children("c20", &tlc.work_dir, &lock_runs, 1, Duration::from_secs(120));
    for (k, res) in lr.iter().enumerate() {
      let scripts = res["scripts"].as_array().cloned().unwrap_or_else(|| tool_error(&format!("no lock scripts: {}", res)));
      if scripts.iter().any(|s| s["steps"].as_array().map_or(0, |a| a.len()) < 10) {
        tool_error("hook H4 recorded too few lock operations");
      }
      let p = tlc.write_ndjson(&format!("c20_scripts_{}.ndjson", k), &scripts);
      for sem in ["rp", "wp"] {
        let out = tlc.run(Run::new("Predict_C20", &format!("Predict_C20_{}.cfg", sem)).env("SCRIPTS", &p.to_string_lossy()).timeout(1800).workers(8).tag(&format!("_{}{}", sem, k)));
        let violated: Vec<&String> = out.lines.iter().filter(|l| l.contains("is violated")).collect();
        if !violated.is_empty() {
          let inv = violated[0].split_whitespace().nth(2).unwrap_or("?").to_string();
          let writes = out.lines.iter().any(|l| l.contains("with-writes"));
          ctx.reject(
            &[format!("predict:{}:{}:{}", inv, sem, if writes { "with-writes" } else { "reads-only" })],
            json!({"record": {"n": lock_runs[k]["n"], "calls": 0, "seed": ctx.seed, "predict": sem}}),
            &format!("an interleaving of the recorded lock operations violates {} under the {} lock semantics ({} threads{})", inv, if sem == "wp" { "writer-preferring" } else { "reader-preferring" }, scripts.len(), if writes { ", the evaluation path takes a write lock" } else { "" }),
          );
        } else if !out.ok {
          tool_error(&format!("Predict_C20 failed: {}", out.error_text));
        }
        states += out.distinct;
        transitions += out.generated;
        predicted += out.distinct;
      }
    }
  }
  ctx.cov("states", json!(states));
  ctx.cov("transitions", json!(transitions));
  ctx.cov("predicted_interleaving_states", json!(predicted));
  ctx.cov("traces_validated_against_impl", json!(recs.len()));
  ctx.cov("concurrent_runs", json!(recs.len()));
  ctx.cov("calls_compared", json!(calls));
  ctx.cov("rule", json!("design: Concurrent.tla for the as-built lock pattern under reader- and writer-preferring semantics (must hold) and for two counter-designs (must fail); runs: 2/4/8/16 threads x seeded call sequences over 8 invocables x 64 inputs, every value compared by TLC with the value of the same call made alone; prediction: every interleaving of the lock operations hook H4 recorded for 2 (thorough: 3) threads"));
  ctx.sample(json!({"n": recs[0]["n"], "seed": recs[0]["seed"], "first_events": recs[0]["events"].as_array().map(|a| a.iter().take(3).cloned().collect::<Vec<_>>())}));
  ctx.assume("real schedules are sampled (seeded start barriers, yields, spins), not enumerated; TLC enumerates the interleavings of the model and of the recorded lock scripts");
  ctx.assume("hook H4 (traced RwLock) is compiled in; the runs with value comparison leave the lock trace switched off");
  ctx.finish()
}
