pub mod c17;
pub mod c18;
