pub mod c17;
