pub mod c01;
pub mod c02;
pub mod c06;
pub mod c07;
pub mod c09;
pub mod c16;
pub mod c17;
pub mod c18;
