//! C12 — loading any model text yields a usable model or an error, never a crash.
//!
//! The example models shipped with the repository are dumped as trees (XmlTree.tla's shape);
//! Gen_C12.tla enumerates every single structural fault at every node (and pairs on small models);
//! this driver performs the surgery on the text, re-reads the result to count its nodes (TLC checks
//! the count against the tree model), and runs parse -> ModelEvaluator::new -> evaluate_invocable for
//! every invocable and input context in child processes. Trace_C12.tla judges the outcome classes.

use crate::child::{guarded, run_in_children};
use crate::tlc::{Run, Tlc};
use crate::util::{tool_error, Ctx, Rng};
use serde_json::{json, Value as J};
use std::collections::BTreeMap;
use std::time::Duration;

#[derive(Clone, Debug)]
struct NodeInfo {
  kind: char, // e a t
  depth: usize,
  name: String,
  is_ref: bool,
  range: (usize, usize),
  /// attribute: value range; element: content range (start == end when empty); text: same as range
  inner: (usize, usize),
  /// nearest enclosing element's id / name attribute values
  own_id: String,
  own_name: String,
  /// id / name of the outermost enclosing element below the root (an ancestor of every node inside it)
  top_id: String,
  top_name: String,
  value: String,
}

fn dump(xml: &str) -> Option<Vec<NodeInfo>> {
  let doc = roxmltree::Document::parse(xml).ok()?;
  let mut out = vec![];
  fn walk(n: roxmltree::Node, depth: usize, up_id: &str, up_name: &str, top: &(String, String), out: &mut Vec<NodeInfo>) {
    let r = n.range();
    let top: (String, String) = if depth == 2 { (n.attribute("id").unwrap_or("").to_string(), n.attribute("name").unwrap_or("").to_string()) } else { top.clone() };
    let (top_id, top_name) = (top.0.clone(), top.1.clone());
    let id = n.attribute("id").map(|s| s.to_string()).unwrap_or_else(|| up_id.to_string());
    let name = n.attribute("name").map(|s| s.to_string()).unwrap_or_else(|| up_name.to_string());
    let kids: Vec<roxmltree::Node> = n.children().collect();
    let inner = if kids.is_empty() { (r.end, r.end) } else { (kids[0].range().start, kids[kids.len() - 1].range().end) };
    let tag = n.tag_name().name().to_string();
    let has_text = kids.iter().any(|k| k.is_text() && !k.text().unwrap_or("").trim().is_empty());
    out.push(NodeInfo { kind: 'e', depth, name: tag.clone(), is_ref: tag == "typeRef" && has_text, range: (r.start, r.end), inner, own_id: id.clone(), own_name: name.clone(), top_id: top_id.clone(), top_name: top_name.clone(), value: n.text().unwrap_or("").trim().to_string() });
    for a in n.attributes() {
      let ar = a.range();
      let vr = a.value_range();
      out.push(NodeInfo {
        kind: 'a',
        depth: depth + 1,
        name: a.name().to_string(),
        is_ref: a.name() == "href" || a.name() == "typeRef",
        range: (ar.start, ar.end),
        inner: (vr.start, vr.end),
        own_id: id.clone(),
        own_name: name.clone(),
        top_id: top_id.clone(),
        top_name: top_name.clone(),
        value: a.value().to_string(),
      });
    }
    for k in kids {
      if k.is_element() {
        walk(k, depth + 1, &id, &name, &top, out);
      } else if k.is_text() && !k.text().unwrap_or("").trim().is_empty() {
        let kr = k.range();
        out.push(NodeInfo { kind: 't', depth: depth + 1, name: String::new(), is_ref: false, range: (kr.start, kr.end), inner: (kr.start, kr.end), own_id: id.clone(), own_name: name.clone(), top_id: top_id.clone(), top_name: top_name.clone(), value: String::new() });
      }
    }
  }
  walk(doc.root_element(), 1, "", "", &(String::new(), String::new()), &mut out);
  Some(out)
}

fn count_nodes(xml: &str) -> i64 {
  dump(xml).map(|v| v.len() as i64).unwrap_or(-1)
}

fn last(nodes: &[NodeInfo], n: usize) -> usize {
  let mut k = n;
  while k + 1 < nodes.len() && nodes[k + 1].depth > nodes[n].depth {
    k += 1;
  }
  k
}

/// The text edit (range, replacement) of one fault on node index n (0-based).
fn edit(xml: &str, nodes: &[NodeInfo], f: &str, n: usize) -> Option<((usize, usize), String)> {
  let nd = &nodes[n];
  let whole = &xml[nd.range.0..nd.range.1];
  match f {
    "del" => Some((nd.range, String::new())),
    "dup" => Some(((nd.range.1, nd.range.1), if nd.kind == 'a' { format!(" {}", whole) } else { whole.to_string() })),
    "empty" => Some((nd.inner, String::new())),
    "swap" => {
      let m = last(nodes, n) + 1;
      let md = nodes.get(m)?;
      let between = &xml[nd.range.1..md.range.0];
      Some(((nd.range.0, md.range.1), format!("{}{}{}", &xml[md.range.0..md.range.1], between, whole)))
    }
    "missing" | "self" | "other" | "ancestor" | "selfpad" | "ancestorpad" => {
      let is_href = nd.name == "href";
      let pad = |s: String| if f.ends_with("pad") { format!("\n  {} \n", s) } else { s };
      let new = match f {
        "missing" => (if is_href { "#_no_such_element_" } else { "tNoSuchType" }).to_string(),
        "self" | "selfpad" => pad(if is_href { format!("#{}", nd.own_id) } else { nd.own_name.clone() }),
        "ancestor" | "ancestorpad" => pad(if is_href { format!("#{}", nd.top_id) } else { nd.top_name.clone() }),
        _ => {
          // the target of the next reference of the same kind (wrapping around)
          let same: Vec<&NodeInfo> = nodes.iter().filter(|o| o.is_ref && (o.name == "href") == is_href).collect();
          let pos = same.iter().position(|o| o.range == nd.range)?;
          same[(pos + 1) % same.len()].value.clone()
        }
      };
      let target = if nd.kind == 'a' {
        nd.inner
      } else {
        // the text child of a <typeRef> element
        let t = nodes[n + 1..=last(nodes, n)].iter().find(|o| o.kind == 't')?;
        t.range
      };
      Some((target, new))
    }
    _ => None,
  }
}

fn apply(xml: &str, nodes: &[NodeInfo], ops: &J) -> Option<String> {
  let mut edits = vec![];
  for op in ops.as_array()? {
    let n = op["n"].as_u64()? as usize - 1;
    edits.push(edit(xml, nodes, op["f"].as_str()?, n)?);
  }
  // from the end of the text to its start; of two edits that begin at the same place (an insertion behind one element
  // and the removal of the element that follows it directly) the one that covers text goes first
  edits.sort_by(|a, b| b.0 .0.cmp(&a.0 .0).then(b.0 .1.cmp(&a.0 .1)));
  let mut text = xml.to_string();
  for ((s, e), rep) in edits {
    text.replace_range(s..e, &rep);
  }
  Some(text)
}

/// Child side.
pub fn child_case(c: &J) -> J {
  // faults that retarget references can close requirement cycles, whose detection walks hash maps in an order that
  // differs from map to map: such documents are loaded, built and invoked several times
  let repeats = c["repeats"].as_u64().unwrap_or(1);
  let mut last = child_once(c);
  for _ in 1..repeats {
    if last["panics"].as_array().map_or(false, |a| !a.is_empty()) {
      break;
    }
    last = child_once(c);
  }
  last
}

fn child_once(c: &J) -> J {
  let xml = c["xml"].as_str().unwrap_or("");
  let mut panics = vec![];
  let mut inv = vec![];
  let mut build_error = String::new();
  let load = guarded(|| dmntk_model::parse(xml));
  let (load_class, build_class) = match load {
    Err(msg) => {
      panics.push(json!({"stage": "load", "msg": msg}));
      ("panic", "none")
    }
    Ok(Err(_)) => ("error", "none"),
    Ok(Ok(defs)) => match guarded(|| dmntk_model_evaluator::ModelEvaluator::new(&defs)) {
      Err(msg) => {
        panics.push(json!({"stage": "build", "msg": msg}));
        ("model", "panic")
      }
      Ok(Err(e)) => {
        build_error = e.to_string();
        ("model", "error")
      }
      Ok(Ok(me)) => {
        let scope = dmntk_feel::Scope::default();
        let ctxs: Vec<dmntk_feel::context::FeelContext> = c["ctxs"].as_array().map(|a| a.iter().filter_map(|t| guarded(|| dmntk_feel_evaluator::evaluate_context(&scope, t.as_str().unwrap_or("{}")).ok()).ok().flatten()).collect()).unwrap_or_default();
        for name in c["names"].as_array().cloned().unwrap_or_default() {
          let name = name.as_str().unwrap_or("").to_string();
          for (k, ctx) in ctxs.iter().enumerate() {
            match guarded(|| me.evaluate_invocable(&name, ctx)) {
              Ok(_) => inv.push("value"),
              Err(msg) => {
                inv.push("panic");
                panics.push(json!({"stage": "invoke", "name": name, "ctx": k, "msg": msg}));
              }
            }
          }
        }
        // the other way a model gets built: stored in a workspace and deployed (Workspace::deploy builds the evaluators
        // of all stored models); what it answers is C17's matter, that it answers is this property's
        let first = c["names"].as_array().and_then(|a| a.first()).and_then(|n| n.as_str()).unwrap_or("").to_string();
        if let Err(msg) = guarded(|| {
          if let Ok(defs2) = dmntk_model::parse(xml) {
            let model_name = dmntk_model::model::NamedElement::name(&defs2).to_string();
            let mut ws = dmntk_workspace::Workspace::new(None);
            let _ = ws.add(defs2);
            let _ = ws.deploy();
            if let Some(ctx) = ctxs.first() {
              let _ = ws.evaluate_invocable(&model_name, &first, ctx);
            }
          }
        }) {
          panics.push(json!({"stage": "deploy", "msg": msg}));
        }
        ("model", "evaluator")
      }
    },
  };
  json!({"load": load_class, "build": build_class, "inv": inv, "panics": panics, "count": c["count"], "build_error": build_error})
}

struct Model {
  path: String,
  xml: String,
  nodes: Vec<NodeInfo>,
  ctxs: Vec<String>,
  names: Vec<String>,
}

fn invocable_names(nodes: &[NodeInfo], xml: &str) -> Vec<String> {
  let mut names = vec![];
  for (i, n) in nodes.iter().enumerate() {
    if n.kind == 'e' && ["decision", "businessKnowledgeModel", "decisionService"].contains(&n.name.as_str()) {
      for a in &nodes[i + 1..] {
        if a.kind != 'a' || a.depth != n.depth + 1 {
          break;
        }
        if a.name == "name" {
          names.push(xml[a.inner.0..a.inner.1].to_string());
        }
      }
    }
  }
  names.sort();
  names.dedup();
  names
}

fn load_models() -> Vec<Model> {
  fn walk(dir: &std::path::Path, ext: &str, out: &mut Vec<std::path::PathBuf>) {
    if let Ok(rd) = std::fs::read_dir(dir) {
      for e in rd.flatten() {
        let p = e.path();
        if p.is_dir() {
          walk(&p, ext, out);
        } else if p.extension().map_or(false, |x| x == ext) {
          out.push(p);
        }
      }
    }
  }
  // constant name -> model path, from the include_str! lines of the examples crate
  let mut rs = vec![];
  walk(std::path::Path::new("/repo/examples/src"), "rs", &mut rs);
  let mut const_to_path: BTreeMap<String, String> = BTreeMap::new();
  for f in &rs {
    let src = std::fs::read_to_string(f).unwrap_or_default();
    for line in src.lines() {
      if let (Some(a), Some(b)) = (line.find("pub const "), line.find("include_str!(\"")) {
        let name = line[a + 10..].split(':').next().unwrap_or("").trim().to_string();
        let rel = line[b + 14..].split('"').next().unwrap_or("");
        let path = f.parent().unwrap().join(rel);
        const_to_path.insert(name, path.to_string_lossy().to_string());
      }
    }
  }
  // contexts used by the repository's tests for each model
  let mut tests = vec![];
  walk(std::path::Path::new("/repo/model-evaluator/src/tests"), "rs", &mut tests);
  let mut ctxs_of: BTreeMap<String, Vec<String>> = BTreeMap::new();
  for f in &tests {
    let src = std::fs::read_to_string(f).unwrap_or_default();
    let used: Vec<&String> = const_to_path.keys().filter(|k| src.contains(&format!("dmntk_examples::{})", k)) || src.contains(&format!("dmntk_examples::{};", k)) || src.contains(&format!("dmntk_examples::{},", k))).collect();
    let mut found = vec![];
    let mut rest = src.as_str();
    while let Some(p) = rest.find("context(r#\"") {
      let tail = &rest[p + 11..];
      if let Some(e) = tail.find("\"#") {
        found.push(tail[..e].to_string());
        rest = &tail[e..];
      } else {
        break;
      }
    }
    for k in used {
      let e = ctxs_of.entry(const_to_path[k].clone()).or_default();
      for c in &found {
        if !e.contains(c) {
          e.push(c.clone());
        }
      }
    }
  }
  let mut files = vec![];
  walk(std::path::Path::new("/repo/examples/src"), "dmn", &mut files);
  files.sort();
  let mut models = vec![];
  // a generated model: item definitions nested three levels deep (components of components, collections of
  // components, references between them), used by input data, a knowledge model's parameter and a decision's result
  {
    let xml = include_str!("../../data/c12_nested_types.dmn").to_string();
    let nodes = dump(&xml).unwrap_or_else(|| tool_error("c12_nested_types.dmn is not well formed"));
    let ctxs = vec![
      r#"{loan: {amount: 100, terms: {rate: 0.5, party: {name: "n", tags: ["a", "b"]}, steps: [{after: 1, rate: 0.25}]}}, loans: []}"#.to_string(),
      r#"{loan: {amount: 100, terms: {rate: "x", party: 5, steps: [1]}}, loans: [1]}"#.to_string(),
      "{}".to_string(),
    ];
    let names = invocable_names(&nodes, &xml);
    models.push(Model { path: "generated/c12_nested_types.dmn".to_string(), xml, nodes, ctxs, names });
  }
  // a generated model: one decision table per hit policy and aggregator (allowed input values, output values, default
  // entries), a table with two output components, a knowledge model whose logic is a collect-sum table
  {
    let xml = include_str!("../../data/c12_tables.dmn").to_string();
    let nodes = dump(&xml).unwrap_or_else(|| tool_error("c12_tables.dmn is not well formed"));
    let ctxs = vec![r#"{Age: 10, Kind: "a"}"#.to_string(), r#"{Age: 40, Kind: "b"}"#.to_string(), r#"{Age: 70, Kind: "z"}"#.to_string(), "{}".to_string()];
    let names = invocable_names(&nodes, &xml);
    models.push(Model { path: "generated/c12_tables.dmn".to_string(), xml, nodes, ctxs, names });
  }
  for f in files {
    let xml = std::fs::read_to_string(&f).unwrap_or_default();
    if let Some(nodes) = dump(&xml) {
      let path = f.to_string_lossy().to_string();
      let mut ctxs = ctxs_of.get(&path).cloned().unwrap_or_default();
      // spread: at most 5 of the test contexts, plus the empty context
      if ctxs.len() > 5 {
        let step = ctxs.len() / 5;
        ctxs = ctxs.into_iter().step_by(step.max(1)).take(5).collect();
      }
      ctxs.push("{}".to_string());
      let names = invocable_names(&nodes, &xml);
      models.push(Model { path, xml, nodes, ctxs, names });
    }
  }
  models
}

/// A generated model that is large in three directions: a decision whose logic is an `if` chain 12000 branches deep (measured with this build: 14000 fit an 8 MiB stack, 16000 do not; a 2 MiB stack holds 8000, not 10000), a
/// chain of 150 decisions each requiring the one before, a decision table of 600 rules. (Loaded, built, deployed and
/// invoked as it is; not fault-injected.)
fn deep_model_xml() -> String {
  let mut x = String::from("<?xml version=\"1.0\" encoding=\"UTF-8\"?>\n<definitions xmlns=\"https://www.omg.org/spec/DMN/20191111/MODEL/\" namespace=\"https://verif/c12deep\" name=\"c12deep\" id=\"_c12deep\">\n");
  x.push_str("<inputData name=\"Code\" id=\"i_code\"><variable name=\"Code\" typeRef=\"number\"/></inputData>\n");
  let mut chain = String::new();
  for i in 1..=12000 {
    chain.push_str(&format!("if Code = {} then \"R{}\" else ", i, i));
  }
  chain.push_str("\"none\"");
  x.push_str(&format!("<decision name=\"Label\" id=\"d_label\"><variable name=\"Label\"/><informationRequirement><requiredInput href=\"#i_code\"/></informationRequirement><literalExpression><text>{}</text></literalExpression></decision>\n", chain));
  x.push_str("<decision name=\"c0\" id=\"d_c0\"><variable name=\"c0\"/><informationRequirement><requiredInput href=\"#i_code\"/></informationRequirement><literalExpression><text>Code + 1</text></literalExpression></decision>\n");
  for i in 1..150 {
    x.push_str(&format!("<decision name=\"c{i}\" id=\"d_c{i}\"><variable name=\"c{i}\"/><informationRequirement><requiredDecision href=\"#d_c{j}\"/></informationRequirement><literalExpression><text>c{j} + 1</text></literalExpression></decision>\n", i = i, j = i - 1));
  }
  x.push_str("<decision name=\"Table\" id=\"d_table\"><variable name=\"Table\"/><informationRequirement><requiredInput href=\"#i_code\"/></informationRequirement><decisionTable hitPolicy=\"UNIQUE\"><input><inputExpression><text>Code</text></inputExpression></input><output/>");
  for i in 1..=600 {
    x.push_str(&format!("<rule><inputEntry><text>{}</text></inputEntry><outputEntry><text>\"T{}\"</text></outputEntry></rule>", i, i));
  }
  x.push_str("</decisionTable></decision>\n</definitions>\n");
  x
}

/// A generated model whose item definitions, input data and decisions carry names with characters of two, three and
/// four bytes at every byte offset from 0 to 8 (code that slices names and type references at fixed byte offsets).
fn names_model_xml() -> (String, Vec<String>) {
  let names = [
    "é", "aé", "aaé", "aaaé", "aaaaé", "aaaaaé", "aaaaaaé", "aaaaaaaé", "Größe", "Größen", "Ширина", "名前", "aaaaก", "aaaaaก", "aaa𐐀", "aaaa𐐀", "aaaaa𐐀", "aa𐐀b", "feelé",
  ];
  let mut x = String::from("<?xml version=\"1.0\" encoding=\"UTF-8\"?>\n<definitions xmlns=\"https://www.omg.org/spec/DMN/20191111/MODEL/\" namespace=\"https://verif/c12names\" name=\"c12names\" id=\"_c12names\">\n");
  let mut invocables = vec![];
  for (k, n) in names.iter().enumerate() {
    x.push_str(&format!("<itemDefinition name=\"{n}\"><typeRef>{t}</typeRef></itemDefinition>\n", n = n, t = if k % 2 == 0 { "number" } else { "string" }));
    x.push_str(&format!("<itemDefinition name=\"L{n}\" isCollection=\"true\"><typeRef>{n}</typeRef></itemDefinition>\n", n = n));
    x.push_str(&format!("<inputData name=\"inp {n}\" id=\"i{k}\"><variable name=\"inp {n}\" typeRef=\"{n}\"/></inputData>\n", n = n, k = k));
    x.push_str(&format!(
      "<decision name=\"out {n}\" id=\"d{k}\"><variable name=\"out {n}\" typeRef=\"L{n}\"/><informationRequirement><requiredInput href=\"#i{k}\"/></informationRequirement><literalExpression><text>[inp {n}]</text></literalExpression></decision>\n",
      n = n,
      k = k
    ));
    invocables.push(format!("out {}", n));
  }
  x.push_str("</definitions>\n");
  (x, invocables)
}

fn normalise_panic(msg: &str) -> String {
  let (m, loc) = msg.rsplit_once(" at ").unwrap_or((msg, ""));
  let file = loc.rsplit_once(':').map(|(f, _)| f).unwrap_or(loc);
  let file = file.trim_start_matches("/repo/");
  let file = if let Some(p) = file.find("/registry/src/") { file[p + 14..].splitn(2, '/').nth(1).unwrap_or(file) } else { file };
  let mut text: String = m.chars().map(|c| if c.is_ascii_digit() { '#' } else { c }).collect();
  while text.contains("##") {
    text = text.replace("##", "#");
  }
  let text: String = text.split_whitespace().take(8).collect::<Vec<_>>().join("-");
  format!("panic:{}:{}", file, text)
}

pub fn check(mut ctx: Ctx, replay: Option<J>) -> ! {
  let tlc = Tlc::new(&ctx.verif, "C12");
  let quick = ctx.quick();
  let mut models = load_models();
  if models.len() < 100 {
    tool_error("the example models were not found");
  }
  ctx.cov("example_models_available", json!(models.len()));
  if quick && replay.is_none() {
    // the first model (by path, with test contexts, below 40 kB) showing each structural feature, plus models spread over the size range
    models.sort_by(|a, b| a.path.cmp(&b.path));
    let features: [&dyn Fn(&Model) -> bool; 11] = [
      &|m| m.xml.matches("<requiredDecision").count() >= 8 && m.xml.len() > 40_000,
      &|m| m.xml.matches("<requiredDecision").count() >= 8,
      &|m| m.xml.matches("<output ").count() >= 2 && m.xml.contains("<decisionTable"),
      &|m| m.xml.contains("isCollection=\"true\""),
      &|m| m.xml.contains("<decisionService"),
      &|m| m.xml.contains("<invocation"),
      &|m| m.xml.contains("<context>") || m.xml.contains("<context "),
      &|m| m.xml.contains("<relation") || m.xml.contains("<list"),
      &|m| m.xml.contains("<functionDefinition"),
      &|m| m.xml.contains("<itemComponent"),
      &|m| m.xml.contains("<knowledgeRequirement") && m.xml.contains("<businessKnowledgeModel"),
    ];
    let mut chosen: Vec<String> = vec![];
    for f in features {
      if let Some(m) = models.iter().find(|m| m.xml.len() < 60_000 && m.ctxs.len() > 1 && f(m)) {
        if !chosen.contains(&m.path) {
          chosen.push(m.path.clone());
        }
      }
    }
    models.sort_by_key(|m| m.xml.len());
    let small: Vec<&Model> = models.iter().filter(|m| m.xml.len() < 40_000).collect();
    let step = (small.len() / 10).max(1);
    for m in small.into_iter().step_by(step).take(10) {
      if !chosen.contains(&m.path) {
        chosen.push(m.path.clone());
      }
    }
    models.retain(|m| chosen.contains(&m.path) || m.path.starts_with("generated/"));
  }
  models.sort_by(|a, b| a.path.cmp(&b.path));
  let trees: Vec<J> = models.iter().map(|m| json!({"model": m.path, "nodes": m.nodes.iter().enumerate().map(|(i, n)| json!({"k": n.kind.to_string(), "d": n.depth, "nm": n.name, "ref": n.is_ref, "last": last(&m.nodes, i) + 1})).collect::<Vec<_>>()})).collect();
  let trees_path = tlc.write_ndjson("c12_trees.ndjson", &trees);
  let trees_env = trees_path.to_string_lossy().to_string();
  let mut recs: Vec<J> = vec![];
  if let Some(r) = &replay {
    let mut rec = r["case"]["record"].clone();
    rec["src"] = json!("bytes");
    rec["seed"] = json!(0);
    recs.push(rec);
  } else {
    let gen = tlc.run(Run::new("Gen_C12", if quick { "Gen_C12.cfg" } else { "Gen_C12_pairs.cfg" }).env("TREES", &trees_env).timeout(3000));
    if !gen.ok {
      tool_error(&format!("Gen_C12 failed: {}", gen.error_text));
    }
    let cases = gen.tagged("CASE");
    if cases.len() < 5000 {
      tool_error("too few fault scripts");
    }
    for c in &cases {
      let m = c["m"].as_u64().unwrap_or(1) as usize - 1;
      recs.push(json!({"src": "script", "m": m + 1, "ops": c["ops"], "model": models[m].path}));
    }
    ctx.cov("fault_scripts", json!(recs.len()));
    // the unfaulted models themselves
    for (m, model) in models.iter().enumerate() {
      recs.push(json!({"src": "bytes", "m": m + 1, "ops": [], "seed": 0, "model": model.path}));
    }
    // a large generated model, as it is
    recs.push(json!({"src": "bytes", "m": 1, "ops": [], "seed": 0, "model": "generated/c12_deep.dmn", "xml": deep_model_xml(),
      "ctxs": ["{Code: 2}", "{Code: 12000}", "{Code: 5000}", "{}"], "names": ["Label", "c149", "Table"]}));
    // a generated model whose names hold multi-byte characters at every small byte offset, as it is
    {
      let (xml, mut names) = names_model_xml();
      names.truncate(12);
      recs.push(json!({"src": "bytes", "m": 1, "ops": [], "seed": 0, "model": "generated/c12_names.dmn", "xml": xml,
        "ctxs": ["{inp é: 1, inp aé: \"s\", inp Größe: 5, inp Ширина: \"w\"}", "{}"], "names": names}));
    }
    // random character-level corruption (each record carries the seed of its own corruption)
    let mut rng = Rng::new(ctx.seed);
    let small: Vec<usize> = (0..models.len()).filter(|m| models[*m].xml.len() < 60_000).collect();
    for _ in 0..(if quick { 3000 } else { 30000 }) {
      let m = *rng.pick(&small);
      recs.push(json!({"src": "bytes", "m": m + 1, "ops": [], "seed": rng.next() | 1, "model": models[m].path}));
    }
  }
  let by_path: BTreeMap<&str, &Model> = models.iter().map(|m| (m.path.as_str(), m)).collect();
  let mut generated_as_they_are: Vec<J> = vec![];
  // the text of a record: the fault script applied, or the seeded corruption, or the replayed text
  let text_of = |r: &J| -> String {
    if let Some(x) = r["xml"].as_str() {
      return x.to_string();
    }
    let model = &models[r["m"].as_u64().unwrap_or(1) as usize - 1];
    if r["src"] == "script" {
      return apply(&model.xml, &model.nodes, &r["ops"]).unwrap_or_else(|| tool_error(&format!("cannot apply {} to {}", r["ops"], model.path)));
    }
    let seed = r["seed"].as_u64().unwrap_or(0);
    if seed == 0 {
      return model.xml.clone();
    }
    let mut rng = Rng::new(seed);
    let mut chars: Vec<char> = model.xml.chars().collect();
    for _ in 0..(1 + rng.below(3)) {
      if chars.is_empty() {
        break;
      }
      let i = rng.below(chars.len() as u64) as usize;
      match rng.below(5) {
        0 => {
          chars.remove(i);
        }
        1 => chars.insert(i, *rng.pick(&['<', '>', '/', '"', '&', '=', ' ', '\u{0}', '\u{FFFF}', 'x'])),
        2 => chars[i] = *rng.pick(&['<', '>', '/', '"', '&', '=', ' ', '\u{1F600}', '0', '-']),
        3 => chars.truncate(i),
        _ => {
          let j = rng.below(chars.len() as u64) as usize;
          let (a, b) = (i.min(j), i.max(j));
          if b - a < 400 {
            chars.drain(a..b);
          }
        }
      }
    }
    chars.into_iter().collect()
  };
  let input_of = |r: &J| -> J {
    let t = text_of(r);
    let model = by_path.get(r["model"].as_str().unwrap_or(""));
    let mut names = model.map(|m| m.names.clone()).unwrap_or_default();
    let mut count = -1i64;
    if let Some(nodes) = dump(&t) {
      count = nodes.len() as i64;
      for n in invocable_names(&nodes, &t) {
        if !names.contains(&n) {
          names.push(n);
        }
      }
    }
    if let Some(given) = r["names"].as_array() {
      names = given.iter().filter_map(|n| n.as_str().map(|n| n.to_string())).collect();
    }
    names.truncate(12);
    let retarget = r["ops"].as_array().map_or(false, |a| a.iter().any(|o| ["missing", "self", "other", "ancestor", "selfpad", "ancestorpad"].contains(&o["f"].as_str().unwrap_or(""))));
    let ctxs: Vec<String> = match r["ctxs"].as_array() {
      Some(given) => given.iter().filter_map(|c| c.as_str().map(|c| c.to_string())).collect(),
      None => model.map(|m| m.ctxs.clone()).unwrap_or_else(|| vec!["{}".to_string()]),
    };
    json!({"xml": t, "ctxs": ctxs, "names": names, "count": count, "repeats": if retarget { 6 } else { 1 }})
  };
  let results = {
    let recs = &recs;
    crate::child::run_in_children_with("c12", &tlc.work_dir, recs.len(), 14, Duration::from_secs(90), &|i| input_of(&recs[i]))
  };
  let mut calls = 0u64;
  // documents given up after the death budget of the child runner was spent are not judged
  let skipped: Vec<bool> = results.iter().map(|r| r["skipped"] == true).collect();
  if skipped.iter().any(|s| *s) {
    ctx.cov("documents_not_run_after_too_many_deaths", json!(skipped.iter().filter(|s| **s).count()));
    let mut k = 0;
    recs.retain(|_| {
      k += 1;
      !skipped[k - 1]
    });
  }
  let results: Vec<J> = results.into_iter().filter(|r| r["skipped"] != true).collect();
  for (r, res) in recs.iter_mut().zip(results.iter()) {
    r["count"] = if res["count"].is_i64() { res["count"].clone() } else { json!(count_nodes(&text_of(r))) };
    if let Some(d) = res["death"].as_str() {
      r["death"] = json!(d);
      r["load"] = json!("error");
      r["build"] = json!("none");
      r["inv"] = json!([]);
      r["panics"] = json!([]);
    } else {
      r["death"] = json!("");
      for k in ["load", "build", "inv", "panics"] {
        r[k] = res[k].clone();
      }
      if r.get("xml").is_some() && r["src"] == "bytes" && replay.is_none() {
        generated_as_they_are.push(json!({"model": r["model"], "load": r["load"], "build": r["build"], "invocations_with_a_value": r["inv"].as_array().map_or(0, |a| a.iter().filter(|x| *x == "value").count()), "build_error": res["build_error"]}));
      }
      calls += 2 + res["inv"].as_array().map_or(0, |a| a.len()) as u64;
    }
  }
  // localise process deaths: which stage / invocable kills the child
  let dead: Vec<usize> = (0..recs.len()).filter(|i| recs[*i]["death"] != "").collect();
  if !dead.is_empty() && dead.len() <= 1500 {
    let mut sub_inputs = vec![];
    let mut owner = vec![];
    for i in &dead {
      let inp = input_of(&recs[*i]);
      sub_inputs.push(json!({"xml": inp["xml"], "ctxs": [], "names": [], "repeats": inp["repeats"]}));
      owner.push((*i, "(build)".to_string()));
      for name in inp["names"].as_array().cloned().unwrap_or_default() {
        sub_inputs.push(json!({"xml": inp["xml"], "ctxs": inp["ctxs"], "names": [name], "repeats": inp["repeats"]}));
        owner.push((*i, name.as_str().unwrap_or("").to_string()));
      }
    }
    let sub = run_in_children("c12", &tlc.work_dir, &sub_inputs, 14, Duration::from_secs(90));
    for ((i, who), res) in owner.iter().zip(sub.iter()) {
      if res["death"].is_string() {
        let list = recs[*i]["killers"].as_array().cloned().unwrap_or_default();
        let mut list = list;
        list.push(json!(who));
        recs[*i]["killers"] = json!(list);
      }
    }
  }
  if replay.is_none() {
    let base = recs.iter().find(|r| r["src"] == "script" && r["death"] == "").cloned().unwrap_or_else(|| tool_error("no script record"));
    let mut a = base.clone();
    a["build"] = json!("panic");
    let mut b = base.clone();
    b["death"] = json!("signal 6");
    let mut c = base.clone();
    c["count"] = json!(c["count"].as_i64().unwrap_or(0) + 1);
    let bad = vec![a, b, c];
    let out = tlc.judge("Trace_C12", "Trace_C12.cfg", &bad, 1, 300, &[("TREES", &trees_env)]);
    if !out.ok || out.rejects.len() != 3 {
      tool_error(&format!("self-test failed: {} of 3 corrupted records rejected {}", out.rejects.len(), out.error_text));
    }
  }
  let slim: Vec<J> = recs.iter().map(|r| json!({"src": r["src"], "m": r["m"], "ops": r["ops"], "count": r["count"], "death": r["death"], "load": r["load"], "build": r["build"], "inv": r["inv"]})).collect();
  let out = tlc.judge("Trace_C12", "Trace_C12.cfg", &slim, 14, 3000, &[("TREES", &trees_env)]);
  if !out.ok {
    tool_error(&format!("Trace_C12 failed: {}", out.error_text));
  }
  for (i, why) in &out.rejects {
    let r = &recs[*i];
    if why.starts_with("HARNESS") {
      tool_error(&format!("{}: {} {} count {}", why, r["model"], r["ops"], r["count"]));
    }
    let mut sigs: Vec<String> = r["panics"].as_array().map(|a| a.iter().map(|p| normalise_panic(p["msg"].as_str().unwrap_or(""))).collect()).unwrap_or_default();
    sigs.sort();
    sigs.dedup();
    if sigs.is_empty() {
      let what = r["ops"].as_array().map(|a| a.iter().map(|o| format!("{}-{}", o["f"].as_str().unwrap_or(""), by_path.get(r["model"].as_str().unwrap_or("")).and_then(|m| m.nodes.get(o["n"].as_u64().unwrap_or(1) as usize - 1)).map(|n| n.name.clone()).unwrap_or_default())).collect::<Vec<_>>().join("+")).unwrap_or_default();
      if r["death"] == "" {
        sigs.push(format!("loaded-malformed:{}", what));
      } else {
        let base = r["model"].as_str().unwrap_or("").rsplit('/').next().unwrap_or("").to_string();
        let killers: Vec<String> = r["killers"].as_array().map(|a| a.iter().map(|k| k.as_str().unwrap_or("").to_string()).collect()).unwrap_or_default();
        if killers.is_empty() {
          sigs.push(format!("death:{}:{}:{}", r["death"].as_str().unwrap_or(""), base, what));
        }
        for k in killers {
          sigs.push(format!("death:{}:{}:{}", r["death"].as_str().unwrap_or(""), base, k));
        }
      }
    }
    let first = r["panics"].get(0).map(|p| format!("{}: {}", p["stage"].as_str().unwrap_or(""), p["msg"].as_str().unwrap_or(""))).unwrap_or_else(|| r["death"].as_str().unwrap_or("").to_string());
    let mut keep = r.clone();
    keep["xml"] = json!(text_of(r));
    for sig in &sigs {
      ctx.reject(std::slice::from_ref(sig), json!({"record": keep}), &format!("{} : {} : {} {} [{}]", why, first, r["model"].as_str().unwrap_or("").trim_start_matches("/repo/examples/src/"), r["ops"], sig));
    }
  }
  let n = recs.len() as u64;
  ctx.cov("models_faulted", json!(models.len()));
  ctx.cov("nodes", json!(models.iter().map(|m| m.nodes.len()).sum::<usize>()));
  ctx.cov("generated_models_loaded_as_they_are", json!(generated_as_they_are));
  ctx.cov("documents", json!(n));
  ctx.cov("evaluations", json!(calls));
  ctx.cov("distinct_nontrivial", json!(n));
  ctx.cov("rule", json!("one document = one model text after a TLC-enumerated fault script (every enabled fault of XmlTree.tla at every node; thorough: also pairs on models of at most 60 nodes) or a seeded character-level corruption; each is loaded, built and every invocable evaluated on the contexts the repository's tests use for that model plus the empty context (evaluations = calls made)"));
  ctx.sample(json!({"model": recs[recs.len() / 2]["model"], "ops": recs[recs.len() / 2]["ops"]}));
  ctx.assume("the text surgery follows XmlTree.tla (checked per case through the node count of the re-read document)");
  ctx.finish()
}
