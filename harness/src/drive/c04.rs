//! C04 — a decision's value is its logic evaluated over its requirement graph.

use crate::codec::{dec_context, dec_value, enc_value};
use crate::tlc::{Run, Tlc};
use crate::util::{tool_error, Ctx};
use crate::xml::drg_model_xml;
use dmntk_feel::values::Value;
use dmntk_feel::{FeelNumber, Name};
use serde_json::{json, Value as J};

pub fn run_model(m: &J, inputs: &[J]) -> J {
  let xml = drg_model_xml(m);
  crate::util::QUIET.with(|q| q.set(true));
  let r = std::panic::catch_unwind(std::panic::AssertUnwindSafe(|| {
    let defs = dmntk_model::parse(&xml).map_err(|e| format!("parse: {}", e))?;
    let me = dmntk_model_evaluator::ModelEvaluator::new(&defs).map_err(|e| format!("build: {}", e))?;
    let mut obs = vec![];
    let mut obs2 = vec![];
    for inv in m["invocables"].as_array().unwrap() {
      let name = inv[1].as_str().unwrap();
      let mut row = vec![];
      let mut row2 = vec![];
      for inp in inputs {
        let ctx = dec_context(inp);
        row.push(enc_value(&me.evaluate_invocable(name, &ctx)));
        // entries whose names occur nowhere in the model must have no influence
        let mut padded = ctx.clone();
        padded.set_entry(&Name::from("zz"), Value::Number(FeelNumber::from_i128(9)));
        padded.set_entry(&Name::from("unrelated input"), Value::String("x".into()));
        // ... and so must an entry named like the invoked element itself (say, an earlier result passed back together
        // with the inputs): an element is not in its own requirement closure
        padded.set_entry(&Name::from(name), Value::Number(FeelNumber::from_i128(777)));
        row2.push(enc_value(&me.evaluate_invocable(name, &padded)));
      }
      obs.push(row);
      obs2.push(row2);
    }
    Ok::<(Vec<Vec<J>>, Vec<Vec<J>>), String>((obs, obs2))
  }));
  crate::util::QUIET.with(|q| q.set(false));
  match r {
    Ok(Ok((obs, obs2))) => json!({"model": m, "inputs": inputs, "built": "ok", "obs": obs, "obs2": obs2}),
    Ok(Err(e)) => json!({"model": m, "inputs": inputs, "built": e, "obs": [], "obs2": []}),
    Err(_) => json!({"model": m, "inputs": inputs, "built": "panic", "obs": [], "obs2": []}),
  }
}

pub fn check(mut ctx: Ctx, replay: Option<J>) -> ! {
  let tlc = Tlc::new(&ctx.verif, "C04");
  let mut recs = vec![];
  if let Some(r) = &replay {
    let inputs = r["case"]["inputs"].as_array().cloned().unwrap_or_default();
    recs.push(run_model(&r["case"]["model"], &inputs));
  } else {
    let gen = tlc.run(Run::new("Gen_C04", "Gen_C04.cfg").timeout(1200));
    if !gen.ok {
      tool_error(&format!("Gen_C04 failed: {}", gen.error_text));
    }
    let models = gen.tagged("MODEL");
    let inputs = gen.tagged("INPUTS").pop().and_then(|i| i.as_array().cloned()).unwrap_or_default();
    if models.len() < 40 || inputs.len() < 2 {
      tool_error("too few models");
    }
    for m in &models {
      recs.push(run_model(m, &inputs));
    }
    if recs[0]["built"] != "ok" {
      let _ = std::fs::write(tlc.path("fail.xml"), drg_model_xml(&recs[0]["model"]));
      tool_error(&format!("the first generated model does not load: {} (XML in work/C04/fail.xml)", recs[0]["built"]));
    }
    let mut bad = recs[0].clone();
    bad["obs"][1][0] = json!({"k": "null"});
    bad["obs2"][1][0] = json!({"k": "null"});
    let out = tlc.judge("Trace_C04", "Trace_C04.cfg", &[bad], 1, 300, &[("RELAX_EMPTY_DOMAIN", "0")]);
    if !out.ok || out.rejects.is_empty() {
      tool_error("self-test failed: a wrong decision value was accepted");
    }
  }
  let out = tlc.judge("Trace_C04", "Trace_C04.cfg", &recs, 8, 3000, &[("RELAX_EMPTY_DOMAIN", "0")]);
  if !out.ok {
    tool_error(&format!("Trace_C04 failed: {}", out.error_text));
  }
  for (i, why) in &out.rejects {
    let r = &recs[*i];
    let mut detail = String::new();
    let mut sigs = vec![];
    // which invocables / inputs: re-derived from the BAD lines is costly; describe the forms instead
    let forms = |k: &str, n: &str| r["model"][k].as_array().unwrap().iter().find(|x| x["name"] == n).map(|x| x["form"]["f"].as_str().unwrap_or("").to_string()).unwrap_or_default();
    let shape = format!("k1:{} k2:{} d1:{} d2:{}", forms("bkms", "k1"), forms("bkms", "k2"), forms("decisions", "d1"), forms("decisions", "d2"));
    if r["built"] == "ok" {
      for (k, inv) in r["model"]["invocables"].as_array().unwrap().iter().enumerate() {
        let vals: Vec<String> = r["obs"][k].as_array().unwrap().iter().map(|o| dec_value(o).to_string()).collect();
        detail.push_str(&format!(" {}={:?}", inv[1].as_str().unwrap(), vals));
      }
    }
    sigs.push(format!("drg:{}", shape));
    ctx.reject(&sigs, json!({"model": r["model"], "inputs": r["inputs"], "obs": r["obs"]}), &format!("{} [{}]{}", why, shape, detail).chars().take(700).collect::<String>());
  }
  let evals: u64 = recs.iter().map(|r| (r["model"]["invocables"].as_array().map(|a| a.len()).unwrap_or(0) * r["inputs"].as_array().map(|a| a.len()).unwrap_or(0)) as u64).sum();
  ctx.cov("models", json!(recs.len()));
  ctx.cov("evaluations", json!(evals * 2));
  ctx.cov("distinct_nontrivial", json!(evals));
  ctx.cov("exhaustive", json!(true));
  ctx.cov("rule", json!("one case = (model, invocable, input context); models = every combination of the boxed forms (literal, context with/without result entry, invocation with every binding order, decision table, list, relation, function definition) of two knowledge models and the decisions of a diamond-shaped graph with two decision services; each case also evaluated with input entries outside the requirement closure"));
  ctx.sample(json!({"model_xml": drg_model_xml(&recs[recs.len() / 2]["model"])}));
  ctx.assume("the harness's DMN XML writer renders the boxed forms faithfully");
  ctx.finish()
}
