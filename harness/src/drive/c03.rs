//! C03 — decision tables return what their hit policy prescribes.

use crate::codec::{dec_value, enc_value};
use crate::tlc::{Run, Tlc};
use crate::util::{tool_error, Ctx, Rng};
use crate::xml::table_model_xml;
use dmntk_feel::context::FeelContext;
use dmntk_feel::Name;
use serde_json::{json, Value as J};


// ---- tables drawn at random (seeded), in the record format of Gen_C03: trees for the specification, token texts for
// ---- the DMN XML. Up to four inputs (numbers, strings), three output components, eight rules; every hit policy.

fn num_tree(m: i64) -> (J, Vec<String>) {
  (json!({"n": "num", "ip": m.to_string(), "fp": "", "m": m, "e": 0}), vec![m.to_string()])
}

fn str_tree(s: &str) -> (J, Vec<String>) {
  (json!({"n": "str", "s": s, "cp": crate::codec::cps(s)}), vec![format!("\"{}\"", s)])
}

fn lit(rng: &mut Rng, numeric: bool) -> (J, Vec<String>) {
  if numeric {
    num_tree(rng.below(6) as i64)
  } else {
    str_tree(*rng.pick(&["a", "b", "c", "ab"]))
  }
}

/// One unary test that is not a list: a literal, a comparison or an interval.
fn simple_test(rng: &mut Rng, numeric: bool) -> (J, Vec<String>) {
  match rng.below(if numeric { 10 } else { 7 }) {
    0..=3 => lit(rng, numeric),
    4 | 5 => {
      let (op, sym) = *rng.pick(&[("utlt", "<"), ("utle", "<="), ("utgt", ">"), ("utge", ">=")]);
      let (t, mut x) = lit(rng, numeric);
      let mut toks = vec![sym.to_string()];
      toks.append(&mut x);
      (json!({"n": op, "a": t}), toks)
    }
    _ => {
      let (lo, mut tl) = lit(rng, numeric);
      let (hi, mut th) = lit(rng, numeric);
      let (lc, hc) = (rng.chance(1, 2), rng.chance(1, 2));
      let mut toks = vec![if lc { "[" } else { "(" }.to_string()];
      toks.append(&mut tl);
      toks.push("..".to_string());
      toks.append(&mut th);
      toks.push(if hc { "]" } else { ")" }.to_string());
      (json!({"n": "range", "lo": lo, "lc": lc, "hi": hi, "hc": hc}), toks)
    }
  }
}

fn test_list(rng: &mut Rng, numeric: bool, n: usize) -> (Vec<J>, Vec<String>) {
  let mut items = vec![];
  let mut toks = vec![];
  for k in 0..n {
    let (t, mut x) = simple_test(rng, numeric);
    if k > 0 {
      toks.push(",".to_string());
    }
    toks.append(&mut x);
    items.push(t);
  }
  (items, toks)
}

/// An input entry: `-`, one test, a list of tests, or a negated list.
fn input_entry(rng: &mut Rng, numeric: bool) -> (J, Vec<String>) {
  match rng.below(10) {
    0..=2 => (json!({"n": "any"}), vec!["-".to_string()]),
    3..=5 => simple_test(rng, numeric),
    6 | 7 => {
      let n = 2 + rng.below(4) as usize;
      let (items, toks) = test_list(rng, numeric, n);
      (json!({"n": "elist", "items": items}), toks)
    }
    _ => {
      let n = 1 + rng.below(3) as usize;
      let (items, mut toks) = test_list(rng, numeric, n);
      let mut all = vec!["not".to_string(), "(".to_string()];
      all.append(&mut toks);
      all.push(")".to_string());
      (json!({"n": "notlist", "items": items}), all)
    }
  }
}

fn value_of(tree: &J) -> J {
  if tree["n"] == "num" {
    // the value encoding is canonical: no trailing zeros in the mantissa (10 is 1E+1)
    let (mut m, mut e) = (tree["m"].as_i64().unwrap_or(0), 0);
    while m != 0 && m % 10 == 0 {
      m /= 10;
      e += 1;
    }
    json!({"k": "num", "m": m, "e": e})
  } else {
    json!({"k": "str", "cp": tree["cp"]})
  }
}

pub fn random_table(rng: &mut Rng) -> J {
  let n_in = 1 + rng.below(4) as usize;
  let n_out = if rng.chance(2, 3) { 1 } else { 2 + rng.below(2) as usize };
  let n_rules = rng.below(9) as usize;
  let hp = *rng.pick(&["U", "A", "P", "F", "R", "O", "C", "C+", "C<", "C>", "C#"]);
  let numeric_in: Vec<bool> = (0..n_in).map(|_| rng.chance(2, 3)).collect();
  // output components: numbers from a small pool (so that ANY / PRIORITY / aggregators have something to work on) or strings
  let numeric_out: Vec<bool> = (0..n_out).map(|_| rng.chance(3, 4)).collect();
  let out_pool = |rng: &mut Rng, numeric: bool| -> (J, Vec<String>) {
    if numeric {
      num_tree(*rng.pick(&[10, 20, 30, 40]))
    } else {
      str_tree(*rng.pick(&["lo", "hi", "mid"]))
    }
  };
  let mut ins = vec![];
  for (k, numeric) in numeric_in.iter().enumerate() {
    let (allowed, allowedtext) = if rng.chance(1, 6) {
      let n = 1 + rng.below(4) as usize;
      let (items, toks) = test_list(rng, *numeric, n);
      (json!({"n": "elist", "items": items}), toks)
    } else {
      (json!({"n": "none"}), vec![])
    };
    ins.push(json!({"name": format!("x{}", k + 1), "ty": if *numeric { "number" } else { "string" }, "allowed": allowed, "allowedtext": allowedtext}));
  }
  let mut rules = vec![];
  for _ in 0..n_rules {
    let (mut ri, mut rit, mut ro, mut rot) = (vec![], vec![], vec![], vec![]);
    for numeric in &numeric_in {
      let (t, x) = input_entry(rng, *numeric);
      ri.push(t);
      rit.push(x);
    }
    for numeric in &numeric_out {
      // mostly literals; now and then an expression over the first input
      let (t, x) = if *numeric && numeric_in[0] && rng.chance(1, 8) {
        (json!({"n": "add", "a": {"n": "name", "id": "x1"}, "b": {"n": "num", "ip": "10", "fp": "", "m": 10, "e": 0}}), vec!["x1".to_string(), "+".to_string(), "10".to_string()])
      } else {
        out_pool(rng, *numeric)
      };
      ro.push(t);
      rot.push(x);
    }
    rules.push(json!({"ins": ri, "outs": ro, "instext": rit, "outstext": rot}));
  }
  let mut outs = vec![];
  for (k, numeric) in numeric_out.iter().enumerate() {
    // output values (the priority list): for the priority policies mostly complete, otherwise now and then
    let with_prio = if hp == "P" || hp == "O" { rng.chance(5, 6) } else { rng.chance(1, 8) };
    let (mut prio, mut priotext) = (vec![], vec![]);
    if with_prio {
      let mut pool: Vec<(J, Vec<String>)> = if *numeric { [30, 10, 40, 20].iter().map(|m| num_tree(*m)).collect() } else { ["hi", "lo", "mid"].iter().map(|s| str_tree(s)).collect() };
      if rng.chance(1, 5) {
        pool.pop(); // one value missing from the list
      }
      let rot = rng.below(pool.len() as u64) as usize;
      pool.rotate_left(rot);
      for (i, (t, mut x)) in pool.into_iter().enumerate() {
        if i > 0 {
          priotext.push(",".to_string());
        }
        priotext.append(&mut x);
        prio.push(value_of(&t));
      }
    }
    let (def, deftext) = if rng.chance(1, 4) {
      let (t, x) = out_pool(rng, *numeric);
      (value_of(&t), x)
    } else {
      (json!({"k": "none"}), vec![])
    };
    outs.push(json!({"name": if n_out == 1 { String::new() } else { format!("o{}", k + 1) }, "prio": prio, "priotext": priotext, "def": def, "deftext": deftext}));
  }
  let mut inputs = vec![];
  for _ in 0..8 {
    let tuple: Vec<J> = numeric_in
      .iter()
      .map(|numeric| {
        if rng.chance(1, 25) {
          json!({"k": "null"})
        } else if *numeric {
          match rng.below(12) {
            0 => json!({"k": "num", "m": 25, "e": -1}),
            1 => json!({"k": "num", "m": 20, "e": -1}),
            2 => json!({"k": "num", "m": 300, "e": -2}),
            _ => json!({"k": "num", "m": rng.below(6) as i64, "e": 0}),
          }
        } else {
          json!({"k": "str", "cp": crate::codec::cps(*rng.pick(&["a", "b", "c", "ab", "d"]))})
        }
      })
      .collect();
    inputs.push(json!(tuple));
  }
  json!({"fam": "RANDOM", "hp": hp, "ins": ins, "outs": outs, "rules": rules, "inputs": inputs})
}

/// Loads the table as DMN XML and evaluates decision `d` for every input tuple.
pub fn run_table(t: &J) -> J {
  let xml = table_model_xml(t);
  crate::util::QUIET.with(|q| q.set(true));
  let r = std::panic::catch_unwind(std::panic::AssertUnwindSafe(|| {
    let defs = dmntk_model::parse(&xml).map_err(|e| format!("parse: {}", e))?;
    let me = dmntk_model_evaluator::ModelEvaluator::new(&defs).map_err(|e| format!("build: {}", e))?;
    let mut obs = vec![];
    for inp in t["inputs"].as_array().unwrap() {
      let mut ctx = FeelContext::default();
      for (k, i) in t["ins"].as_array().unwrap().iter().enumerate() {
        ctx.set_entry(&Name::from(i["name"].as_str().unwrap()), dec_value(&inp[k]));
      }
      obs.push(enc_value(&me.evaluate_invocable("d", &ctx)));
    }
    Ok::<Vec<J>, String>(obs)
  }));
  crate::util::QUIET.with(|q| q.set(false));
  match r {
    Ok(Ok(obs)) => json!({"table": t, "built": "ok", "obs": obs}),
    Ok(Err(e)) => json!({"table": t, "built": e, "obs": []}),
    Err(_) => json!({"table": t, "built": "panic", "obs": []}),
  }
}

pub fn check(mut ctx: Ctx, replay: Option<J>) -> ! {
  let tlc = Tlc::new(&ctx.verif, "C03");
  let quick = ctx.quick();
  let mut recs = vec![];
  if let Some(r) = &replay {
    recs.push(run_table(&r["case"]["table"]));
  } else {
    let gen = tlc.run(Run::new("Gen_C03", if quick { "Gen_C03_1.cfg" } else { "Gen_C03_3.cfg" }).timeout(3000));
    if !gen.ok {
      tool_error(&format!("Gen_C03 failed: {}", gen.error_text));
    }
    let tables = gen.tagged("TABLE");
    if tables.len() < 3000 {
      tool_error("too few tables");
    }
    for t in &tables {
      recs.push(run_table(t));
    }
    // tables drawn at random up to the full bound of the property's statement
    let mut rng = Rng::new(ctx.seed);
    let n_random = if quick { 600 } else { 12000 };
    for _ in 0..n_random {
      recs.push(run_table(&random_table(&mut rng)));
    }
    ctx.cov("random_tables", json!(n_random));
    // anti-vacuity
    let mut bad = recs.iter().find(|r| r["table"]["fam"] == "POLICY" && r["table"]["rules"].as_array().map(|a| a.len() == 2).unwrap_or(false)).cloned().unwrap_or_else(|| tool_error("no table"));
    bad["obs"][1] = json!({"k": "str", "cp": [120]});
    let out = tlc.judge("Trace_C03", "Trace_C03.cfg", &[bad], 1, 300, &[("RELAX_EMPTY_DOMAIN", "0")]);
    if !out.ok || out.rejects.is_empty() {
      tool_error("self-test failed: a wrong table result was accepted");
    }
  }
  let out = tlc.judge("Trace_C03", "Trace_C03.cfg", &recs, 12, 3000, &[("RELAX_EMPTY_DOMAIN", "0")]);
  if !out.ok {
    tool_error(&format!("Trace_C03 failed: {}", out.error_text));
  }
  let unspec: i64 = out.counters("UNSPECN").iter().sum();
  for (i, why) in &out.rejects {
    let r = &recs[*i];
    let t = &r["table"];
    let sig = format!("{}:{}:rules{}:outs{}", t["fam"].as_str().unwrap_or(""), t["hp"].as_str().unwrap_or(""), t["rules"].as_array().map(|a| a.len()).unwrap_or(0), t["outs"].as_array().map(|a| a.len()).unwrap_or(0));
    let rules: Vec<String> = t["rules"].as_array().unwrap().iter().map(|ru| format!("{} -> {}", ru["instext"], ru["outstext"])).collect();
    let obs: Vec<String> = r["obs"].as_array().map(|a| a.iter().map(|o| dec_value(o).to_string()).collect()).unwrap_or_default();
    ctx.reject(&[sig], json!({"table": t, "obs": r["obs"]}), &format!("{}: hit policy {} rules {:?} inputs {} -> {:?}", why, t["hp"], rules, t["inputs"].as_array().map(|a| a.len()).unwrap_or(0), obs).chars().take(600).collect::<String>());
  }
  let evals: u64 = recs.iter().map(|r| r["table"]["inputs"].as_array().map(|a| a.len() as u64).unwrap_or(0)).sum();
  ctx.cov("tables", json!(recs.len()));
  ctx.cov("evaluations", json!(evals));
  ctx.cov("distinct_nontrivial", json!(evals.saturating_sub(unspec as u64)));
  ctx.cov("unspecified_cases_accepted", json!(unspec));
  ctx.cov("exhaustive", json!(true));
  ctx.cov("rule", json!("one case = (decision table, input tuple); tables enumerated by TLC exhaustively over small scopes: every input-entry form x every input value (one rule); one numeric input, entries {-, 1, >= 2}, outputs {10, 20, 30}, every rule list up to the bound, every hit policy and aggregator, with/without output values and default; two output components; two inputs; plus seeded random tables of up to four inputs (numbers, strings, allowed values), three output components, eight rules with literal / comparison / interval / list / negated entries, every policy. Loaded through DMN XML. Non-trivial = the specification assigns a definite result"));
  ctx.sample(json!({"table_xml": table_model_xml(&recs[recs.len() / 2]["table"])}));
  ctx.assume("the harness's DMN XML writer renders the table faithfully");
  ctx.finish()
}
