//! C03 — decision tables return what their hit policy prescribes.

use crate::codec::{dec_value, enc_value};
use crate::tlc::{Run, Tlc};
use crate::util::{tool_error, Ctx};
use crate::xml::table_model_xml;
use dmntk_feel::context::FeelContext;
use dmntk_feel::Name;
use serde_json::{json, Value as J};

/// Loads the table as DMN XML and evaluates decision `d` for every input tuple.
pub fn run_table(t: &J) -> J {
  let xml = table_model_xml(t);
  crate::util::QUIET.with(|q| q.set(true));
  let r = std::panic::catch_unwind(std::panic::AssertUnwindSafe(|| {
    let defs = dmntk_model::parse(&xml).map_err(|e| format!("parse: {}", e))?;
    let me = dmntk_model_evaluator::ModelEvaluator::new(&defs).map_err(|e| format!("build: {}", e))?;
    let mut obs = vec![];
    for inp in t["inputs"].as_array().unwrap() {
      let mut ctx = FeelContext::default();
      for (k, i) in t["ins"].as_array().unwrap().iter().enumerate() {
        ctx.set_entry(&Name::from(i["name"].as_str().unwrap()), dec_value(&inp[k]));
      }
      obs.push(enc_value(&me.evaluate_invocable("d", &ctx)));
    }
    Ok::<Vec<J>, String>(obs)
  }));
  crate::util::QUIET.with(|q| q.set(false));
  match r {
    Ok(Ok(obs)) => json!({"table": t, "built": "ok", "obs": obs}),
    Ok(Err(e)) => json!({"table": t, "built": e, "obs": []}),
    Err(_) => json!({"table": t, "built": "panic", "obs": []}),
  }
}

pub fn check(mut ctx: Ctx, replay: Option<J>) -> ! {
  let tlc = Tlc::new(&ctx.verif, "C03");
  let quick = ctx.quick();
  let mut recs = vec![];
  if let Some(r) = &replay {
    recs.push(run_table(&r["case"]["table"]));
  } else {
    let gen = tlc.run(Run::new("Gen_C03", if quick { "Gen_C03_1.cfg" } else { "Gen_C03_3.cfg" }).timeout(3000));
    if !gen.ok {
      tool_error(&format!("Gen_C03 failed: {}", gen.error_text));
    }
    let tables = gen.tagged("TABLE");
    if tables.len() < 3000 {
      tool_error("too few tables");
    }
    for t in &tables {
      recs.push(run_table(t));
    }
    // anti-vacuity
    let mut bad = recs.iter().find(|r| r["table"]["fam"] == "POLICY" && r["table"]["rules"].as_array().map(|a| a.len() == 2).unwrap_or(false)).cloned().unwrap_or_else(|| tool_error("no table"));
    bad["obs"][1] = json!({"k": "str", "cp": [120]});
    let out = tlc.judge("Trace_C03", "Trace_C03.cfg", &[bad], 1, 300, &[("RELAX_EMPTY_DOMAIN", "0")]);
    if !out.ok || out.rejects.is_empty() {
      tool_error("self-test failed: a wrong table result was accepted");
    }
  }
  let out = tlc.judge("Trace_C03", "Trace_C03.cfg", &recs, 12, 3000, &[("RELAX_EMPTY_DOMAIN", "0")]);
  if !out.ok {
    tool_error(&format!("Trace_C03 failed: {}", out.error_text));
  }
  let unspec: i64 = out.counters("UNSPECN").iter().sum();
  for (i, why) in &out.rejects {
    let r = &recs[*i];
    let t = &r["table"];
    let sig = format!("{}:{}:rules{}:outs{}", t["fam"].as_str().unwrap_or(""), t["hp"].as_str().unwrap_or(""), t["rules"].as_array().map(|a| a.len()).unwrap_or(0), t["outs"].as_array().map(|a| a.len()).unwrap_or(0));
    let rules: Vec<String> = t["rules"].as_array().unwrap().iter().map(|ru| format!("{} -> {}", ru["instext"], ru["outstext"])).collect();
    let obs: Vec<String> = r["obs"].as_array().map(|a| a.iter().map(|o| dec_value(o).to_string()).collect()).unwrap_or_default();
    ctx.reject(&[sig], json!({"table": t, "obs": r["obs"]}), &format!("{}: hit policy {} rules {:?} inputs {} -> {:?}", why, t["hp"], rules, t["inputs"].as_array().map(|a| a.len()).unwrap_or(0), obs).chars().take(600).collect::<String>());
  }
  let evals: u64 = recs.iter().map(|r| r["table"]["inputs"].as_array().map(|a| a.len() as u64).unwrap_or(0)).sum();
  ctx.cov("tables", json!(recs.len()));
  ctx.cov("evaluations", json!(evals));
  ctx.cov("distinct_nontrivial", json!(evals.saturating_sub(unspec as u64)));
  ctx.cov("unspecified_cases_accepted", json!(unspec));
  ctx.cov("exhaustive", json!(true));
  ctx.cov("rule", json!("one case = (decision table, input tuple); tables enumerated by TLC exhaustively over small scopes: every input-entry form x every input value (one rule); one numeric input, entries {-, 1, >= 2}, outputs {10, 20, 30}, every rule list up to the bound, every hit policy and aggregator, with/without output values and default; two output components; two inputs. Loaded through DMN XML. Non-trivial = the specification assigns a definite result"));
  ctx.sample(json!({"table_xml": table_model_xml(&recs[recs.len() / 2]["table"])}));
  ctx.assume("the harness's DMN XML writer renders the table faithfully");
  ctx.finish()
}
