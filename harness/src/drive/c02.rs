//! C02 — FEEL numbers compute as IEEE 754-2008 decimal128 (34 digits, half-even).
//!
//! Operands: boundary classes enumerated by TLC (Gen_C02) crossed as the spec prescribes, plus seeded
//! random operands over the full coefficient/exponent range. Every operation is evaluated through a FEEL
//! expression with the operands bound in the scope; the result is read through hook H2 (raw decimal128
//! parts) and judged by Decimal.tla (Trace_C02).

use crate::codec::{enc_value, number_from_parts};
use crate::tlc::{Run, Tlc};
use crate::util::{tool_error, Ctx, Rng};
use dmntk_feel::values::Value;
use dmntk_feel::{Evaluator, Name, Scope};
use serde_json::{json, Value as J};
use std::collections::HashMap;

pub struct Exprs {
  evs: HashMap<&'static str, Evaluator>,
  scope: Scope,
}

const EXPRS: &[(&str, &str)] = &[
  ("add", "a + b"), ("sub", "a - b"), ("mul", "a * b"), ("div", "a / b"), ("neg", "-a"), ("abs", "abs(a)"), ("floor", "floor(a)"),
  ("ceiling", "ceiling(a)"), ("decimal", "decimal(a, n)"), ("modulo", "modulo(a, b)"), ("sqrt", "sqrt(a)"), ("powint", "a ** n"), ("pow", "a ** b"),
  ("odd", "odd(a)"), ("even", "even(a)"), ("exp", "exp(a)"), ("log", "log(a)"),
  ("lt", "a < b"), ("le", "a <= b"), ("gt", "a > b"), ("ge", "a >= b"), ("eq", "a = b"), ("ne", "a != b"),
];

impl Exprs {
  pub fn new() -> Self {
    let scope = Scope::default();
    for n in ["a", "b", "n"] {
      scope.set_entry(&Name::from(n), Value::Null(None));
    }
    let mut evs = HashMap::new();
    for (k, text) in EXPRS {
      let node = dmntk_feel_parser::parse_expression(&scope, text, false).unwrap_or_else(|e| tool_error(&format!("cannot parse `{}`: {}", text, e)));
      evs.insert(*k, dmntk_feel_evaluator::prepare(&node).unwrap_or_else(|e| tool_error(&format!("cannot prepare `{}`: {}", text, e))));
    }
    Exprs { evs, scope }
  }
  pub fn bind(&self, name: &str, v: Value) {
    self.scope.set_entry(&Name::from(name), v);
  }
  pub fn eval(&self, key: &str) -> J {
    let ev = &self.evs[key];
    crate::util::QUIET.with(|q| q.set(true));
    let r = std::panic::catch_unwind(std::panic::AssertUnwindSafe(|| ev(&self.scope)));
    crate::util::QUIET.with(|q| q.set(false));
    match r {
      Ok(v) => enc_value(&v),
      Err(_) => json!({"k": "panic"}),
    }
  }
  pub fn code(&self, key: &str) -> u8 {
    let o = self.eval(key);
    match o["k"].as_str().unwrap_or("") {
      "null" => 0,
      "bool" => {
        if o["b"] == true {
          1
        } else {
          2
        }
      }
      "panic" => 4,
      _ => 3,
    }
  }
}

pub fn num_value(j: &J) -> Value {
  let digits: Vec<u8> = j["c"].as_array().map(|a| a.iter().map(|d| d.as_u64().unwrap_or(0) as u8).collect()).unwrap_or_default();
  Value::Number(number_from_parts(j["s"].as_i64().unwrap_or(0) == 1, &digits, j["e"].as_i64().unwrap_or(0)))
}

fn int_value(n: i64) -> Value {
  Value::Number(dmntk_feel::FeelNumber::from_i128(n as i128))
}

/// Executes one stimulus {op, a, b?, n?} and returns the record with the observation.
pub fn execute(x: &Exprs, st: &J) -> J {
  let op = st["op"].as_str().unwrap_or("");
  let mut rec = st.clone();
  x.bind("a", num_value(&st["a"]));
  if st.get("b").is_some() {
    x.bind("b", num_value(&st["b"]));
  }
  if let Some(n) = st.get("n").and_then(|n| n.as_i64()) {
    x.bind("n", int_value(n));
  }
  match op {
    "repr" => {
      let what = st["what"].as_str().unwrap_or("add");
      rec["obs"] = x.eval(what);
      x.bind("a", num_value(&st["a2"]));
      x.bind("b", num_value(&st["b2"]));
      rec["obs2"] = x.eval(what);
    }
    "cmp" => {
      for k in ["lt", "le", "gt", "ge", "eq", "ne"] {
        rec[k] = json!(x.code(k));
      }
    }
    "odd" | "even" => {
      rec["code"] = json!(x.code(op));
    }
    _ => {
      rec["obs"] = x.eval(op);
    }
  }
  rec
}

fn canon(neg: bool, mut digits: Vec<u8>, mut e: i64) -> J {
  while digits.first() == Some(&0) {
    digits.remove(0);
  }
  while digits.last() == Some(&0) {
    digits.pop();
    e += 1;
  }
  if digits.is_empty() {
    json!({"s": 0, "c": [], "e": 0})
  } else {
    json!({"s": if neg { 1 } else { 0 }, "c": digits, "e": e})
  }
}

fn random_operand(rng: &mut Rng) -> J {
  let len = match rng.below(10) {
    0 => 34,
    1 => 33,
    2 => 1,
    3 => 17,
    _ => 1 + rng.below(34),
  } as usize;
  let mut digits: Vec<u8> = (0..len).map(|_| if rng.chance(1, 6) { 9 } else if rng.chance(1, 6) { 0 } else { rng.below(10) as u8 }).collect();
  if digits[0] == 0 {
    digits[0] = 1 + rng.below(9) as u8;
  }
  let e = match rng.below(10) {
    0 => -6176 + rng.below(60) as i64,
    1 => 6111 - rng.below(60) as i64,
    2 | 3 => rng.below(12288) as i64 - 6176,
    _ => rng.below(80) as i64 - 40,
  };
  let e = e.min(6144 - (len as i64 - 1)).max(-6176);
  if rng.chance(1, 40) {
    return json!({"s": 0, "c": [], "e": 0});
  }
  canon(rng.chance(1, 2), digits, e)
}

fn adj(n: &J) -> i64 {
  n["e"].as_i64().unwrap_or(0) + n["c"].as_array().map(|a| a.len() as i64).unwrap_or(0) - 1
}

/// Narrow labels for the known-findings file: operation + failure mode (+ the operand region for modulo).
fn signature(rec: &J, why: &str) -> Vec<String> {
  let op = rec["op"].as_str().unwrap_or("?");
  if why.starts_with("overflow:") {
    return vec![format!("{}:overflow-yields-non-finite", op)];
  }
  if why.starts_with("decimal(): the result needs more than 34 digits") {
    return vec!["decimal:more-than-34-digits-yields-non-finite".to_string()];
  }
  if op == "powint" && adj(&rec["a"]) < -6143 && rec["n"].as_i64().unwrap_or(0) < 0 {
    return vec!["powint:subnormal-base-negative-exponent".to_string()];
  }
  // the same defect met through the general power (the integer exponent written with an exponent of its own: -15E3)
  if op == "pow" && adj(&rec["a"]) < -6143 && rec["b"]["s"].as_i64().unwrap_or(0) == 1 && rec["b"]["e"].as_i64().unwrap_or(-1) >= 0 {
    return vec!["powint:subnormal-base-negative-exponent".to_string()];
  }
  if op == "modulo" && adj(&rec["a"]) - adj(&rec["b"]) >= 33 {
    return vec!["modulo:integer-quotient-exceeds-34-digits".to_string()];
  }
  vec![format!("{}:{}", op, why.split_whitespace().take(5).collect::<Vec<_>>().join("-"))]
}

pub fn check(mut ctx: Ctx, replay: Option<J>) -> ! {
  let tlc = Tlc::new(&ctx.verif, "C02");
  let quick = ctx.quick();
  let x = Exprs::new();
  let mut stim: Vec<J> = vec![];
  let mut n_tlc_pairs = 0usize;
  if let Some(r) = &replay {
    stim.push(r["case"]["stimulus"].clone());
  } else {
    // self-tests of the arithmetic substrate
    let st = tlc.run(Run::new("SelfTest_Bignum", "SelfTest_Bignum.cfg").timeout(600));
    if !st.ok || !st.rejects().is_empty() {
      tool_error(&format!("SelfTest_Bignum failed: {} {:?}", st.error_text, st.rejects()));
    }
    let st = tlc.run(Run::new("SelfTest_Decimal", "SelfTest_Decimal.cfg").timeout(600));
    if !st.ok || !st.rejects().is_empty() {
      tool_error(&format!("SelfTest_Decimal failed: {} {:?}", st.error_text, st.rejects()));
    }
    // the exp / ln enclosures of DecimalExp against CPython's correctly rounded exp and ln
    let text = std::fs::read_to_string(ctx.verif.join("spec/selftest/decexp_cases.ndjson")).unwrap_or_else(|e| tool_error(&format!("decexp_cases.ndjson: {}", e)));
    let cases: Vec<J> = text.lines().filter_map(|l| serde_json::from_str(l).ok()).collect();
    let take = if quick { 36 } else { cases.len() };
    if cases.len() < 100 {
      tool_error("too few exp / ln self-test cases");
    }
    let st = tlc.judge("SelfTest_DecimalExp", "SelfTest_DecimalExp.cfg", &cases[..take], 12, 1800, &[]);
    if !st.ok || !st.rejects.is_empty() {
      tool_error(&format!("SelfTest_DecimalExp failed: {} {:?}", st.error_text, st.rejects));
    }
    let text = std::fs::read_to_string(ctx.verif.join("spec/selftest/decpow_cases.ndjson")).unwrap_or_else(|e| tool_error(&format!("decpow_cases.ndjson: {}", e)));
    let cases: Vec<J> = text.lines().filter_map(|l| serde_json::from_str(l).ok()).collect();
    if cases.len() < 40 {
      tool_error("too few power self-test cases");
    }
    let take = if quick { 12 } else { cases.len() };
    let st = tlc.judge("SelfTest_DecimalExp", "SelfTest_DecimalExp.cfg", &cases[..take], 12, 1800, &[]);
    if !st.ok || !st.rejects.is_empty() {
      tool_error(&format!("SelfTest_DecimalExp (powers) failed: {} {:?}", st.error_text, st.rejects));
    }
    let gen = tlc.run(Run::new("Gen_C02", if quick { "Gen_C02.cfg" } else { "Gen_C02Deep.cfg" }).timeout(600));
    if !gen.ok {
      tool_error(&format!("Gen_C02 failed: {}", gen.error_text));
    }
    let ops = gen.tagged("OPERANDS").pop().unwrap_or_else(|| tool_error("no operands"));
    let list = |k: &str| ops[k].as_array().cloned().unwrap_or_default();
    let (core, wide, partners) = (list("core"), list("wide"), list("partners"));
    if core.len() < 50 || wide.len() < 200 {
      tool_error("operand classes too small");
    }
    for a in &core {
      for b in &core {
        for op in ["add", "sub", "mul", "div", "modulo", "cmp"] {
          stim.push(json!({"op": op, "a": a, "b": b}));
        }
      }
    }
    for a in &wide {
      for b in &partners {
        for op in ["add", "sub", "mul", "div", "cmp"] {
          stim.push(json!({"op": op, "a": a, "b": b}));
        }
        stim.push(json!({"op": "div", "a": b, "b": a}));
        stim.push(json!({"op": "modulo", "a": a, "b": b}));
      }
      for op in ["neg", "abs", "floor", "ceiling", "sqrt", "odd", "even"] {
        stim.push(json!({"op": op, "a": a}));
      }
      for n in list("scales") {
        stim.push(json!({"op": "decimal", "a": a, "n": n}));
      }
    }
    for a in list("powbases") {
      for n in list("powexps") {
        stim.push(json!({"op": "powint", "a": a, "n": n}));
      }
    }
    for a in list("trans") {
      for op in ["exp", "log", "sqrt"] {
        stim.push(json!({"op": op, "a": a}));
      }
      for b in list("trans").iter().take(12) {
        stim.push(json!({"op": "pow", "a": a, "b": b}));
      }
    }
    // inexact powers, judged by the enclosure of e^(b ln a) (DecimalExp!AcceptPow)
    let pairs = gen.tagged("POWPAIRS").pop().and_then(|p| p.as_array().cloned()).unwrap_or_else(|| tool_error("no power pairs"));
    if pairs.len() < 50 {
      tool_error("too few power pairs");
    }
    for p in &pairs {
      stim.push(json!({"op": "pow", "a": p[0], "b": p[1]}));
    }
    ctx.cov("inexact_power_pairs_from_tlc", json!(pairs.len()));
    n_tlc_pairs = pairs.len();
    for a in list("transfine") {
      for op in ["exp", "log"] {
        stim.push(json!({"op": op, "a": a}));
      }
    }
    // representation independence: operands of equal value but different scale (trailing zeros in the
    // coefficient against a larger exponent) must give results of equal value
    let pad = |n: &J, k: usize| -> Option<J> {
      let c = n["c"].as_array()?.clone();
      if c.is_empty() || c.len() + k > 34 {
        return None;
      }
      let mut c2 = c;
      c2.extend(std::iter::repeat(json!(0)).take(k));
      Some(json!({"s": n["s"], "c": c2, "e": n["e"].as_i64()? - k as i64}))
    };
    let digits = |s: &str| -> Vec<u8> { s.bytes().map(|b| b - b'0').collect() };
    let bases = [json!({"s": 0, "c": digits("1000000123456789012345678901234567"), "e": -33}), json!({"s": 0, "c": digits("9999999"), "e": -7}), json!({"s": 0, "c": digits("10000001"), "e": -7}), json!({"s": 0, "c": [2], "e": 0}), json!({"s": 1, "c": [1, 5], "e": -1})];
    for base in &bases {
      for (c, e) in [(vec![1u8], 5i64), (vec![1], 6), (vec![2, 5], 4), (vec![1], 3), (vec![3], 1), (vec![7], 2)] {
        let reduced = json!({"s": 0, "c": c, "e": e});
        if let Some(plain) = pad(&reduced, e as usize) {
          stim.push(json!({"op": "repr", "what": "pow", "a": base, "b": plain, "a2": base, "b2": reduced}));
        }
      }
    }
    let mut n_repr = 0;
    for (i, a) in wide.iter().enumerate() {
      let b = &partners[i % partners.len()];
      for (k, op) in ["add", "sub", "mul", "div"].iter().enumerate() {
        if let (Some(a2), Some(b2)) = (pad(a, 1 + (i + k) % 3), pad(b, 1 + (i + 2 * k) % 4)) {
          stim.push(json!({"op": "repr", "what": op, "a": a, "b": b, "a2": a2, "b2": b2}));
          n_repr += 1;
        }
      }
    }
    ctx.cov("representation_pairs", json!(n_repr + 30));
    ctx.cov("generated_by_tlc", json!(stim.len()));
    // seeded random operands
    let mut rng = Rng::new(ctx.seed);
    let n_rand = if quick { 20000 } else { 400000 };
    for _ in 0..n_rand {
      let a = random_operand(&mut rng);
      let b = if rng.chance(1, 5) {
        // near-cancellation / same magnitude partner
        let mut b = a.clone();
        b["s"] = json!(1 - a["s"].as_i64().unwrap_or(0));
        if let Some(c) = b["c"].as_array_mut() {
          if let Some(last) = c.last_mut() {
            *last = json!((last.as_u64().unwrap_or(1) % 9) + 1);
          }
        }
        b
      } else {
        random_operand(&mut rng)
      };
      let op = *rng.pick(&["add", "sub", "mul", "div", "modulo", "cmp", "sqrt", "floor", "ceiling", "decimal", "powint", "neg", "abs", "odd", "even"]);
      let mut s = json!({"op": op, "a": a, "b": b});
      if op == "decimal" {
        s["n"] = json!(rng.below(40) as i64 - 4);
      }
      if op == "powint" {
        s["n"] = json!(rng.below(9) as i64 - 3);
      }
      stim.push(s);
    }
    ctx.cov("random_tuples", json!(n_rand));
  }
  // exp and log are costly to judge (enclosures): spread them evenly so that the shards of the judge stay balanced
  if replay.is_none() {
    // (a power needs the enclosure only for a base other than 0, 1, -1 and a non-zero exponent; in the quick tier
    // every sixth of the crossed `trans` pairs of that kind is kept - the TLC-chosen power pairs are all kept)
    let is_one = |n: &J| n["e"] == 0 && n["c"].as_array().map(|c| c.len() == 1 && c[0] == 1).unwrap_or(false);
    let nonzero = |n: &J| n["c"].as_array().map(|c| !c.is_empty()).unwrap_or(false);
    let costly_pow = |s: &J| s["op"] == "pow" && nonzero(&s["a"]) && !is_one(&s["a"]) && nonzero(&s["b"]);
    let n_pairs = stim.iter().filter(|s| costly_pow(s)).count();
    let first_pair = stim.iter().position(|s| costly_pow(s)).unwrap_or(0);
    let mut seen = 0usize;
    let crossed = n_pairs.saturating_sub(n_tlc_pairs);
    if quick {
      let mut k = 0usize;
      stim = stim.drain(..).enumerate().filter(|(i, s)| {
        if *i >= first_pair && costly_pow(s) && seen < crossed {
          seen += 1;
          k += 1;
          k % 6 == 0
        } else {
          true
        }
      }).map(|(_, s)| s).collect();
    }
    ctx.cov("inexact_powers_judged_by_enclosure", json!(stim.iter().filter(|s| costly_pow(s)).count()));
    // the judge cuts the records into 12 contiguous shards: deal the costly ones round-robin (powers first, they cost
    // about five times an exp / log), then fill every shard up with the cheap ones
    let (mut slow, rest): (Vec<J>, Vec<J>) = stim.drain(..).partition(|s| s["op"] == "exp" || s["op"] == "log" || costly_pow(s));
    slow.sort_by_key(|s| if s["op"] == "pow" { 0 } else { 1 });
    let shards = 12usize;
    let n = slow.len() + rest.len();
    let per = (n + shards - 1) / shards;
    let mut buckets: Vec<Vec<J>> = (0..shards).map(|_| vec![]).collect();
    for (k, s) in slow.into_iter().enumerate() {
      buckets[k % shards].push(s);
    }
    let mut rest = rest.into_iter();
    for b in buckets.iter_mut() {
      while b.len() < per {
        match rest.next() {
          Some(s) => b.push(s),
          None => break,
        }
      }
    }
    for b in buckets {
      stim.extend(b);
    }
    stim.extend(rest);
  }
  let recs: Vec<J> = stim.iter().map(|s| execute(&x, s)).collect();
  // anti-vacuity: a result off by one unit in the last place must be rejected
  if replay.is_none() {
    let a = json!({"s": 0, "c": [1], "e": 0});
    let b = json!({"s": 0, "c": [3], "e": 0});
    let mut bad = execute(&x, &json!({"op": "div", "a": a, "b": b}));
    if let Some(c) = bad["obs"]["c"].as_array_mut() {
      let last = c.len() - 1;
      c[last] = json!(4);
    }
    let out = tlc.judge("Trace_C02", "Trace_C02.cfg", &[bad], 1, 300, &[]);
    if !out.ok || out.rejects.is_empty() {
      tool_error("self-test failed: a result off by one ulp was accepted");
    }
  }
  let out = tlc.judge("Trace_C02", "Trace_C02.cfg", &recs, 12, 3000, &[]);
  if !out.ok {
    tool_error(&format!("Trace_C02 failed: {}", out.error_text));
  }
  let unspec = out.counters("UNSPEC").len();
  for (i, why) in &out.rejects {
    let r = &recs[*i];
    let show = |n: &J| crate::codec::plain_or_sci(n);
    let text = format!("{} a={} b={} n={} -> {} : {}", r["op"], show(&r["a"]), show(&r["b"]), r["n"], show(&r["obs"]), why);
    ctx.reject(&signature(r, why), json!({"stimulus": stim[*i], "record": r}), &text);
  }
  let n = recs.len() as u64;
  ctx.cov("evaluations", json!(n));
  ctx.cov("distinct_nontrivial", json!(n - unspec as u64));
  ctx.cov("unspecified_cases_accepted", json!(unspec));
  ctx.cov("rule", json!("one case = (operation, operand tuple); TLC-enumerated boundary classes crossed (core x core for all binary operators, wide x tie/cancellation partners, wide for unary operations and decimal scales, integer powers) plus seeded random operands over 1..34 digits and exponents -6176..6111; non-trivial = the specification demands a definite answer (not the subnormal/unspecified region)"));
  ctx.sample(json!(recs.get(recs.len() / 2)));
  ctx.sample(json!(recs.get(7)));
  ctx.assume("hook H2 (decQuadToBCD) reports the raw coefficient/exponent of results; operands are constructed with decQuadFromString from at most 34 digits (exact)");
  ctx.assume("exp, log and inexact powers are judged by rigorous enclosures computed in TLA+ with natural-number arithmetic (DecimalExp.tla: 80 digits); results in the subnormal range or at the overflow edge are unspecified");
  ctx.finish()
}
