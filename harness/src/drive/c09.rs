//! C09 — three-valued logic, equality and ordering obey their laws on all values.
//!
//! TLC emits the value alphabet (Gen_C09); the harness evaluates every operator on every ordered
//! pair and every range/between form on every triple, with the operands bound in the scope, and
//! writes the observation table; Trace_C09 evaluates the laws over the observations.

use crate::codec::dec_value;
use crate::tlc::{Run, Tlc};
use crate::util::{tool_error, Ctx, Rng};
use dmntk_feel::values::Value;
use dmntk_feel::{Evaluator, FeelNumber, Name, Scope};
use serde_json::{json, Value as J};

const PAIR_OPS: &[(&str, &str)] = &[("eq", "a = b"), ("ne", "a != b"), ("lt", "a < b"), ("le", "a <= b"), ("gt", "a > b"), ("ge", "a >= b"), ("and", "a and b"), ("or", "a or b")];
const TRIPLE_OPS: &[(&str, &str)] = &[
  ("btw", "x between a and b"),
  ("in_cc", "x in [a..b]"),
  ("in_oo", "x in (a..b)"),
  ("in_co", "x in [a..b)"),
  ("in_oc", "x in (a..b]"),
  ("cmp_cc", "a <= x and x <= b"),
  ("cmp_oo", "a < x and x < b"),
  ("cmp_co", "a <= x and x < b"),
  ("cmp_oc", "a < x and x <= b"),
];

fn prepare(text: &str) -> Evaluator {
  let scope = Scope::default();
  for n in ["a", "b", "x"] {
    scope.set_entry(&Name::from(n), Value::Null(None));
  }
  let node = dmntk_feel_parser::parse_expression(&scope, text, false).unwrap_or_else(|e| tool_error(&format!("cannot parse `{}`: {}", text, e)));
  dmntk_feel_evaluator::prepare(&node).unwrap_or_else(|e| tool_error(&format!("cannot prepare `{}`: {}", text, e)))
}

fn code(ev: &Evaluator, scope: &Scope) -> u8 {
  crate::util::QUIET.with(|q| q.set(true));
  let r = std::panic::catch_unwind(std::panic::AssertUnwindSafe(|| ev(scope)));
  crate::util::QUIET.with(|q| q.set(false));
  match r {
    Ok(Value::Null(_)) => 0,
    Ok(Value::Boolean(true)) => 1,
    Ok(Value::Boolean(false)) => 2,
    Ok(_) => 3,
    Err(_) => 4,
  }
}

pub fn value_of(j: &J) -> Value {
  match j["k"].as_str().unwrap_or("") {
    "fn" => {
      let scope = Scope::default();
      let node = dmntk_feel_parser::parse_expression(&scope, "function(q) q", false).unwrap_or_else(|e| tool_error(&format!("{}", e)));
      dmntk_feel_evaluator::evaluate(&scope, &node).unwrap_or_else(|e| tool_error(&format!("{}", e)))
    }
    "num" if j["scale"].as_i64().unwrap_or(0) > 0 => {
      let sc = j["scale"].as_i64().unwrap();
      let mut digits: Vec<u8> = j["c"].as_array().unwrap().iter().map(|d| d.as_u64().unwrap() as u8).collect();
      for _ in 0..sc {
        digits.push(0);
      }
      Value::Number(crate::codec::number_from_parts(j["s"].as_i64().unwrap_or(0) == 1, &digits, j["e"].as_i64().unwrap_or(0) - sc))
    }
    "null" if j.get("why").is_some() => Value::Null(Some(j["why"].as_str().unwrap_or("").to_string())),
    _ => dec_value(j),
  }
}

/// Observation table of an alphabet.
pub fn observe(alphabet: &[J]) -> J {
  let values: Vec<Value> = alphabet.iter().map(value_of).collect();
  let n = values.len();
  let (na, nb, nx) = (Name::from("a"), Name::from("b"), Name::from("x"));
  let mut o = serde_json::Map::new();
  o.insert("n".into(), json!(n));
  o.insert("kind".into(), json!(alphabet.iter().map(|v| v["k"].clone()).collect::<Vec<_>>()));
  o.insert("bval".into(), json!(alphabet.iter().map(|v| if v["k"] == "bool" { if v["b"] == true { 1 } else { 2 } } else { 0 }).collect::<Vec<_>>()));
  let scope = Scope::default();
  for (key, text) in PAIR_OPS {
    let ev = prepare(text);
    let mut m = vec![];
    for a in &values {
      let mut row = vec![];
      scope.set_entry(&na, a.clone());
      for b in &values {
        scope.set_entry(&nb, b.clone());
        row.push(code(&ev, &scope));
      }
      m.push(row);
    }
    o.insert(key.to_string(), json!(m));
  }
  for (key, text) in TRIPLE_OPS {
    let ev = prepare(text);
    let mut cube = vec![];
    for x in &values {
      scope.set_entry(&nx, x.clone());
      let mut m = vec![];
      for a in &values {
        scope.set_entry(&na, a.clone());
        let mut row = vec![];
        for b in &values {
          scope.set_entry(&nb, b.clone());
          row.push(code(&ev, &scope));
        }
        m.push(row);
      }
      cube.push(m);
    }
    o.insert(key.to_string(), json!(cube));
  }
  J::Object(o)
}

fn random_pool(rng: &mut Rng, kind: &str, n: usize) -> Vec<J> {
  let mut out = vec![];
  for _ in 0..n {
    out.push(match kind {
      "num" => {
        let maxlen = if rng.chance(1, 3) { 34 } else { 4 };
        let len = 1 + rng.below(maxlen) as usize;
        let mut c: Vec<u8> = (0..len).map(|_| rng.below(10) as u8).collect();
        while c.first() == Some(&0) {
          c.remove(0);
        }
        while c.last() == Some(&0) {
          c.pop();
        }
        let e = if rng.chance(1, 4) { rng.below(80) as i64 - 40 } else { rng.below(5) as i64 - 2 };
        if c.is_empty() {
          json!({"k": "num", "s": 0, "c": [], "e": 0, "scale": rng.below(3)})
        } else {
          json!({"k": "num", "s": rng.below(2), "c": c, "e": e, "scale": rng.below(3)})
        }
      }
      "str" => {
        let alphabet = [97u32, 98, 65, 32, 233, 0x1D11E, 49, 122];
        let len = rng.below(4) as usize;
        json!({"k": "str", "cp": (0..len).map(|_| *rng.pick(&alphabet)).collect::<Vec<_>>()})
      }
      "time" | "dt" => {
        // readings of one zone (UTC, or one of two offsets), hours and minutes from small pools so that many pairs differ
        // in the seconds or in the fraction of a second only
        let (zk, off) = match rng.below(3) {
          0 => ("utc", 0),
          1 => ("offset", 3600),
          _ => ("offset", -19800),
        };
        let ns = match rng.below(4) {
          0 => 0,
          1 => 500_000_000,
          2 => 1,
          _ => rng.below(1_000_000_000),
        };
        let t = json!({"k": "time", "h": *rng.pick(&[0u64, 6, 10, 22, 23]), "mi": *rng.pick(&[0u64, 30, 59]), "s": *rng.pick(&[0u64, 1, 59]), "ns": ns, "zk": zk, "off": off, "zn": ""});
        if kind == "time" {
          t
        } else {
          json!({"k": "dt", "date": {"k": "date", "y": 2021, "m": *rng.pick(&[1u64, 12]), "d": *rng.pick(&[1u64, 2, 31])}, "time": t})
        }
      }
      _ => {
        // also years that print with a sign or with more than four digits
        let y = match rng.below(10) {
          0 | 1 => rng.below(9999) as i64 + 1,
          2 => -(rng.below(9999) as i64 + 1),
          3 => 10000 + rng.below(250000) as i64,
          4 => -(10000 + rng.below(250000) as i64),
          _ => 1990 + rng.below(40) as i64,
        };
        let m = 1 + rng.below(12);
        let d = 1 + rng.below(28);
        json!({"k": "date", "y": y, "m": m, "d": d})
      }
    });
  }
  out
}

fn describe(v: &J) -> String {
  match v["k"].as_str().unwrap_or("") {
    "fn" => "function(q) q".to_string(),
    _ => {
      let val = value_of(v);
      format!("{}", val)
    }
  }
}

pub fn check(mut ctx: Ctx, replay: Option<J>) -> ! {
  let tlc = Tlc::new(&ctx.verif, "C09");
  let quick = ctx.quick();
  let mut alphabets: Vec<(String, Vec<J>)> = vec![];
  if let Some(r) = replay {
    let vals = r["case"]["values"].as_array().cloned().unwrap_or_default();
    alphabets.push(("replay".into(), vals));
  } else {
    let gen = tlc.run(Run::new("Gen_C09", if quick { "Gen_C09.cfg" } else { "Gen_C09Wide.cfg" }).timeout(300));
    if !gen.ok {
      tool_error(&format!("Gen_C09 failed: {}", gen.error_text));
    }
    let alpha = gen.tagged("ALPHABET").pop().and_then(|a| a.as_array().cloned()).unwrap_or_else(|| tool_error("no alphabet"));
    if alpha.len() < 30 {
      tool_error("alphabet too small");
    }
    alphabets.push(("alphabet".into(), alpha));
    let mut rng = Rng::new(ctx.seed);
    let n = if quick { 22 } else { 40 };
    for kind in ["num", "str", "date", "time", "dt"] {
      alphabets.push((format!("random-{}", kind), random_pool(&mut rng, kind, n)));
    }
  }
  let mut pairs = 0u64;
  let mut triples = 0u64;
  // anti-vacuity: a table with one flipped cell must be reported
  {
    let mut t = observe(&alphabets[0].1);
    let cur = t["eq"][0][1].as_u64().unwrap_or(0);
    t["eq"][0][1] = json!(if cur == 1 { 2 } else { 1 });
    let f = tlc.write_ndjson("obs_corrupt.ndjson", &[t]);
    let out = tlc.run(Run::new("Trace_C09", "Trace_C09.cfg").env("TRACE", &f.to_string_lossy()).timeout(600).tag("_corrupt"));
    if !out.ok || out.tagged("LAWFAIL").is_empty() {
      tool_error(&format!("self-test failed: a corrupted observation table passed the laws: {}", out.error_text));
    }
  }
  for (name, alpha) in &alphabets {
    let table = observe(alpha);
    let n = alpha.len() as u64;
    pairs += n * n;
    triples += n * n * n;
    let f = tlc.write_ndjson(&format!("obs_{}.ndjson", name), &[table.clone()]);
    let out = tlc.run(Run::new("Trace_C09", "Trace_C09.cfg").env("TRACE", &f.to_string_lossy()).timeout(1800).tag(&format!("_{}", name)));
    if !out.ok || out.counters("LAWS-EVALUATED").is_empty() {
      tool_error(&format!("Trace_C09 failed on {}: {}", name, out.error_text));
    }
    for fail in out.tagged("LAWFAIL") {
      let law = fail["law"].as_str().unwrap_or("?").to_string();
      let (i, j, x) = (fail["i"].as_u64().unwrap_or(0) as usize, fail["j"].as_u64().unwrap_or(0) as usize, fail["x"].as_u64().unwrap_or(0) as usize);
      let a = &alpha[i - 1];
      let b = &alpha[j - 1];
      let mut vals = vec![a.clone(), b.clone()];
      let mut text = format!("law `{}` fails for a = {}, b = {}", law, describe(a), describe(b));
      if x > 0 {
        vals.push(alpha[x - 1].clone());
        text.push_str(&format!(", x = {}", describe(&alpha[x - 1])));
      }
      // signature: the law and the kinds involved (unordered for symmetric laws)
      let mut kinds = vec![a["k"].as_str().unwrap_or("").to_string(), b["k"].as_str().unwrap_or("").to_string()];
      kinds.sort();
      let sig = format!("{}:{}-{}", law, kinds[0], kinds[1]);
      ctx.reject(&[sig], json!({"law": law, "values": vals}), &text);
    }
    if name == "alphabet" {
      ctx.sample(json!({"alphabet": alpha.iter().map(describe).collect::<Vec<_>>()}));
      ctx.cov("alphabet_size", json!(n));
    }
  }
  ctx.cov("states", json!(alphabets.len()));
  ctx.cov("transitions", json!(pairs + triples));
  ctx.cov("traces_validated_against_impl", json!(alphabets.len()));
  ctx.cov("evaluations", json!(pairs * 8 + triples * 9));
  ctx.cov("distinct_nontrivial", json!(pairs + triples));
  ctx.cov("ordered_pairs", json!(pairs));
  ctx.cov("ordered_triples", json!(triples));
  ctx.cov("exhaustive", json!(true));
  ctx.cov("rule", json!("all ordered pairs (8 operators) and all ordered triples (9 between/in/comparison forms) of the TLC-emitted alphabet and of seeded random pools of numbers, strings and dates; a case is one pair or triple; the laws are evaluated by TLC over the table of observed results"));
  ctx.assume("operands are bound in the scope as values (not parsed from text)");
  let _ = FeelNumber::zero();
  ctx.finish()
}
