//! C11 — typed inputs and outputs: conforming values pass unchanged, others become null.

use crate::codec::{dec_value, enc_value};
use crate::tlc::{Run, Tlc};
use crate::util::{tool_error, Ctx};
use crate::xml::{esc, DMN_NS};
use dmntk_feel::context::FeelContext;
use dmntk_feel::values::Value;
use dmntk_feel::Name;
use serde_json::{json, Value as J};

/// FEEL text that evaluates to the value (None when the value has no literal form).
fn literal(v: &Value) -> Option<String> {
  Some(match v {
    Value::Null(_) => "null".to_string(),
    Value::Boolean(b) => b.to_string(),
    Value::Number(n) => n.to_string(),
    Value::String(s) => format!("\"{}\"", s.replace('\\', "\\\\").replace('"', "\\\"")),
    Value::Date(d) => format!("date(\"{}\")", d),
    Value::Time(t) => format!("time(\"{}\")", t),
    Value::DateTime(d) => format!("date and time(\"{}\")", d),
    Value::DaysAndTimeDuration(d) => format!("duration(\"{}\")", d),
    Value::YearsAndMonthsDuration(d) => format!("duration(\"{}\")", d),
    Value::List(items) => format!("[{}]", items.as_vec().iter().map(literal).collect::<Option<Vec<_>>>()?.join(", ")),
    Value::Context(c) => format!("{{{}}}", c.iter().map(|(k, v)| literal(v).map(|t| format!("{}: {}", k, t))).collect::<Option<Vec<_>>>()?.join(", ")),
    _ => return None,
  })
}

/// `variant` spells the same item definitions differently: bit 0 - written top-down (every reference points forward in
/// the document), bit 1 - the allowed values carry the expressionLanguage attribute with the FEEL URI of DMN 1.2,
/// bit 2 - the item definitions are named like built-in types written with other capitals (Date, String, Number, ..),
/// bit 3 - the decision logic itself carries typeRef="boolean" (the declared type of a result is the output VARIABLE's),
/// bit 4 - every number among the values is written with two fraction digits (handled in run_variant).
fn model_xml(t: &J, values: &[Value], direct: bool, variant: u64) -> (String, Vec<bool>) {
  let (mut defs, top) = crate::xml::item_definitions_xml_named(t, variant & 1 == 1, variant & 4 == 4);
  if variant & 2 == 2 {
    defs = defs.replace("<allowedValues>", "<allowedValues expressionLanguage=\"https://www.omg.org/spec/DMN/20180521/FEEL/\">");
  }
  let type_ref = if direct { t["ty"].as_str().unwrap().to_string() } else { top };
  let mut s = format!("<?xml version=\"1.0\" encoding=\"UTF-8\"?>\n<definitions xmlns=\"{}\" namespace=\"ns\" name=\"m\" id=\"M\">{}", DMN_NS, defs);
  s.push_str(&format!("<inputData name=\"x\" id=\"i_x\"><variable name=\"x\" typeRef=\"{}\"/></inputData>", type_ref));
  s.push_str("<decision name=\"echo\" id=\"d_echo\"><variable name=\"echo\"/><informationRequirement><requiredInput href=\"#i_x\"/></informationRequirement><literalExpression><text>x</text></literalExpression></decision>");
  let mut has = vec![];
  for (k, v) in values.iter().enumerate() {
    if let Some(text) = literal(v) {
      s.push_str(&format!("<decision name=\"out{k}\" id=\"d_out{k}\"><variable name=\"out{k}\" typeRef=\"{ty}\"/><literalExpression><text>{text}</text></literalExpression></decision>", k = k, ty = type_ref, text = esc(&text)));
      // the same declared type on a knowledge model: evaluated by name, through a boxed invocation and through a FEEL call
      // from decisions whose own variables are untyped
      s.push_str(&format!("<businessKnowledgeModel name=\"bk{k}\" id=\"b_bk{k}\"><variable name=\"bk{k}\" typeRef=\"{ty}\"/><encapsulatedLogic><literalExpression><text>{text}</text></literalExpression></encapsulatedLogic></businessKnowledgeModel>", k = k, ty = type_ref, text = esc(&text)));
      s.push_str(&format!("<decision name=\"inv{k}\" id=\"d_inv{k}\"><variable name=\"inv{k}\"/><knowledgeRequirement><requiredKnowledge href=\"#b_bk{k}\"/></knowledgeRequirement><invocation><literalExpression><text>bk{k}</text></literalExpression></invocation></decision>", k = k));
      s.push_str(&format!("<decision name=\"call{k}\" id=\"d_call{k}\"><variable name=\"call{k}\"/><knowledgeRequirement><requiredKnowledge href=\"#b_bk{k}\"/></knowledgeRequirement><literalExpression><text>bk{k}()</text></literalExpression></decision>", k = k));
      has.push(true);
    } else {
      has.push(false);
    }
  }
  if variant & 8 == 8 {
    s = s.replace("<literalExpression><text>", "<literalExpression typeRef=\"boolean\"><text>");
  }
  s.push_str("</definitions>");
  (s, has)
}

pub fn run_case(case: &J, direct: bool) -> J {
  run_variant(case, direct, 0)
}

pub fn run_variant(case: &J, direct: bool, variant: u64) -> J {
  let t = &case["ty"];
  let vals_j: Vec<J> = case["vals"].as_array().cloned().unwrap_or_default();
  let mut values: Vec<Value> = vals_j.iter().map(dec_value).collect();
  if variant & 16 == 16 {
    // the same values with every number written with two fraction digits (1 as 1.00): equal numbers, another scale
    fn scaled(v: &Value) -> Value {
      match v {
        Value::Number(n) => Value::Number(dmntk_feel::FeelNumber::from_string(&format!("{}{}", n, if n.to_string().contains('.') { "00" } else { ".00" }))),
        Value::List(items) => Value::List(dmntk_feel::values::Values::new(items.as_vec().iter().map(scaled).collect())),
        Value::Context(c) => {
          let mut o = FeelContext::default();
          for (k, x) in c.iter() {
            o.set_entry(k, scaled(x));
          }
          Value::Context(o)
        }
        other => other.clone(),
      }
    }
    values = values.iter().map(scaled).collect();
  }
  let (xml, has) = model_xml(t, &values, direct, variant);
  crate::util::QUIET.with(|q| q.set(true));
  let r = std::panic::catch_unwind(std::panic::AssertUnwindSafe(|| {
    let defs = dmntk_model::parse(&xml).map_err(|e| format!("parse: {}", e))?;
    let me = dmntk_model_evaluator::ModelEvaluator::new(&defs).map_err(|e| format!("build: {}", e))?;
    let mut inp = vec![];
    let mut out = vec![];
    let mut bkm = vec![];
    for (k, v) in values.iter().enumerate() {
      let mut ctx = FeelContext::default();
      ctx.set_entry(&Name::from("x"), v.clone());
      inp.push(enc_value(&me.evaluate_invocable("echo", &ctx)));
      out.push(if has[k] { enc_value(&me.evaluate_invocable(&format!("out{}", k), &FeelContext::default())) } else { json!({"k": "skipped"}) });
      bkm.push(if has[k] {
        json!([enc_value(&me.evaluate_invocable(&format!("bk{}", k), &FeelContext::default())), enc_value(&me.evaluate_invocable(&format!("inv{}", k), &FeelContext::default())), enc_value(&me.evaluate_invocable(&format!("call{}", k), &FeelContext::default()))])
      } else {
        json!([])
      });
    }
    Ok::<(Vec<J>, Vec<J>, Vec<J>), String>((inp, out, bkm))
  }));
  crate::util::QUIET.with(|q| q.set(false));
  // the values as the harness encodes them (what "unchanged" is compared with)
  let venc: Vec<J> = values.iter().map(enc_value).collect();
  match r {
    Ok(Ok((inp, out, bkm))) => json!({"ty": t, "vals": venc, "direct": direct, "variant": variant, "built": "ok", "inp": inp, "out": out, "bkm": bkm}),
    Ok(Err(e)) => json!({"ty": t, "vals": venc, "direct": direct, "variant": variant, "built": e, "inp": [], "out": [], "bkm": []}),
    Err(_) => json!({"ty": t, "vals": venc, "direct": direct, "variant": variant, "built": "panic", "inp": [], "out": [], "bkm": []}),
  }
}

fn shape(t: &J) -> String {
  match t["d"].as_str().unwrap_or("") {
    "simple" => format!("{}{}", t["ty"].as_str().unwrap_or(""), if t["av"] == "none" { "" } else { "+av" }),
    "ref" => format!("ref({})", shape(&t["to"])),
    "comp" => format!("comp({})", t["cs"].as_array().unwrap().iter().map(|c| shape(&c["ty"])).collect::<Vec<_>>().join(",")),
    _ => format!("coll({})", shape(&t["of"])),
  }
}

pub fn check(mut ctx: Ctx, replay: Option<J>) -> ! {
  let tlc = Tlc::new(&ctx.verif, "C11");
  let quick = ctx.quick();
  let mut recs = vec![];
  if let Some(r) = &replay {
    let c = &r["case"];
    recs.push(run_variant(&json!({"ty": c["ty"], "vals": c["vals_spec"]}), c["direct"].as_bool().unwrap_or(false), c["variant"].as_u64().unwrap_or(0)));
  } else {
    let gen = tlc.run(Run::new("Gen_C11", if quick { "Gen_C11.cfg" } else { "Gen_C11Deep.cfg" }).timeout(1200));
    if !gen.ok {
      tool_error(&format!("Gen_C11 failed: {}", gen.error_text));
    }
    let cases = gen.tagged("CASE");
    if cases.len() < 40 {
      tool_error("too few item definition trees");
    }
    for (k, c) in cases.iter().enumerate() {
      recs.push(run_case(c, false));
      // the same definitions spelled differently (order of the definitions, expressionLanguage of the allowed values)
      if c["ty"]["d"] != "simple" || c["ty"]["av"] != "none" {
        recs.push(run_variant(c, false, 1 + (k as u64 % 3)));
        recs.push(run_variant(c, false, 4 + (k as u64 % 2)));
      }
      recs.push(run_variant(c, false, if k % 2 == 0 { 8 } else { 16 }));
      if k % 3 == 0 {
        recs.push(run_variant(c, false, 24));
      }
      if c["ty"]["d"] == "simple" && c["ty"]["av"] == "none" {
        recs.push(run_case(c, true)); // the built-in type name used directly as typeRef
      }
    }
    let mut bad = recs[0].clone();
    bad["inp"][0] = json!({"k": "str", "cp": [113]});
    let out = tlc.judge("Trace_C11", "Trace_C11.cfg", &[bad], 1, 300, &[("RELAX_EMPTY_DOMAIN", "0")]);
    if !out.ok || out.rejects.is_empty() {
      tool_error("self-test failed: a wrong admitted value was accepted");
    }
  }
  let out = tlc.judge("Trace_C11", "Trace_C11.cfg", &recs, 8, 3000, &[("RELAX_EMPTY_DOMAIN", "0")]);
  if !out.ok {
    tool_error(&format!("Trace_C11 failed: {}", out.error_text));
  }
  let bads: Vec<J> = out.lines.iter().filter_map(|l| l.strip_prefix("<<\"BAD\", ")).filter_map(|r| r.split_once(", \"")).map(|(_, b)| serde_json::from_str(&crate::tlc::unescape_tla(b.trim_end_matches("\">>"))).unwrap_or(J::Null)).collect();
  for (k, (i, why)) in out.rejects.iter().enumerate() {
    let r = &recs[*i];
    let mut detail = String::new();
    if let Some(b) = bads.get(k) {
      for (side, key) in [("inp", "inp"), ("out", "out")] {
        for ix in b[side].as_array().cloned().unwrap_or_default() {
          let ix = ix.as_u64().unwrap_or(1) as usize - 1;
          detail.push_str(&format!(" [{} {} -> {}]", side, dec_value(&r["vals"][ix]), dec_value(&r[key][ix])));
        }
      }
    }
    let sig = format!("{}:{}{}", if why.contains("input") { "input" } else if why.contains("result") { "output" } else { "load" }, shape(&r["ty"]), if r["direct"] == true { ":direct" } else { "" });
    ctx.reject(&[sig], json!({"ty": r["ty"], "vals_spec": r["vals"], "direct": r["direct"], "variant": r["variant"], "inp": r["inp"], "out": r["out"]}), &format!("{} : type {}{}", why, shape(&r["ty"]), detail).chars().take(700).collect::<String>());
  }
  let evals: u64 = recs.iter().map(|r| 2 * r["vals"].as_array().map(|a| a.len() as u64).unwrap_or(0)).sum();
  ctx.cov("type_trees", json!(recs.len()));
  ctx.cov("evaluations", json!(evals));
  ctx.cov("distinct_nontrivial", json!(evals));
  ctx.cov("exhaustive", json!(true));
  ctx.cov("rule", json!("one case = (item definition tree, value, side); trees to depth 3 (simple with/without allowed values, referenced, component, collection-of) used as the type of an input data (echo decision) and of an output variable; values: for every tree a conforming value, a violation at every position of the tree (wrong kind, disallowed value, non-list, bad element, missing/extra component) and one value of every FEEL kind"));
  ctx.sample(json!({"type": shape(&recs[recs.len() / 2]["ty"])}));
  ctx.assume("the harness XML writer renders item definitions faithfully; output-side values are written as FEEL literals");
  ctx.finish()
}
