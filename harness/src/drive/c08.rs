//! C08 — built-in functions return their specified value for all arguments.

use crate::codec::{dec_value, enc_value};
use crate::tlc::{Run, Tlc};
use crate::util::{tool_error, Ctx, Rng};
use dmntk_feel::values::Value;
use dmntk_feel::{Name, Scope};
use serde_json::{json, Value as J};

/// Parameter names of DMN 1.3 10.3.4 (the same table as Bif!ParamNames).
fn param_names(f: &str) -> &'static [&'static str] {
  match f {
    "substring" => &["string", "start position", "length"],
    "string length" => &["string"],
    "contains" | "starts with" | "ends with" | "substring before" | "substring after" => &["string", "match"],
    "count" | "min" | "max" | "sum" | "mean" | "median" | "mode" | "stddev" | "all" | "reverse" | "distinct values" | "flatten" => &["list"],
    "sublist" => &["list", "start position", "length"],
    "insert before" => &["list", "position", "newItem"],
    "remove" => &["list", "position"],
    "index of" => &["list", "match"],
    "list contains" => &["list", "element"],
    "get value" => &["m", "key"],
    "get entries" => &["m"],
    "not" => &["negand"],
    "string" => &["from"],
    "matches" => &["input", "pattern", "flags"],
    "replace" => &["input", "pattern", "replacement", "flags"],
    "split" => &["string", "delimiter"],
    "number" => &["from", "grouping separator", "decimal separator"],
    "sort" => &["list", "precedes"],
    _ => &[],
  }
}


// ---- seeded random argument tuples (longer strings and lists than the exhaustive pools of Gen_C08), in the case format
// ---- of Gen_C08; Bif.tla is the oracle for them as for the enumerated ones

fn rnd_num(rng: &mut Rng) -> J {
  match rng.below(8) {
    0 => json!({"k": "num", "m": rng.below(7) as i64 * 10, "e": -1}), // n.0: an integer value written with a fraction digit
    1 => json!({"k": "num", "m": rng.below(40) as i64 - 20, "e": -1}),
    _ => json!({"k": "num", "m": rng.below(12) as i64 - 3, "e": 0}),
  }
}

fn rnd_str(rng: &mut Rng, max: u64) -> J {
  let alphabet = [97u32, 98, 99, 32, 233, 223, 0x1D11E, 65, 46];
  let n = rng.below(max + 1);
  json!({"k": "str", "cp": (0..n).map(|_| *rng.pick(&alphabet)).collect::<Vec<_>>()})
}

fn rnd_item(rng: &mut Rng, depth: u32) -> J {
  match rng.below(10) {
    0 => json!({"k": "null"}),
    1 | 2 => rnd_str(rng, 2),
    3 if depth < 2 => rnd_list(rng, 3, depth + 1),
    4 => json!({"k": "bool", "b": rng.chance(1, 2)}),
    _ => rnd_num(rng),
  }
}

fn rnd_list(rng: &mut Rng, max: u64, depth: u32) -> J {
  let n = rng.below(max + 1);
  json!({"k": "list", "items": (0..n).map(|_| rnd_item(rng, depth)).collect::<Vec<_>>()})
}

fn rnd_num_list(rng: &mut Rng, max: u64) -> J {
  // one list in five is long (17 to 48 items: beyond the sizes at which sorting and selection routines switch strategy)
  let n = if rng.chance(1, 5) { 17 + rng.below(32) } else { rng.below(max + 1) };
  json!({"k": "list", "items": (0..n).map(|_| if rng.chance(1, 15) { json!({"k": "null"}) } else { rnd_num(rng) }).collect::<Vec<_>>()})
}

/// Items for stddev: a base of 1 to 30 digits and small offsets from it (close together or not), sometimes negative,
/// sometimes scaled.
fn rnd_stddev_list(rng: &mut Rng) -> J {
  let nd = 1 + rng.below(30) as usize;
  let base: Vec<u8> = (0..nd).map(|i| if i == 0 { 1 + rng.below(9) as u8 } else { rng.below(10) as u8 }).collect();
  let e = rng.below(9) as i64 - 4;
  let neg = rng.chance(1, 5);
  let n = 2 + rng.below(6) as usize;
  let items: Vec<J> = (0..n)
    .map(|_| {
      // base * 10^k + offset, written as digits
      let off = rng.below(1000) as u32;
      let mut d = base.clone();
      d.extend_from_slice(&[(off / 100) as u8, (off / 10 % 10) as u8, (off % 10) as u8]);
      json!({"k": "num", "s": if neg { 1 } else { 0 }, "c": d, "e": e})
    })
    .collect();
  json!({"k": "list", "items": items})
}

fn rnd_pos(rng: &mut Rng) -> J {
  json!({"k": "num", "m": rng.below(23) as i64 - 11, "e": 0})
}

pub fn random_case(rng: &mut Rng) -> J {
  let f = *rng.pick(&[
    "substring", "substring", "string length", "contains", "starts with", "ends with", "substring before", "substring after", "count", "min", "max", "sum", "mean", "median", "mode", "all", "sublist", "sublist",
    "append", "concatenate", "insert before", "remove", "reverse", "index of", "union", "distinct values", "flatten", "list contains", "sort", "not", "stddev",
  ]);
  let args: Vec<J> = match f {
    "substring" => {
      if rng.chance(1, 2) {
        vec![rnd_str(rng, 10), rnd_pos(rng)]
      } else {
        vec![rnd_str(rng, 10), rnd_pos(rng), json!({"k": "num", "m": rng.below(12) as i64, "e": 0})]
      }
    }
    "string length" => vec![rnd_str(rng, 12)],
    "contains" | "starts with" | "ends with" | "substring before" | "substring after" => {
      // the second string is often a piece of the first
      let a = rnd_str(rng, 10);
      let cp: Vec<J> = a["cp"].as_array().cloned().unwrap_or_default();
      let b = if !cp.is_empty() && rng.chance(2, 3) {
        let i = rng.below(cp.len() as u64) as usize;
        let j = i + 1 + rng.below((cp.len() - i) as u64).min(2) as usize;
        json!({"k": "str", "cp": cp[i..j.min(cp.len())].to_vec()})
      } else {
        rnd_str(rng, 2)
      };
      vec![a, b]
    }
    "count" | "reverse" | "flatten" | "distinct values" => vec![rnd_list(rng, 8, 0)],
    "min" | "max" | "sum" | "mean" | "median" | "mode" => vec![rnd_num_list(rng, 8)],
    "stddev" => {
      if rng.chance(1, 4) {
        vec![rnd_num_list(rng, 8)]
      } else {
        vec![rnd_stddev_list(rng)]
      }
    }
    "all" => vec![json!({"k": "list", "items": (0..rng.below(6)).map(|_| if rng.chance(1, 6) { json!({"k": "null"}) } else { json!({"k": "bool", "b": rng.chance(2, 3)}) }).collect::<Vec<_>>()})],
    "sublist" => {
      if rng.chance(1, 2) {
        vec![rnd_list(rng, 8, 0), rnd_pos(rng)]
      } else {
        vec![rnd_list(rng, 8, 0), rnd_pos(rng), json!({"k": "num", "m": rng.below(10) as i64, "e": 0})]
      }
    }
    "append" => vec![rnd_list(rng, 6, 0), rnd_item(rng, 0)],
    "concatenate" | "union" => vec![rnd_list(rng, 5, 0), rnd_list(rng, 5, 0)],
    "insert before" => vec![rnd_list(rng, 6, 0), rnd_pos(rng), rnd_item(rng, 0)],
    "remove" => vec![rnd_list(rng, 6, 0), rnd_pos(rng)],
    "index of" | "list contains" => {
      let l = rnd_list(rng, 8, 0);
      let items = l["items"].as_array().cloned().unwrap_or_default();
      let x = if !items.is_empty() && rng.chance(2, 3) { rng.pick(&items).clone() } else { rnd_item(rng, 0) };
      vec![l, x]
    }
    "sort" => {
      let l = if rng.chance(3, 4) { rnd_num_list(rng, 8) } else { json!({"k": "list", "items": (0..rng.below(7)).map(|_| rnd_str(rng, 3)).collect::<Vec<_>>()}) };
      let cmp = *rng.pick(&["lt", "gt", "le", "ge"]);
      return json!({"fn": "sort", "args": [l, {"k": "null"}], "cmp": cmp});
    }
    _ => vec![if rng.chance(1, 5) { json!({"k": "null"}) } else { json!({"k": "bool", "b": rng.chance(1, 2)}) }],
  };
  json!({"fn": f, "args": args})
}

fn eval(scope: &Scope, text: &str) -> J {
  crate::util::QUIET.with(|q| q.set(true));
  let r = std::panic::catch_unwind(std::panic::AssertUnwindSafe(|| match dmntk_feel_parser::parse_expression(scope, text, false) {
    Ok(node) => match dmntk_feel_evaluator::evaluate(scope, &node) {
      Ok(v) => enc_value(&v),
      Err(e) => json!({"k": "error", "what": e.to_string()}),
    },
    Err(e) => json!({"k": "error", "what": format!("parse: {}", e)}),
  }));
  crate::util::QUIET.with(|q| q.set(false));
  r.unwrap_or_else(|_| json!({"k": "panic"}))
}

pub fn run_case(c: &J) -> J {
  let f = c["fn"].as_str().unwrap_or("");
  let args: Vec<J> = c["args"].as_array().cloned().unwrap_or_default();
  let scope = Scope::default();
  let mut enc_args = vec![];
  // sort(): the ordering function named by `cmp` is built from its FEEL text and bound as the second argument
  let lambda = match c["cmp"].as_str() {
    Some("lt") => Some("function(x, y) x < y"),
    Some("gt") => Some("function(x, y) x > y"),
    Some("le") => Some("function(x, y) x <= y"),
    Some("ge") => Some("function(x, y) x >= y"),
    Some("a-lt") => Some("function(x, y) x.a < y.a"),
    Some("null") => Some("function(x, y) null"),
    Some("const") => Some("function(x, y) true"),
    Some("arity1") => Some("function(x) true"),
    Some("arity3") => Some("function(x, y, z) x < y"),
    _ => None,
  };
  for (i, a) in args.iter().enumerate() {
    let mut v: Value = dec_value(a);
    if i == 1 {
      if let Some(text) = lambda {
        let empty = Scope::default();
        v = match dmntk_feel_parser::parse_expression(&empty, text, false).and_then(|n| dmntk_feel_evaluator::evaluate(&empty, &n)) {
          Ok(f @ Value::FunctionDefinition(..)) => f,
          other => tool_error(&format!("the ordering function {} did not evaluate to a function: {:?}", text, other.map(|v| v.to_string()))),
        };
      }
    }
    enc_args.push(enc_value(&v));
    scope.set_entry(&Name::from(format!("a{}", i + 1)), v);
  }
  let names: Vec<String> = (1..=args.len()).map(|i| format!("a{}", i)).collect();
  let pos_text = format!("{}({})", f, names.join(", "));
  let mut rec = json!({"fn": f, "args": enc_args, "pos": eval(&scope, &pos_text), "text": pos_text});
  if !c["re"].is_null() {
    rec["re"] = c["re"].clone();
  }
  if !c["cmp"].is_null() {
    rec["cmp"] = c["cmp"].clone();
  }
  let pn = param_names(f);
  // the named form exists when every argument has a parameter name (varargs forms have none)
  let single_list_form = ["min", "max", "sum", "mean", "median", "mode", "stddev", "all", "append", "concatenate", "union"].contains(&f) && (args.len() != pn.len() || (pn == ["list"] && args[0]["k"] != "list"));
  if !pn.is_empty() && !args.is_empty() && args.len() <= pn.len() && !single_list_form {
    let named_text = format!("{}({})", f, names.iter().enumerate().map(|(i, a)| format!("{}: {}", pn[i], a)).collect::<Vec<_>>().join(", "));
    rec["named"] = eval(&scope, &named_text);
    rec["named_text"] = json!(named_text);
  }
  rec
}

pub fn check(mut ctx: Ctx, replay: Option<J>) -> ! {
  let tlc = Tlc::new(&ctx.verif, "C08");
  let quick = ctx.quick();
  let mut recs = vec![];
  if let Some(r) = &replay {
    recs.push(run_case(&r["case"]["case"]));
  } else {
    // the regular-expression specification against its recorded oracle (Python's re, tools/gen_regex_selftest.py)
    let st = tlc.run(Run::new("SelfTest_Regex", "SelfTest_Regex.cfg").timeout(600).workers(4));
    if !st.ok || st.lines.iter().any(|l| l.contains("SELFTEST-FAIL") || l.contains("is violated")) {
      tool_error(&format!("SelfTest_Regex failed: {}", st.error_text));
    }
    let st = tlc.run(Run::new("SelfTest_Stddev", "SelfTest_Stddev.cfg").timeout(300));
    if !st.ok || st.lines.iter().any(|l| l.contains("SELFTEST-FAIL")) {
      tool_error(&format!("SelfTest_Stddev failed: {}", st.error_text));
    }
    let gen = tlc.run(Run::new("Gen_C08", "Gen_C08.cfg").timeout(1200));
    if !gen.ok {
      tool_error(&format!("Gen_C08 failed: {}", gen.error_text));
    }
    let cases = gen.tagged("CASE");
    if cases.len() < 3000 {
      tool_error("too few built-in cases");
    }
    for c in &cases {
      recs.push(run_case(c));
    }
    let mut rng = Rng::new(ctx.seed);
    let n_random = if quick { 4000 } else { 60000 };
    for _ in 0..n_random {
      recs.push(run_case(&random_case(&mut rng)));
    }
    // long shuffled lists of distinct numbers for the order-dependent aggregates (a selection or sorting routine that
    // changes strategy with the size of its input is exercised on every size from 17 to 48, in many orders)
    let n_long = if quick { 600 } else { 6000 };
    for k in 0..n_long {
      let n = 17 + (k % 32);
      let mut items: Vec<i64> = (1..=n as i64).map(|i| i * 10 - 5 * (i % 2)).collect();
      for i in (1..items.len()).rev() {
        items.swap(i, rng.below(i as u64 + 1) as usize);
      }
      let list = json!({"k": "list", "items": items.iter().map(|m| json!({"k": "num", "m": m, "e": 0})).collect::<Vec<_>>()});
      let f = ["median", "median", "median", "min", "max", "mode", "sort"][k % 7];
      recs.push(run_case(&if f == "sort" { json!({"fn": "sort", "args": [list, {"k": "null"}], "cmp": if k % 2 == 0 { "lt" } else { "ge" }}) } else { json!({"fn": f, "args": [list]}) }));
    }
    ctx.cov("long_shuffled_lists", json!(n_long));
    ctx.cov("random_argument_tuples", json!(n_random));
    let mut bad = recs.iter().find(|r| r["fn"] == "string length" && r["pos"]["k"] == "num").cloned().unwrap_or_else(|| tool_error("no case"));
    bad["pos"]["m"] = json!(77);
    let out = tlc.judge("Trace_C08", "Trace_C08.cfg", &[bad], 1, 300, &[("RELAX_EMPTY_DOMAIN", "0")]);
    if !out.ok || out.rejects.is_empty() {
      tool_error(&format!("self-test failed: a wrong built-in result was accepted {}", out.error_text));
    }
  }
  let out = tlc.judge("Trace_C08", "Trace_C08.cfg", &recs, 8, 3000, &[("RELAX_EMPTY_DOMAIN", "0")]);
  if !out.ok {
    tool_error(&format!("Trace_C08 failed: {}", out.error_text));
  }
  let unspec = out.counters("UNSPEC").len() as u64;
  for (i, why) in &out.rejects {
    let r = &recs[*i];
    let args: Vec<String> = r["args"].as_array().unwrap().iter().map(|a| dec_value(a).to_string()).collect();
    let form = if why.contains("named") { "named" } else { "positional" };
    let sig = if why.starts_with("replace: the result lost") {
      "replace:result-trimmed".to_string()
    } else {
      format!("{}:{}:arity{}", r["fn"].as_str().unwrap_or(""), form, args.len())
    };
    ctx.reject(&[sig], json!({"case": {"fn": r["fn"], "args": r["args"], "cmp": r["cmp"], "re": r["re"]}, "record": r}), &format!("{} : {}({}) -> {} / named {}", why, r["fn"].as_str().unwrap_or(""), args.join(", "), dec_value(&r["pos"]), r.get("named").map(|n| dec_value(n).to_string()).unwrap_or_default()));
  }
  let n = recs.len() as u64;
  ctx.cov("evaluations", json!(n + recs.iter().filter(|r| r.get("named").is_some()).count() as u64));
  ctx.cov("distinct_nontrivial", json!(n - unspec));
  ctx.cov("unspecified_cases_accepted", json!(unspec));
  ctx.cov("exhaustive", json!(true));
  ctx.cov("rule", json!("one case = (built-in function, argument tuple), invoked positionally and by parameter name; tuples enumerated by TLC: strings over ASCII / BMP / supplementary characters incl. empty, lists of length 0..3 with duplicates, nested lists and nulls, positions and lengths -5..5 incl. 0 and non-integers, wrong kinds and arities; plus seeded random tuples with strings up to 12 characters and lists up to 8 items (nested, nulls, equal numbers of different scale); non-trivial = Bif.tla assigns a definite value"));
  ctx.sample(json!({"text": recs[recs.len() / 2]["text"], "args": recs[recs.len() / 2]["args"]}));
  ctx.finish()
}
