//! C08 — built-in functions return their specified value for all arguments.

use crate::codec::{dec_value, enc_value};
use crate::tlc::{Run, Tlc};
use crate::util::{tool_error, Ctx};
use dmntk_feel::values::Value;
use dmntk_feel::{Name, Scope};
use serde_json::{json, Value as J};

/// Parameter names of DMN 1.3 10.3.4 (the same table as Bif!ParamNames).
fn param_names(f: &str) -> &'static [&'static str] {
  match f {
    "substring" => &["string", "start position", "length"],
    "string length" => &["string"],
    "contains" | "starts with" | "ends with" | "substring before" | "substring after" => &["string", "match"],
    "count" | "min" | "max" | "sum" | "mean" | "median" | "mode" | "stddev" | "all" | "reverse" | "distinct values" | "flatten" => &["list"],
    "sublist" => &["list", "start position", "length"],
    "insert before" => &["list", "position", "newItem"],
    "remove" => &["list", "position"],
    "index of" => &["list", "match"],
    "list contains" => &["list", "element"],
    "get value" => &["m", "key"],
    "get entries" => &["m"],
    "not" => &["negand"],
    "string" => &["from"],
    "matches" => &["input", "pattern", "flags"],
    "replace" => &["input", "pattern", "replacement", "flags"],
    "split" => &["string", "delimiter"],
    "number" => &["from", "grouping separator", "decimal separator"],
    "sort" => &["list", "precedes"],
    _ => &[],
  }
}

fn eval(scope: &Scope, text: &str) -> J {
  crate::util::QUIET.with(|q| q.set(true));
  let r = std::panic::catch_unwind(std::panic::AssertUnwindSafe(|| match dmntk_feel_parser::parse_expression(scope, text, false) {
    Ok(node) => match dmntk_feel_evaluator::evaluate(scope, &node) {
      Ok(v) => enc_value(&v),
      Err(e) => json!({"k": "error", "what": e.to_string()}),
    },
    Err(e) => json!({"k": "error", "what": format!("parse: {}", e)}),
  }));
  crate::util::QUIET.with(|q| q.set(false));
  r.unwrap_or_else(|_| json!({"k": "panic"}))
}

pub fn run_case(c: &J) -> J {
  let f = c["fn"].as_str().unwrap_or("");
  let args: Vec<J> = c["args"].as_array().cloned().unwrap_or_default();
  let scope = Scope::default();
  let mut enc_args = vec![];
  // sort(): the ordering function named by `cmp` is built from its FEEL text and bound as the second argument
  let lambda = match c["cmp"].as_str() {
    Some("lt") => Some("function(x, y) x < y"),
    Some("gt") => Some("function(x, y) x > y"),
    Some("le") => Some("function(x, y) x <= y"),
    Some("ge") => Some("function(x, y) x >= y"),
    Some("a-lt") => Some("function(x, y) x.a < y.a"),
    Some("null") => Some("function(x, y) null"),
    Some("const") => Some("function(x, y) true"),
    Some("arity1") => Some("function(x) true"),
    Some("arity3") => Some("function(x, y, z) x < y"),
    _ => None,
  };
  for (i, a) in args.iter().enumerate() {
    let mut v: Value = dec_value(a);
    if i == 1 {
      if let Some(text) = lambda {
        let empty = Scope::default();
        v = match dmntk_feel_parser::parse_expression(&empty, text, false).and_then(|n| dmntk_feel_evaluator::evaluate(&empty, &n)) {
          Ok(f @ Value::FunctionDefinition(..)) => f,
          other => tool_error(&format!("the ordering function {} did not evaluate to a function: {:?}", text, other.map(|v| v.to_string()))),
        };
      }
    }
    enc_args.push(enc_value(&v));
    scope.set_entry(&Name::from(format!("a{}", i + 1)), v);
  }
  let names: Vec<String> = (1..=args.len()).map(|i| format!("a{}", i)).collect();
  let pos_text = format!("{}({})", f, names.join(", "));
  let mut rec = json!({"fn": f, "args": enc_args, "pos": eval(&scope, &pos_text), "text": pos_text});
  if !c["re"].is_null() {
    rec["re"] = c["re"].clone();
  }
  if !c["cmp"].is_null() {
    rec["cmp"] = c["cmp"].clone();
  }
  let pn = param_names(f);
  // the named form exists when every argument has a parameter name (varargs forms have none)
  let single_list_form = ["min", "max", "sum", "mean", "median", "mode", "stddev", "all", "append", "concatenate", "union"].contains(&f) && (args.len() != pn.len() || (pn == ["list"] && args[0]["k"] != "list"));
  if !pn.is_empty() && !args.is_empty() && args.len() <= pn.len() && !single_list_form {
    let named_text = format!("{}({})", f, names.iter().enumerate().map(|(i, a)| format!("{}: {}", pn[i], a)).collect::<Vec<_>>().join(", "));
    rec["named"] = eval(&scope, &named_text);
    rec["named_text"] = json!(named_text);
  }
  rec
}

pub fn check(mut ctx: Ctx, replay: Option<J>) -> ! {
  let tlc = Tlc::new(&ctx.verif, "C08");
  let quick = ctx.quick();
  let mut recs = vec![];
  if let Some(r) = &replay {
    recs.push(run_case(&r["case"]["case"]));
  } else {
    // the regular-expression specification against its recorded oracle (Python's re, tools/gen_regex_selftest.py)
    let st = tlc.run(Run::new("SelfTest_Regex", "SelfTest_Regex.cfg").timeout(600).workers(4));
    if !st.ok || st.lines.iter().any(|l| l.contains("SELFTEST-FAIL") || l.contains("is violated")) {
      tool_error(&format!("SelfTest_Regex failed: {}", st.error_text));
    }
    let gen = tlc.run(Run::new("Gen_C08", "Gen_C08.cfg").timeout(1200));
    if !gen.ok {
      tool_error(&format!("Gen_C08 failed: {}", gen.error_text));
    }
    let cases = gen.tagged("CASE");
    if cases.len() < 3000 {
      tool_error("too few built-in cases");
    }
    for c in &cases {
      recs.push(run_case(c));
    }
    let _ = quick;
    let mut bad = recs.iter().find(|r| r["fn"] == "string length" && r["pos"]["k"] == "num").cloned().unwrap_or_else(|| tool_error("no case"));
    bad["pos"]["m"] = json!(77);
    let out = tlc.judge("Trace_C08", "Trace_C08.cfg", &[bad], 1, 300, &[("RELAX_EMPTY_DOMAIN", "0")]);
    if !out.ok || out.rejects.is_empty() {
      tool_error(&format!("self-test failed: a wrong built-in result was accepted {}", out.error_text));
    }
  }
  let out = tlc.judge("Trace_C08", "Trace_C08.cfg", &recs, 8, 3000, &[("RELAX_EMPTY_DOMAIN", "0")]);
  if !out.ok {
    tool_error(&format!("Trace_C08 failed: {}", out.error_text));
  }
  let unspec = out.counters("UNSPEC").len() as u64;
  for (i, why) in &out.rejects {
    let r = &recs[*i];
    let args: Vec<String> = r["args"].as_array().unwrap().iter().map(|a| dec_value(a).to_string()).collect();
    let form = if why.contains("named") { "named" } else { "positional" };
    let sig = if why.starts_with("replace: the result lost") {
      "replace:result-trimmed".to_string()
    } else {
      format!("{}:{}:arity{}", r["fn"].as_str().unwrap_or(""), form, args.len())
    };
    ctx.reject(&[sig], json!({"case": {"fn": r["fn"], "args": r["args"], "cmp": r["cmp"], "re": r["re"]}, "record": r}), &format!("{} : {}({}) -> {} / named {}", why, r["fn"].as_str().unwrap_or(""), args.join(", "), dec_value(&r["pos"]), r.get("named").map(|n| dec_value(n).to_string()).unwrap_or_default()));
  }
  let n = recs.len() as u64;
  ctx.cov("evaluations", json!(n + recs.iter().filter(|r| r.get("named").is_some()).count() as u64));
  ctx.cov("distinct_nontrivial", json!(n - unspec));
  ctx.cov("unspecified_cases_accepted", json!(unspec));
  ctx.cov("exhaustive", json!(true));
  ctx.cov("rule", json!("one case = (built-in function, argument tuple), invoked positionally and by parameter name; tuples enumerated by TLC: strings over ASCII / BMP / supplementary characters incl. empty, lists of length 0..3 with duplicates, nested lists and nulls, positions and lengths -5..5 incl. 0 and non-integers, wrong kinds and arities; non-trivial = Bif.tla assigns a definite value"));
  ctx.sample(json!({"text": recs[recs.len() / 2]["text"], "args": recs[recs.len() / 2]["args"]}));
  ctx.finish()
}
