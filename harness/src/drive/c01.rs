//! C01 — FEEL core expressions evaluate to the value the FEEL semantics assigns.

use crate::codec::{dec_context, enc_value};
use crate::tlc::{Run, Tlc};
use crate::util::{tool_error, Ctx};
use dmntk_feel::context::FeelContext;
use dmntk_feel::values::Value;
use dmntk_feel::{FeelNumber, Name, Scope};
use serde_json::{json, Value as J};

pub fn text_of(tokens: &J) -> String {
  tokens.as_array().map(|a| a.iter().map(|t| t.as_str().unwrap_or("").trim_start_matches('~').to_string()).collect::<Vec<_>>().join(" ")).unwrap_or_default()
}

pub fn eval_in(scope: &Scope, text: &str) -> J {
  crate::util::QUIET.with(|q| q.set(true));
  let r = std::panic::catch_unwind(std::panic::AssertUnwindSafe(|| match dmntk_feel_parser::parse_expression(scope, text, false) {
    Ok(node) => match dmntk_feel_evaluator::evaluate(scope, &node) {
      Ok(v) => enc_value(&v),
      Err(e) => json!({"k": "error", "what": format!("evaluate: {}", e)}),
    },
    Err(e) => json!({"k": "error", "what": format!("parse: {}", e)}),
  }));
  crate::util::QUIET.with(|q| q.set(false));
  r.unwrap_or_else(|_| json!({"k": "panic"}))
}

/// Scope with the same bindings plus irrelevant ones, and an extra bottom context.
fn padded_scope(ctx: &FeelContext) -> Scope {
  let mut bottom = FeelContext::default();
  bottom.set_entry(&Name::from("zz1"), Value::Number(FeelNumber::from_i128(99)));
  bottom.set_entry(&Name::from("zq"), Value::String("irrelevant".to_string()));
  let scope: Scope = bottom.into();
  let mut top = ctx.clone();
  top.set_entry(&Name::from("zz2"), Value::Boolean(true));
  scope.push(top);
  scope
}

pub fn run_case(tree: &J, tokens: &J, scope_j: &J) -> J {
  let text = text_of(tokens);
  let ctx = dec_context(scope_j);
  let scope: Scope = ctx.clone().into();
  let obs = eval_in(&scope, &text);
  let obs2 = eval_in(&padded_scope(&ctx), &text);
  json!({"tree": tree, "scope": scope_j, "text": text, "obs": obs, "obs2": obs2})
}

/// Amounts by which lo and hi are moved for the translation-invariance law: across 2^31, 2^32, 2^53, -2^31, -2^32,
/// and two round ones (all within the 64-bit integers a range is iterated with).
const SHIFT_BASES: &[i128] = &[2147483645, 4294967293, 9007199254740989, 1000000000000000, 4611686018427387000, -2147483650, -4294967298, -9007199254740995];

/// One case of the shift family: the ordinary observation for the small scope plus the values observed with both names
/// moved by each base.
pub fn run_shift_case(tree: &J, tokens: &J, scope_j: &J) -> J {
  let mut rec = run_case(tree, tokens, scope_j);
  let text = text_of(tokens);
  let small = dec_context(scope_j);
  let get = |n: &str| -> i128 {
    match small.get_entry(&Name::from(n)) {
      Some(Value::Number(v)) => v.to_string().parse::<i128>().unwrap_or_else(|_| tool_error("shift scope: not an integer")),
      _ => tool_error("shift scope: lo / hi missing"),
    }
  };
  let (lo, hi) = (get("lo"), get("hi"));
  let mut shifts = vec![];
  for b in SHIFT_BASES {
    let mut c = FeelContext::default();
    c.set_entry(&Name::from("lo"), Value::Number(FeelNumber::from_i128(lo + b)));
    c.set_entry(&Name::from("hi"), Value::Number(FeelNumber::from_i128(hi + b)));
    let scope: Scope = c.into();
    shifts.push(json!({"base": b.to_string(), "obs": eval_in(&scope, &text)}));
  }
  rec["shifts"] = json!(shifts);
  rec
}

fn kinds(t: &J, out: &mut Vec<String>) {
  if let Some(n) = t.get("n").and_then(|n| n.as_str()) {
    if !["name", "num", "str", "bool", "null"].contains(&n) {
      out.push(n.to_string());
    }
  }
  match t {
    J::Object(m) => m.values().for_each(|v| kinds(v, out)),
    J::Array(a) => a.iter().for_each(|v| kinds(v, out)),
    _ => {}
  }
}

/// Narrow signatures: the defect classes of the iteration machinery, otherwise the construct set of the expression.
fn signature(rec: &J) -> Vec<String> {
  let mut sigs = vec![];
  // a syntax error on an expression in which the lower bound of a `between` contains `and` / `between` (in parentheses):
  // the parser defect recorded for C06, met here because the expression cannot be evaluated at all
  fn has_and(t: &J) -> bool {
    if let Some(n) = t.get("n").and_then(|n| n.as_str()) {
      if n == "and" || n == "between" {
        return true;
      }
    }
    match t {
      J::Object(m) => m.values().any(has_and),
      J::Array(a) => a.iter().any(has_and),
      _ => false,
    }
  }
  fn between_lo_with_and(t: &J) -> bool {
    if t.get("n").and_then(|n| n.as_str()) == Some("between") && has_and(&t["lo"]) {
      return true;
    }
    match t {
      J::Object(m) => m.values().any(between_lo_with_and),
      J::Array(a) => a.iter().any(between_lo_with_and),
      _ => false,
    }
  }
  if rec["obs"]["k"] == "error" && rec["obs"]["what"].as_str().map_or(false, |w| w.starts_with("parse")) && between_lo_with_and(&rec["tree"]) {
    return vec!["syntax-error:between-lower-bound-containing-and-in-parentheses".to_string()];
  }
  fn iter_nodes<'a>(t: &'a J, out: &mut Vec<&'a J>) {
    if let Some(n) = t.get("n").and_then(|n| n.as_str()) {
      if ["for", "some", "every"].contains(&n) {
        out.push(t);
      }
    }
    match t {
      J::Object(m) => m.values().for_each(|v| iter_nodes(v, out)),
      J::Array(a) => a.iter().for_each(|v| iter_nodes(v, out)),
      _ => {}
    }
  }
  let mut its = vec![];
  iter_nodes(&rec["tree"], &mut its);
  for n in its {
    let ks: Vec<&str> = n["its"].as_array().map(|a| a.iter().map(|i| i["kind"].as_str().unwrap_or("")).collect()).unwrap_or_default();
    if ks.len() >= 2 {
      sigs.push(format!("{}:multi-variable", n["n"].as_str().unwrap_or("")));
    }
  }
  if sigs.is_empty() {
    let mut k = vec![];
    kinds(&rec["tree"], &mut k);
    k.sort();
    k.dedup();
    sigs.push(format!("constructs:{}", k.join("+")));
  }
  sigs
}

pub fn check(mut ctx: Ctx, replay: Option<J>) -> ! {
  let tlc = Tlc::new(&ctx.verif, "C01");
  let quick = ctx.quick();
  let mut recs = vec![];
  if let Some(r) = &replay {
    let c = &r["case"]["record"];
    let toks = json!(c["text"].as_str().unwrap_or("").split(' ').collect::<Vec<_>>());
    recs.push(if c["shifts"].is_null() { run_case(&c["tree"], &toks, &c["scope"]) } else { run_shift_case(&c["tree"], &toks, &c["scope"]) });
  } else {
    let gen = tlc.run(Run::new("Gen_C01", if quick { "Gen_C01.cfg" } else { "Gen_C01Deep.cfg" }).timeout(3000));
    if !gen.ok {
      tool_error(&format!("Gen_C01 failed: {}", gen.error_text));
    }
    let exprs = gen.tagged("EXPR");
    let scopes = gen.tagged("SCOPES").pop().and_then(|s| s.as_array().cloned()).unwrap_or_default();
    if exprs.len() < 2000 || scopes.len() < 4 {
      tool_error("too few expressions or scopes generated");
    }
    for e in &exprs {
      for s in &scopes {
        recs.push(run_case(&e["tree"], &e["full"], s));
      }
    }
    // translation invariance of ranges: lo..hi moved beyond 2^31, 2^32, 2^53 (numbers TLC's integers cannot hold)
    let shift_exprs = gen.tagged("SHIFT");
    let shift_scopes = gen.tagged("SHIFTSCOPES").pop().and_then(|s| s.as_array().cloned()).unwrap_or_default();
    if shift_exprs.len() < 10 || shift_scopes.len() < 3 {
      tool_error("too few expressions or scopes for the translation-invariance law");
    }
    for e in &shift_exprs {
      for s in &shift_scopes {
        recs.push(run_shift_case(&e["tree"], &e["full"], s));
      }
    }
    ctx.cov("range_translation_cases", json!(shift_exprs.len() * shift_scopes.len() * SHIFT_BASES.len()));
    ctx.cov("expressions", json!(exprs.len()));
    ctx.cov("scopes", json!(scopes.len()));
    // deeper nests: random walks through the same templates (TLC's simulation mode, Gen_C01Walk), seeded; every
    // expression of a walk (2 to 6 constructs deep) is evaluated in two of the scopes
    let walks = if quick { 400 } else { 6000 };
    let seed = (ctx.seed % 1_000_000).to_string();
    let num = format!("num={}", walks);
    let walk = tlc.run(Run::new("Gen_C01Walk", "Gen_C01Walk.cfg").extra(&["-simulate", &num, "-depth", "6", "-seed", &seed]).workers(1).timeout(1800).tag("_walk"));
    let wexprs = walk.tagged("WALK");
    if wexprs.len() < walks {
      tool_error(&format!("the random walks produced too few expressions ({}): {}", wexprs.len(), walk.error_text));
    }
    let mut seen = std::collections::HashSet::new();
    let mut n_walk = 0u64;
    for (k, e) in wexprs.iter().enumerate() {
      if !seen.insert(e["full"].to_string()) {
        continue;
      }
      n_walk += 1;
      for j in 0..2 {
        recs.push(run_case(&e["tree"], &e["full"], &scopes[(k + 3 * j) % scopes.len()]));
      }
    }
    ctx.cov("random_walk_expressions", json!(n_walk));
    // anti-vacuity: a wrong value must be rejected
    let mut bad = run_case(&json!({"n": "add", "a": {"n": "num", "ip": "1", "fp": "", "m": 1, "e": 0}, "b": {"n": "num", "ip": "2", "fp": "", "m": 2, "e": 0}}), &json!(["1", "+", "2"]), &scopes[0]);
    bad["obs"]["m"] = json!(4);
    bad["obs2"] = bad["obs"].clone();
    let out = tlc.judge("Trace_C01", "Trace_C01.cfg", &[bad], 1, 300, &[("RELAX_EMPTY_DOMAIN", "0")]);
    if !out.ok || out.rejects.is_empty() {
      tool_error("self-test failed: a wrong value was accepted");
    }
  }
  let out = tlc.judge("Trace_C01", "Trace_C01.cfg", &recs, 12, 3000, &[("RELAX_EMPTY_DOMAIN", "0")]);
  if !out.ok {
    tool_error(&format!("Trace_C01 failed: {}", out.error_text));
  }
  let unspec = out.counters("UNSPEC").len() as u64;
  if let Ok(path) = std::env::var("VERIF_DUMP_UNSPEC") {
    // development aid: which cases does the specification leave open?
    let text: String = out.counters("UNSPEC").iter().filter_map(|i| recs.get((*i - 1) as usize)).map(|r| format!("{}\t{}\n", r["text"].as_str().unwrap_or(""), r["scope"])).collect();
    let _ = std::fs::write(path, text);
  }
  // classification by the specification itself: the rejected cases are judged again with the one relaxation
  // "an iteration over several variables with an empty domain is unspecified"; those that then pass are
  // attributable to that (known) defect, the others are not
  let rejected: Vec<J> = out.rejects.iter().map(|(i, _)| recs[*i].clone()).collect();
  let mut still: std::collections::HashSet<usize> = Default::default();
  if !rejected.is_empty() {
    let out2 = tlc.judge("Trace_C01", "Trace_C01.cfg", &rejected, 4, 3000, &[("RELAX_EMPTY_DOMAIN", "1")]);
    if !out2.ok {
      tool_error(&format!("Trace_C01 (relaxed) failed: {}", out2.error_text));
    }
    still = out2.rejects.iter().map(|(k, _)| *k).collect();
  }
  for (k, (i, why)) in out.rejects.iter().enumerate() {
    let r = &recs[*i];
    let sc = crate::codec::dec_context(&r["scope"]);
    let sigs = if still.contains(&k) { signature(r) } else { vec!["iteration-over-several-variables-with-an-empty-domain".to_string()] };
    ctx.reject(&sigs, json!({"record": r}), &format!("{} : `{}` in {} -> {}", why, r["text"].as_str().unwrap_or(""), sc, crate::codec::dec_value(&r["obs"])));
  }
  let n = recs.len() as u64;
  ctx.cov("evaluations", json!(n));
  ctx.cov("distinct_nontrivial", json!(n - unspec));
  ctx.cov("unspecified_cases_accepted", json!(unspec));
  ctx.cov("rule", json!("one case = (expression, scope); expressions = every inner construct in the hole of every outer construct (plus a third level in thorough), rendered fully parenthesised; scopes bind x, y, xs, c to numbers, strings, booleans, nulls, lists, contexts; non-trivial = FeelEval assigns a definite value (not Unspec); each case is also evaluated with irrelevant extra bindings and an extra bottom context"));
  ctx.sample(json!({"text": recs[recs.len() / 2]["text"], "scope": recs[recs.len() / 2]["scope"]}));
  ctx.sample(json!({"text": recs[100 % recs.len()]["text"]}));
  ctx.assume("scopes are built programmatically (bindings never pass through the lexer); expressions are parsed from their fully parenthesised rendering");
  ctx.finish()
}
