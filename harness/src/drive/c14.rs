//! C14 — temporal literals denote exactly what is written and print back losslessly.

use crate::codec::{cps, enc_value, from_cps};
use crate::tlc::{Run, Tlc};
use crate::util::{tool_error, Ctx, Rng};
use dmntk_feel::values::Value;
use dmntk_feel::Scope;
use serde_json::{json, Value as J};

fn eval(text: &str) -> Value {
  let scope = Scope::default();
  crate::util::QUIET.with(|q| q.set(true));
  let r = std::panic::catch_unwind(std::panic::AssertUnwindSafe(|| match dmntk_feel_parser::parse_expression(&scope, text, false) {
    Ok(node) => dmntk_feel_evaluator::evaluate(&scope, &node).unwrap_or(Value::Null(None)),
    Err(_) => Value::Null(Some("parse".into())),
  }));
  crate::util::QUIET.with(|q| q.set(false));
  r.unwrap_or(Value::Irrelevant)
}

fn enc(v: &Value) -> J {
  if let Value::Irrelevant = v {
    json!({"k": "panic"})
  } else {
    enc_value(v)
  }
}

fn ctor(kind: &str) -> &'static str {
  match kind {
    "date" => "date",
    "time" => "time",
    "dt" => "date and time",
    _ => "duration",
  }
}

pub fn run_case(kind: &str, text: &str, zstat: &str) -> J {
  let quotable = !text.contains('"') && !text.contains('\\') && !text.contains('\n');
  let f = ctor(kind);
  let v = if quotable { eval(&format!("{}(\"{}\")", f, text)) } else { Value::Null(None) };
  let at = if quotable { enc(&eval(&format!("@\"{}\"", text))) } else { json!({"k": "skipped"}) };
  let (str_cp, back) = match &v {
    Value::Null(_) | Value::Irrelevant => (vec![], json!({"k": "null"})),
    _ => match eval(&format!("string({}(\"{}\"))", f, text)) {
      Value::String(s) => {
        let b = eval(&format!("{}(\"{}\")", f, s));
        (cps(&s), enc(&b))
      }
      _ => (vec![], json!({"k": "null"})),
    },
  };
  json!({"kind": kind, "cp": cps(text), "text": text, "zstat": zstat, "fn": enc(&v), "at": at, "str": str_cp, "back": back})
}

pub fn check(mut ctx: Ctx, replay: Option<J>) -> ! {
  let tlc = Tlc::new(&ctx.verif, "C14");
  let quick = ctx.quick();
  let mut recs = vec![];
  if let Some(r) = &replay {
    let c = &r["case"]["record"];
    recs.push(run_case(c["kind"].as_str().unwrap_or("date"), c["text"].as_str().unwrap_or(""), c["zstat"].as_str().unwrap_or("none")));
  } else {
    let gen = tlc.run(Run::new("Gen_C14", "Gen_C14.cfg").timeout(1200));
    if !gen.ok {
      tool_error(&format!("Gen_C14 failed: {}", gen.error_text));
    }
    let cases = gen.tagged("CASE");
    if cases.len() < 3000 {
      tool_error("too few temporal literals");
    }
    for c in &cases {
      let text = from_cps(&c["cp"]);
      recs.push(run_case(c["kind"].as_str().unwrap(), &text, if text.contains('@') { "unknown" } else { "none" }));
    }
    // every zone identifier of the zone database, and a few that are not
    let mut rng = Rng::new(ctx.seed);
    let zones: Vec<&str> = chrono_tz::TZ_VARIANTS.iter().map(|z| z.name()).collect();
    // (quick: every seventh, and always the identifiers an implementation is tempted to treat specially: the names of
    // UTC / GMT and their aliases, the fixed-offset and abbreviation-like ones)
    const SPECIAL: [&str; 22] = [
      "UTC", "Etc/UTC", "Zulu", "Etc/Zulu", "UCT", "Etc/UCT", "Universal", "Etc/Universal", "GMT", "Etc/GMT", "GMT0", "Etc/GMT0", "GMT+0", "GMT-0", "Etc/GMT+0", "Greenwich", "Etc/Greenwich",
      "EST", "EST5EDT", "Etc/GMT-14", "Etc/GMT+12", "WET",
    ];
    let pick: Vec<&str> = if quick {
      let mut p: Vec<&str> = zones.iter().step_by(7).cloned().collect();
      for z in SPECIAL {
        if zones.contains(&z) && !p.contains(&z) {
          p.push(z);
        }
      }
      p
    } else {
      zones.clone()
    };
    for z in &pick {
      recs.push(run_case("time", &format!("10:20:30@{}", z), "known"));
      if rng.chance(1, 4) || SPECIAL.contains(z) {
        recs.push(run_case("dt", &format!("2021-06-15T10:20:30.5@{}", z), "known"));
      }
    }
    for z in ["Nowhere/City", "Europe/Atlantis", "X"] {
      recs.push(run_case("time", &format!("10:20:30@{}", z), "unknown"));
    }
    ctx.cov("zone_identifiers", json!(pick.len()));
    // seeded random valid literals
    for _ in 0..(if quick { 2000 } else { 50000 }) {
      let (kind, text) = match rng.below(4) {
        0 => {
          let y = if rng.chance(1, 4) { rng.below(999_999_999) as i64 + 1 } else { rng.below(9999) as i64 + 1 };
          let y = if rng.chance(1, 5) { -y } else { y };
          ("date", format!("{}{:04}-{:02}-{:02}", if y < 0 { "-" } else { "" }, y.abs(), 1 + rng.below(12), 1 + rng.below(28)))
        }
        1 | 2 => {
          let fl = rng.below(10) as usize;
          let frac: String = if fl == 0 { String::new() } else { format!(".{}", (0..fl).map(|_| char::from(b'0' + rng.below(10) as u8)).collect::<String>()) };
          let zone = match rng.below(4) {
            0 => String::new(),
            1 => "Z".to_string(),
            _ => format!("{}{:02}:{:02}{}", if rng.chance(1, 2) { "+" } else { "-" }, rng.below(15), rng.below(60), if rng.chance(1, 4) { format!(":{:02}", rng.below(60)) } else { String::new() }),
          };
          let t = format!("{:02}:{:02}:{:02}{}{}", rng.below(24), rng.below(60), rng.below(60), frac, zone);
          if rng.chance(1, 2) {
            ("time", t)
          } else {
            ("dt", format!("{:04}-{:02}-{:02}T{}", 1 + rng.below(9999), 1 + rng.below(12), 1 + rng.below(28), t))
          }
        }
        _ => {
          if rng.chance(1, 2) {
            ("dur", format!("{}P{}Y{}M", if rng.chance(1, 3) { "-" } else { "" }, rng.below(1000), rng.below(40)))
          } else {
            let fl = rng.below(10) as usize;
            let frac: String = if fl == 0 { String::new() } else { format!(".{}", (0..fl).map(|_| char::from(b'0' + rng.below(10) as u8)).collect::<String>()) };
            ("dur", format!("{}P{}DT{}H{}M{}{}S", if rng.chance(1, 3) { "-" } else { "" }, rng.below(100000), rng.below(100), rng.below(100), rng.below(100), frac))
          }
        }
      };
      recs.push(run_case(kind, &text, "none"));
    }
    let mut bad = recs.iter().find(|r| r["fn"]["k"] == "date" && r["fn"]["y"].as_i64().map_or(false, |y| y >= 1000) && r["fn"]["d"] != 27).cloned().unwrap_or_else(|| tool_error("no date"));
    bad["fn"]["d"] = json!(27);
    let out = tlc.judge("Trace_C14", "Trace_C14.cfg", &[bad], 1, 300, &[]);
    if !out.ok || out.rejects.is_empty() {
      tool_error(&format!("self-test failed: a wrong date was accepted {}", out.error_text));
    }
  }
  let out = tlc.judge("Trace_C14", "Trace_C14.cfg", &recs, 12, 3000, &[]);
  if !out.ok {
    tool_error(&format!("Trace_C14 failed: {}", out.error_text));
  }
  let unspec = out.counters("UNSPEC").len() as u64;
  for (i, why) in &out.rejects {
    let r = &recs[*i];
    let text = r["text"].as_str().unwrap_or("");
    let kind = r["kind"].as_str().unwrap_or("");
    let sig = if kind == "dur" && why.starts_with("an invalid literal") && text.contains(".S") && strict_dtd(&text.replacen(".S", "S", 1)) && r["fn"]["k"] != "null" {
      // the only malformation is a decimal point with no digits after it (pinned by a repository test)
      "dur:seconds-with-a-decimal-point-and-no-fraction-digits".to_string()
    } else {
      format!("{}:{}", kind, why.split_whitespace().take(6).collect::<Vec<_>>().join("-"))
    };
    ctx.reject(&[sig], json!({"record": r}), &format!("{} : {}(\"{}\") -> {} ; string -> \"{}\"", why, ctor(r["kind"].as_str().unwrap_or("")), text, crate::codec::dec_value(&r["fn"]), from_cps(&r["str"])));
  }
  let n = recs.len() as u64;
  ctx.cov("evaluations", json!(n));
  ctx.cov("distinct_nontrivial", json!(n - unspec));
  ctx.cov("unspecified_cases_accepted", json!(unspec));
  ctx.cov("rule", json!("one case = one literal text of a temporal kind, through the constructor function, the @-literal and string() (round trip); TLC-enumerated: every whole-minute offset -14:59..+14:59, fraction patterns of 0..10 digits, year classes x impossible months/days, hour 24 / minute 60 / second 60, durations (normalisation, negative, sub-second, 9-digit, mixed, malformed), every single-character deletion / replacement (13-character alphabet) of 10 valid literals; plus zone identifiers of the zone database and seeded random valid literals"));
  ctx.sample(json!({"text": recs[recs.len() / 2]["text"], "kind": recs[recs.len() / 2]["kind"]}));
  ctx.assume("hooks H5 (FeelTime::verif_parts, FeelDaysAndTimeDuration::verif_nanos) expose nanoseconds and zone exactly");
  ctx.finish()
}

/// `[-]P[nD][T[nH][nM][nS]]` with at least one component and no bare `T` (whole seconds only).
fn strict_dtd(t: &str) -> bool {
  let t = t.strip_prefix('-').unwrap_or(t);
  let Some(mut rest) = t.strip_prefix('P') else { return false };
  let mut comps = 0;
  let mut take = |rest: &mut &str, d: char| {
    let n = rest.bytes().take_while(|b| b.is_ascii_digit()).count();
    if n > 0 && rest[n..].starts_with(d) {
      *rest = &rest[n + 1..];
      comps += 1;
      true
    } else {
      false
    }
  };
  take(&mut rest, 'D');
  if let Some(r) = rest.strip_prefix('T') {
    rest = r;
    let h = take(&mut rest, 'H');
    let m = take(&mut rest, 'M');
    let s = take(&mut rest, 'S');
    if !(h || m || s) {
      return false;
    }
  }
  rest.is_empty() && comps > 0
}
