//! C16 — type conformance is a preorder; coercion yields a conforming value or null.
//!
//! Gen_C16 (TLC) emits the type universe and a value pool and model-checks the laws on the
//! specification's own relations. The harness computes the full observed matrices
//! is_equivalent / is_conformant over U x U and coerced over U x V; Trace_C16 judges them.

use crate::codec::{dec_value, enc_value};
use crate::tlc::{Run, Tlc};
use crate::util::{tool_error, Ctx};
use dmntk_feel::{FeelType, Name};
use serde_json::{json, Value as J};
use std::collections::BTreeMap;

pub fn type_of(j: &J) -> FeelType {
  match j["t"].as_str().unwrap_or("") {
    "Any" => FeelType::Any,
    "Null" => FeelType::Null,
    "number" => FeelType::Number,
    "string" => FeelType::String,
    "boolean" => FeelType::Boolean,
    "date" => FeelType::Date,
    "time" => FeelType::Time,
    "dt" => FeelType::DateTime,
    "dtd" => FeelType::DaysAndTimeDuration,
    "ymd" => FeelType::YearsAndMonthsDuration,
    "list" => FeelType::List(Box::new(type_of(&j["of"]))),
    "range" => FeelType::Range(Box::new(type_of(&j["of"]))),
    "ctx" => {
      let mut m = BTreeMap::new();
      for e in j["es"].as_array().cloned().unwrap_or_default() {
        m.insert(Name::from(e["n"].as_str().unwrap_or("")), type_of(&e["ty"]));
      }
      FeelType::Context(m)
    }
    "fn" => FeelType::Function(j["ps"].as_array().cloned().unwrap_or_default().iter().map(type_of).collect(), Box::new(type_of(&j["r"]))),
    other => tool_error(&format!("unknown type tag {}", other)),
  }
}

pub fn check(mut ctx: Ctx, replay: Option<J>) -> ! {
  let tlc = Tlc::new(&ctx.verif, "C16");
  let quick = ctx.quick();
  let (universe, values) = if let Some(r) = &replay {
    (r["case"]["types"].as_array().cloned().unwrap_or_default(), r["case"]["values"].as_array().cloned().unwrap_or_default())
  } else {
    let gen = tlc.run(Run::new("Gen_C16", if quick { "Gen_C16.cfg" } else { "Gen_C16Wide.cfg" }).timeout(1800));
    if !gen.ok || !gen.rejects().is_empty() || gen.counters("SPECLAWS").is_empty() {
      tool_error(&format!("Gen_C16 failed (spec laws): {} {:?}", gen.error_text, gen.rejects()));
    }
    let u = gen.tagged("UNIVERSE").pop().and_then(|a| a.as_array().cloned()).unwrap_or_else(|| tool_error("no universe"));
    let v = gen.tagged("VALUES").pop().and_then(|a| a.as_array().cloned()).unwrap_or_else(|| tool_error("no values"));
    if u.len() < 50 || v.len() < 10 {
      tool_error("universe too small");
    }
    (u, v)
  };
  let types: Vec<FeelType> = universe.iter().map(type_of).collect();
  let vals: Vec<dmntk_feel::values::Value> = values.iter().map(dec_value).collect();
  let venc: Vec<J> = vals.iter().map(enc_value).collect();
  let n = types.len();
  let table = |f: &dyn Fn(&FeelType, &FeelType) -> bool| -> Vec<Vec<u8>> { types.iter().map(|a| types.iter().map(|b| if f(a, b) { 1 } else { 0 }).collect()).collect() };
  let eq = table(&|a, b| a.is_equivalent(b));
  let cf = table(&|a, b| a.is_conformant(b));
  let co: Vec<Vec<J>> = types.iter().map(|t| vals.iter().map(|v| enc_value(&t.coerced(v))).collect()).collect();
  let co2: Vec<Vec<J>> = types.iter().map(|t| vals.iter().map(|v| enc_value(&t.coerced(&t.coerced(v)))).collect()).collect();
  // coercion where the evaluator applies it: parameters of a user-defined function, positional and named invocation
  let invoke = |t: &FeelType, v: &dmntk_feel::values::Value, named: bool| -> J {
    let scope = dmntk_feel::Scope::default();
    scope.set_entry(&Name::from("v"), v.clone());
    let text = format!("{{f: function(x: {}) x, r: f({})}}.r", t, if named { "x: v" } else { "v" });
    match dmntk_feel_parser::parse_expression(&scope, &text, false) {
      Ok(node) => match dmntk_feel_evaluator::evaluate(&scope, &node) {
        Ok(r) => enc_value(&r),
        Err(_) => json!({"k": "error"}),
      },
      Err(_) => json!({"k": "unparsable"}), // the type has no FEEL surface syntax (e.g. context<>): not judged here
    }
  };
  let inv_pos: Vec<Vec<J>> = types.iter().map(|t| vals.iter().map(|v| invoke(t, v, false)).collect()).collect();
  let inv_named: Vec<Vec<J>> = types.iter().map(|t| vals.iter().map(|v| invoke(t, v, true)).collect()).collect();
  // outside the property: the operator `v instance of T` (1 true, 2 false, 0 other, 9 the type has no surface syntax)
  let instance_of = |t: &FeelType, v: &dmntk_feel::values::Value| -> u8 {
    let scope = dmntk_feel::Scope::default();
    scope.set_entry(&Name::from("v"), v.clone());
    match dmntk_feel_parser::parse_expression(&scope, &format!("v instance of {}", t), false) {
      Ok(node) => match dmntk_feel_evaluator::evaluate(&scope, &node) {
        Ok(dmntk_feel::values::Value::Boolean(true)) => 1,
        Ok(dmntk_feel::values::Value::Boolean(false)) => 2,
        _ => 0,
      },
      Err(_) => 9,
    }
  };
  let io: Vec<Vec<u8>> = types.iter().map(|t| vals.iter().map(|v| instance_of(t, v)).collect()).collect();
  let rec = json!({"U": universe, "eq": eq, "cf": cf, "V": venc, "co": co, "co2": co2, "inv_pos": inv_pos, "inv_named": inv_named, "io": io});
  // anti-vacuity: flip one conformance cell
  if replay.is_none() {
    let mut bad = rec.clone();
    let cur = bad["cf"][2][3].as_u64().unwrap_or(0);
    bad["cf"][2][3] = json!(1 - cur);
    let f = tlc.write_ndjson("obs_corrupt.ndjson", &[bad]);
    let out = tlc.run(Run::new("Trace_C16", "Trace_C16.cfg").env("TRACE", &f.to_string_lossy()).timeout(1800).tag("_corrupt"));
    if !out.ok || out.tagged("LAWFAIL").is_empty() {
      tool_error(&format!("self-test failed: corrupted matrix accepted: {}", out.error_text));
    }
  }
  let f = tlc.write_ndjson("obs.ndjson", &[rec]);
  let out = tlc.run(Run::new("Trace_C16", "Trace_C16.cfg").env("TRACE", &f.to_string_lossy()).timeout(3600));
  if !out.ok || out.counters("LAWS-EVALUATED").is_empty() {
    tool_error(&format!("Trace_C16 failed: {}", out.error_text));
  }
  // informational: behaviour outside the listed property
  let extra = out.tagged("EXTRA");
  ctx.cov("outside_property_instance_of_cells", json!(types.len() * vals.len()));
  ctx.cov("outside_property_instance_of_disagreements", json!(extra.len()));
  if let Some(e) = extra.first() {
    let (i, k) = (e["i"].as_u64().unwrap_or(1) as usize, e["k"].as_u64().unwrap_or(1) as usize);
    ctx.cov("outside_property_instance_of_example", json!(format!("{} instance of {} -> code {}", vals[k - 1], types[i - 1], e["got"])));
  }
  for fail in out.tagged("LAWFAIL") {
    let law = fail["law"].as_str().unwrap_or("?").to_string();
    let (i, j, x) = (fail["i"].as_u64().unwrap_or(0) as usize, fail["j"].as_u64().unwrap_or(0) as usize, fail["x"].as_u64().unwrap_or(0) as usize);
    let mut tys = vec![];
    let mut text = format!("law `{}` fails for", law);
    for idx in [i, j] {
      if idx > 0 {
        tys.push(universe[idx - 1].clone());
        text.push_str(&format!(" {} ;", types[idx - 1]));
      }
    }
    let mut vs = vec![];
    if law.starts_with("coercion") || law.starts_with("invocation") {
      vs.push(values[x - 1].clone());
      text.push_str(&format!(" value {} -> {}", vals[x - 1], types[i - 1].coerced(&vals[x - 1])));
    } else if x > 0 {
      tys.push(universe[x - 1].clone());
      text.push_str(&format!(" {}", types[x - 1]));
    }
    // signature: the law plus whether nullary function types are involved
    let nullary = |t: &J| t["t"] == "fn" && t["ps"].as_array().map(|a| a.is_empty()).unwrap_or(false);
    fn any_nullary(t: &J, f: &dyn Fn(&J) -> bool) -> bool {
      f(t) || t.get("of").map(|x| any_nullary(x, f)).unwrap_or(false) || t.get("r").map(|x| any_nullary(x, f)).unwrap_or(false) || t["ps"].as_array().map(|a| a.iter().any(|x| any_nullary(x, f))).unwrap_or(false) || t["es"].as_array().map(|a| a.iter().any(|e| any_nullary(&e["ty"], f))).unwrap_or(false)
    }
    let sig = format!("{}{}", law, if tys.iter().any(|t| any_nullary(t, &nullary)) { ":nullary-function" } else { "" });
    ctx.reject(&[sig], json!({"law": law, "types": tys, "values": vs}), &text);
  }
  let nn = n as u64;
  ctx.cov("states", json!(nn));
  ctx.cov("transitions", json!(nn * nn));
  ctx.cov("traces_validated_against_impl", json!(1));
  ctx.cov("universe_size", json!(nn));
  ctx.cov("ordered_pairs", json!(nn * nn));
  ctx.cov("ordered_triples", json!(nn * nn * nn));
  ctx.cov("coercions", json!(nn * vals.len() as u64));
  ctx.cov("evaluations", json!(2 * nn * nn + 2 * nn * vals.len() as u64));
  ctx.cov("distinct_nontrivial", json!(nn * nn));
  ctx.cov("exhaustive", json!(true));
  ctx.cov("rule", json!("full matrices is_equivalent / is_conformant over U x U (U emitted by TLC) and coerced over U x value pool; laws evaluated by TLC over the observed matrices (all pairs; transitivity over all triples); a case is one ordered pair of types or one (type, value)"));
  ctx.sample(json!({"types": types.iter().take(40).map(|t| t.to_string()).collect::<Vec<_>>()}));
  ctx.finish()
}
