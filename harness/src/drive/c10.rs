//! C10 — names with spaces and symbols resolve to their bound value (longest match).

use crate::codec::enc_value;
use crate::drive::c01::eval_in;
use crate::tlc::{Run, Tlc};
use crate::util::{tool_error, Ctx};
use dmntk_feel::context::FeelContext;
use dmntk_feel::values::Value;
use dmntk_feel::{FeelNumber, Name, Scope};
use serde_json::{json, Value as J};

const SYMS: &[&str] = &[".", "/", "-", "'", "+", "*"];

fn real(word: &str) -> String {
  word.replace("Zolc", "żółć").replace("Eur", "\u{20AC}").replace("Nro", "\u{2116}").replace("Zwj", "a\u{200D}c").replace("Emo", "\u{1F600}")
}

/// Lays parts out: 0 = one space everywhere, 1 = no space around symbols, 2 = a space before symbols only.
fn render(parts: &[String], variant: usize) -> String {
  let mut s = String::new();
  for (i, p) in parts.iter().enumerate() {
    let sym = SYMS.contains(&p.as_str());
    let prev_sym = i > 0 && SYMS.contains(&parts[i - 1].as_str());
    if i > 0 {
      let space = match variant {
        0 => true,
        1 => !sym && !prev_sym,
        _ => !prev_sym,
      };
      if space {
        s.push(' ');
      }
    }
    s.push_str(&real(p));
  }
  s
}

fn parts_of(j: &J) -> Vec<String> {
  j.as_array().map(|a| a.iter().map(|p| p.as_str().unwrap_or("").to_string()).collect()).unwrap_or_default()
}

/// Splits a normalised name into its parts (words and additional symbols).
fn split_name(n: &str) -> Vec<String> {
  let mut out = vec![];
  let mut cur = String::new();
  for ch in n.chars() {
    if ch == ' ' || SYMS.contains(&ch.to_string().as_str()) {
      if !cur.is_empty() {
        out.push(std::mem::take(&mut cur));
      }
      if ch != ' ' {
        out.push(ch.to_string());
      }
    } else {
      cur.push(ch);
    }
  }
  if !cur.is_empty() {
    out.push(cur);
  }
  out
}

fn template(k: u64, r: &str, l: &str) -> String {
  match k {
    0 => r.to_string(),
    1 => format!("if ({r}) > 0 then ({r}) else 0", r = r),
    2 => format!("[{}, 1][1]", r),
    3 => format!("(function(z) z)({})", r),
    4 => format!("{{k: {}}}.k", r),
    5 => format!("for i in [1] return {}", r),
    6 => format!("[10, 20, 30][item > ({})]", r),
    7 => format!("every i in [1] satisfies ({}) > 0", r),
    8 => format!("for i in [{}] return i + 1", r),
    9 => format!("[1 instance of tX, {}][2]", r),
    20 => format!("[1 instance of list<tX>, {}][2]", r),
    21 => format!("if 1 instance of tX then ({r}) else ({r})", r = r),
    16 => format!("{{\"{}\": 7, r: {}}}.r", l, r),
    10 => format!("{{{}: 7, r: {}}}.r", l, r),
    11 => format!("for {} in [7] return {}", l, r),
    12 => format!("(function({}) {})(7)", l, r),
    // the outer name read after a construct that declared the same name locally (the local declaration is over)
    22 => format!("[for {} in [1] return 1, {}][2]", l, r),
    23 => format!("[{{{}: 1}}, {}][2]", l, r),
    24 => format!("[(function({}) 1)(0), {}][2]", l, r),
    25 => format!("[some {} in [1] satisfies true, {}][2]", l, r),
    13 => format!("for {l} in [1, null, 3] return {l}", l = l),
    14 => format!("{{{l}: null, r: {l}}}.r", l = l),
    _ => format!("(function({l}) {l})(null)", l = l),
  }
}

pub fn run_case(names: &J, parts: &[String], tpl: u64, local: &[String]) -> J {
  let mut ctx = FeelContext::default();
  let mut names_v = vec![];
  for n in names.as_array().unwrap() {
    let v = Value::Number(FeelNumber::from_i128(n["m"].as_i64().unwrap() as i128));
    ctx.set_entry(&Name::from(real(n["n"].as_str().unwrap())), v.clone());
    names_v.push(json!({"n": n["n"], "v": {"k": "num", "m": n["m"], "e": 0}}));
  }
  let scope: Scope = ctx.into();
  let mut obs = vec![];
  let mut texts = vec![];
  for variant in 0..3 {
    let text = template(tpl, &render(parts, variant), &render(local, variant));
    obs.push(eval_in(&scope, &text));
    texts.push(text);
  }
  json!({"names": names_v, "parts": parts, "tpl": tpl, "local": local, "obs": obs, "texts": texts})
}

pub fn check(mut ctx: Ctx, replay: Option<J>) -> ! {
  let tlc = Tlc::new(&ctx.verif, "C10");
  let quick = ctx.quick();
  let mut recs = vec![];
  if let Some(r) = &replay {
    let c = &r["case"]["record"];
    let names: Vec<J> = c["names"].as_array().unwrap().iter().map(|n| json!({"n": n["n"], "m": n["v"]["m"]})).collect();
    recs.push(run_case(&json!(names), &parts_of(&c["parts"]), c["tpl"].as_u64().unwrap_or(0), &parts_of(&c["local"])));
  } else {
    let gen = tlc.run(Run::new("Gen_C10", if quick { "Gen_C10.cfg" } else { "Gen_C10Deep.cfg" }).timeout(3000));
    if !gen.ok {
      tool_error(&format!("Gen_C10 failed: {}", gen.error_text));
    }
    let sets = gen.tagged("SET");
    if sets.len() < 6 {
      tool_error("too few name sets");
    }
    let mut k = 0u64;
    for s in &sets {
      let names = &s["names"];
      for c in s["cases"].as_array().unwrap() {
        let parts = parts_of(c);
        recs.push(run_case(names, &parts, 0, &[]));
        if parts.len() > 1 {
          recs.push(run_case(names, &parts, [1, 2, 3, 4, 5, 6, 7, 8, 9, 20, 21][(k % 11) as usize], &[]));
          // the first word, when it is itself a bound name, declared locally in a construct that has ended before
          if names.as_array().unwrap().iter().any(|n| n["n"] == parts[0].as_str()) {
            recs.push(run_case(names, &parts, 22 + (k % 4), &parts[..1]));
          }
          k += 1;
        }
      }
      for c in s["locals"].as_array().unwrap() {
        let local = parts_of(&c["local"]);
        recs.push(run_case(names, &parts_of(&c["parts"]), 10 + (k % 3), &local));
        // the same entry with its key written as a string literal (names made of words only)
        if k % 3 == 0 && !local.iter().any(|p| SYMS.contains(&p.as_str())) {
          recs.push(run_case(names, &parts_of(&c["parts"]), 16, &local));
        }
        k += 1;
      }
      // a local name that shadows an outer binding, bound to null
      for n in names.as_array().unwrap() {
        let l = split_name(n["n"].as_str().unwrap());
        for tpl in [13, 14, 15] {
          recs.push(run_case(names, &l, tpl, &l));
        }
      }
    }
    ctx.cov("name_sets", json!(sets.len()));
    let mut bad = recs[5].clone();
    bad["obs"][0] = json!({"k": "str", "cp": [113]});
    let out = tlc.judge("Trace_C10", "Trace_C10.cfg", &[bad], 1, 300, &[("RELAX_EMPTY_DOMAIN", "0")]);
    if !out.ok || out.rejects.is_empty() {
      tool_error(&format!("self-test failed: a wrong value was accepted {}", out.error_text));
    }
  }
  let out = tlc.judge("Trace_C10", "Trace_C10.cfg", &recs, 8, 3000, &[("RELAX_EMPTY_DOMAIN", "0")]);
  if !out.ok {
    tool_error(&format!("Trace_C10 failed: {}", out.error_text));
  }
  let unspec = out.counters("UNSPEC").len() as u64;
  for (i, why) in &out.rejects {
    let r = &recs[*i];
    let obs: Vec<String> = r["obs"].as_array().unwrap().iter().map(|o| crate::codec::dec_value(o).to_string()).collect();
    let syms: Vec<String> = parts_of(&r["parts"]).into_iter().filter(|p| SYMS.contains(&p.as_str())).collect();
    let dots = syms.iter().filter(|x| *x == ".").count();
    let local = parts_of(&r["local"]);
    let bound_first_word = !local.is_empty() && r["names"].as_array().map_or(false, |a| a.iter().any(|n| n["n"] == local[0].as_str()));
    let sig = if bound_first_word && local.len() > 1 && [10u64, 12].contains(&r["tpl"].as_u64().unwrap_or(0)) {
      format!("declared-name-beginning-with-a-bound-word:{}", if r["tpl"] == 10 { "context-entry-key" } else { "function-parameter" })
    } else if dots >= 2 && [1u64, 2, 3, 6, 7, 8, 21].contains(&r["tpl"].as_u64().unwrap_or(0)) {
      "path-of-three-or-more-segments-directly-after-an-opening-bracket".to_string()
    } else {
      format!("tpl{}:symbols[{}]:parts{}", r["tpl"], syms.join(""), r["parts"].as_array().map(|a| a.len()).unwrap_or(0))
    };
    ctx.reject(&[sig], json!({"record": r}), &format!("{} : {} -> {:?}", why, r["texts"], obs).chars().take(500).collect::<String>());
  }
  let n = recs.len() as u64;
  ctx.cov("evaluations", json!(n * 3));
  ctx.cov("distinct_nontrivial", json!(n - unspec));
  ctx.cov("unspecified_cases_accepted", json!(unspec));
  ctx.cov("exhaustive", json!(true));
  ctx.cov("rule", json!("one case = (set of bound names, part sequence denoting an expression over them, position, optional locally introduced name), each under three spacings; part sequences enumerated exhaustively by TLC up to the length bound per name set (words, additional symbols, a number), filtered by FeelNames!ParseOperands; every name carries a distinct prime"));
  ctx.sample(json!({"texts": recs[recs.len() / 2]["texts"]}));
  ctx.sample(json!({"texts": recs[recs.len() / 3]["texts"]}));
  let _ = enc_value(&Value::Null(None));
  ctx.finish()
}
