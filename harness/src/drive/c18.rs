//! C18 — the HTTP service always answers well-formed JSON reflecting the workspace.
//!
//! A live service (dmntk_server::start_server on a loopback port, in-process) is driven with
//! (1) the edge tour of Server.tla (every state x endpoint, every state x malformed request),
//! (2) seeded random request sequences, (3) echo evaluations of TLC-enumerated values through
//! /evaluate and /tck/evaluate. Raw response bodies go to TLC, which decodes them itself.

use crate::codec::{cps, enc_value, feel_literal};
use crate::drive::c17::{ALPHABET, NAMES, NAMESPACES};
use crate::http::{start_server, Client};
use crate::tlc::{Run, Tlc};
use crate::util::{tool_error, Ctx, Rng};
use crate::xml::alphabet_model;
use serde_json::{json, Value as J};
use std::collections::HashMap;

struct Bodies {
  index: HashMap<Vec<u32>, usize>,
  list: Vec<J>,
}

impl Bodies {
  fn new() -> Self {
    Bodies { index: HashMap::new(), list: vec![] }
  }
  /// 1-based index of the body (as code points; invalid UTF-8 or no response become marker texts that are not JSON).
  fn add(&mut self, body: Option<&[u8]>) -> usize {
    let text: Vec<u32> = match body {
      None => cps("<no response>"),
      Some(b) => match std::str::from_utf8(b) {
        Ok(s) => cps(s),
        Err(_) => cps("<invalid utf-8>"),
      },
    };
    if let Some(i) = self.index.get(&text) {
      return *i;
    }
    self.list.push(json!({ "cp": text }));
    let i = self.list.len();
    self.index.insert(text, i);
    i
  }
}

fn model_b64(id: &str) -> String {
  let (id, ns, nm, b) = ALPHABET.iter().find(|m| m.0 == id).unwrap_or_else(|| tool_error("unknown model id"));
  base64::encode(alphabet_model(id, ns, nm, *b))
}

/// Sends the request that stands for `op`; returns the body index.
fn send(c: &mut Client, bodies: &mut Bodies, op: &J) -> usize {
  let kind = op["op"].as_str().unwrap_or("");
  let js = "application/json";
  let r = match kind {
    "add" => c.request("POST", "/definitions/add", js, json!({"content": model_b64(op["m"].as_str().unwrap())}).to_string().as_bytes()),
    "replace" => c.request("POST", "/definitions/replace", js, json!({"content": model_b64(op["m"].as_str().unwrap())}).to_string().as_bytes()),
    "remove" => c.request("POST", "/definitions/remove", js, json!({"namespace": op["ns"], "name": op["nm"]}).to_string().as_bytes()),
    "clear" => c.request("POST", "/definitions/clear", "", b""),
    "deploy" => c.request("POST", "/definitions/deploy", "", b""),
    "eval" => c.request("POST", &format!("/evaluate/{}/v", op["nm"].as_str().unwrap()), "text/plain", b"{}"),
    "evalinv" => c.request("POST", &format!("/evaluate/{}/nosuchinvocable", op["nm"].as_str().unwrap()), "text/plain", b"{}"),
    "bad" => match op["kind"].as_str().unwrap_or("") {
      // every malformed kind rotates through a pool of concrete bodies (the k-th use takes the k-th variant)
      "bad-json" => {
        let k = VARIANT.fetch_add(1, std::sync::atomic::Ordering::SeqCst);
        let pool: [&[u8]; 6] = [b"{\"content\": ", b"{\"content\": \"QUJD\"", b"[1, 2", b"{\"content\": \"\xff\xfe\"}", b"{\"content\": nul}", b"\"just a string\""];
        c.request("POST", if k % 2 == 0 { "/definitions/add" } else { "/definitions/replace" }, js, pool[k % pool.len()])
      }
      "bad-base64" => {
        let k = VARIANT.fetch_add(1, std::sync::atomic::Ordering::SeqCst);
        // not Base64: plain punctuation, and non-ASCII characters at every byte offset around 32, short and long
        let content = if k % 7 == 0 {
          "!!!not*base64!!!".to_string()
        } else {
          let ch = ['\u{e9}', '\u{20ac}', '\u{1F600}', '*'][k % 4];
          format!("{}{}{}", "A".repeat(24 + (k / 4) % 12), ch, "*".repeat((k % 5) * 9))
        };
        c.request("POST", if k % 2 == 0 { "/definitions/add" } else { "/definitions/replace" }, js, json!({"content": content}).to_string().as_bytes())
      }
      "bad-utf8" => {
        let k = VARIANT.fetch_add(1, std::sync::atomic::Ordering::SeqCst);
        let pool: [&[u8]; 4] = [&[0xff, 0xfe, 0x00, 0xc3], &[0xc3], &[0xed, 0xa0, 0x80], &[0x3c, 0x61, 0xf0, 0x9f, 0x98]];
        c.request("POST", "/definitions/add", js, json!({"content": base64::encode(pool[k % pool.len()])}).to_string().as_bytes())
      }
      "bad-xml" => {
        let k = VARIANT.fetch_add(1, std::sync::atomic::Ordering::SeqCst);
        let pool = ["<definitions><decision", "", "<a></b>", "<definitions xmlns=\"https://www.omg.org/spec/DMN/20191111/MODEL/\"/>", "not xml at all \u{1F600}", "<?xml version=\"1.0\"?>"];
        c.request("POST", if k % 2 == 0 { "/definitions/replace" } else { "/definitions/add" }, js, json!({"content": base64::encode(pool[k % pool.len()])}).to_string().as_bytes())
      }
      "no-content" => c.request("POST", "/definitions/add", js, b"{}"),
      "no-name" => c.request("POST", "/definitions/remove", js, b"{\"namespace\": \"ns1\"}"),
      "no-namespace" => c.request("POST", "/definitions/remove", js, b"{\"name\": \"n1\"}"),
      "unknown-path" => c.request("GET", "/no/such/endpoint", "", b""),
      "bad-input" => c.request("POST", "/evaluate/n1/v", "text/plain", b"{{{ not a context"),
      "empty-body" => c.request("POST", "/definitions/add", js, b""),
      other => tool_error(&format!("unknown malformed kind {}", other)),
    },
    other => tool_error(&format!("unknown op {}", other)),
  };
  bodies.add(r.as_ref().map(|r| r.body.as_slice()))
}

static VARIANT: std::sync::atomic::AtomicUsize = std::sync::atomic::AtomicUsize::new(0);

fn probe(c: &mut Client, bodies: &mut Bodies) -> J {
  let mut v = vec![];
  for nm in NAMES {
    let r = c.request("POST", &format!("/evaluate/{}/v", nm), "text/plain", b"{}");
    v.push(bodies.add(r.as_ref().map(|r| r.body.as_slice())));
  }
  json!(v)
}

fn event_of(op: &J, b: usize) -> J {
  let mut e = op.clone();
  let m = e.as_object_mut().unwrap();
  let k = m.remove("op").unwrap();
  m.insert("ev".into(), k);
  m.insert("b".into(), json!(b));
  e
}

/// Runs one request sequence from a cleared service. `probe_all`: probe after every request,
/// otherwise only before and after the last one.
fn run_path(c: &mut Client, bodies: &mut Bodies, path: &[J], probe_all: bool) -> J {
  let r = c.request("POST", "/definitions/clear", "", b"");
  if r.is_none() {
    tool_error("service does not answer /definitions/clear");
  }
  let mut evs = vec![];
  let n = path.len();
  for (i, op) in path.iter().enumerate() {
    let b = send(c, bodies, op);
    let mut e = event_of(op, b);
    if probe_all || i + 2 >= n {
      e["probe"] = probe(c, bodies);
    }
    evs.push(e);
  }
  json!({ "evs": evs })
}

/// A request sequence against a service that was STARTED on a directory holding the models `ms` (another instance of
/// the service, on a port of its own): the first event is the start, with the probes of what can be evaluated.
fn run_started_path(bodies: &mut Bodies, ms: &[String], path: &[J]) -> J {
  let dir = crate::drive::c17::write_model_dir(ms);
  let server = crate::util::silenced(|| crate::http::start_server_on(Some(dir.to_string_lossy().to_string())));
  let _ = std::fs::remove_dir_all(&dir);
  let mut c = Client::new(server.port);
  let mut evs = vec![json!({"ev": "start", "cands": ms, "probe": probe(&mut c, bodies)})];
  for op in path {
    let b = send(&mut c, bodies, op);
    let mut e = event_of(op, b);
    e["probe"] = probe(&mut c, bodies);
    evs.push(e);
  }
  json!({ "evs": evs })
}

/// What is logged of a path with overlapping requests, before the reply bodies are numbered.
enum Logged {
  Begin(usize, J),
  End(usize, Option<Vec<u8>>),
  Probe(Vec<Option<Vec<u8>>>),
}

fn raw_send(c: &mut Client, op: &J, slow_n: u64) -> Option<Vec<u8>> {
  let js = "application/json";
  let r = match op["op"].as_str().unwrap_or("") {
    "add" => c.request("POST", "/definitions/add", js, json!({"content": model_b64(op["m"].as_str().unwrap())}).to_string().as_bytes()),
    "replace" => c.request("POST", "/definitions/replace", js, json!({"content": model_b64(op["m"].as_str().unwrap())}).to_string().as_bytes()),
    "remove" => c.request("POST", "/definitions/remove", js, json!({"namespace": op["ns"], "name": op["nm"]}).to_string().as_bytes()),
    "clear" => c.request("POST", "/definitions/clear", "", b""),
    "deploy" => c.request("POST", "/definitions/deploy", "", b""),
    "eval" => c.request("POST", &format!("/evaluate/{}/v", op["nm"].as_str().unwrap()), "text/plain", b"{}"),
    "slow" => c.request("POST", &format!("/evaluate/{}/slow", op["nm"].as_str().unwrap()), "text/plain", format!("{{n: {}}}", slow_n).as_bytes()),
    other => tool_error(&format!("unknown concurrent op {}", other)),
  };
  r.map(|r| r.body)
}

/// One path with overlapping requests: a set-up made request by request, then rounds in each of which a slow
/// evaluation (`slow` of a model name, about `slow_ms` long) is under way on one connection while a request from
/// `others` is sent on a second connection; a probe after every round. Every request is logged at its begin (before
/// the first byte is sent) and at its end (after the reply has been read), in the order in which that happened.
fn run_concurrent_path(port: u16, bodies: &mut Bodies, setup: &[J], rounds: &[(J, J)], slow_n: u64) -> J {
  use std::sync::{Arc, Mutex};
  let log: Arc<Mutex<Vec<Logged>>> = Arc::new(Mutex::new(vec![]));
  let mut main = Client::new(port);
  let mut id = 0usize;
  let push = |log: &Arc<Mutex<Vec<Logged>>>, e: Logged| log.lock().unwrap().push(e);
  for op in setup {
    id += 1;
    push(&log, Logged::Begin(id, op.clone()));
    let b = raw_send(&mut main, op, slow_n);
    push(&log, Logged::End(id, b));
  }
  let probe_raw = |c: &mut Client| -> Vec<Option<Vec<u8>>> { NAMES.iter().map(|nm| c.request("POST", &format!("/evaluate/{}/v", nm), "text/plain", b"{}").map(|r| r.body)).collect() };
  let pr = probe_raw(&mut main);
  push(&log, Logged::Probe(pr));
  for (slow, other) in rounds {
    id += 1;
    let slow_id = id;
    id += 1;
    let other_id = id;
    let (log_a, slow_op) = (Arc::clone(&log), slow.clone());
    let a = std::thread::spawn(move || {
      let mut ca = Client::new(port);
      log_a.lock().unwrap().push(Logged::Begin(slow_id, slow_op.clone()));
      let b = raw_send(&mut ca, &slow_op, slow_n);
      log_a.lock().unwrap().push(Logged::End(slow_id, b));
    });
    std::thread::sleep(std::time::Duration::from_millis(60));
    push(&log, Logged::Begin(other_id, other.clone()));
    let b = raw_send(&mut main, other, slow_n);
    push(&log, Logged::End(other_id, b));
    let _ = a.join();
    let pr = probe_raw(&mut main);
    push(&log, Logged::Probe(pr));
  }
  let logged = std::mem::take(&mut *log.lock().unwrap());
  let mut evs = vec![];
  for e in logged {
    evs.push(match e {
      Logged::Begin(id, op) => {
        let mut o = op.clone();
        o["ev"] = json!("begin");
        o["id"] = json!(id);
        o
      }
      Logged::End(id, b) => json!({"ev": "end", "id": id, "b": bodies.add(b.as_deref())}),
      Logged::Probe(v) => json!({"ev": "probe", "probe": v.iter().map(|b| bodies.add(b.as_deref())).collect::<Vec<_>>()}),
    });
  }
  json!({ "evs": evs })
}

fn random_concurrent_scenario(rng: &mut Rng) -> (Vec<J>, Vec<(J, J)>) {
  let setup = vec![json!({"op": "clear"}), json!({"op": "add", "m": "A"}), json!({"op": "add", "m": "D"}), json!({"op": "deploy"})];
  let mut rounds = vec![];
  for _ in 0..3 {
    let slow = json!({"op": "slow", "nm": rng.pick(&["n1", "n3"])});
    let m = ALPHABET[rng.below(6) as usize].0;
    let other = match rng.below(8) {
      0 | 1 => json!({"op": "add", "m": m}),
      2 => json!({"op": "replace", "m": m}),
      3 => json!({"op": "remove", "ns": rng.pick(NAMESPACES), "nm": rng.pick(NAMES)}),
      4 => json!({"op": "clear"}),
      5 | 6 => json!({"op": "deploy"}),
      _ => json!({"op": "eval", "nm": rng.pick(NAMES)}),
    };
    rounds.push((slow, other));
    // between the rounds: mostly a deploy, so that the next slow evaluation finds something to evaluate
    if rng.below(3) > 0 {
      rounds.push((json!({"op": "eval", "nm": rng.pick(NAMES)}), json!({"op": "deploy"})));
    }
  }
  (setup, rounds)
}

fn random_path(rng: &mut Rng, len: usize) -> Vec<J> {
  let kinds = ["bad-json", "bad-base64", "bad-utf8", "bad-xml", "no-content", "no-name", "no-namespace", "unknown-path", "bad-input", "empty-body"];
  let mut p = vec![];
  for _ in 0..len {
    let k = rng.below(100);
    let m = ALPHABET[rng.below(6) as usize].0;
    p.push(if k < 25 {
      json!({"op": "add", "m": m})
    } else if k < 40 {
      json!({"op": "replace", "m": m})
    } else if k < 52 {
      json!({"op": "remove", "ns": rng.pick(NAMESPACES), "nm": rng.pick(NAMES)})
    } else if k < 55 {
      json!({"op": "clear"})
    } else if k < 70 {
      json!({"op": "deploy"})
    } else if k < 78 {
      json!({"op": "eval", "nm": rng.pick(NAMES)})
    } else if k < 82 {
      json!({"op": "evalinv", "nm": rng.pick(NAMES)})
    } else {
      json!({"op": "bad", "kind": rng.pick(&kinds)})
    });
  }
  p
}

fn signature_path(path: &J, at: usize) -> Vec<String> {
  let evs = path["evs"].as_array().cloned().unwrap_or_default();
  let e = evs.get(at.saturating_sub(1)).cloned().unwrap_or(J::Null);
  vec![format!("http:{}", e["ev"].as_str().unwrap_or("?"))]
}

/// TCK value DTO of a spec-encoded value.
fn tck_dto(v: &J) -> J {
  match v["k"].as_str().unwrap_or("") {
    "null" => json!({"simple": {"isNil": true}}),
    "bool" => json!({"simple": {"type": "xsd:boolean", "text": v["b"].as_bool().unwrap().to_string(), "isNil": false}}),
    "num" => json!({"simple": {"type": "xsd:decimal", "text": crate::codec::plain_decimal(v), "isNil": false}}),
    "str" => json!({"simple": {"type": "xsd:string", "text": crate::codec::from_cps(&v["cp"]), "isNil": false}}),
    "typed" => json!({"simple": {"type": v["ty"], "text": v["tx"], "isNil": false}}),
    "list" => json!({"list": {"items": v["items"].as_array().unwrap().iter().map(tck_dto).collect::<Vec<_>>(), "isNil": false}}),
    "ctx" => json!({"components": v["ents"].as_array().unwrap().iter().map(|e| json!({"name": e["n"], "value": tck_dto(&e["v"]), "isNil": false})).collect::<Vec<_>>()}),
    _ => json!({"simple": {"isNil": true}}),
  }
}

pub fn check(mut ctx: Ctx, replay: Option<J>) -> ! {
  let tlc = Tlc::new(&ctx.verif, "C18");
  let quick = ctx.quick();
  let server = start_server();
  let mut client = Client::new(server.port);
  if let Some(r) = replay {
    let case = &r["case"];
    if case.get("concurrent").is_some() {
      let setup: Vec<J> = case["concurrent"]["setup"].as_array().cloned().unwrap_or_default();
      let rounds: Vec<(J, J)> = case["concurrent"]["rounds"].as_array().map(|a| a.iter().map(|r| (r[0].clone(), r[1].clone())).collect()).unwrap_or_default();
      let mut cb = Bodies::new();
      let path = run_concurrent_path(server.port, &mut cb, &setup, &rounds, case["slow_n"].as_u64().unwrap_or(20000));
      for (_, at) in run_trace_c(&tlc, &[path.clone()], &cb, "replay") {
        ctx.reject(&["http-overlap:replay".to_string()], json!({"concurrent": case["concurrent"], "slow_n": case["slow_n"], "events": path["evs"]}), &format!("overlapping requests: event {} is not explained", at));
      }
    } else if case.get("path").is_some() {
      let mut bodies = Bodies::new();
      let ops: Vec<J> = case["path"].as_array().cloned().unwrap_or_default();
      let p = if ops.first().map_or(false, |o| o["op"] == "start") {
        let ms: Vec<String> = ops[0]["ms"].as_array().map(|a| a.iter().filter_map(|m| m.as_str().map(|m| m.to_string())).collect()).unwrap_or_default();
        run_started_path(&mut bodies, &ms, &ops[1..])
      } else {
        run_path(&mut client, &mut bodies, &ops, true)
      };
      judge_paths(&mut ctx, &tlc, &[p], &[ops], &bodies, "replay");
    } else {
      let recs = vec![echo_one(&mut client, &case["value"], case["kind"].as_str().unwrap_or("json"))];
      judge_values(&mut ctx, &tlc, recs);
    }
    ctx.finish();
  }
  // the JSON text specification against its recorded cases
  let st = tlc.run(Run::new("SelfTest_JsonText", "SelfTest_JsonText.cfg").timeout(600).workers(4));
  if !st.ok || st.lines.iter().any(|l| l.contains("is violated")) {
    tool_error(&format!("SelfTest_JsonText failed: {}", st.error_text));
  }
  // --- design: Server.tla keeps the C17 invariants (it adds only state-preserving actions)
  let mc = tlc.run(Run::new("MC_Server", "MC_Server.cfg").workers(4).timeout(600));
  if !mc.ok {
    tool_error(&format!("MC_Server failed: {}", mc.error_text));
  }
  ctx.cov("states", json!(mc.distinct));
  ctx.cov("transitions", json!(mc.generated));
  // --- edge tour over HTTP
  let gen = tlc.run(Run::new("Gen_C18", "Gen_C18.cfg").workers(1).timeout(600));
  if !gen.ok {
    tool_error(&format!("Gen_C18 failed: {}", gen.error_text));
  }
  let edges = gen.tagged("EDGE");
  if edges.len() < 100 {
    tool_error("edge tour too small");
  }
  ctx.cov("tour_edges", json!(edges.len()));
  let mut bodies = Bodies::new();
  let mut paths = vec![];
  let mut ops_of = vec![];
  for e in &edges {
    let ops: Vec<J> = e["path"].as_array().cloned().unwrap_or_default();
    paths.push(run_path(&mut client, &mut bodies, &ops, false));
    ops_of.push(ops);
  }
  let mut rng = Rng::new(ctx.seed);
  let (n_rand, len) = if quick { (30, 40) } else { (300, 60) };
  for _ in 0..n_rand {
    let ops = random_path(&mut rng, len);
    paths.push(run_path(&mut client, &mut bodies, &ops, true));
    ops_of.push(ops);
  }
  // the service started on a directory of model files (clashing and junk files among them), then driven on
  let n_started = if quick { 6 } else { 30 };
  for _ in 0..n_started {
    let ms: Vec<String> = ALPHABET.iter().take(6).filter(|_| rng.below(100) < 55).map(|m| m.0.to_string()).collect();
    let ops = random_path(&mut rng, 12);
    paths.push(run_started_path(&mut bodies, &ms, &ops));
    let mut all = vec![json!({"op": "start", "ms": ms})];
    all.extend(ops);
    ops_of.push(all);
  }
  ctx.cov("services_started_on_a_directory_of_model_files", json!(n_started));
  ctx.cov("random_request_sequences", json!(n_rand));
  ctx.cov("distinct_response_bodies", json!(bodies.list.len()));
  ctx.sample(json!({"request_sequence": ops_of.iter().find(|o| o.len() >= 4).cloned()}));
  // anti-vacuity: a path whose last reply class is flipped must be rejected
  {
    let mut bad = paths[paths.len() / 2].clone();
    let err_body = bodies.add(Some(b"{\"errors\":[{\"details\":\"x\"}]}"));
    let ok_body = bodies.add(Some(b"{\"data\":{\"status\":\"x\"}}"));
    let evs = bad["evs"].as_array_mut().unwrap();
    let last = evs.len() - 1;
    let cur = evs[last]["b"].as_u64().unwrap() as usize;
    let cur_text = crate::codec::from_cps(&bodies.list[cur - 1]["cp"]);
    evs[last]["b"] = json!(if cur_text.contains("\"data\"") { err_body } else { ok_body });
    let rej = run_trace(&tlc, &[bad], &bodies, "corrupt");
    if rej.is_empty() {
      tool_error("self-test failed: Trace_C18 accepted a corrupted trace");
    }
    ctx.cov("corrupted_trace_rejected", json!(true));
  }
  let total = paths.len();
  judge_paths(&mut ctx, &tlc, &paths, &ops_of, &bodies, "main");
  ctx.cov("traces_validated_against_impl", json!(total));
  // --- overlapping requests: a slow evaluation under way while another request arrives (Trace_C18c: every request takes
  // effect at some moment between its begin and its end)
  {
    // the size of the slow evaluation: about 400 ms here and now
    let mut b = Bodies::new();
    for op in [json!({"op": "clear"}), json!({"op": "add", "m": "A"}), json!({"op": "deploy"})] {
      send(&mut client, &mut b, &op);
    }
    let t0 = std::time::Instant::now();
    let probe_n = 3000u64;
    let _ = raw_send(&mut client, &json!({"op": "slow", "nm": "n1"}), probe_n);
    let ms = t0.elapsed().as_millis().max(1) as u64;
    let slow_n = (probe_n * 400 / ms).clamp(3000, 600_000);
    let n_conc = if quick { 10 } else { 80 };
    let mut cb = Bodies::new();
    let mut cpaths = vec![];
    let mut scen = vec![];
    for _ in 0..n_conc {
      let (setup, rounds) = random_concurrent_scenario(&mut rng);
      cpaths.push(run_concurrent_path(server.port, &mut cb, &setup, &rounds, slow_n));
      scen.push(json!({"setup": setup, "rounds": rounds.iter().map(|(a, b)| json!([a, b])).collect::<Vec<_>>()}));
    }
    // anti-vacuity: the reply to an overlapped request flipped must be rejected
    {
      let mut bad = cpaths[0].clone();
      let err_body = cb.add(Some(b"{\"errors\":[{\"details\":\"x\"}]}"));
      let ok_body = cb.add(Some(b"{\"data\":{\"status\":\"x\"}}"));
      let evs = bad["evs"].as_array_mut().unwrap();
      // the end event of the deploy of the set-up (request 4)
      let k = evs.iter().position(|e| e["ev"] == "end" && e["id"] == 4).unwrap_or_else(|| tool_error("no deploy in the set-up"));
      let cur = evs[k]["b"].as_u64().unwrap() as usize;
      let cur_text = crate::codec::from_cps(&cb.list[cur - 1]["cp"]);
      evs[k]["b"] = json!(if cur_text.contains("\"data\"") { err_body } else { ok_body });
      if run_trace_c(&tlc, &[bad], &cb, "ccorrupt").is_empty() {
        tool_error("self-test failed: Trace_C18c accepted a corrupted trace");
      }
    }
    let rejects = run_trace_c(&tlc, &cpaths, &cb, "conc");
    for (pi, at) in rejects {
      let at: usize = at.parse().unwrap_or(1);
      let evs = cpaths[pi]["evs"].as_array().cloned().unwrap_or_default();
      let e = evs.get(at.saturating_sub(1)).cloned().unwrap_or(J::Null);
      let body = e["b"].as_u64().map(|b| crate::codec::from_cps(&cb.list[b as usize - 1]["cp"])).unwrap_or_default();
      let begun = evs.iter().find(|x| x["ev"] == "begin" && x["id"] == e["id"]).cloned().unwrap_or(J::Null);
      ctx.reject(&[format!("http-overlap:{}", begun["op"].as_str().unwrap_or(e["ev"].as_str().unwrap_or("?")))], json!({"concurrent": scen[pi], "slow_n": slow_n, "events": evs, "rejected_event": at}),
        &format!("overlapping requests: no choice of moments at which the requests take effect explains event {} ({} of request {}: {}); reply: {}", at, e["ev"], e["id"], begun, body.chars().take(200).collect::<String>()));
    }
    ctx.cov("request_sequences_with_overlapping_requests", json!(n_conc));
    ctx.cov("slow_evaluation_size", json!(slow_n));
  }
  // --- rendering of values
  let gcfg = if quick { "Gen_C18v.cfg" } else { "Gen_C18vDeep.cfg" };
  let gv = tlc.run(Run::new("Gen_C18v", gcfg).workers(1).timeout(600));
  let values = gv.tagged("CASE");
  if values.len() < 100 {
    tool_error(&format!("Gen_C18v produced too few values: {}", gv.error_text));
  }
  // deploy model A for the echo decision
  for op in [json!({"op": "clear"}), json!({"op": "add", "m": "A"}), json!({"op": "deploy"})] {
    let mut b = Bodies::new();
    send(&mut client, &mut b, &op);
  }
  let mut recs = vec![];
  let mut unsendable = 0;
  for v in &values {
    for kind in ["json", "tck", "jsonq"] {
      let r = echo_one(&mut client, v, kind);
      if r.is_null() {
        if kind != "jsonq" {
          unsendable += 1;
        }
      } else {
        recs.push(r);
      }
    }
  }
  // typed TCK scalars
  for (ty, tx) in [
    ("xsd:date", "2021-02-28"), ("xsd:date", "0001-01-01"), ("xsd:time", "10:20:30"), ("xsd:time", "10:20:30Z"), ("xsd:time", "10:20:30+01:00"),
    ("xsd:time", "23:59:59.5"), ("xsd:dateTime", "2021-02-28T10:20:30"), ("xsd:dateTime", "2021-02-28T10:20:30Z"), ("xsd:dateTime", "2021-02-28T10:20:30-05:00"),
    ("xsd:duration", "P1DT2H"), ("xsd:duration", "P1Y2M"), ("xsd:duration", "-PT5S"), ("xsd:duration", "PT0.5S"), ("xsd:duration", "-P3M"),
  ] {
    let v = json!({"k": "typed", "ty": ty, "tx": tx});
    recs.push(echo_one(&mut client, &v, "tck"));
    recs.push(echo_one(&mut client, &json!({"k": "list", "items": [v.clone(), {"k": "null"}]}), "tck"));
  }
  ctx.cov("echo_values", json!(values.len()));
  ctx.cov("echo_requests", json!(recs.len()));
  ctx.cov("echo_values_not_expressible_as_input", json!(unsendable));
  ctx.sample(json!({"echo": recs.get(recs.len() / 3)}));
  // anti-vacuity for the value judge
  {
    let mut bad = recs[0].clone();
    bad["body"] = json!(cps("{\"data\":\"a\"b\"}"));
    let out = tlc.judge("Trace_C18v", "Trace_C18v.cfg", &[bad], 1, 300, &[]);
    if !out.ok || out.rejects.is_empty() {
      tool_error("self-test failed: Trace_C18v accepted a malformed body");
    }
  }
  judge_values(&mut ctx, &tlc, recs);
  ctx.cov("exhaustive", json!(true));
  ctx.cov("rule", json!("edge tour of Server.tla over HTTP (every state x endpoint and x malformed-request kind, probes before/after), random request sequences with probes after every request, and echo evaluations of TLC-enumerated values via /evaluate and /tck/evaluate; every raw response body is decoded and judged by TLC"));
  ctx.assume("the workspace behind the service is observed only through responses (no hook); TLC infers the hidden state from the Server actions");
  ctx.assume("echo decisions return their input unchanged (input values are built by the library's own FEEL context evaluation, whose result is what `expect` encodes)");
  ctx.finish()
}

fn echo_one(c: &mut Client, v: &J, kind: &str) -> J {
  if kind == "json" || kind == "jsonq" {
    // "jsonq": the same context with its key written as a string literal - for numbers, booleans, nulls and lists of
    // them the body is then a JSON document as well as a FEEL context (the endpoint takes a FEEL context)
    fn json_like(v: &J) -> bool {
      match v["k"].as_str().unwrap_or("") {
        "num" | "bool" | "null" => true,
        "list" => v["items"].as_array().map_or(false, |a| a.iter().all(json_like)),
        _ => false,
      }
    }
    if kind == "jsonq" && !json_like(v) {
      return J::Null;
    }
    // the value the decision will return = what the library makes of the input text
    let text = if kind == "jsonq" { format!("{{\"x\": {}}}", feel_literal(v)) } else { format!("{{x: {}}}", feel_literal(v)) };
    let scope = dmntk_feel::Scope::default();
    let Ok(input) = dmntk_feel_evaluator::evaluate_context(&scope, &text) else { return J::Null };
    let Some(x) = input.get_entry(&dmntk_feel::Name::from("x")) else { return J::Null };
    let expect = enc_value(x);
    let r = c.request("POST", "/evaluate/n1/echo", "text/plain", text.as_bytes());
    let body = match r.as_ref().map(|r| std::str::from_utf8(&r.body)) {
      Some(Ok(s)) => cps(s),
      Some(Err(_)) => cps("<invalid utf-8>"),
      None => cps("<no response>"),
    };
    json!({"kind": "json", "value": v, "input": text, "expect": expect, "body": body})
  } else {
    // names of context entries travel as text through parse_longest_name: only plain keys
    fn plain_keys(v: &J) -> bool {
      match v["k"].as_str().unwrap_or("") {
        "ctx" => v["ents"].as_array().unwrap().iter().all(|e| crate::codec::from_cps(&e["nc"]).chars().all(|c| c.is_ascii_alphanumeric() || c == ' ') && plain_keys(&e["v"])),
        "list" => v["items"].as_array().unwrap().iter().all(plain_keys),
        _ => true,
      }
    }
    if !plain_keys(v) {
      return J::Null;
    }
    let mut v2 = v.clone();
    fn name_entries(v: &mut J) {
      match v["k"].as_str().unwrap_or("").to_string().as_str() {
        "ctx" => {
          for e in v["ents"].as_array_mut().unwrap() {
            e["n"] = json!(crate::codec::from_cps(&e["nc"]));
            name_entries(&mut e["v"]);
          }
        }
        "list" => {
          for e in v["items"].as_array_mut().unwrap() {
            name_entries(e);
          }
        }
        _ => {}
      }
    }
    name_entries(&mut v2);
    let dto = tck_dto(&v2);
    let req = json!({"model": "n1", "invocable": "echo", "input": [{"name": "x", "value": dto}]});
    let r = c.request("POST", "/tck/evaluate", "application/json", req.to_string().as_bytes());
    let body = match r.as_ref().map(|r| std::str::from_utf8(&r.body)) {
      Some(Ok(s)) => cps(s),
      Some(Err(_)) => cps("<invalid utf-8>"),
      None => cps("<no response>"),
    };
    json!({"kind": "tck", "value": v, "req": cps(&dto.to_string()), "body": body})
  }
}

fn judge_values(ctx: &mut Ctx, tlc: &Tlc, recs: Vec<J>) {
  let out = tlc.judge("Trace_C18v", "Trace_C18v.cfg", &recs, 8, 900, &[]);
  if !out.ok {
    tool_error(&format!("Trace_C18v failed: {}", out.error_text));
  }
  ctx.cov_add("echo_responses_judged", recs.len() as u64);
  for (i, why) in &out.rejects {
    let r = &recs[*i];
    let body = crate::codec::from_cps(&r["body"]);
    let mut sigs = vec![];
    let v = &r["value"];
    fn has_kind(v: &J, pred: &dyn Fn(&J) -> bool) -> bool {
      if pred(v) {
        return true;
      }
      match v["k"].as_str().unwrap_or("") {
        "list" => v["items"].as_array().unwrap().iter().any(|x| has_kind(x, pred)),
        "ctx" => v["ents"].as_array().unwrap().iter().any(|e| has_kind(&e["v"], pred)),
        _ => false,
      }
    }
    let needs_escape = |v: &J| v["k"] == "str" && v["cp"].as_array().unwrap().iter().any(|c| matches!(c.as_u64().unwrap(), 34 | 92 | 0..=31));
    let key_needs_escape = |v: &J| v["k"] == "ctx" && v["ents"].as_array().unwrap().iter().any(|e| e["nc"].as_array().unwrap().iter().any(|c| matches!(c.as_u64().unwrap(), 34 | 92 | 0..=31)));
    let small_neg = |v: &J| v["k"] == "num" && v["e"].as_i64().unwrap_or(0) < -6;
    if r["kind"] == "json" && has_kind(v, &needs_escape) {
      sigs.push("evaluate:string-needing-json-escape".to_string());
    }
    if r["kind"] == "json" && has_kind(v, &key_needs_escape) {
      sigs.push("evaluate:context-key-needing-json-escape".to_string());
    }
    if has_kind(v, &small_neg) {
      sigs.push("number-with-exponent-below-minus-6".to_string());
    }
    ctx.reject(&sigs, json!({"kind": r["kind"], "value": v, "input": r["input"], "body_text": body}), &format!("{}: {}", why, body.chars().take(120).collect::<String>()));
  }
}

fn run_trace(tlc: &Tlc, paths: &[J], bodies: &Bodies, tag: &str) -> Vec<(usize, String)> {
  let bfile = tlc.write_ndjson(&format!("bodies_{}.ndjson", tag), &bodies.list);
  let shards = if paths.len() > 400 { 8 } else { 1 };
  let per = (paths.len() + shards - 1) / shards;
  let mut rejects = vec![];
  std::thread::scope(|sc| {
    let mut hs = vec![];
    for k in 0..shards {
      let lo = k * per;
      let hi = ((k + 1) * per).min(paths.len());
      if lo >= hi {
        continue;
      }
      let file = tlc.write_ndjson(&format!("paths_{}_{}.ndjson", tag, k), &paths[lo..hi]);
      let bfile = bfile.clone();
      hs.push((lo, hi - lo, sc.spawn(move || tlc.run(Run::new("Trace_C18", "Trace_C18.cfg").env("TRACE", &file.to_string_lossy()).env("BODIES", &bfile.to_string_lossy()).deque().timeout(1200).tag(&format!("_{}{}", tag, k))))));
    }
    for (lo, n, h) in hs {
      let out = h.join().unwrap();
      if !out.ok {
        tool_error(&format!("Trace_C18 failed: {}", out.error_text));
      }
      if out.counters("CONSUMED").first().copied() != Some(n as i64) {
        tool_error("Trace_C18 did not report completion");
      }
      for (p, at) in out.rejects() {
        rejects.push((lo + p - 1, at));
      }
    }
  });
  rejects
}

/// Trace_C18c over paths with overlapping requests: (path index, first event no choice of linearisation points explains).
fn run_trace_c(tlc: &Tlc, paths: &[J], bodies: &Bodies, tag: &str) -> Vec<(usize, String)> {
  let bfile = tlc.write_ndjson(&format!("bodies_{}.ndjson", tag), &bodies.list);
  let file = tlc.write_ndjson(&format!("paths_{}.ndjson", tag), paths);
  let out = tlc.run(Run::new("Trace_C18c", "Trace_C18c.cfg").env("TRACE", &file.to_string_lossy()).env("BODIES", &bfile.to_string_lossy()).deque().timeout(1200).tag(&format!("_{}", tag)));
  if !out.ok {
    tool_error(&format!("Trace_C18c failed: {}", out.error_text));
  }
  if out.counters("CONSUMED").first().copied() != Some(paths.len() as i64) {
    tool_error("Trace_C18c did not report completion");
  }
  out.rejects().into_iter().map(|(p, at)| (p - 1, at)).collect()
}

fn judge_paths(ctx: &mut Ctx, tlc: &Tlc, paths: &[J], ops_of: &[Vec<J>], bodies: &Bodies, tag: &str) {
  let rejects = run_trace(tlc, paths, bodies, tag);
  let events: usize = paths.iter().map(|p| p["evs"].as_array().map(|a| a.len()).unwrap_or(0)).sum();
  ctx.cov_add("requests_validated", events as u64);
  for (pi, at) in rejects {
    let at: usize = at.parse().unwrap_or(1);
    let p = &paths[pi];
    let evs = p["evs"].as_array().cloned().unwrap_or_default();
    let e = evs.get(at - 1).cloned().unwrap_or(J::Null);
    let body = e["b"].as_u64().map(|b| crate::codec::from_cps(&bodies.list[b as usize - 1]["cp"])).unwrap_or_default();
    let mut sigs = signature_path(p, at);
    // key relation of the rejected request to the preceding adds (for replace)
    if e["ev"] == "replace" {
      sigs.push("http:replace".into());
    }
    let upto: Vec<J> = ops_of[pi].iter().take(at).cloned().collect();
    ctx.reject(&sigs, json!({"path": upto, "rejected_event": e, "response_body": body}), &format!("no behaviour of Server.tla explains request {} ({}) of the sequence; response body: {}", at, e["ev"], body.chars().take(100).collect::<String>()));
  }
}
