//! C17 — the workspace holds exactly what its history leaves in it.
//!
//! MC: Workspace.tla invariants on the full reachable graph (+ the as-written counter-design
//! must violate them). Gen: edge tour → operation sequences. Replay on a real `Workspace`,
//! logging after every operation the H1 snapshot and what the public API shows. Trace_C17 judges.

use crate::tlc::{Run, Tlc};
use crate::util::{tool_error, Ctx, Rng};
use crate::xml::alphabet_model;
use dmntk_feel::context::FeelContext;
use dmntk_feel::values::Value;
use dmntk_workspace::Workspace;
use serde_json::{json, Value as J};

pub const ALPHABET: &[(&str, &str, &str, bool)] = &[
  ("A", "ns1", "n1", true),
  ("A2", "ns1", "n1", true),
  ("B", "ns1", "n2", true),
  ("C", "ns2", "n1", true),
  ("D", "ns3", "n3", true),
  ("E", "ns4", "n4", false),
  ("F", "ns2", "n2", true),
  ("G", "ns3", "n1", false),
  ("H", "ns4", "n3", true),
  // the wide alphabet (Workspace!WideModels): keys of their own, used by the random histories that store many models at once
  ("W1", "ns5", "n5", true),
  ("W2", "ns6", "n6", true),
  ("W3", "ns7", "n7", true),
  ("W4", "ns8", "n8", false),
  ("W5", "ns9", "n9", true),
  ("W6", "ns10", "n10", true),
  ("W7", "ns11", "n11", true),
  ("W8", "ns12", "n12", true),
  ("W9", "ns13", "n13", false),
  ("W10", "ns14", "n14", true),
];
const N_CORE: usize = 9;
pub const NAMES: &[&str] = &["n1", "n2", "n3", "n4"];
pub const NAMESPACES: &[&str] = &["ns1", "ns2", "ns3", "ns4"];
const ALL_NAMES: &[&str] = &["n1", "n2", "n3", "n4", "n5", "n6", "n7", "n8", "n9", "n10", "n11", "n12", "n13", "n14"];

pub fn definitions_of(id: &str) -> dmntk_model::model::Definitions {
  let (id, ns, nm, b) = ALPHABET.iter().find(|m| m.0 == id).unwrap_or_else(|| tool_error(&format!("unknown model {}", id)));
  dmntk_model::parse(&alphabet_model(id, ns, nm, *b)).unwrap_or_else(|e| tool_error(&format!("alphabet model does not parse: {}", e)))
}

fn observe(ws: &Workspace, ev: J, res: &str) -> J {
  let (stored, by_ns, by_nm, evals) = ws.verif_snapshot();
  let mut evalok = vec![];
  for nm in ALL_NAMES {
    if let Ok(v) = ws.evaluate_invocable(nm, "v", &FeelContext::default()) {
      let text = match v {
        Value::String(s) => s,
        Value::Null(_) => "NOINV".to_string(),
        other => format!("?{}", other),
      };
      evalok.push(json!([nm, text]));
    }
  }
  let mut o = ev;
  let m = o.as_object_mut().unwrap();
  m.insert("res".into(), json!(res));
  m.insert("stored".into(), json!(stored.iter().map(|(a, b, c)| json!([a, b, c])).collect::<Vec<_>>()));
  m.insert("byNs".into(), json!(by_ns));
  m.insert("byNm".into(), json!(by_nm));
  m.insert("evals".into(), json!(evals));
  m.insert("evalok".into(), json!(evalok));
  o
}

/// Applies one operation to the workspace and returns the logged event.
pub fn apply(ws: &mut Workspace, op: &J) -> J {
  let kind = op["op"].as_str().unwrap_or("");
  match kind {
    "add" => {
      let id = op["m"].as_str().unwrap();
      let r = ws.add(definitions_of(id));
      observe(ws, json!({"ev": "add", "m": id}), if r.is_ok() { "ok" } else { "err" })
    }
    "replace" => {
      let id = op["m"].as_str().unwrap();
      let r = ws.replace(definitions_of(id));
      observe(ws, json!({"ev": "replace", "m": id}), if r.is_ok() { "ok" } else { "err" })
    }
    "remove" => {
      let (ns, nm) = (op["ns"].as_str().unwrap(), op["nm"].as_str().unwrap());
      ws.remove(ns, nm);
      observe(ws, json!({"ev": "remove", "ns": ns, "nm": nm}), "ok")
    }
    "clear" => {
      ws.clear();
      observe(ws, json!({"ev": "clear"}), "ok")
    }
    "deploy" => {
      let r = ws.deploy();
      observe(ws, json!({"ev": "deploy"}), if r.is_ok() { "ok" } else { "err" })
    }
    "eval" => {
      let nm = op["nm"].as_str().unwrap();
      let r = ws.evaluate_invocable(nm, "v", &FeelContext::default());
      observe(ws, json!({"ev": "eval", "nm": nm}), if r.is_ok() { "ok" } else { "err" })
    }
    other => tool_error(&format!("unknown op {}", other)),
  }
}

/// A restart of the workspace on a directory: the files of the models `ms` (ids of the alphabet) are written below a
/// fresh directory - at the top, one and two levels down, in turn - next to files that are no models (another
/// extension, text that is no XML, XML that is no DMN model, an empty file), `Workspace::new(Some(dir))` is called and the
/// directory removed. The event names the candidates: the models written into `*.dmn` files.
fn load_dir(ms: &[String]) -> (Workspace, J) {
  let dir = write_model_dir(ms);
  let ws = crate::util::silenced(|| Workspace::new(Some(dir.clone())));
  let _ = std::fs::remove_dir_all(&dir);
  let ev = observe(&ws, json!({"ev": "load", "cands": ms}), "ok");
  (ws, ev)
}

/// Writes the directory described at `load_dir` and returns its path (the caller removes it).
pub fn write_model_dir(ms: &[String]) -> std::path::PathBuf {
  static N: std::sync::atomic::AtomicUsize = std::sync::atomic::AtomicUsize::new(0);
  let base = std::path::PathBuf::from(std::env::var("VERIF_DIR").unwrap_or_else(|_| "/verif".to_string())).join("work/C17/dirs");
  let dir = base.join(format!("d{}_{}", std::process::id(), N.fetch_add(1, std::sync::atomic::Ordering::Relaxed)));
  let put = |rel: &str, text: &str| {
    let f = dir.join(rel);
    if let Some(p) = f.parent() {
      std::fs::create_dir_all(p).unwrap_or_else(|e| tool_error(&format!("cannot create {}: {}", p.display(), e)));
    }
    std::fs::write(&f, text).unwrap_or_else(|e| tool_error(&format!("cannot write {}: {}", f.display(), e)));
  };
  std::fs::create_dir_all(&dir).unwrap_or_else(|e| tool_error(&format!("cannot create {}: {}", dir.display(), e)));
  for (k, id) in ms.iter().enumerate() {
    let (id, ns, nm, b) = ALPHABET.iter().find(|m| m.0 == id).unwrap_or_else(|| tool_error(&format!("unknown model {}", id)));
    let rel = match k % 3 {
      0 => format!("{}.dmn", id),
      1 => format!("sub/{}.dmn", id),
      _ => format!("sub/deeper/{}.dmn", id),
    };
    put(&rel, &alphabet_model(id, ns, nm, *b));
  }
  put("notes.txt", "not a model");
  put("sub/broken.dmn", "<definitions");
  put("other.dmn", "<?xml version=\"1.0\"?><html><body/></html>");
  put("empty.dmn", "");
  dir
}

pub fn run_path(path: &[J]) -> Vec<J> {
  let mut ws = Workspace::new(None);
  let mut out = vec![json!({"ev": "reset"})];
  for op in path {
    if op["op"] == "load" {
      let ms: Vec<String> = op["ms"].as_array().map(|a| a.iter().map(|x| x.as_str().unwrap_or("").to_string()).collect()).unwrap_or_default();
      let (w, ev) = load_dir(&ms);
      ws = w;
      out.push(ev);
    } else {
      out.push(apply(&mut ws, op));
    }
  }
  out
}

/// A random set of models for a directory: clashing files welcome.
fn random_load(rng: &mut Rng, big: bool, wide: bool) -> J {
  let mut ms = vec![];
  let n_models = if big { N_CORE } else { 6 };
  for m in ALPHABET.iter().take(if wide { ALPHABET.len() } else { n_models }) {
    if rng.below(100) < if wide { 70 } else { 45 } {
      ms.push(m.0);
    }
  }
  // a shuffled order decides which file lands at which depth
  for i in (1..ms.len()).rev() {
    ms.swap(i, rng.below(i as u64 + 1) as usize);
  }
  json!({"op": "load", "ms": ms})
}

fn random_path(rng: &mut Rng, len: usize, big: bool) -> Vec<J> {
  let n_models = if big { N_CORE } else { 6 };
  let mut p = vec![];
  for _ in 0..len {
    let k = rng.below(100);
    let m = ALPHABET[rng.below(n_models as u64) as usize].0;
    p.push(if k < 35 {
      json!({"op": "add", "m": m})
    } else if k < 50 {
      json!({"op": "replace", "m": m})
    } else if k < 70 {
      json!({"op": "remove", "ns": rng.pick(NAMESPACES), "nm": rng.pick(NAMES)})
    } else if k < 73 {
      json!({"op": "clear"})
    } else if k < 90 {
      json!({"op": "deploy"})
    } else {
      json!({"op": "eval", "nm": rng.pick(NAMES)})
    });
  }
  p
}

/// Histories over the wide alphabet: mostly adds of models with keys of their own, so that five to ten models are
/// stored when a deploy comes (a deploy that handles the stored models in batches must not lose any), removals of
/// single models, evaluations of every name.
fn random_path_wide(rng: &mut Rng, len: usize) -> Vec<J> {
  let mut p = vec![];
  for _ in 0..len {
    let k = rng.below(100);
    let (id, ns, nm, _) = ALPHABET[N_CORE - 4 + rng.below((ALPHABET.len() - N_CORE + 4) as u64) as usize];
    p.push(if k < 45 {
      json!({"op": "add", "m": id})
    } else if k < 50 {
      json!({"op": "replace", "m": id})
    } else if k < 62 {
      json!({"op": "remove", "ns": ns, "nm": nm})
    } else if k < 63 {
      json!({"op": "clear"})
    } else if k < 85 {
      json!({"op": "deploy"})
    } else {
      json!({"op": "eval", "nm": nm})
    });
  }
  p
}

/// Signature of a rejected path for the known-findings file: the operation at which the
/// trace was rejected together with the key relation between its argument and the stored models.
fn signature(events: &[J], at: usize) -> Vec<String> {
  let e = &events[at];
  let prev_stored: Vec<(String, String)> = if at > 0 {
    events[at - 1]["stored"].as_array().map(|a| a.iter().map(|t| (t[0].as_str().unwrap_or("").to_string(), t[1].as_str().unwrap_or("").to_string())).collect()).unwrap_or_default()
  } else {
    vec![]
  };
  let ev = e["ev"].as_str().unwrap_or("");
  let mut sigs = vec![];
  if ev == "remove" {
    let (ns, nm) = (e["ns"].as_str().unwrap_or(""), e["nm"].as_str().unwrap_or(""));
    let partial = prev_stored.iter().any(|(a, b)| (a == ns) != (b == nm));
    sigs.push(format!("remove:{}", if partial { "one-key-match" } else { "exact-or-none" }));
  } else if ev == "replace" || ev == "add" {
    let id = e["m"].as_str().unwrap_or("");
    if let Some((_, ns, nm, _)) = ALPHABET.iter().find(|m| m.0 == id) {
      let partial = prev_stored.iter().any(|(a, b)| (a == ns) != (b == nm));
      sigs.push(format!("{}:{}", ev, if partial { "one-key-clash" } else { "exact-or-none" }));
    }
  } else if ev == "load" {
    sigs.push("load".to_string());
  } else {
    sigs.push(ev.to_string());
  }
  sigs
}

pub fn check(mut ctx: Ctx, replay: Option<J>) -> ! {
  let tlc = Tlc::new(&ctx.verif, "C17");
  let quick = ctx.quick();
  // --- replay mode: re-execute one recorded path and re-judge it
  if let Some(r) = replay {
    let path = r["case"]["path"].as_array().cloned().unwrap_or_default();
    let events = run_path(&path);
    judge(&mut ctx, &tlc, vec![(path, events)], "replay");
    ctx.finish();
  }
  // --- 1. model check the design
  let mc_cfg = if quick { "MC_Workspace.cfg" } else { "MC_WorkspaceBig.cfg" };
  let mc = tlc.run(Run::new("MC_Workspace", mc_cfg).workers(4).timeout(900));
  if !mc.ok {
    tool_error(&format!("MC_Workspace failed: {}", mc.error_text));
  }
  ctx.cov("states", json!(mc.distinct));
  ctx.cov("transitions", json!(mc.generated));
  // anti-vacuity: the as-written counter-design must violate IndexesAgree
  let cd = tlc.run(Run::new("MC_Workspace", "MC_WorkspaceAsWritten.cfg").workers(2).timeout(300));
  if cd.ok || !cd.error_text.contains("IndexesAgree") {
    tool_error(&format!("counter-design was not rejected by IndexesAgree: {}", cd.error_text));
  }
  ctx.cov("counter_design_rejected", json!(true));
  // --- 1b. the invariants are inductive for EVERY alphabet of models over small pools of identifiers, namespaces and
  // names (Apa_Workspace.tla, Apalache): base case and step. A counterexample is an error of the specification (exit 2);
  // if Apalache cannot be run the evidence says so and the check goes on (TLC's results stand on their own).
  {
    let spec = ctx.verif.join("spec");
    let out = ctx.verif.join("work/C17/apalache");
    let (base, t0) = crate::tlc::apalache(&spec, &out, "Apa_Workspace", &["--cinit=ConstInit", "--init=Init", "--inv=IndInv", "--length=0"], 600);
    let (step, t1) = if base == Some(true) { crate::tlc::apalache(&spec, &out, "Apa_Workspace", &["--cinit=ConstInit", "--init=IndInit", "--next=NextL", "--inv=IndInv", "--length=1"], 900) } else { (None, String::new()) };
    if base == Some(false) || step == Some(false) {
      tool_error(&format!("Apalache found the invariants of Workspace not inductive: {}", if base == Some(false) { t0 } else { t1 }.lines().rev().take(12).collect::<Vec<_>>().join(" | ")));
    }
    if base == Some(true) && step == Some(true) {
      ctx.cov("apalache_inductive_invariant", json!("Inv and AddableIff are inductive for every alphabet of models over 3 identifiers x 3 namespaces x 3 names x builds/fails (Init => IndInv; IndInv and NextL => IndInv', NextL = the operations and a restart on a directory)"));
    } else {
      ctx.cov("apalache_inductive_invariant", json!(format!("not established in this run: {} {}", t0.chars().take(200).collect::<String>(), t1.chars().take(200).collect::<String>())));
    }
  }
  // --- 2. edge tour
  let gen_cfg = if quick { "Gen_C17.cfg" } else { "Gen_C17Big.cfg" };
  let gen = tlc.run(Run::new("Gen_C17", gen_cfg).workers(1).timeout(900));
  if !gen.ok {
    tool_error(&format!("Gen_C17 failed: {}", gen.error_text));
  }
  let edges = gen.tagged("EDGE");
  if edges.len() < 100 {
    tool_error("edge tour produced too few edges");
  }
  ctx.cov("tour_states", json!(gen.distinct));
  ctx.cov("tour_edges", json!(edges.len()));
  let mut runs = vec![];
  let mut offpath = 0u64;
  for e in &edges {
    let path = e["path"].as_array().cloned().unwrap_or_default();
    let events = run_path(&path);
    // tour coverage: did the implementation reach the pre-state the tour intended?
    if path.len() >= 1 {
      let pre = &events[events.len() - 2];
      let mut ids: Vec<String> = pre["stored"].as_array().map(|a| a.iter().map(|t| t[2].as_str().unwrap_or("").to_string()).collect()).unwrap_or_default();
      ids.sort();
      let mut want: Vec<String> = e["pre"]["defs"].as_array().map(|a| a.iter().map(|t| t.as_str().unwrap_or("").to_string()).collect()).unwrap_or_default();
      want.sort();
      let mut ev: Vec<String> = pre["evals"].as_array().map(|a| a.iter().map(|t| t.as_str().unwrap_or("").to_string()).collect()).unwrap_or_default();
      ev.sort();
      let mut wev: Vec<String> = e["pre"]["evals"].as_array().map(|a| a.iter().map(|t| t.as_str().unwrap_or("").to_string()).collect()).unwrap_or_default();
      wev.sort();
      if ids != want || ev != wev {
        offpath += 1;
      }
    }
    runs.push((path, events));
  }
  ctx.cov("tour_edges_off_path", json!(offpath));
  if let Some((p, _)) = runs.iter().find(|(p, _)| p.len() >= 5) {
    ctx.sample(json!({"edge_tour_path": p}));
  }
  // --- 3. random histories
  let mut rng = Rng::new(ctx.seed);
  let (n_hist, len) = if quick { (40, 200) } else { (400, 300) };
  let mut n_loads = 0u64;
  for h in 0..n_hist {
    let mut path = random_path(&mut rng, len, !quick);
    // every second history starts on a directory of model files, and is restarted on another one somewhere on its way
    if h % 2 == 1 {
      path.insert(0, random_load(&mut rng, !quick, false));
      let at = 1 + rng.below(path.len() as u64 - 1) as usize;
      path.insert(at, random_load(&mut rng, !quick, false));
      n_loads += 2;
    }
    let events = run_path(&path);
    runs.push((path, events));
  }
  let n_wide = if quick { 30 } else { 300 };
  for h in 0..n_wide {
    let mut path = random_path_wide(&mut rng, 60);
    if h % 2 == 1 {
      path.insert(0, random_load(&mut rng, true, true));
      n_loads += 1;
    }
    let events = run_path(&path);
    runs.push((path, events));
  }
  // directories alone: many random sets of files, clashing ones among them
  for _ in 0..(if quick { 150 } else { 1500 }) {
    let wide = rng.below(3) == 0;
    let path = vec![random_load(&mut rng, true, wide), json!({"op": "eval", "nm": rng.pick(NAMES)})];
    let events = run_path(&path);
    runs.push((path, events));
    n_loads += 1;
  }
  ctx.cov("restarts_on_a_directory_of_model_files_in_random_histories", json!(n_loads));
  ctx.cov("random_histories_wide_alphabet", json!(n_wide));
  ctx.cov("random_histories", json!(n_hist));
  ctx.cov("random_history_length", json!(len));
  let total = runs.len();
  // anti-vacuity: a corrupted copy of a recorded trace must be rejected by the specification
  {
    let (_, evs) = runs.iter().find(|(_, e)| e.iter().any(|x| x["byNm"].as_array().map(|a| !a.is_empty()).unwrap_or(false))).unwrap_or_else(|| tool_error("no trace to corrupt"));
    let mut bad = evs.clone();
    let k = bad.iter().position(|x| x["byNm"].as_array().map(|a| !a.is_empty()).unwrap_or(false)).unwrap();
    bad[k]["byNm"].as_array_mut().unwrap().remove(0);
    let file = tlc.write_ndjson("trace_corrupt.ndjson", &bad);
    let out = tlc.run(Run::new("Trace_C17", "Trace_C17.cfg").env("TRACE", &file.to_string_lossy()).deque().timeout(300).tag("_corrupt"));
    if !out.ok || out.rejects().is_empty() {
      tool_error("self-test failed: Trace_C17 accepted a corrupted trace");
    }
    ctx.cov("corrupted_trace_rejected", json!(true));
  }
  judge(&mut ctx, &tlc, runs, "main");
  ctx.cov("traces_validated_against_impl", json!(total));
  ctx.cov("exhaustive", json!(true));
  ctx.cov("rule", json!("edge tour: every (reachable state, operation) edge of Workspace.tla replayed once along its shortest path; plus seeded random histories; every event judged by Trace_C17 against the Workspace actions and the C17 invariants"));
  ctx.assume("the behaviour of Workspace depends only on the projected state (H1 snapshot) and the identity of the models involved");
  ctx.assume("hook H1 reports the four fields faithfully");
  ctx.finish()
}

fn judge(ctx: &mut Ctx, tlc: &Tlc, runs: Vec<(Vec<J>, Vec<J>)>, tag: &str) {
  // concatenate into shards on path boundaries
  let shards = if runs.len() > 200 { 8 } else { 1 };
  let mut total_events = 0u64;
  let mut outs = vec![];
  std::thread::scope(|sc| {
    let mut hs = vec![];
    for k in 0..shards {
      // the runs are dealt to the shards in turn (the long random histories come last: contiguous blocks would leave
      // one shard with all of them)
      let mut recs = vec![];
      let mut owner = vec![]; // event index -> (run index, event index in run)
      for (ri, (_, evs)) in runs.iter().enumerate().filter(|(ri, _)| ri % shards == k) {
        for (ei, e) in evs.iter().enumerate() {
          recs.push(e.clone());
          owner.push((ri, ei));
        }
      }
      if recs.is_empty() {
        continue;
      }
      total_events += recs.len() as u64;
      let file = tlc.write_ndjson(&format!("trace_{}_{}.ndjson", tag, k), &recs);
      let n = recs.len();
      hs.push(sc.spawn(move || {
        let out = tlc.run(Run::new("Trace_C17", "Trace_C17.cfg").env("TRACE", &file.to_string_lossy()).deque().timeout(900).tag(&format!("_{}{}", tag, k)));
        (out, owner, n)
      }));
    }
    for h in hs {
      outs.push(h.join().unwrap());
    }
  });
  let mut events_checked = 0u64;
  for (out, owner, n) in outs {
    if !out.ok {
      tool_error(&format!("Trace_C17 failed: {}", out.error_text));
    }
    if out.counters("CONSUMED").first().copied() != Some(n as i64) {
      tool_error("Trace_C17 did not consume the whole trace");
    }
    events_checked += n as u64;
    // beyond the property (reported, no alarm): a directory load that skipped a model file nothing clashes with
    let notes = out.lines.iter().filter(|l| l.starts_with("<<\"NOTE\"")).count() as u64;
    ctx.cov_add("directory_loads_that_skipped_a_file_without_a_clash_(reported_only)", notes);
    for (l, why) in out.rejects() {
      let (ri, ei) = owner[l - 1];
      let (path, events) = &runs[ri];
      let sigs = signature(events, ei);
      let upto: Vec<J> = path.iter().take(ei).cloned().collect();
      ctx.reject(&sigs, json!({"path": upto, "rejected_event": events[ei], "previous_event": if ei > 0 { events[ei - 1].clone() } else { J::Null }}), &format!("{} (event {} of the path: {})", why, ei, events[ei]["ev"]));
    }
  }
  let _ = total_events;
  ctx.cov_add("events_validated", events_checked);
}
