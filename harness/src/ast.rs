//! AstNode -> the tree encoding of FeelSyntax.tla.

use dmntk_feel::{AstNode, FeelType};
use serde_json::{json, Value as J};

pub fn type_json(t: &FeelType) -> J {
  match t {
    FeelType::Any => json!({"t": "Any"}),
    FeelType::Null => json!({"t": "Null"}),
    FeelType::Number => json!({"t": "number"}),
    FeelType::String => json!({"t": "string"}),
    FeelType::Boolean => json!({"t": "boolean"}),
    FeelType::Date => json!({"t": "date"}),
    FeelType::Time => json!({"t": "time"}),
    FeelType::DateTime => json!({"t": "dt"}),
    FeelType::DaysAndTimeDuration => json!({"t": "dtd"}),
    FeelType::YearsAndMonthsDuration => json!({"t": "ymd"}),
    FeelType::List(x) => json!({"t": "list", "of": type_json(x)}),
    FeelType::Range(x) => json!({"t": "range", "of": type_json(x)}),
    FeelType::Context(es) => json!({"t": "ctx", "es": es.iter().map(|(n, t)| json!({"n": n.to_string(), "ty": type_json(t)})).collect::<Vec<_>>()}),
    FeelType::Function(ps, r) => json!({"t": "fn", "ps": ps.iter().map(type_json).collect::<Vec<_>>(), "r": type_json(r)}),
  }
}

fn type_node(n: &AstNode) -> J {
  match n {
    AstNode::FeelType(t) => type_json(t),
    AstNode::ListType(x) => json!({"t": "list", "of": type_node(x)}),
    AstNode::RangeType(x) => json!({"t": "range", "of": type_node(x)}),
    AstNode::ContextType(es) => json!({"t": "ctx", "es": es.iter().map(|e| match e {
      AstNode::ContextTypeEntry(k, t) => json!({"n": name_of(k), "ty": type_node(t)}),
      other => json!({"n": "?", "ty": {"t": format!("?{:?}", other)}}),
    }).collect::<Vec<_>>()}),
    AstNode::FunctionType(ps, r) => {
      let params = match ps.as_ref() {
        AstNode::ParameterTypes(v) => v.iter().map(type_node).collect::<Vec<_>>(),
        other => vec![json!({"t": format!("?{:?}", other)})],
      };
      json!({"t": "fn", "ps": params, "r": type_node(r)})
    }
    AstNode::QualifiedName(segs) => json!({"t": "named", "name": segs.iter().map(name_of).collect::<Vec<_>>().join(".")}),
    other => json!({"t": format!("?{:?}", other)}),
  }
}

fn name_of(n: &AstNode) -> String {
  match n {
    AstNode::Name(x) | AstNode::ParameterName(x) | AstNode::ContextEntryKey(x) | AstNode::ContextTypeEntryKey(x) | AstNode::QualifiedNameSegment(x) => x.to_string(),
    other => format!("?{:?}", other),
  }
}

fn list(v: &[AstNode]) -> Vec<J> {
  v.iter().map(ast_json).collect()
}

pub fn ast_json(n: &AstNode) -> J {
  let bin = |tag: &str, a: &AstNode, b: &AstNode| json!({"n": tag, "a": ast_json(a), "b": ast_json(b)});
  match n {
    AstNode::Numeric(a, b) => json!({"n": "num", "ip": a, "fp": b}),
    AstNode::String(s) => json!({"n": "str", "s": s}),
    AstNode::Boolean(b) => json!({"n": "bool", "bv": b}),
    AstNode::Null => json!({"n": "null"}),
    AstNode::Name(x) => json!({"n": "name", "id": x.to_string()}),
    AstNode::At(s) => json!({"n": "at", "s": s}),
    AstNode::Neg(a) => json!({"n": "neg", "a": ast_json(a)}),
    AstNode::Add(a, b) => bin("add", a, b),
    AstNode::Sub(a, b) => bin("sub", a, b),
    AstNode::Mul(a, b) => bin("mul", a, b),
    AstNode::Div(a, b) => bin("div", a, b),
    AstNode::Exp(a, b) => bin("exp", a, b),
    AstNode::And(a, b) => bin("and", a, b),
    AstNode::Or(a, b) => bin("or", a, b),
    AstNode::Eq(a, b) => bin("eq", a, b),
    AstNode::Nq(a, b) => bin("nq", a, b),
    AstNode::Lt(a, b) => bin("lt", a, b),
    AstNode::Le(a, b) => bin("le", a, b),
    AstNode::Gt(a, b) => bin("gt", a, b),
    AstNode::Ge(a, b) => bin("ge", a, b),
    AstNode::In(a, b) => bin("in", a, b),
    AstNode::Between(a, lo, hi) => json!({"n": "between", "a": ast_json(a), "lo": ast_json(lo), "hi": ast_json(hi)}),
    AstNode::If(c, t, e) => json!({"n": "if", "cond": ast_json(c), "then": ast_json(t), "else": ast_json(e)}),
    AstNode::InstanceOf(a, t) => json!({"n": "instof", "a": ast_json(a), "ty": type_node(t)}),
    AstNode::Path(a, b) => match b.as_ref() {
      AstNode::Name(x) => json!({"n": "path", "a": ast_json(a), "id": x.to_string()}),
      other => json!({"n": "pathx", "a": ast_json(a), "b": ast_json(other)}),
    },
    AstNode::Filter(a, f) => json!({"n": "filter", "a": ast_json(a), "f": ast_json(f)}),
    AstNode::FunctionInvocation(f, ps) => match ps.as_ref() {
      AstNode::PositionalParameters(v) => json!({"n": "invoke", "f": ast_json(f), "args": list(v)}),
      AstNode::NamedParameters(v) => json!({"n": "invoken", "f": ast_json(f), "nargs": v.iter().map(|p| match p {
        AstNode::NamedParameter(k, val) => json!({"p": name_of(k), "v": ast_json(val)}),
        other => json!({"p": "?", "v": ast_json(other)}),
      }).collect::<Vec<_>>()}),
      other => json!({"n": "invokex", "f": ast_json(f), "b": ast_json(other)}),
    },
    AstNode::For(its, body) => json!({"n": "for", "its": iters(its), "body": unwrap_body(body)}),
    AstNode::Some(its, body) => json!({"n": "some", "its": iters(its), "body": unwrap_body(body)}),
    AstNode::Every(its, body) => json!({"n": "every", "its": iters(its), "body": unwrap_body(body)}),
    AstNode::FunctionDefinition(ps, body) => {
      let params = match ps.as_ref() {
        AstNode::FormalParameters(v) => v.iter().map(|p| match p {
          AstNode::FormalParameter(k, t) => json!({"p": name_of(k), "ty": type_node(t)}),
          other => json!({"p": "?", "ty": {"t": format!("?{:?}", other)}}),
        }).collect::<Vec<_>>(),
        _ => vec![],
      };
      match body.as_ref() {
        AstNode::FunctionBody(b, false) => json!({"n": "fndef", "ps": params, "body": ast_json(b)}),
        AstNode::FunctionBody(b, true) => json!({"n": "fndefext", "ps": params, "body": ast_json(b)}),
        other => json!({"n": "fndef", "ps": params, "body": ast_json(other)}),
      }
    }
    AstNode::List(v) => json!({"n": "list", "items": list(v)}),
    AstNode::Context(v) => json!({"n": "ctx", "ents": v.iter().map(|e| match e {
      AstNode::ContextEntry(k, val) => json!({"key": name_of(k), "v": ast_json(val)}),
      other => json!({"key": "?", "v": ast_json(other)}),
    }).collect::<Vec<_>>()}),
    AstNode::Range(lo, hi) => {
      let (l, lc) = match lo.as_ref() {
        AstNode::IntervalStart(x, c) => (ast_json(x), *c),
        other => (ast_json(other), true),
      };
      let (h, hc) = match hi.as_ref() {
        AstNode::IntervalEnd(x, c) => (ast_json(x), *c),
        other => (ast_json(other), true),
      };
      json!({"n": "range", "lo": l, "lc": lc, "hi": h, "hc": hc})
    }
    AstNode::UnaryLt(a) => json!({"n": "utlt", "a": ast_json(a)}),
    AstNode::UnaryLe(a) => json!({"n": "utle", "a": ast_json(a)}),
    AstNode::UnaryGt(a) => json!({"n": "utgt", "a": ast_json(a)}),
    AstNode::UnaryGe(a) => json!({"n": "utge", "a": ast_json(a)}),
    AstNode::ExpressionList(v) => json!({"n": "elist", "items": list(v)}),
    AstNode::NegatedList(v) => json!({"n": "notlist", "items": list(v)}),
    AstNode::Irrelevant => json!({"n": "irrelevant"}),
    AstNode::QualifiedName(v) => json!({"n": "qname", "segs": v.iter().map(name_of).collect::<Vec<_>>()}),
    other => json!({"n": "other", "dbg": format!("{:?}", other).chars().take(120).collect::<String>()}),
  }
}

fn unwrap_body(b: &AstNode) -> J {
  match b {
    AstNode::EvaluatedExpression(x) | AstNode::Satisfies(x) => ast_json(x),
    other => ast_json(other),
  }
}

fn iters(n: &AstNode) -> Vec<J> {
  match n {
    AstNode::IterationContexts(v) | AstNode::QuantifiedContexts(v) => v.iter().map(|c| match c {
      AstNode::IterationContextSingle(k, e) | AstNode::QuantifiedContext(k, e) => json!({"var": name_of(k), "kind": "single", "a": ast_json(e)}),
      AstNode::IterationContextRange(k, a, b) => json!({"var": name_of(k), "kind": "range", "a": ast_json(a), "b": ast_json(b)}),
      other => json!({"var": "?", "kind": "other", "a": ast_json(other)}),
    }).collect(),
    other => vec![json!({"var": "?", "kind": "other", "a": ast_json(other)})],
  }
}
