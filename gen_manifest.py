#!/usr/bin/env python3
"""Regenerates MANIFEST.json from the table below (kept next to the checks so it stays valid)."""
import json, subprocess
CHECKS = {
 "C17": dict(cat="model_checking", design="DESIGN.md §5 C17",
   text="Workspace.tla is model-checked exhaustively over the property's model alphabet (all invariants, every reachable state); its complete state graph is then replayed edge by edge (edge tour: every state x operation once, shortest path) on a real Workspace and every logged step, plus seeded random histories, is validated against the specification by TLC (Trace_C17).",
   note="Assumes Workspace behaviour depends only on the projected state (hook H1 snapshot) and model identity; trusts TLC, the H1 hook, the harness XML writer.",
   technique="TLA+ spec + TLC model checking; edge-tour replay and trace validation against the real Workspace"),
 "C18": dict(cat="model_checking", design="DESIGN.md §5 C18",
   text="Server.tla (Workspace + one action per endpoint + malformed requests) is model-checked; its state graph is toured edge by edge over HTTP against the live in-process service (every state x endpoint, every state x malformed-request kind, with evaluation probes), plus seeded random request sequences; TLC decodes every raw response body with a JSON recogniser written in TLA+ (JsonText.tla) and searches for a Server behaviour that explains each sequence (hidden workspace state inferred). Echo evaluations of TLC-enumerated values via /evaluate and /tck/evaluate are decoded and compared by TLC.",
   note="Workspace state behind the service is not observable (inferred by TLC); trusts TLC, JsonText.tla (self-tested against an independent corpus), the raw HTTP client of the harness.",
   technique="TLA+ spec + TLC: edge-tour replay over HTTP, trace validation with hidden state, JSON decoding in TLA+"),
 "C09": dict(cat="model_checking", design="DESIGN.md §5 C09",
   text="Exhaustive over a finite value alphabet emitted by the specification (null, booleans, numbers incl. equal values of different scale, strings, dates, times, date-times, both durations, lists, contexts, ranges, a function): all ordered pairs under = != < <= > >= and or, all ordered triples under between / in-range (four bracket forms) / comparison conjunctions, plus seeded random pools of numbers, strings and dates. TLC evaluates the laws of the property directly over the table of observed results (truth tables for and/or; symmetry, negation, mirroring, trichotomy, between/in/comparison agreement).",
   note="Operands are bound as values in the scope (no parsing involved); the verdict depends on no pointwise model beyond the and/or truth tables stated in the property. Trusts TLC and the harness value builder.",
   technique="TLA+ laws evaluated by TLC over exhaustive observation tables of the real evaluator"),
 "C16": dict(cat="model_checking", design="DESIGN.md §5 C16",
   text="FeelType.tla defines equivalence, conformance, type-of and coercion; TLC checks the preorder/equivalence laws on the specification's own relations over the whole universe (10 simple types closed under list/range/context/function to depth 2; 103 types quick, 295 thorough), and then evaluates the same laws, the variance clauses (as equalities between matrix entries), pointwise agreement with DMN 10.3.2.9 and the coercion rules over the full matrices observed from is_equivalent / is_conformant / coerced (all pairs, all triples for transitivity, universe x value pool for coercion).",
   note="Trusts TLC, FeelType.tla's transcription of DMN 10.3.2.9, and the harness's type/value builders.",
   technique="TLA+ spec + TLC: laws model-checked on the spec and evaluated over exhaustive observed matrices"),
 "C02": dict(cat="exploration", design="DESIGN.md §5 C02",
   text="Decimal.tla transcribes the General Decimal Arithmetic rules (exact result, round-half-even to 34 digits, range check) over Bignum.tla as exact acceptors; TLC enumerates boundary operand classes (coefficient patterns x exponents at the subnormal/overflow edges, +-34/35 orders apart, ties, cancellation) which the harness crosses for every operator and numeric built-in, plus seeded random operands over the full range; every result is read through the raw decimal128 encoding (hook H2) and judged by TLC. Exploration level: the operand space is sampled by classes, not exhausted.",
   note="exp/log/non-integer powers are checked for range, sign and finiteness only (no accuracy enclosure yet). Trusts TLC, Bignum/Decimal.tla (self-tested against CPython's decimal on 1060 cases incl. 1-ulp neighbours), decQuadFromString/decQuadToBCD for operand construction and observation.",
   technique="TLA+ executable specification of decimal128 rounding (Bignum acceptors) judging traces of the real evaluator; operand classes enumerated by TLC"),
 "C07": dict(cat="exploration", design="DESIGN.md §5 C07",
   text="Every exponent -6176..6111 occurs (combined with coefficient patterns of lengths 1, 2, 17, 33, 34, both signs, trailing zeros, and arithmetic results x/3, x*7; near 0 and at both range edges every combination), plus seeded random numbers. For each number the harness records to_string, jsonify, from_str(to_string), the FEEL literal and xsd:decimal input of the harness-written plain text; Trace_C07 (TLC) rebuilds the only plain-decimal text the value and the (untrusted) structure hints can denote, compares it with the printed text, checks the JSON number rules, the magnitude, the sign and the round trip.",
   note="Exponents are exhaustive, coefficients are sampled by pattern (exploration). Trusts TLC, hook H2 for the exact value, the harness's own plain-decimal writer for literals.",
   technique="TLA+ denotation check (text must be the unique plain-decimal rendering of the observed value) by TLC over traces of the real formatter/parser"),
 "C06": dict(cat="exploration", design="DESIGN.md §5 C06",
   text="FeelSyntax.tla holds the operator table (binding power, associativity, closed/open positions) and renders syntax trees as token sequences; TLC enumerates every construct nested in every operand position of every other construct (2106 pairs) and three-level nests over the operator ladder (quick) or all templates (thorough), each in its fully parenthesised, minimally parenthesised and - where one needed pair exists - parenthesis-free rendering. The harness lays the tokens out (spaces; tabs/line breaks; block and line comments; comments after declared names/types as a separately judged layout), parses with names bound, converts the AstNode to the spec's tree encoding, and TLC compares: full and min must give back the tree, the pair-removed rendering must not. String-literal escapes (\\uXXXX, \\UXXXXXX, surrogate pairs) are decoded for boundary and random code points (all code points in thorough).",
   note="The minimal-parenthesis rule is the spec's own (transcribed from the DMN rule order / feel.y precedences); a reference parser in TLA+ to validate it independently is not built. Trusts TLC and the harness's AstNode converter.",
   technique="TLA+ operator-table specification generating parse stimuli and judging the parsed trees (round trip) of the real parser"),
 "C01": dict(cat="exploration", design="DESIGN.md §5 C01",
   text="FeelEval.tla is a big-step semantics of the FEEL core fragment (DMN 1.3 §10.3.2) over the syntax trees of FeelSyntax.tla, with Unspec wherever the standard is silent or its versions differ. TLC enumerates every inner construct in the hole of every outer construct (2677 expressions quick; a third nesting level in thorough) and six scopes binding the free names to numbers, strings, booleans, nulls, lists and contexts; the harness parses the fully parenthesised rendering, evaluates it in a programmatically built scope - and again with irrelevant extra bindings and an extra bottom context - and TLC compares the observed value with Eval (and the two observations with each other).",
   note="About 40% of the (expression, scope) cases are Unspec (kind mismatches such as a non-boolean if condition) and accepted; the count is in the evidence. Numbers stay in a small exact range (C02 owns decimal arithmetic). Trusts TLC, FeelEval.tla's reading of the standard, the harness scope builder.",
   technique="TLA+ executable semantics (FeelEval) as oracle for traces of the real evaluator; expressions enumerated by TLC"),
 "C13": dict(cat="model_checking", design="DESIGN.md §5 C13",
   text="Purity.tla states evaluation as a pure action over prepared evaluators x caller scopes; TLC enumerates every history up to the bound (all orders, repetitions and interleavings: 1884 histories of 6 prepared scope-pushing expressions x 2 two-level scopes, 1464 of 4 invocables x 3 inputs of one shared model evaluator), the harness replays them on the real code and Trace_C13 validates the log against the machine: after every step every caller scope renders exactly as initially, every result equals the first result of its (evaluator, scope) pair, pushes and pops recorded by hook H3 balance, and a successful parse leaves the parsing scope as found; in addition every expression of the C01 fragment is evaluated twice in a two-context scope.",
   note="Scope content is compared through its textual rendering; hook H3 supplies push/pop counts. Trusts TLC and the hook.",
   technique="TLA+ purity state machine; TLC-generated histories replayed on the real code and validated as traces"),
 "C03": dict(cat="exploration", design="DESIGN.md §5 C03",
   text="DecisionTable.tla defines rule matching (every input entry satisfied, allowed input values) and the result per hit policy (U, A, F, P, R, O, C, C+, C<, C>, C#, default output, multi-output contexts, priority by output values) on top of FeelEval. TLC enumerates tables exhaustively over small scopes (every input-entry form x input value; one input over {1,2,3} with entries {-, 1, >=2}, outputs {10,20,30}, every rule list up to 2 (quick) / 3 (thorough) rules, every policy, with and without output values and default; two output components; two inputs); the harness writes each table as DMN XML, loads it through the model parser and evaluator, and TLC compares the decision's value with Result for every input tuple.",
   note="Null input values and aggregators over zero hits are Unspec. Trusts TLC, the spec's reading of DMN 8.2, the harness XML writer.",
   technique="TLA+ specification of hit policies as oracle; tables enumerated by TLC, evaluated by the real model evaluator through DMN XML"),
 "C04": dict(cat="exploration", design="DESIGN.md §5 C04",
   text="Drg.tla gives every boxed expression its meaning by translation to FEEL trees (context with/without result entry, invocation with named bindings evaluated in the invoking scope, relation, function definition, decision table) and defines the value of decisions, knowledge models (as function values whose environment holds the models they require) and decision services over the requirement graph. TLC enumerates every combination of boxed forms for two knowledge models (whose parameters are deliberately named like the input data, so a value tells which binding was used) and the decisions of a diamond-shaped graph; the harness writes each model as DMN XML, evaluates every invocable on every input context - and again with input entries outside the requirement closure - and TLC compares with ValueOf.",
   note="A fixed graph shape with varied logic forms (72 models), not all graphs. Boxed lists and decision-level function definitions are not accepted by this implementation and not generated; decision services used as knowledge and input decisions are Unspec. Trusts TLC, Drg.tla, the XML writer.",
   technique="TLA+ specification of requirement-graph evaluation as oracle; models enumerated by TLC and evaluated by the real model evaluator through DMN XML"),
 "C11": dict(cat="exploration", design="DESIGN.md §5 C11",
   text="ItemDef.tla defines what an input of a declared type admits (value itself / null / component-wise null) and, through FeelType!Coerce, what a decision with a declared output type returns. TLC enumerates item definition trees to depth 3 (eight simple types with and without allowed values, referenced, component, collection-of) and derives from each tree a conforming value and a violation at every position, plus a pool with one value of every FEEL kind; the harness writes the item definitions, a typed input with an echo decision and typed-output decisions as DMN XML, evaluates them, and TLC compares.",
   note="Missing/extra components, allowed values placed directly on a collection, and partially conforming collections (null element vs null list) are Unspec/alternatives. Trusts TLC, ItemDef.tla, the XML writer.",
   technique="TLA+ specification of type admission/coercion as oracle; type trees and per-position violations enumerated by TLC; evaluated by the real model evaluator through DMN XML"),
 "C10": dict(cat="exploration", design="DESIGN.md §5 C10",
   text="FeelNames.tla states the longest-bound-name rule over sequences of parts (words, the additional symbols . / - ' + *, numbers) and turns a part sequence into a FEEL tree; FeelEval gives it its value. For eight sets of bound names (prefix names, operator-joined combinations such as a-b next to a and b, multi-word names, a seven-part name, non-ASCII letters; every name bound to a distinct prime) TLC enumerates exhaustively every part sequence up to length 5 (quick) / 6 (thorough) that denotes an expression over the bound names; each is embedded in the positions where a name may occur (operand, if, list item, argument, context entry, for / every / filter sub-expressions), in scopes that introduce one more name (context entry, iteration variable, parameter), and with a local name shadowing an outer one with null; three spacings each.",
   note="Introducing a local name that begins with an already bound name is not generated (ambiguous in FEEL). Trusts TLC, FeelNames/FeelEval, the harness's layout of parts.",
   technique="TLA+ specification of longest-match name resolution as oracle; part sequences enumerated exhaustively by TLC; evaluated by the real parser and evaluator"),
}
NOT_YET = {}
props = [json.loads(l) for l in open('/verif/properties.jsonl')]
hooks = subprocess.run(['git','-C','/repo','log','--format=%H %s'],capture_output=True,text=True).stdout.splitlines()
hook_commits = [l.split()[0] for l in hooks if 'verif hook' in l]
m = {
 "version": 1,
 "setup_cmd": "cd /verif && ./check build",
 "hooks": {"guard": "--cfg dmntk_verif", "enable": "RUSTFLAGS --cfg dmntk_verif via /verif/harness/.cargo/config.toml (the harness crate patches all dmntk-* crates to /repo/<crate>)",
           "baseline_off_cmd": "/verif/baseline_off.sh", "source_commits": hook_commits, "add_only": True},
 "engines": [{"name": "dmntk-verif", "path": "/verif/harness", "serves_properties": sorted(CHECKS), "kind_free_text": "Rust harness driving the real crates + TLC (specs in /verif/spec) as generator and judge"}],
 "checks": [], "not_applicable": [],
 "notes": "Exit codes of ./check: 0 held, 1 VIOLATION line, 2 tool error. Known findings: /verif/known_findings.json.",
}
for p in props:
    i = p['id']
    if i in CHECKS:
        c = CHECKS[i]
        m["checks"].append({"property_id": i, "quick_cmd": f"./check {i} quick", "thorough_cmd": f"./check {i} thorough",
          "evidence_file": f"/verif/evidence/{i}.json", "replay_cmd_template": f"./check {i} --replay {{path}}", "engine": "dmntk-verif",
          "level_claimed": {"category": c["cat"], "text": c["text"], "design_ref": c["design"]}, "level_note": c["note"], "technique": c["technique"]})
    else:
        m["not_applicable"].append({"property_id": i, "reason": NOT_YET.get(i, "check not built yet in this session (planned in DESIGN.md §5); no claim is made")})
json.dump(m, open('/verif/MANIFEST.json','w'), indent=1)
print(len(m["checks"]), "checks;", len(m["not_applicable"]), "not claimed")
